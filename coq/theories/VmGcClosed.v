(* C02, link between the VM model and the collector model, part 2: [state_closed] (VmGcRoots.v) is an invariant
   of the VM model - it holds in [fresh_state] and in every cleared state, and every instruction (every opcode,
   every native of the menu, the stdlib natives, nested runs) keeps it, for ARBITRARY bytecode.  Along the way:
   the heap never shrinks during a run, so a value that was not dangling stays so. *)
From Coq Require Import NArith ZArith List Lia Bool.
From Cao Require Import ListUtil Bits Stacks Vm VmUpvalueProofs VmGcRoots.
Import ListNotations.


(* ------------------------------------------------------------------ *)
(* 1. monotonicity                                                     *)
(* ------------------------------------------------------------------ *)

Lemma aok_mono n n' a : n <= n' -> aok n a -> aok n' a.
Proof. unfold aok. lia. Qed.
Lemma vok_mono n n' v : n <= n' -> vok n v -> vok n' v.
Proof. destruct v; cbn; auto. apply aok_mono. Qed.
Lemma ook_mono n n' o : n <= n' -> ook n o -> ook n' o.
Proof. destruct o; cbn; auto. apply aok_mono. Qed.
Lemma gvok_mono n n' g : n <= n' -> gvok n g -> gvok n' g.
Proof. destruct g; cbn; auto. apply vok_mono. Qed.
Lemma pair_ok_mono n n' kv : n <= n' -> pair_ok n kv -> pair_ok n' kv.
Proof. intros L [A B]. split; eapply vok_mono; eauto. Qed.
Lemma table_ok_mono n n' t : n <= n' -> table_ok n t -> table_ok n' t.
Proof.
  intros L [A B]. split; eapply Forall_impl; try eassumption; intros x; [apply vok_mono|apply pair_ok_mono]; exact L.
Qed.
Lemma pre_ok_le n d m m' : m' <= m -> pre_ok n d m -> pre_ok n d m'.
Proof. intros L H i Hi. apply H. lia. Qed.

(* the stack array [d] of a heap of [n] cells becomes [d'] with [n'] cells: no valid prefix is lost *)
Definition dext (n : nat) (d : list value) (n' : nat) (d' : list value) : Prop :=
  n <= n' /\ forall m, pre_ok n d m -> pre_ok n' d' m.

Lemma dext_refl n d : dext n d n d.
Proof. split; auto. Qed.
Lemma dext_trans n1 d1 n2 d2 n3 d3 : dext n1 d1 n2 d2 -> dext n2 d2 n3 d3 -> dext n1 d1 n3 d3.
Proof. intros [A B] [C D]. split; [lia|auto]. Qed.
Lemma dext_grow n n' d : n <= n' -> dext n d n' d.
Proof. intros L. split; [exact L|]. intros m H i Hi. eapply vok_mono; [exact L|]. apply H. exact Hi. Qed.
Lemma dext_upd n d c v : vok n v -> dext n d n (upd d c v).
Proof.
  intros Hv. split; [lia|]. intros m H i Hi.
  destruct (Nat.eq_dec c i) as [->|Hne].
  - destruct (Nat.lt_ge_cases i (length d)) as [Hl|Hl].
    + rewrite nth_upd_same by exact Hl. exact Hv.
    + rewrite nth_overflow by (rewrite upd_length; exact Hl). exact I.
  - rewrite nth_upd_other by exact Hne. apply H. exact Hi.
Qed.

Lemma pre_ok_upd n d c v m : vok n v -> pre_ok n d m -> pre_ok n (upd d c v) m.
Proof. intros Hv. apply (dext_upd n d c v Hv). Qed.

Lemma pre_ok_upd_S n d c v : pre_ok n d c -> vok n v -> pre_ok n (upd d c v) (S c).
Proof.
  intros H Hv i Hi. destruct (Nat.eq_dec c i) as [->|Hne].
  - destruct (Nat.lt_ge_cases i (length d)) as [Hl|Hl].
    + rewrite nth_upd_same by exact Hl. exact Hv.
    + rewrite nth_overflow by (rewrite upd_length; exact Hl). exact I.
  - rewrite nth_upd_other by exact Hne. apply H. lia.
Qed.

Lemma obj_ok_ext n d n' d' o : dext n d n' d' -> obj_ok n d o -> obj_ok n' d' o.
Proof.
  intros [L E]. destruct o as [t|b|h ar|h|h ar ups|u]; cbn [obj_ok]; auto.
  - apply table_ok_mono. exact L.
  - intros H. eapply Forall_impl; [|exact H]. intros a. apply aok_mono. exact L.
  - intros (A & B & C). split; [eapply vok_mono; eauto|]. split; [eapply ook_mono; eauto|].
    destruct (u_loc u); auto.
Qed.
Lemma frame_ok_ext n d n' d' f : dext n d n' d' -> frame_ok n d f -> frame_ok n' d' f.
Proof. intros [L E] [A B]. split; [auto|eapply ook_mono; eauto]. Qed.

Lemma Forall_upd {A} (Q : A -> Prop) l i v : Forall Q l -> Q v -> Forall Q (upd l i v).
Proof.
  intros H Hv. revert i. induction H as [|x l Hx Hl IH]; intros [|i]; cbn [upd]; constructor; auto.
Qed.
Lemma Forall_nth_error {A} (Q : A -> Prop) l i x : Forall Q l -> nth_error l i = Some x -> Q x.
Proof. intros H E. rewrite Forall_forall in H. apply H. eapply nth_error_In. exact E. Qed.
Lemma Forall_remove_nth {A} (Q : A -> Prop) l i : Forall Q l -> Forall Q (remove_nth i l).
Proof.
  intros H. revert i. induction H as [|x l Hx Hl IH]; intros [|i]; cbn [remove_nth]; auto.
Qed.
Lemma Forall_removelast {A} (Q : A -> Prop) l : Forall Q l -> Forall Q (removelast l).
Proof.
  induction 1 as [|x l Hx Hl IH]; cbn [removelast]; [constructor|]. destruct l; [constructor|].
  constructor; assumption.
Qed.
Lemma Forall_nth_d {A} (Q : A -> Prop) l i d : Forall Q l -> Q d -> Q (nth i l d).
Proof.
  intros H Hd. destruct (nth_in_or_default i l d) as [Hin|Heq]; [|rewrite Heq; exact Hd]. rewrite Forall_forall in H. auto.
Qed.

(* ------------------------------------------------------------------ *)
(* 2. state transformers                                               *)
(* ------------------------------------------------------------------ *)

Ltac scn := unfold hl, sd in *;
  cbn [st_open st_heap st_calls st_stack st_globals set_stack set_calls set_globals set_heap set_open set_log
       set_rem tick vdata vcount log_push set_table fst snd] in *.

(* only the value stack changes *)
Lemma closed_set_stack s k :
  state_closed s -> dext (hl s) (sd s) (hl s) (vdata k) -> pre_ok (hl s) (vdata k) (vcount k) ->
  state_closed (set_stack s k).
Proof.
  intros [A B C D E] X Y. constructor; scn; auto.
  - eapply Forall_impl; [|exact B]. intros f. apply frame_ok_ext. exact X.
  - eapply Forall_impl; [|exact E]. intros o. apply obj_ok_ext. exact X.
Qed.

Lemma closed_set_calls s c :
  state_closed s -> Forall (frame_ok (hl s) (sd s)) c -> state_closed (set_calls s c).
Proof. intros [A B C D E] X. constructor; scn; auto. Qed.
Lemma closed_set_globals s g :
  state_closed s -> Forall (gvok (hl s)) g -> state_closed (set_globals s g).
Proof. intros [A B C D E] X. constructor; scn; auto. Qed.
Lemma closed_set_open s o : state_closed s -> ook (hl s) o -> state_closed (set_open s o).
Proof. intros [A B C D E] X. constructor; scn; auto. Qed.
Lemma closed_set_log s l : state_closed s -> state_closed (set_log s l).
Proof. intros [A B C D E]. constructor; scn; auto. Qed.
Lemma closed_log_push s e : state_closed s -> state_closed (log_push s e).
Proof. apply closed_set_log. Qed.
Lemma closed_set_rem s r : state_closed s -> state_closed (set_rem s r).
Proof. intros [A B C D E]. constructor; scn; auto. Qed.
Lemma closed_tick s : state_closed s -> state_closed (tick s).
Proof. intros [A B C D E]. constructor; scn; auto. Qed.

(* an object is overwritten (hset beyond the heap is a no-op) *)
Lemma closed_hset s a o :
  state_closed s -> obj_ok (hl s) (sd s) o -> state_closed (set_heap s (hset (st_heap s) a o)).
Proof.
  intros [A B C D E] X. constructor; scn; unfold hset; rewrite ?upd_length; auto.
  apply Forall_upd; assumption.
Qed.

(* a new object *)
Lemma closed_salloc s o s1 a :
  salloc s o = (s1, a) -> state_closed s -> obj_ok (S (hl s)) (sd s) o ->
  state_closed s1 /\ hl s1 = S (hl s) /\ a = N.of_nat (hl s) /\ sd s1 = sd s /\ st_stack s1 = st_stack s /\
  st_calls s1 = st_calls s.
Proof.
  unfold salloc, halloc. intros H [A B C D E] X. injection H as <- <-.
  assert (G : dext (hl s) (sd s) (S (hl s)) (sd s)) by (apply dext_grow; lia).
  split; [|scn; rewrite app_length; cbn [length]; repeat split; lia].
  constructor; scn; rewrite ?app_length; cbn [length]; rewrite ?Nat.add_1_r.
  - apply G. exact A.
  - eapply Forall_impl; [|exact B]. intros f. apply frame_ok_ext. exact G.
  - eapply Forall_impl; [|exact C]. intros g. apply gvok_mono. lia.
  - eapply ook_mono; [|exact D]. lia.
  - apply Forall_app. split; [|constructor; [exact X|constructor]].
    eapply Forall_impl; [|exact E]. intros ob. apply obj_ok_ext. exact G.
Qed.

Lemma closed_hget s a o : state_closed s -> hget (st_heap s) a = Some o -> obj_ok (hl s) (sd s) o.
Proof. intros [A B C D E] H. eapply Forall_nth_error; [exact E|exact H]. Qed.
Lemma hget_aok s a o : hget (st_heap s) a = Some o -> aok (hl s) a.
Proof. intros H. apply hget_lt in H. exact H. Qed.

(* ---- the value stack ---- *)
Lemma closed_slot s i : state_closed s -> i < vcount (st_stack s) -> vok (hl s) (nth i (sd s) VNil).
Proof. intros [A _ _ _ _] Hi. apply A. exact Hi. Qed.

Lemma spush_closed s v s1 :
  spush s v = Some s1 -> state_closed s -> vok (hl s) v -> state_closed s1 /\ st_heap s1 = st_heap s.
Proof.
  unfold spush, vs_push.
  destruct (S (vcount (st_stack s)) <? length (vdata (st_stack s))); intros H; cbv beta iota zeta in H; [|discriminate].
  injection H as <-. intros Hs Hv. split; [|reflexivity].
  apply closed_set_stack; cbn [vdata vcount]; [exact Hs|apply dext_upd; exact Hv|].
  apply pre_ok_upd_S; [apply Hs|exact Hv].
Qed.

Lemma vs_pop_closed s :
  state_closed s ->
  state_closed (set_stack s (fst (vs_pop VNil (st_stack s)))) /\ vok (hl s) (snd (vs_pop VNil (st_stack s))).
Proof.
  intros Hs. unfold vs_pop. destruct (vcount (st_stack s) =? 0) eqn:E; cbn [fst snd].
  - split; [|exact I]. destruct s as [[c d] ? ? ? ? ? ? ?]. exact Hs.
  - apply Nat.eqb_neq in E. split.
    + apply closed_set_stack; cbn [vdata vcount]; [exact Hs|apply dext_upd; exact I|].
      apply pre_ok_upd; [exact I|].
      eapply pre_ok_le; [|apply Hs]. lia.
    + apply closed_slot; [exact Hs|lia].
Qed.

Lemma spop_closed s s1 v :
  spop s = (s1, v) -> state_closed s -> state_closed s1 /\ st_heap s1 = st_heap s /\ vok (hl s) v.
Proof.
  unfold spop. intros H Hs. destruct (vs_pop_closed _ Hs) as [A B].
  destruct (vs_pop VNil (st_stack s)) as [k x]. injection H as <- <-. auto.
Qed.

Lemma sset_closed s i v s1 :
  sset s i v = Some s1 -> state_closed s -> vok (hl s) v -> state_closed s1 /\ st_heap s1 = st_heap s.
Proof.
  unfold sset, vs_step, vs_push. intros H Hs Hv.
  destruct (vcount (st_stack s) <? i); [discriminate|].
  destruct (Nat.eqb_spec i (vcount (st_stack s))) as [->|Hne].
  - destruct (S (vcount (st_stack s)) <? length (vdata (st_stack s))); cbv beta iota zeta in H; [|discriminate].
    injection H as <-. split; [|reflexivity].
    apply closed_set_stack; cbn [vdata vcount]; [exact Hs|apply dext_upd; exact Hv|].
    apply pre_ok_upd_S; [apply Hs|exact Hv].
  - injection H as <-. split; [|reflexivity].
    apply closed_set_stack; cbn [vdata vcount]; [exact Hs|apply dext_upd; exact Hv|].
    apply pre_ok_upd; [exact Hv|]. apply Hs.
Qed.
Lemma write_local_closed s off h v s1 :
  write_local s off h v = Some s1 -> state_closed s -> vok (hl s) v -> state_closed s1 /\ st_heap s1 = st_heap s.
Proof. apply sset_closed. Qed.

Lemma sclear_until_closed s h s1 v :
  sclear_until s h = (s1, v) -> state_closed s -> pre_ok (hl s) (sd s) h ->
  state_closed s1 /\ st_heap s1 = st_heap s /\ vok (hl s) v.
Proof.
  unfold sclear_until, vs_step. intros H Hs Hh. injection H as <- <-. split; [|split; [reflexivity|]].
  - apply closed_set_stack; cbn [vdata vcount]; [exact Hs|apply dext_refl|exact Hh].
  - unfold vs_last. destruct (0 <? vcount (st_stack s)) eqn:E; [|exact I].
    apply Nat.ltb_lt in E. apply closed_slot; [exact Hs|lia].
Qed.

Lemma spop_w_offset_closed s off s1 v :
  spop_w_offset s off = (s1, v) -> state_closed s -> state_closed s1 /\ st_heap s1 = st_heap s /\ vok (hl s) v.
Proof.
  unfold spop_w_offset, vs_step. intros H Hs. destruct (vcount (st_stack s) <=? off).
  - injection H as <- <-. split; [|split; [reflexivity|exact I]]. destruct s as [[c d] ? ? ? ? ? ? ?]. exact Hs.
  - destruct (vs_pop_closed _ Hs) as [A B]. destruct (vs_pop VNil (st_stack s)) as [k x].
    injection H as <- <-. auto.
Qed.

Lemma spop_n_closed s n : state_closed s -> state_closed (spop_n s n).
Proof.
  intros Hs. unfold spop_n, vs_pop_n. cbn [fst].
  apply closed_set_stack; cbn [vdata vcount]; [exact Hs|apply dext_refl|].
  eapply pre_ok_le; [|apply Hs]. lia.
Qed.
Lemma sraw_set_closed s i v : state_closed s -> vok (hl s) v -> state_closed (sraw_set s i v).
Proof.
  intros Hs Hv. unfold sraw_set. apply closed_set_stack; cbn [vdata vcount]; [exact Hs|apply dext_upd; exact Hv|].
  apply pre_ok_upd; [exact Hv|]. apply Hs.
Qed.

Lemma speek_vok s k : state_closed s -> vok (hl s) (speek s k).
Proof.
  intros Hs. unfold speek, vs_step. destruct (k <? vcount (st_stack s)) eqn:E; [|exact I].
  apply Nat.ltb_lt in E. apply closed_slot; [exact Hs|lia].
Qed.
Lemma slast_vok s : state_closed s -> vok (hl s) (slast s).
Proof.
  intros Hs. unfold slast, vs_last. destruct (0 <? vcount (st_stack s)) eqn:E; [|exact I].
  apply Nat.ltb_lt in E. apply closed_slot; [exact Hs|lia].
Qed.
Lemma sget_vok s i : state_closed s -> vok (hl s) (sget s i).
Proof.
  intros Hs. unfold sget, vs_step. destruct (vcount (st_stack s) <=? i) eqn:E; [exact I|].
  apply Nat.leb_gt in E. apply closed_slot; [exact Hs|exact E].
Qed.
(* the slot of an open upvalue *)
Lemma sraw_get_vok s a u l :
  state_closed s -> hget (st_heap s) a = Some (OUp u) -> u_loc u = Some l -> vok (hl s) (sraw_get s l).
Proof.
  intros Hs Ha Hl. pose proof (closed_hget _ _ _ Hs Ha) as (_ & _ & C). rewrite Hl in C. apply C. lia.
Qed.

(* ---- frames ---- *)
Lemma push_frame_closed s f s1 :
  push_frame s f = Some s1 -> state_closed s -> frame_ok (hl s) (sd s) f -> state_closed s1 /\ st_heap s1 = st_heap s.
Proof.
  unfold push_frame. destruct (_ <=? _); [discriminate|]. intros H Hs Hf. injection H as <-.
  split; [|reflexivity]. apply closed_set_calls; [exact Hs|]. constructor; [exact Hf|apply Hs].
Qed.
Lemma top_offset_pre s off : state_closed s -> top_offset s = Some off -> pre_ok (hl s) (sd s) off.
Proof.
  intros Hs. unfold top_offset. destruct (st_calls s) as [|f r] eqn:E; [discriminate|]. intros H. injection H as <-.
  pose proof (sc_calls Hs) as B. rewrite E in B. inversion B as [|? ? [X _] _]; subst. exact X.
Qed.
(* a frame whose offset is at most the height *)
Lemma frame_ok_below s off clo src dst :
  state_closed s -> N.to_nat off <= vcount (st_stack s) -> ook (hl s) clo ->
  frame_ok (hl s) (sd s) (mkFrame src dst off clo).
Proof. intros Hs L Hc. split; cbn [fr_off fr_clo]; [|exact Hc]. eapply pre_ok_le; [exact L|apply Hs]. Qed.

(* ------------------------------------------------------------------ *)
(* 3. tables                                                           *)
(* ------------------------------------------------------------------ *)
Section Tables.
  Variable eq : eqfun.
  Variable n : nat.

  Lemma map_find_ok k m i v :
    Forall (pair_ok n) m -> map_find eq k m = Some (Some (i, v)) -> vok n v.
  Proof.
    intros H. revert i. induction H as [|[k' v'] m [Hk Hv] Hm IH]; intros i; cbn [map_find]; [discriminate|].
    destruct (keq eq k' k) as [[|]|]; try discriminate.
    - intros E. injection E as _ <-. exact Hv.
    - destruct (map_find eq k m) as [[[j w]|]|]; try discriminate. intros E. injection E as _ <-. eapply IH. reflexivity.
  Qed.

  Lemma tget_ok t k r : table_ok n t -> tget eq t k = Some r -> vok n (match r with Some v => v | None => VNil end).
  Proof.
    intros [_ Hm]. unfold tget. destruct (map_find eq k (tmap t)) as [[[i v]|]|] eqn:E; try discriminate;
      intros H; injection H as <-; [|exact I]. eapply map_find_ok; eauto.
  Qed.

  Lemma tinsert_ok t k v t' : table_ok n t -> vok n k -> vok n v -> tinsert eq t k v = Some t' -> table_ok n t'.
  Proof.
    intros [Hk Hm] Vk Vv. unfold tinsert. destruct (map_find eq k (tmap t)) as [[[i w]|]|]; try discriminate;
      intros H; injection H as <-; split; cbn [tkeys tmap]; auto.
    - apply Forall_upd; [exact Hm|]. split; cbn [fst snd]; [|exact Vv].
      apply (Forall_nth_d (fun kv => vok n (fst kv)) (tmap t) i (VNil, VNil)); [|exact I].
      eapply Forall_impl; [|exact Hm]. intros x [X _]. exact X.
    - apply Forall_app. split; [exact Hk|constructor; [exact Vk|constructor]].
    - apply Forall_app. split; [exact Hm|constructor; [split; assumption|constructor]].
  Qed.

  Lemma tappend_ok t v t' : table_ok n t -> vok n v -> tappend eq t v = TOk t' -> table_ok n t'.
  Proof.
    intros Ht Vv. unfold tappend. destruct (tappend_idx _ _ _ _) as [[i|]|]; try discriminate.
    destruct (tinsert eq t (VInt i) v) as [t1|] eqn:E; [|discriminate]. intros H. injection H as <-.
    eapply (tinsert_ok t (VInt i)); [exact Ht|exact I|exact Vv|exact E].
  Qed.

  Lemma tpop_ok t t' v : table_ok n t -> tpop eq t = Some (t', v) -> table_ok n t' /\ vok n v.
  Proof.
    intros [Hk Hm]. unfold tpop. destruct (rev (tkeys t)) as [|key r].
    - intros H. injection H as <- <-. split; [split; assumption|exact I].
    - destruct (map_find eq key (tmap t)) as [[[i w]|]|] eqn:E; try discriminate; intros H; injection H as <- <-.
      + split; [|eapply map_find_ok; eauto]. split; cbn [tkeys tmap];
          [apply Forall_removelast; exact Hk|apply Forall_remove_nth; exact Hm].
      + split; [|exact I]. split; cbn [tkeys tmap]; [apply Forall_removelast; exact Hk|exact Hm].
  Qed.

  Lemma tnth_key_ok t i : table_ok n t -> vok n (tnth_key t i).
  Proof.
    intros [Hk _]. unfold tnth_key. destruct (_ <=? _); [exact I|]. apply Forall_nth_d; [exact Hk|exact I].
  Qed.

  Lemma titer_go_ok m ks l :
    Forall (pair_ok n) m -> Forall (vok n) ks -> titer_go eq m ks = Some l -> Forall (pair_ok n) l.
  Proof.
    intros Hm Hk. revert l. induction Hk as [|k r Vk Hr IH]; intros l; cbn [titer_go].
    - intros H. injection H as <-. constructor.
    - destruct (map_find eq k m) as [[[i v]|]|] eqn:E; try discriminate;
        destruct (titer_go eq m r) as [l0|]; try discriminate; intros H; injection H as <-; [|auto].
      constructor; [|auto]. split; cbn [fst snd]; [exact Vk|eapply map_find_ok; eauto].
  Qed.
  Lemma titer_ok t l : table_ok n t -> titer eq t = Some l -> Forall (pair_ok n) l.
  Proof. intros [Hk Hm]. apply titer_go_ok; assumption. Qed.

  Lemma table_ok_empty : table_ok n (mkTable [] []).
  Proof. split; constructor. Qed.

  Lemma insert_pairs_ok l : forall t t', table_ok n t -> Forall (pair_ok n) l -> insert_pairs eq t l = Some t' -> table_ok n t'.
  Proof.
    induction l as [|[k v] r IH]; intros t t' Ht Hl; cbn [insert_pairs].
    - intros H. injection H as <-. exact Ht.
    - inversion Hl as [|? ? [Vk Vv] Hr]; subst. destruct (tinsert eq t k v) as [t1|] eqn:E; [|discriminate].
      apply IH; [|exact Hr]. exact (tinsert_ok t k v t1 Ht Vk Vv E).
  Qed.
  Lemma to_array_go_ok l : forall t i t', table_ok n t -> Forall (pair_ok n) l -> to_array_go eq t i l = Some t' -> table_ok n t'.
  Proof.
    induction l as [|[k v] r IH]; intros t i t' Ht Hl; cbn [to_array_go].
    - intros H. injection H as <-. exact Ht.
    - inversion Hl as [|? ? [Vk Vv] Hr]; subst. destruct (tinsert eq t (VInt i) v) as [t1|] eqn:E; [|discriminate].
      apply IH; [|exact Hr]. exact (tinsert_ok t (VInt i) v t1 Ht I Vv E).
  Qed.
  Lemma insert_all_ok l : forall t t', table_ok n t -> Forall (fun x => pair_ok n (snd x)) l ->
    insert_all eq t l = Some t' -> table_ok n t'.
  Proof.
    induction l as [|[key [k v]] r IH]; intros t t' Ht Hl; cbn [insert_all].
    - intros H. injection H as <-. exact Ht.
    - inversion Hl as [|? ? [Vk Vv] Hr]; subst. cbn [fst snd] in *. destruct (tinsert eq t k v) as [t1|] eqn:E; [|discriminate].
      apply IH; [|exact Hr]. exact (tinsert_ok t k v t1 Ht Vk Vv E).
  Qed.
End Tables.

Lemma get_table_closed s v a t :
  get_table (st_heap s) v = TblOk a t -> state_closed s -> hget (st_heap s) a = Some (OTable t) /\ table_ok (hl s) t.
Proof.
  intros H Hs. unfold get_table in H. destruct v as [| | |b]; try discriminate.
  destruct (hget (st_heap s) b) as [[t0| | | | |]|] eqn:E; try discriminate. injection H as <- <-.
  split; [exact E|]. exact (closed_hget _ _ _ Hs E).
Qed.

Lemma closed_set_table s a t : state_closed s -> table_ok (hl s) t -> state_closed (set_table s a t).
Proof. intros Hs Ht. unfold set_table. apply closed_hset; assumption. Qed.

(* ------------------------------------------------------------------ *)
(* 4. results                                                          *)
(* ------------------------------------------------------------------ *)

(* [s'] is closed and its heap has at least [n0] cells; no claim about the state of an abort *)
Definition okm (n0 : nat) (s' : state) : Prop := state_closed s' /\ n0 <= hl s'.
Definition sres_c (n0 : nat) (r : sres) : Prop :=
  match r with SNext _ s' | SExit s' | SErr _ _ s' => okm n0 s' | SStop _ _ => True end.
Definition rres_c (n0 : nat) (r : rres) : Prop :=
  match r with ROk s' | RErr _ _ s' => okm n0 s' | RStop _ _ => True end.
Definition nres_c (n0 : nat) (r : nres) : Prop :=
  match r with NOk v s' => okm n0 s' /\ vok (hl s') v | NErr _ s' => okm n0 s' | NStop _ _ => True end.

Lemma okm_le n0 n1 s : n0 <= n1 -> okm n1 s -> okm n0 s.
Proof. intros L [A B]. split; [exact A|lia]. Qed.
Lemma sres_c_le n0 n1 r : n0 <= n1 -> sres_c n1 r -> sres_c n0 r.
Proof. intros L. destruct r; cbn [sres_c]; auto; apply okm_le; exact L. Qed.
Lemma rres_c_le n0 n1 r : n0 <= n1 -> rres_c n1 r -> rres_c n0 r.
Proof. intros L. destruct r; cbn [rres_c]; auto; apply okm_le; exact L. Qed.
Lemma nres_c_le n0 n1 r : n0 <= n1 -> nres_c n1 r -> nres_c n0 r.
Proof.
  intros L. destruct r; cbn [nres_c]; auto; [|apply okm_le; exact L].
  intros [A B]. split; [eapply okm_le; eauto|exact B].
Qed.

(* the same facts with heap lengths *)
Lemma spop_c s s1 v : spop s = (s1, v) -> state_closed s -> state_closed s1 /\ hl s1 = hl s /\ vok (hl s) v.
Proof. intros H Hs. destruct (spop_closed _ _ _ H Hs) as (A & B & C). unfold hl. rewrite B. auto. Qed.
Lemma spush_c s v s1 : spush s v = Some s1 -> state_closed s -> vok (hl s) v -> state_closed s1 /\ hl s1 = hl s.
Proof. intros H Hs Hv. destruct (spush_closed _ _ _ H Hs Hv) as (A & B). unfold hl. rewrite B. auto. Qed.
Lemma write_local_c s off h v s1 :
  write_local s off h v = Some s1 -> state_closed s -> vok (hl s) v -> state_closed s1 /\ hl s1 = hl s.
Proof. intros H Hs Hv. destruct (write_local_closed _ _ _ _ _ H Hs Hv) as (A & B). unfold hl. rewrite B. auto. Qed.
Lemma sclear_until_c s h s1 v :
  sclear_until s h = (s1, v) -> state_closed s -> pre_ok (hl s) (sd s) h ->
  state_closed s1 /\ hl s1 = hl s /\ vok (hl s) v.
Proof. intros H Hs Hp. destruct (sclear_until_closed _ _ _ _ H Hs Hp) as (A & B & C). unfold hl. rewrite B. auto. Qed.
Lemma spop_w_offset_c s off s1 v :
  spop_w_offset s off = (s1, v) -> state_closed s -> state_closed s1 /\ hl s1 = hl s /\ vok (hl s) v.
Proof. intros H Hs. destruct (spop_w_offset_closed _ _ _ _ H Hs) as (A & B & C). unfold hl. rewrite B. auto. Qed.
Lemma push_frame_c s f s1 :
  push_frame s f = Some s1 -> state_closed s -> frame_ok (hl s) (sd s) f ->
  state_closed s1 /\ hl s1 = hl s /\ sd s1 = sd s /\ st_stack s1 = st_stack s.
Proof.
  intros H Hs Hf. destruct (push_frame_closed _ _ _ H Hs Hf) as (A & B). unfold hl. rewrite B.
  unfold push_frame in H. destruct (_ <=? _); [discriminate|]. injection H as <-. auto.
Qed.
Lemma hl_spop_n s n : hl (spop_n s n) = hl s. Proof. reflexivity. Qed.
Lemma hl_log_push s e : hl (log_push s e) = hl s. Proof. reflexivity. Qed.
Lemma hl_set_table s a t : hl (set_table s a t) = hl s.
Proof. unfold hl, set_table, hset. cbn [st_heap set_heap]. apply upd_length. Qed.
Lemma hl_hset s a o : hl (set_heap s (hset (st_heap s) a o)) = hl s.
Proof. unfold hl, hset. cbn [st_heap set_heap]. apply upd_length. Qed.

(* objects that hold no address *)
Definition flat_obj (o : obj) : Prop :=
  match o with OStr _ | OFun _ _ | ONative _ => True | OClo _ _ ups => ups = [] | OTable t => t = mkTable [] [] | OUp _ => False end.
Lemma flat_obj_ok n d o : flat_obj o -> obj_ok n d o.
Proof.
  destruct o as [t| | | |h ar ups|u]; cbn; auto; try contradiction.
  - intros ->. split; constructor.
  - intros ->. constructor.
Qed.
Lemma salloc_flat s o s1 a :
  salloc s o = (s1, a) -> state_closed s -> flat_obj o ->
  state_closed s1 /\ hl s1 = S (hl s) /\ a = N.of_nat (hl s) /\ sd s1 = sd s /\ st_stack s1 = st_stack s /\
  st_calls s1 = st_calls s.
Proof. intros H Hs Ho. eapply closed_salloc; eauto. apply flat_obj_ok. exact Ho. Qed.
Lemma aok_new n : aok (S n) (N.of_nat n).
Proof. unfold aok. rewrite Nat2N.id. lia. Qed.

(* forward chaining over the helpers of the instruction functions *)
Ltac vtac :=
  first [ exact I | assumption
        | apply speek_vok; assumption | apply slast_vok; assumption | apply sget_vok; assumption
        | (eapply vok_mono; [|eassumption]; lia)
        | (eapply vok_mono; [|apply speek_vok; eassumption]; lia)
        | (cbn [vok]; match goal with H : ?a = N.of_nat ?n |- aok _ ?a => rewrite H; unfold aok; rewrite Nat2N.id; lia end) ].

Ltac flat_tac := first [ exact I | reflexivity | (destruct (_ =? _)%N; first [exact I | reflexivity]) ].

Ltac fwd :=
  repeat match goal with
  | H : spop ?s = (_, _), Hs : state_closed ?s |- _ =>
      let A := fresh "Hc" in let B := fresh "Hh" in let C := fresh "Hv" in
      destruct (spop_c _ _ _ H Hs) as (A & B & C); clear H
  | H : spop_w_offset ?s _ = (_, _), Hs : state_closed ?s |- _ =>
      let A := fresh "Hc" in let B := fresh "Hh" in let C := fresh "Hv" in
      destruct (spop_w_offset_c _ _ _ _ H Hs) as (A & B & C); clear H
  | H : spush ?s ?v = Some _, Hs : state_closed ?s |- _ =>
      let A := fresh "Hc" in let B := fresh "Hh" in
      destruct (spush_c _ _ _ H Hs ltac:(vtac)) as (A & B); clear H
  | H : write_local ?s _ _ ?v = Some _, Hs : state_closed ?s |- _ =>
      let A := fresh "Hc" in let B := fresh "Hh" in
      destruct (write_local_c _ _ _ _ _ H Hs ltac:(vtac)) as (A & B); clear H
  | H : salloc ?s ?o = (_, _), Hs : state_closed ?s |- _ =>
      let A := fresh "Hc" in let B := fresh "Hh" in let C := fresh "Ha" in
      destruct (salloc_flat _ _ _ _ H Hs ltac:(flat_tac)) as (A & B & C & _); clear H
  end.

Ltac hl_norm :=
  repeat first [rewrite hl_spop_n in * | rewrite hl_log_push in * | rewrite hl_set_table in * | rewrite hl_hset in *];
  unfold hl in *;
  cbn [st_open st_heap st_calls st_stack st_globals set_stack set_calls set_globals set_heap set_open set_log
       set_rem tick] in *.

Ltac cl_tac :=
  repeat first
    [ assumption
    | apply closed_set_log | apply closed_log_push | apply closed_set_rem | apply closed_tick | apply spop_n_closed ].

Ltac fin :=
  cbn [sres_c rres_c nres_c];
  first [ exact I
        | (split; [split; [cl_tac|hl_norm; lia]|vtac])
        | (split; [cl_tac|hl_norm; lia]) ].

(* ------------------------------------------------------------------ *)
(* 5. instructions                                                     *)
(* ------------------------------------------------------------------ *)
Section Step.
  Variable F : fops.
  Variable bld : build.
  Variable P : program.
  Variable reenter : N -> state -> rres.
  Hypothesis reenter_ok : forall ip s, state_closed s -> rres_c (hl s) (reenter ip s).

  Lemma push_next_c n0 ip s v : state_closed s -> n0 <= hl s -> vok (hl s) v -> sres_c n0 (push_next ip s v).
  Proof. unfold push_next. intros Hs L Hv. destruct (spush s v) eqn:E; fwd; fin. Qed.

  (* the value-level operators return no object *)
  Definition plain_op (op : heap -> value -> value -> vres) : Prop :=
    forall h a b v, op h a b = VOk v -> forall n, vok n v.

  Lemma arith_plain o : plain_op (arith_op F o).
  Proof.
    intros h a b v. unfold arith_op. destruct (cast_match F h a b) as [[[] []]|]; try discriminate;
      try (intros E; injection E as <-; intros; exact I).
    destruct (i64_result _); [|discriminate]. intros E; injection E as <-; intros; exact I.
  Qed.
  Lemma div_plain : plain_op (div_op F).
  Proof.
    intros h a b v. unfold div_op. destruct (cast_match F h a b) as [[[] []]|]; try discriminate;
      intros E; injection E as <-; intros; exact I.
  Qed.
  Lemma eq_plain neg : plain_op (eq_op F neg).
  Proof. intros h a b v. unfold eq_op. destruct (veq0 F h a b); [|discriminate]. intros E; injection E as <-; intros; exact I. Qed.
  Lemma less_plain oe : plain_op (less_op F oe).
  Proof.
    intros h a b v. unfold less_op. destruct (vcmp F h a b) as [[]| |]; try discriminate;
      intros E; injection E as <-; intros; exact I.
  Qed.
  Lemma bool_plain f : plain_op (bool_op F f).
  Proof.
    intros h a b v. unfold bool_op. destruct (as_bool F h a); [|discriminate]. destruct (as_bool F h b); [|discriminate].
    intros E; injection E as <-; intros; exact I.
  Qed.

  Lemma binary_op_c ip s op : plain_op op -> state_closed s -> sres_c (hl s) (binary_op ip s op).
  Proof.
    intros Hop Hs. unfold binary_op. destruct (spop s) as [s1 b] eqn:E1. destruct (spop s1) as [s2 a] eqn:E2. fwd.
    destruct (op (st_heap s2) a b) as [v| | |] eqn:Eo; cbn [of_vres]; try exact I.
    apply push_next_c; [assumption|lia|]. eapply Hop. exact Eo.
  Qed.

  Ltac pn := apply push_next_c; [cl_tac|hl_norm; lia|try vtac].

  Lemma i_5_c : forall opc ip0 ip s, state_closed s -> sres_c (hl s) (i_5 P opc ip0 ip s).
  Proof. intros opc ip0 ip s Hs. unfold i_5. destruct (read_le _ _ _); [pn|exact I]. Qed.
  Lemma i_6_c : forall opc ip0 ip s, state_closed s -> sres_c (hl s) (i_6 P opc ip0 ip s).
  Proof. intros opc ip0 ip s Hs. unfold i_6. destruct (read_le _ _ _); [pn|exact I]. Qed.
  Lemma i_8_c : forall opc ip0 ip s, state_closed s -> sres_c (hl s) (i_8 P opc ip0 ip s).
  Proof.
    intros opc ip0 ip s Hs. unfold i_8. destruct (op_u32 P ip); [|exact I]. cbv zeta.
    destruct (read_str _ _); try fin. destruct (salloc s _) as [s1 a] eqn:E. fwd. pn.
  Qed.
  Lemma i_31_c : forall opc ip0 ip s, state_closed s -> sres_c (hl s) (i_31 opc ip0 ip s).
  Proof. intros opc ip0 ip s Hs. unfold i_31. destruct (salloc s _) as [s1 a] eqn:E. fwd. pn. Qed.
  Lemma i_37_42_c : forall opc ip0 ip s, state_closed s -> sres_c (hl s) (i_37_42 P opc ip0 ip s).
  Proof.
    intros opc ip0 ip s Hs. unfold i_37_42. destruct (op_u32 P ip); [|exact I]. destruct (op_u32 P (ip + 4)); [|exact I].
    cbv zeta. destruct (salloc s _) as [s1 a] eqn:E. fwd. pn.
  Qed.
  Lemma i_38_c : forall opc ip0 ip s, state_closed s -> sres_c (hl s) (i_38 P opc ip0 ip s).
  Proof.
    intros opc ip0 ip s Hs. unfold i_38. destruct (op_u32 P ip); [|exact I]. cbv zeta.
    destruct (read_str _ _); try fin. destruct (salloc s _) as [s1 a] eqn:E. fwd. pn.
  Qed.

  Lemma Forall_repeat {A} (Q : A -> Prop) x k : Q x -> Forall Q (repeat x k).
  Proof. intros H. induction k; cbn; constructor; auto. Qed.

  Lemma i_17_c : forall opc ip0 ip s, state_closed s -> sres_c (hl s) (i_17 P opc ip0 ip s).
  Proof.
    intros opc ip0 ip s Hs. unfold i_17. destruct (op_u32 P ip); [|exact I].
    destruct (spop s) as [s1 v] eqn:E. fwd. cbv zeta. cbn [sres_c]. split; [|hl_norm; lia].
    apply closed_set_globals; [assumption|]. apply Forall_upd; [|cbn [gvok]; vtac].
    destruct (_ <=? _); [|apply Hc]. apply Forall_app. split; [apply Hc|]. apply Forall_repeat. exact I.
  Qed.
  Lemma i_18_c : forall opc ip0 ip s, state_closed s -> sres_c (hl s) (i_18 P opc ip0 ip s).
  Proof.
    intros opc ip0 ip s Hs. unfold i_18. destruct (op_u32 P ip); [|exact I]. cbv zeta.
    destruct (nth_error _ _) as [[v|]|] eqn:E; try fin. pn.
    apply (Forall_nth_error (gvok (hl s)) _ _ _ (sc_globals Hs) E).
  Qed.
  Lemma i_19_c : forall opc ip0 ip s, state_closed s -> sres_c (hl s) (i_19 P opc ip0 ip s).
  Proof.
    intros opc ip0 ip s Hs. unfold i_19. destruct (op_u32 P ip); [|exact I]. cbv zeta.
    destruct (top_offset s); [|exact I]. destruct (spop_w_offset s n0) as [s1 v] eqn:E. fwd.
    destruct (write_local _ _ _ _) eqn:E2; fwd; fin.
  Qed.
  Lemma i_20_c : forall opc ip0 ip s, state_closed s -> sres_c (hl s) (i_20 P opc ip0 ip s).
  Proof.
    intros opc ip0 ip s Hs. unfold i_20. destruct (op_u32 P ip); [|exact I]. cbv zeta.
    destruct (top_offset s); [|exact I]. pn.
  Qed.
  Lemma i_21_c : forall opc ip0 ip s, state_closed s -> sres_c (hl s) (i_21 opc ip0 ip s).
  Proof.
    intros opc ip0 ip s Hs. unfold i_21. destruct (top_offset s) as [off|] eqn:Eo; [|exact I].
    destruct (sclear_until s off) as [s1 v] eqn:E. cbn [fst].
    destruct (sclear_until_c _ _ _ _ E Hs (top_offset_pre _ _ Hs Eo)) as (A & B & C). fin.
  Qed.
  Lemma i_23_c : forall opc ip0 ip s, state_closed s -> sres_c (hl s) (i_23 opc ip0 ip s).
  Proof.
    intros opc ip0 ip s Hs. unfold i_23. destruct (spop s) as [s1 b] eqn:E1. destruct (spop s1) as [s2 a] eqn:E2. fwd.
    destruct (spush s2 b) as [s3|] eqn:E3; [|exact I]. fwd. destruct (spush s3 a) as [s4|] eqn:E4; [|exact I]. fwd. fin.
  Qed.
  Lemma i_27_c : forall opc ip0 ip s, state_closed s -> sres_c (hl s) (i_27 F opc ip0 ip s).
  Proof.
    intros opc ip0 ip s Hs. unfold i_27. destruct (spop s) as [s1 v] eqn:E1. fwd.
    destruct (as_bool _ _ _); [pn|exact I].
  Qed.
  Lemma i_28_c : forall opc ip0 ip s, state_closed s -> sres_c (hl s) (i_28 bld P opc ip0 ip s).
  Proof.
    intros opc ip0 ip s Hs. unfold i_28. destruct (op_u32 P ip); [|exact I]. destruct (jump_target _ _); fin.
  Qed.
  Lemma i_29_30_c : forall opc ip0 ip s, state_closed s -> sres_c (hl s) (i_29_30 F bld P opc ip0 ip s).
  Proof.
    intros opc ip0 ip s Hs. unfold i_29_30. destruct (spop s) as [s1 v] eqn:E1. fwd.
    destruct (op_u32 P ip); [|exact I]. destruct (jump_target _ _); [|exact I]. destruct (as_bool _ _ _); fin.
  Qed.
  Lemma i_34_c : forall opc ip0 ip s, state_closed s -> sres_c (hl s) (i_34 opc ip0 ip s).
  Proof.
    intros opc ip0 ip s Hs. unfold i_34. destruct (spop s) as [s1 v] eqn:E1. fwd.
    destruct v; try pn. destruct (vobj_len _ _); [pn|exact I].
  Qed.

  (* ---- tables ---- *)
  Lemma i_32_c : forall opc ip0 ip s, state_closed s -> sres_c (hl s) (i_32 F opc ip0 ip s).
  Proof.
    intros opc ip0 ip s Hs. unfold i_32. destruct (spop s) as [s1 key] eqn:E1. destruct (spop s1) as [s2 inst] eqn:E2. fwd.
    destruct (get_table _ _) as [a t| |] eqn:Eg; try fin.
    destruct (get_table_closed _ _ _ _ Eg Hc0) as [Ha Ht].
    destruct (tget _ t key) as [r|] eqn:Et; [|exact I]. pn. eapply tget_ok; eauto.
  Qed.
  Lemma i_33_c : forall opc ip0 ip s, state_closed s -> sres_c (hl s) (i_33 F opc ip0 ip s).
  Proof.
    intros opc ip0 ip s Hs. unfold i_33. cbv zeta.
    pose proof (spop_n_closed s 3 Hs) as H3.
    destruct (get_table _ _) as [a t| |] eqn:Eg; try fin.
    destruct (get_table_closed _ _ _ _ Eg H3) as [Ha Ht].
    destruct (tinsert _ t _ _) as [t'|] eqn:Et; [|exact I]. cbn [sres_c]. split; [|hl_norm; lia].
    apply closed_set_table; [exact H3|]. eapply tinsert_ok; [exact Ht| | |exact Et]; rewrite hl_spop_n; apply speek_vok; exact Hs.
  Qed.
  Lemma i_40_c : forall opc ip0 ip s, state_closed s -> sres_c (hl s) (i_40 F opc ip0 ip s).
  Proof.
    intros opc ip0 ip s Hs. unfold i_40. cbv zeta.
    pose proof (spop_n_closed s 2 Hs) as H3.
    destruct (get_table _ _) as [a t| |] eqn:Eg; try fin.
    destruct (get_table_closed _ _ _ _ Eg H3) as [Ha Ht].
    destruct (tappend _ t _) as [t'| |] eqn:Et; try exact I. cbn [sres_c]. split; [|hl_norm; lia].
    apply closed_set_table; [exact H3|]. eapply tappend_ok; [exact Ht| |exact Et]. rewrite hl_spop_n; apply speek_vok; exact Hs.
  Qed.
  Lemma i_41_c : forall opc ip0 ip s, state_closed s -> sres_c (hl s) (i_41 F opc ip0 ip s).
  Proof.
    intros opc ip0 ip s Hs. unfold i_41. destruct (spop s) as [s1 inst] eqn:E1. fwd.
    destruct (get_table _ _) as [a t| |] eqn:Eg; try fin.
    destruct (get_table_closed _ _ _ _ Eg Hc) as [Ha Ht].
    destruct (tpop _ t) as [[t' v]|] eqn:Et; [|exact I].
    destruct (tpop_ok _ _ _ _ _ Ht Et) as [Ht' Hv'].
    apply push_next_c; [apply closed_set_table; assumption|hl_norm; lia|rewrite hl_set_table; exact Hv'].
  Qed.

  Lemma make_row_gen s3 row s4 ka s5 va k v t1 t2 s :
    state_closed s -> salloc s (OTable (mkTable [] [])) = (s3, row) -> salloc s3 (OStr str_key) = (s4, ka) ->
    salloc s4 (OStr str_value) = (s5, va) -> vok (hl s) k -> vok (hl s) v ->
    forall eq1 eq2, tinsert eq1 (mkTable [] []) (VObj ka) k = Some t1 -> tinsert eq2 t1 (VObj va) v = Some t2 ->
    state_closed (set_table s5 row t2) /\ hl (set_table s5 row t2) = 3 + hl s /\ vok (3 + hl s) (VObj row).
  Proof.
    intros Hs E3 E4 E5 Vk Vv eq1 eq2 T1 T2. fwd. rewrite hl_set_table.
    split; [|split; [lia|cbn [vok]; rewrite Ha; unfold aok; rewrite Nat2N.id; lia]].
    apply closed_set_table; [assumption|].
    eapply tinsert_ok; [| | |exact T2]; [|cbn [vok]; rewrite Ha1; unfold aok; rewrite Nat2N.id; lia|vtac].
    eapply tinsert_ok; [apply table_ok_empty| | |exact T1]; [cbn [vok]; rewrite Ha0; unfold aok; rewrite Nat2N.id; lia|vtac].
  Qed.

  Lemma i_39_c : forall opc ip0 ip s, state_closed s -> sres_c (hl s) (i_39 F opc ip0 ip s).
  Proof.
    intros opc ip0 ip s Hs. unfold i_39. cbv zeta.
    pose proof (spop_n_closed s 2 Hs) as H2.
    destruct (get_table _ _) as [a t| |] eqn:Eg; try fin.
    destruct (get_table_closed _ _ _ _ Eg H2) as [Ha Ht]. rewrite hl_spop_n in Ht.
    destruct (speek s 0); try fin. destruct (_ <? 0)%Z; [fin|].
    assert (Hk : vok (hl s) (if (z <? Z.of_nat (length (tkeys t)))%Z then tnth_key t (Z.to_nat z) else VNil)).
    { destruct (_ <? _)%Z; [apply tnth_key_ok; exact Ht|exact I]. }
    destruct (if (z <? Z.of_nat (length (tkeys t)))%Z then tget _ _ _ else _) as [r|] eqn:Er; [|exact I].
    assert (Hr : vok (hl s) (match r with Some v => v | None => VNil end)).
    { destruct (z <? Z.of_nat (length (tkeys t)))%Z; [eapply tget_ok; eauto|injection Er as <-; exact I]. }
    destruct (salloc (spop_n s 2) _) as [s3 row] eqn:E3.
    destruct (salloc s3 _) as [s4 ka] eqn:E4.
    destruct (salloc s4 _) as [s5 va] eqn:E5.
    destruct (tinsert _ _ _ _) as [t1|] eqn:T1; [|exact I]. destruct (tinsert _ t1 _ _) as [t2|] eqn:T2; [|exact I].
    destruct (make_row_gen _ _ _ _ _ _ _ _ _ _ _ H2 E3 E4 E5 Hk Hr _ _ T1 T2) as (A & B & C).
    rewrite hl_spop_n in *. apply push_next_c; [exact A|lia|rewrite B; exact C].
  Qed.

  Lemma i_35_c : forall opc ip0 ip s, state_closed s -> sres_c (hl s) (i_35 P opc ip0 ip s).
  Proof.
    intros opc ip0 ip s Hs. unfold i_35. destruct (op_u32 P ip); [|exact I]. destruct (op_u32 P (ip + 4)); [|exact I].
    cbv zeta. pose proof (slast_vok s Hs) as Hl.
    destruct (get_table _ _); try fin. destruct (top_offset s); [|exact I].
    destruct (write_local s _ _ _) as [s1|] eqn:E1; [|fin]. fwd.
    destruct (write_local s1 _ _ _) as [s2|] eqn:E2; [|fin]. fwd.
    destruct (op_u32 P (ip + 8)); [|exact I]. destruct (op_u32 P (ip + 8 + 4)); [|exact I].
    destruct (op_u32 P (ip + 8 + 8)); [|exact I].
    destruct (write_local s2 _ _ _) as [s3|] eqn:E3; [|fin]. fwd.
    destruct (write_local s3 _ _ _) as [s4|] eqn:E4; [|fin]. fwd.
    destruct (write_local s4 _ _ _) as [s5|] eqn:E5; [|fin]. fwd. fin.
  Qed.

  Lemma i_36_c : forall opc ip0 ip s, state_closed s -> sres_c (hl s) (i_36 F bld P opc ip0 ip s).
  Proof.
    intros opc ip0 ip s Hs. unfold i_36. destruct (op_u32 P ip); [|exact I]. destruct (op_u32 P (ip + 4)); [|exact I].
    destruct (op_u32 P (ip + 8)); [|exact I]. destruct (op_u32 P (ip + 12)); [|exact I].
    destruct (op_u32 P (ip + 16)); [|exact I]. cbv zeta.
    destruct (top_offset s) as [off|]; [|exact I]. destruct (to_i64 _ _ _) as [i|]; [|exact I].
    destruct (get_table _ _) as [a t| |] eqn:Eg; try fin.
    destruct (get_table_closed _ _ _ _ Eg Hs) as [Ha Ht].
    destruct (_ && _); [exact I|]. destruct (_ && _); [|pn].
    pose proof (tnth_key_ok (hl s) t (Z.to_nat i) Ht) as Hk.
    destruct (tget _ t _) as [r|] eqn:Et; [|exact I].
    pose proof (tget_ok _ _ _ _ _ Ht Et) as Hr.
    destruct (write_local s _ _ _) as [s1|] eqn:E1; [|fin]. fwd.
    destruct (write_local s1 _ _ _) as [s2|] eqn:E2; [|fin]. fwd.
    destruct (write_local s2 _ _ _) as [s3|] eqn:E3; [|fin]. fwd.
    destruct (i64_result _); [|exact I].
    destruct (write_local s3 _ _ _) as [s4|] eqn:E4; [|fin]. fwd. pn.
  Qed.
End Step.
