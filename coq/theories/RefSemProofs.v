(* Facts about the reference semantics itself (RefSem.v): more fuel never changes a result. *)
From Coq Require Import List NArith ZArith Bool Arith Lia.
From Cao Require Import CardAst Table RefSem.
Import ListNotations.

(* [le_res a b]: a ran out of fuel, or a and b are the same result *)
Definition le_res (a b : res) : Prop := a = RFuel \/ a = b.

Lemma le_res_refl a : le_res a a.
Proof. right; reflexivity. Qed.

Lemma bnd_mono r r' k k' :
  le_res r r' -> (forall vs e s, le_res (k vs e s) (k' vs e s)) -> le_res (bnd r k) (bnd r' k').
Proof.
  intros [-> | ->] Hk; [left; reflexivity|].
  destruct r' as [| |o e s]; cbn; try apply le_res_refl.
  destruct o; cbn; try apply le_res_refl. apply Hk.
Qed.

Lemma one_mono vs k k' : (forall v, le_res (k v) (k' v)) -> le_res (one vs k) (one vs k').
Proof. intros H. destruct vs as [|v [|]]; cbn; try apply le_res_refl. apply H. Qed.

Lemma two_mono vs k k' : (forall a b, le_res (k a b) (k' a b)) -> le_res (two vs k) (two vs k').
Proof. intros H. destruct vs as [|a [|b [|]]]; cbn; try apply le_res_refl. apply H. Qed.

Lemma finish_call_mono r r' : le_res r r' -> le_res (finish_call r) (finish_call r').
Proof. intros [-> | ->]; [left; reflexivity | apply le_res_refl]. Qed.

Lemma with_table_mono s e t k k' :
  (forall p tb, le_res (k p tb) (k' p tb)) -> le_res (with_table s e t k) (with_table s e t k').
Proof.
  intros H. unfold with_table. destruct t; try apply le_res_refl.
  destruct (nth_error _ _); [apply H | apply le_res_refl].
Qed.

Section Mono.
  Variable P : list fentry.
  Variable host : list str.
  Variables limit limit' : N.
  Variables rec rec' : task -> state -> res.
  Hypothesis Hlim : (limit <= limit')%N.
  Hypothesis Hrec : forall t s, le_res (rec t s) (rec' t s).

  Ltac step :=
    match goal with
    | |- le_res ?a ?a => apply le_res_refl
    | |- le_res (bnd _ _) (bnd _ _) => apply bnd_mono; [try apply Hrec | intros]
    | |- le_res (one _ _) (one _ _) => apply one_mono; intros
    | |- le_res (two _ _) (two _ _) => apply two_mono; intros
    | |- le_res (finish_call _) (finish_call _) => apply finish_call_mono
    | |- le_res (with_table _ _ _ _) (with_table _ _ _ _) => apply with_table_mono; intros
    | |- le_res (rec ?t ?s) (rec' ?t ?s) => apply Hrec
    | |- le_res (match ?x with _ => _ end) (match ?x with _ => _ end) => destruct x
    | |- le_res (if ?x then _ else _) (if ?x then _ else _) => destruct x
    | |- le_res (let '(_, _) := ?x in _) (let '(_, _) := ?x in _) => destruct x
    end.

  Lemma call_body_mono fi params body up args s :
    le_res (call_body rec fi params body up args s) (call_body rec' fi params body up args s).
  Proof. unfold call_body. repeat step. Qed.

  Lemma eval_card_mono fi e c s :
    le_res (eval_card P rec fi e c s) (eval_card P rec' fi e c s).
  Proof.
    destruct c; cbn [eval_card]; repeat step.
  Qed.

  Ltac step2 :=
    first [ step
          | match goal with
            | |- le_res (match rec ?t ?s with _ => _ end) (match rec' ?t ?s with _ => _ end) =>
                let E := fresh "E" in
                destruct (Hrec t s) as [E | E]; rewrite E; [left; reflexivity | apply le_res_refl]
            end ].

  Lemma eval_native_mono name args s :
    le_res (eval_native host rec name args s) (eval_native host rec' name args s).
  Proof. unfold eval_native; cbv zeta. repeat step2. Qed.

  Lemma F_mono t s : le_res (F P host limit rec t s) (F P host limit' rec' t s).
  Proof.
    unfold F.
    destruct (N.ltb_spec limit (st_steps s)) as [Hl | Hl]; [left; reflexivity|].
    destruct (N.ltb_spec limit' (st_steps s)) as [Hl' | Hl']; [lia|].
    destruct t.
    - apply eval_card_mono.
    - destruct cs; repeat step.
    - destruct cs; repeat step.
    - repeat step.
    - repeat step.
    - repeat step.
    - destruct (nth_error P idx); [apply call_body_mono | apply le_res_refl].
    - destruct f; try apply le_res_refl; try apply Hrec.
      destruct (nth_error _ _); [apply call_body_mono | apply le_res_refl].
    - apply eval_native_mono.
    - destruct entries as [|[k v] r]; repeat step.
  Qed.
End Mono.

Lemma eval_mono_step P host limit limit' (Hlim : (limit <= limit')%N) :
  forall f t s, le_res (eval P host limit f t s) (eval P host limit' (S f) t s).
Proof.
  induction f as [|f IH]; intros t s; [left; reflexivity|].
  change (le_res (F P host limit (eval P host limit f) t s)
                 (F P host limit' (eval P host limit' (S f)) t s)).
  apply F_mono; [exact Hlim | exact IH].
Qed.

Lemma eval_mono_limit P host limit limit' (Hlim : (limit <= limit')%N) :
  forall f t s, le_res (eval P host limit f t s) (eval P host limit' f t s).
Proof.
  induction f as [|f IH]; intros t s; [left; reflexivity|].
  cbn [eval]. apply F_mono; [exact Hlim | exact IH].
Qed.

Lemma le_res_trans a b c : le_res a b -> le_res b c -> le_res a c.
Proof. intros [-> | ->] H; [left; reflexivity | exact H]. Qed.

Theorem eval_fuel_monotone P host limit limit' f f' t s r :
  eval P host limit f t s = r -> r <> RFuel -> f <= f' -> (limit <= limit')%N ->
  eval P host limit' f' t s = r.
Proof.
  intros E Hr Hf Hl. subst r.
  assert (H : le_res (eval P host limit f t s) (eval P host limit' f' t s)).
  { induction Hf as [|f' Hf IH].
    - apply eval_mono_limit; exact Hl.
    - eapply le_res_trans; [exact IH|]. apply eval_mono_step. lia. }
  destruct H as [H | H]; [contradiction | symmetry; exact H].
Qed.

(* the same for whole programs: an observation or an "outside the domain" verdict obtained with
   some fuel is obtained with every larger fuel *)
Theorem eval_program_fuel_monotone m host f f' r :
  eval_program f m host = r -> r <> PFuel -> f <= f' -> eval_program f' m host = r.
Proof.
  unfold eval_program. intros E Hr Hf.
  destruct (program_of m) as [[P main]|]; [|exact E].
  destruct (nth_error P main) as [fe|]; [|exact E].
  remember (eval P host (step_limit f) f _ init_state) as r0 eqn:E0.
  assert (Hne : r0 <> RFuel) by (intros ->; apply Hr; symmetry; exact E).
  symmetry in E0.
  rewrite (@eval_fuel_monotone P host (step_limit f) (step_limit f') f f' _ _ r0 E0 Hne Hf).
  - exact E.
  - unfold step_limit. lia.
Qed.
