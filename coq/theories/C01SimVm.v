(* C01, simulation, VM half: what the dispatch loop of Vm.v does on a program whose bytes are the
   encoding of a known instruction list.

   - [code_at P ip i]: the bytes of instruction [i] lie at address [ip] of the program;
   - [St s stk g rem]: the machine state [s] seen as (live value stack, globals, remaining budget), the
     other components being those of the entry state of a run of `main` (one call frame, nothing open);
   - one lemma per opcode of the fragment: [step] on a state described by [St] at an address where the
     instruction lies;
   - [steps n c c']: n dispatches lead from configuration c = (ip, stack, globals) to c';
     [loop_steps]: the dispatch loop follows them when budget and fuel suffice.
   Generic in the float instance, the build profile and the re-entry function (none is reached). *)
From Coq Require Import NArith ZArith List Lia Bool.
From Cao Require Import ListUtil Bits Stacks StacksProofs Bytecode CompilerProofs CompilerWf CompilerOk.
From Cao Require Import Vm VmProofs C04VmProofs.
Import ListNotations.

Set Implicit Arguments.
Local Open Scope N_scope.

Arguments N.add : simpl never.
Arguments N.mul : simpl never.
Arguments N.pow : simpl never.
Arguments N.of_nat : simpl never.
Arguments N.to_nat : simpl never.

(* ------------------------------------------------------------------ bytes *)
Definition code_at (P : program) (ip : N) (i : instr) : Prop :=
  exists pre post, p_code P = pre ++ encode_instr i ++ post /\ N.of_nat (length pre) = ip.

Lemma encode_app a b : encode (a ++ b) = encode a ++ encode b.
Proof. unfold encode. apply flat_map_app. Qed.

Lemma code_at_encode P a i b :
  p_code P = encode (a ++ i :: b) -> code_at P (bytes a) i.
Proof.
  intros H. exists (encode a), (encode b). split.
  - rewrite H, encode_app. reflexivity.
  - rewrite encode_length, bytes_nbytes. reflexivity.
Qed.

Lemma code_at_len P ip i : code_at P ip i -> ip + spanN i <= code_len P.
Proof.
  intros (pre & post & E & <-). unfold code_len. rewrite E, !app_length, encode_instr_length.
  unfold spanN. lia.
Qed.

Lemma code_at_lt P ip i : code_at P ip i -> ip < code_len P.
Proof. intros H. pose proof (code_at_len H). pose proof (spanN_pos i). lia. Qed.

Lemma nth_app_len {A} (l r : list A) x d : nth (length l) (l ++ x :: r) d = x.
Proof. induction l; cbn; auto. Qed.

Lemma code_at_opcode P ip i : code_at P ip i -> opcode_at P ip = op_code (instr_op i).
Proof.
  intros (pre & post & E & <-). unfold opcode_at. rewrite E, Nat2N.id.
  unfold encode_instr. cbn [app]. apply nth_app_len.
Qed.

Lemma skipn_app_len {A} (l r : list A) : skipn (length l) (l ++ r) = r.
Proof. induction l; cbn; auto. Qed.

(* the first operand *)
Lemma code_at_operand1 P ip i w a ws args :
  code_at P ip i -> op_widths (instr_op i) = w :: ws -> instr_args i = a :: args -> fits w a ->
  read_le (p_code P) (ip + 1) w = Some a.
Proof.
  intros (pre & post & E & <-) Hw Ha Hf. unfold read_le.
  assert (Hlen : N.of_nat (length pre) + 1 + N.of_nat w <= N.of_nat (length (p_code P))).
  { rewrite E, !app_length. unfold encode_instr. rewrite Hw, Ha. cbn [encode_args length].
    rewrite !app_length, le_bytes_length. lia. }
  apply N.leb_le in Hlen. rewrite Hlen. f_equal.
  rewrite E. unfold encode_instr. rewrite Hw, Ha. cbn [encode_args].
  replace (N.to_nat (N.of_nat (length pre) + 1)) with (length (pre ++ [op_code (instr_op i)]))
    by (rewrite app_length; cbn; lia).
  replace (pre ++ (op_code (instr_op i) :: le_bytes w a ++ encode_args ws args) ++ post)
    with ((pre ++ [op_code (instr_op i)]) ++ le_bytes w a ++ (encode_args ws args ++ post))
    by (rewrite <- ?app_assoc; cbn [app]; rewrite <- ?app_assoc; reflexivity).
  rewrite skipn_app_len, firstn_len_app by (rewrite le_bytes_length; reflexivity).
  apply le_to_N_le_bytes. exact Hf.
Qed.

Lemma fits4_lt x : x < 4294967296 -> fits 4 x.
Proof. unfold fits. change (256 ^ N.of_nat 4) with 4294967296. auto. Qed.

(* ------------------------------------------------------------------ states *)
Section Sim.
Variable F : fops.
Variable bld : build.
Variable P : program.

(* the components a run of `main` in the fragment never changes *)
Variable cap : nat.
Variable calls0 : list frame.
Variable heap0 : heap.
Variable open0 : option N.
Variable log0 : list (list tval).

Definition St (s : state) (stk : list value) (g : list (option value)) (rem : N) : Prop :=
  stack_ok s /\ stack_of s = stk /\ length (vdata (st_stack s)) = cap /\
  st_calls s = calls0 /\ st_heap s = heap0 /\ st_open s = open0 /\ st_log s = log0 /\
  st_globals s = g /\ st_rem s = rem.

Lemma St_tick s stk g rem r : St s stk g rem -> St (tick (set_rem s r)) stk g r.
Proof. unfold St, stack_ok, stack_of. cbn. tauto. Qed.

Lemma St_set_calls s stk g rem c :
  St s stk g rem -> stack_of (set_calls s c) = stk /\ st_globals (set_calls s c) = g.
Proof. unfold St, stack_of. cbn. tauto. Qed.

(* push on a described state *)
Lemma St_push s stk g rem v :
  St s stk g rem -> (S (length stk) < cap)%nat ->
  exists s', spush s v = Some s' /\ St s' (stk ++ [v]) g rem.
Proof.
  intros (Hok & Hs & Hc & H1 & H2 & H3 & H4 & H5 & H6) Hroom.
  destruct (@spush_abs s v Hok) as (s' & E & Hok' & Hs' & A1 & A2 & A3 & A4 & A5); [rewrite Hs, Hc; exact Hroom|].
  exists s'. split; [exact E|].
  assert (Hrem : st_rem s' = st_rem s /\ length (vdata (st_stack s')) = length (vdata (st_stack s))).
  { unfold spush in E. destruct (vs_push (st_stack s) v) as [k o] eqn:Ek. destruct o; try discriminate.
    injection E as <-. cbn. split; [reflexivity|].
    unfold vs_push in Ek. destruct (S (vcount (st_stack s)) <? length (vdata (st_stack s)))%nat; [|discriminate].
    injection Ek as <-. cbn. apply upd_length. }
  destruct Hrem as [Hr Hl].
  unfold St. rewrite Hs', Hs, A1, A2, A3, A4, A5, Hr, Hl. tauto.
Qed.

(* pop on a described state with a non-empty stack *)
Lemma St_pop s stk v g rem :
  St s (stk ++ [v]) g rem -> exists s', spop s = (s', v) /\ St s' stk g rem.
Proof.
  intros (Hok & Hs & Hc & H1 & H2 & H3 & H4 & H5 & H6).
  unfold spop.
  assert (Hsp : sp_step VNil (length (vdata (st_stack s))) (vs_abs (st_stack s)) (VPop value)
                = Some (stk, OVal v)).
  { cbn [sp_step]. unfold stack_of in Hs. rewrite Hs, removelast_last, last_last. reflexivity. }
  pose proof (@vs_step_refines value VNil (st_stack s) (VPop value) _ _ Hok Hsp) as R.
  cbn [vs_step] in R. destruct (vs_pop VNil (st_stack s)) as [k x].
  destruct R as (Ho & Ha & Hi & Hl). injection Ho as ->.
  eexists. split; [reflexivity|].
  unfold St, stack_ok, stack_of. cbn. rewrite Hl. tauto.
Qed.

(* ------------------------------------------------------------------ configurations and steps *)
Definition cfg : Type := (N * list value * list (option value))%type.

(* one dispatch at [ip] takes every state described by (stk, g) to one described by (stk', g') *)
Definition exec1 (c c' : cfg) : Prop :=
  let '(ip, stk, g) := c in
  let '(ip', stk', g') := c' in
  ip < code_len P /\
  forall (reenter : N -> state -> rres) s rem, St s stk g rem ->
    exists s', step F bld P reenter ip s = SNext ip' s' /\ St s' stk' g' rem.

Inductive steps : nat -> cfg -> cfg -> Prop :=
| steps_O c : steps 0 c c
| steps_S n c c1 c2 : exec1 c c1 -> steps n c1 c2 -> steps (S n) c c2.

Lemma steps_trans n m a b c : steps n a b -> steps m b c -> steps (n + m) a c.
Proof. induction 1; intros H2; cbn [Nat.add]; [exact H2 | econstructor; eauto]. Qed.

Lemma steps_1 a b : exec1 a b -> steps 1 a b.
Proof. intros H. econstructor; [exact H | constructor]. Qed.

(* the dispatch loop follows the steps when the budget allows *)
Lemma loop_steps (reenter : N -> state -> rres) n : forall c c', steps n c c' ->
  forall fuel s rem, St s (snd (fst c)) (snd c) rem -> N.of_nat n < rem ->
    exists s', St s' (snd (fst c')) (snd c') (rem - N.of_nat n) /\
               loop F bld P reenter (n + fuel) (fst (fst c)) s = loop F bld P reenter fuel (fst (fst c')) s'.
Proof.
  induction 1 as [c | n c c1 c2 H1 Hs IH]; intros fuel s rem HS Hrem.
  - exists s. rewrite N.sub_0_r. split; [exact HS | reflexivity].
  - destruct c as [[ip stk] g], c1 as [[ip1 stk1] g1]. cbn [fst snd] in *.
    destruct H1 as [Hlt H1].
    pose proof (St_tick (N.pred rem) HS) as HS1.
    destruct (H1 reenter _ _ HS1) as (s1 & E1 & HS1').
    destruct (IH fuel s1 _ HS1') as (s' & HS' & E'); [lia|].
    exists s'. split; [replace (rem - N.of_nat (S n)) with (N.pred rem - N.of_nat n) by lia; exact HS'|].
    cbn [Nat.add loop].
    assert (Hcl : (code_len P <=? ip) = false) by (apply N.leb_gt; exact Hlt). rewrite Hcl.
    assert (Hr : st_rem s = rem) by (destruct HS as (_ & _ & _ & _ & _ & _ & _ & _ & Hr); exact Hr).
    rewrite Hr. cbn [st_rem set_rem].
    assert (Hz : (N.pred rem =? 0) = false) by (apply N.eqb_neq; lia). rewrite Hz.
    rewrite E1. exact E'.
Qed.

(* a dispatch that ends the run: Exit *)
Lemma loop_exit (reenter : N -> state -> rres) fuel ip s stk g rem :
  St s stk g rem -> code_at P ip IExit -> 1 < rem ->
  exists s', loop F bld P reenter (S fuel) ip s = Vm.ROk s' /\
             stack_of s' = stk /\ st_globals s' = g.
Proof.
  intros HS Hc Hrem. cbn [loop].
  assert (Hcl : (code_len P <=? ip) = false) by (apply N.leb_gt; eapply code_at_lt; eauto). rewrite Hcl.
  assert (Hr : st_rem s = rem) by (destruct HS as (_ & _ & _ & _ & _ & _ & _ & _ & Hr); exact Hr).
  rewrite Hr. cbn [st_rem set_rem].
  assert (Hz : (N.pred rem =? 0) = false) by (apply N.eqb_neq; lia). rewrite Hz.
  pose proof (code_at_opcode Hc) as Hop. cbn [instr_op op_code] in Hop.
  step_opc Hop. eexists. split; [reflexivity|].
  destruct (St_tick (N.pred rem) HS) as (_ & A & _ & _ & _ & _ & _ & B & _). auto.
Qed.

(* a dispatch that fails *)
Definition exec_err (c : cfg) (e : err) : Prop :=
  let '(ip, stk, g) := c in
  ip < code_len P /\
  forall (reenter : N -> state -> rres) s rem, St s stk g rem ->
    exists ip' s', step F bld P reenter ip s = SErr e ip' s' /\ st_globals s' = g.

Lemma loop_err (reenter : N -> state -> rres) fuel c e s rem :
  exec_err c e -> St s (snd (fst c)) (snd c) rem -> 1 < rem ->
  exists s', loop F bld P reenter (S fuel) (fst (fst c)) s = Vm.RErr e (fst (fst c)) s' /\ st_globals s' = snd c.
Proof.
  destruct c as [[ip stk] g]. cbn [fst snd]. intros [Hlt H] HS Hrem. cbn [loop].
  assert (Hcl : (code_len P <=? ip) = false) by (apply N.leb_gt; exact Hlt). rewrite Hcl.
  assert (Hr : st_rem s = rem) by (destruct HS as (_ & _ & _ & _ & _ & _ & _ & _ & Hr); exact Hr).
  rewrite Hr. cbn [st_rem set_rem].
  assert (Hz : (N.pred rem =? 0) = false) by (apply N.eqb_neq; lia). rewrite Hz.
  destruct (H reenter _ _ (St_tick (N.pred rem) HS)) as (ip' & s' & E & Hg). rewrite E. eauto.
Qed.

(* ------------------------------------------------------------------ one lemma per opcode *)
Ltac opc Hc :=
  let Hop := fresh "Hop" in
  pose proof (code_at_opcode Hc) as Hop; cbn [instr_op op_code] in Hop; step_opc Hop.

Lemma ex_scalar_nil ip stk g :
  code_at P ip IScalarNil -> (S (length stk) < cap)%nat ->
  exec1 (ip, stk, g) (ip + 1, stk ++ [VNil], g).
Proof.
  intros Hc Hroom. split; [eapply code_at_lt; eauto|]. intros reenter s rem HS. opc Hc.
  destruct (St_push VNil HS Hroom) as (s' & E & HS'). unfold push_next. rewrite E. eauto.
Qed.

Lemma ex_scalar_int ip z stk g :
  code_at P ip (IScalarInt z) -> (- 9223372036854775808 <= z < 9223372036854775808)%Z ->
  (S (length stk) < cap)%nat ->
  exec1 (ip, stk, g) (ip + 9, stk ++ [VInt z], g).
Proof.
  intros Hc Hz Hroom. split; [eapply code_at_lt; eauto|]. intros reenter s rem HS. opc Hc.
  unfold i_5. rewrite (code_at_operand1 (w := 8) Hc eq_refl eq_refl (i64_to_u64_fits z)).
  rewrite i64_roundtrip by exact Hz.
  destruct (St_push (VInt z) HS Hroom) as (s' & E & HS'). unfold push_next. rewrite E.
  replace (ip + 1 + 8) with (ip + 9) by lia. eauto.
Qed.

(* binary operators: pop b, pop a, push (op a b) *)
Lemma binary_op_St ip s stk a b g rem op v :
  St s (stk ++ [a; b]) g rem -> op heap0 a b = VOk v -> (S (length stk) < cap)%nat ->
  exists s', binary_op ip s op = SNext ip s' /\ St s' (stk ++ [v]) g rem.
Proof.
  intros HS Hop Hroom. unfold binary_op.
  replace (stk ++ [a; b]) with ((stk ++ [a]) ++ [b]) in HS by (rewrite <- app_assoc; reflexivity).
  destruct (St_pop _ _ HS) as (s1 & E1 & HS1). rewrite E1.
  destruct (St_pop _ _ HS1) as (s2 & E2 & HS2). rewrite E2.
  assert (Hh : st_heap s2 = heap0) by (destruct HS2 as (_ & _ & _ & _ & Hh & _); exact Hh).
  rewrite Hh, Hop. unfold of_vres, push_next.
  destruct (St_push v HS2 Hroom) as (s3 & E3 & HS3). rewrite E3. eauto.
Qed.

Definition binop_sem (i : instr) : option (heap -> value -> value -> vres) :=
  match i with
  | IAdd => Some (arith_op F Vm.OpAdd)
  | ISub => Some (arith_op F Vm.OpSub)
  | IMul => Some (arith_op F Vm.OpMul)
  | IEquals => Some (eq_op F false)
  | INotEquals => Some (eq_op F true)
  | ILess => Some (less_op F false)
  | ILessOrEq => Some (less_op F true)
  | IAnd => Some (bool_op F andb)
  | IOr => Some (bool_op F orb)
  | IXor => Some (bool_op F xorb)
  | _ => None
  end.

Lemma ex_binop ip i op stk a b v g :
  code_at P ip i -> binop_sem i = Some op -> op heap0 a b = VOk v -> (S (length stk) < cap)%nat ->
  exec1 (ip, stk ++ [a; b], g) (ip + 1, stk ++ [v], g).
Proof.
  intros Hc Hi Hop Hroom. split; [eapply code_at_lt; eauto|]. intros reenter s rem HS.
  destruct i; try discriminate Hi; cbn [binop_sem] in Hi; injection Hi as Hi; subst op; opc Hc;
    eapply binary_op_St; eauto.
Qed.

Lemma ex_not ip stk a bv g :
  code_at P ip INot -> as_bool F heap0 a = Some bv -> (S (length stk) < cap)%nat ->
  exec1 (ip, stk ++ [a], g) (ip + 1, stk ++ [vbool (negb bv)], g).
Proof.
  intros Hc Hb Hroom. split; [eapply code_at_lt; eauto|]. intros reenter s rem HS. opc Hc.
  unfold i_27. destruct (St_pop _ _ HS) as (s1 & E1 & HS1). rewrite E1.
  assert (Hh : st_heap s1 = heap0) by (destruct HS1 as (_ & _ & _ & _ & Hh & _); exact Hh).
  rewrite Hh, Hb. unfold push_next.
  destruct (St_push (vbool (negb bv)) HS1 Hroom) as (s2 & E2 & HS2). rewrite E2. eauto.
Qed.

(* globals *)
Definition gset (g : list (option value)) (id : N) (v : value) : list (option value) :=
  let i := N.to_nat id in
  upd (if (length g <=? i)%nat then g ++ repeat None (S i - length g) else g) i (Some v).

Lemma St_set_globals s stk g rem g' : St s stk g rem -> St (set_globals s g') stk g' rem.
Proof. unfold St, stack_ok, stack_of. cbn. tauto. Qed.

Lemma ex_set_global ip id stk v g :
  code_at P ip (ISetGlobalVar id) -> id < 4294967296 ->
  exec1 (ip, stk ++ [v], g) (ip + 5, stk, gset g id v).
Proof.
  intros Hc Hid. split; [eapply code_at_lt; eauto|]. intros reenter s rem HS. opc Hc.
  unfold i_17, op_u32. rewrite (code_at_operand1 (w := 4) Hc eq_refl eq_refl (fits4_lt Hid)).
  destruct (St_pop _ _ HS) as (s1 & E1 & HS1). rewrite E1.
  assert (Hg : st_globals s1 = g) by (destruct HS1 as (_ & _ & _ & _ & _ & _ & _ & Hg & _); exact Hg).
  rewrite Hg. eexists. split; [replace (ip + 1 + 4) with (ip + 5) by lia; reflexivity|].
  eapply St_set_globals. exact HS1.
Qed.

Lemma ex_read_global ip id stk v g :
  code_at P ip (IReadGlobalVar id) -> id < 4294967296 ->
  nth_error g (N.to_nat id) = Some (Some v) -> (S (length stk) < cap)%nat ->
  exec1 (ip, stk, g) (ip + 5, stk ++ [v], g).
Proof.
  intros Hc Hid Hv Hroom. split; [eapply code_at_lt; eauto|]. intros reenter s rem HS. opc Hc.
  unfold i_18, op_u32. rewrite (code_at_operand1 (w := 4) Hc eq_refl eq_refl (fits4_lt Hid)).
  assert (Hg : st_globals s = g) by (destruct HS as (_ & _ & _ & _ & _ & _ & _ & Hg & _); exact Hg).
  rewrite Hg, Hv. unfold push_next.
  destruct (St_push v HS Hroom) as (s' & E & HS'). rewrite E.
  replace (ip + 1 + 4) with (ip + 5) by lia. eauto.
Qed.

Lemma ex_read_global_err ip id stk g :
  code_at P ip (IReadGlobalVar id) -> id < 4294967296 ->
  (forall v, nth_error g (N.to_nat id) <> Some (Some v)) ->
  exists nm, exec_err (ip, stk, g) (EVarNotFound (Some nm)).
Proof.
  intros Hc Hid Hv.
  exists (match assoc (handle_from_u32 id) (p_var_names P) with Some nm => nm | None => unknown_var_name end).
  split; [eapply code_at_lt; eauto|]. intros reenter s rem HS. opc Hc.
  unfold i_18, op_u32. rewrite (code_at_operand1 (w := 4) Hc eq_refl eq_refl (fits4_lt Hid)).
  assert (Hg : st_globals s = g) by (destruct HS as (_ & _ & _ & _ & _ & _ & _ & Hg & _); exact Hg).
  rewrite Hg. destruct (nth_error g (N.to_nat id)) as [[v|]|] eqn:E.
  - exfalso. eapply Hv; reflexivity.
  - exists (ip + 1 + 4), s. split; [reflexivity | exact Hg].
  - exists (ip + 1 + 4), s. split; [reflexivity | exact Hg].
Qed.

(* jumps *)
Lemma jump_target_small pc :
  pc < 2147483648 -> jump_target bld (i32_to_u32 (u32_to_i32 pc)) = JTo pc.
Proof.
  intros H. unfold jump_target. rewrite i32_roundtrip by apply CompilerOk.u32_to_i32_range.
  rewrite u32_to_i32_small by exact H.
  destruct (Z.ltb_spec (Z.of_N pc) 0); [lia|]. rewrite N2Z.id. reflexivity.
Qed.

Lemma ex_goto ip pc stk g :
  code_at P ip (IGoto (u32_to_i32 pc)) -> pc < 2147483648 ->
  exec1 (ip, stk, g) (pc, stk, g).
Proof.
  intros Hc Hpc. split; [eapply code_at_lt; eauto|]. intros reenter s rem HS. opc Hc.
  unfold i_28, op_u32. rewrite (code_at_operand1 (w := 4) Hc eq_refl eq_refl (i32_to_u32_fits _)).
  rewrite (jump_target_small Hpc). eauto.
Qed.

(* GotoIfTrue (jump_if = true) / GotoIfFalse (jump_if = false): pops the condition *)
Lemma ex_goto_if (jump_if : bool) ip pc stk c bv g :
  code_at P ip ((if jump_if then IGotoIfTrue else IGotoIfFalse) (u32_to_i32 pc)) -> pc < 2147483648 ->
  as_bool F heap0 c = Some bv ->
  exec1 (ip, stk ++ [c], g) (if Bool.eqb bv jump_if then pc else ip + 5, stk, g).
Proof.
  intros Hc Hpc Hb. split; [eapply code_at_lt; eauto|]. intros reenter s rem HS.
  destruct (St_pop _ _ HS) as (s1 & E1 & HS1).
  assert (Hh : st_heap s1 = heap0) by (destruct HS1 as (_ & _ & _ & _ & Hh & _); exact Hh).
  destruct jump_if; opc Hc; unfold i_29_30, op_u32; rewrite E1;
    rewrite (code_at_operand1 (w := 4) Hc eq_refl eq_refl (i32_to_u32_fits _));
    rewrite (jump_target_small Hpc), Hh, Hb; cbv beta iota;
    (eexists; split; [|exact HS1]); destruct bv; cbn [Bool.eqb negb N.eqb Pos.eqb];
    try reflexivity; replace (ip + 1 + 4) with (ip + 5) by lia; reflexivity.
Qed.

End Sim.
