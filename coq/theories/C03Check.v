(* C03 correspondence checker. Cases are the VM cases (VmCheck.vmcase) printed by `harness gen C03`.
   Codes: 1 = the model Vm.v predicts something else than the implementation did (VmCheck.check1, including the
              remaining budget, i.e. the number of dispatched instructions),
          2 = the specification oracle rejects the implementation's observations (independent of the model):
              - no panic:                   a run never ends in a Rust panic (VmCheck.panic_code; e.g. an
                                            arithmetic overflow of the budget counter in a debug build)
              - dispatched <= N:            remaining_iters <= N after the run
              - Timeout iff exhausted:      outcome Timeout -> remaining_iters = 0, outcome Ok -> remaining_iters >= 1
              - the budget does not matter when it suffices: all runs of one program on fresh VMs that end with
                remaining_iters >= 1 (no Timeout was raised at any level) have the same outcome, error trace,
                globals, host log, stack shape and the same number of dispatched instructions
          3 = malformed case / not predictable, 4 = opcode table changed, 5 = run_flat disagrees with run. *)
From Cao Require Export VmCheck.
Local Open Scope N_scope.

Definition oobs_eqb (a b : oobs) : bool :=
  match a, b with
  | ObOk, ObOk | ObPanic, ObPanic => true
  | ObErr e t, ObErr e' t' => err_eqb e e' && list_eqb N.eqb t t'
  | _, _ => false
  end.

Definition globals_eqb (a b : list (list N * option tval)) : bool :=
  list_eqb (fun x y => list_eqb N.eqb (fst x) (fst y) && opt_eqb tval_eqb (snd x) (snd y)) a b.

(* remaining_iters is the 5th component of the observed shape *)
Definition remaining (o : obs) : option N :=
  match ob_shape o with Some [_; _; _; _; r] => Some r | _ => None end.
Definition shape4 (o : obs) : list N :=
  match ob_shape o with Some l => firstn 4 l | None => [] end.

Definition run_oracle (budget : N) (o : obs) : list N :=
  match remaining o with
  | None => match ob_out o with ObPanic => [] (* code 2 by VmCheck.panic_code *) | _ => [3] end
  | Some r =>
      (if r <=? budget then [] else [2]) ++
      match ob_out o with
      | ObErr ETimeout _ => if r =? 0 then [] else [2]
      | ObOk => if 1 <=? r then [] else [2]
      | _ => []
      end
  end.

(* runs that did not exhaust the budget agree with the first such run *)
Definition same_modulo_budget (b1 : N) (o1 : obs) (b2 : N) (o2 : obs) : bool :=
  oobs_eqb (ob_out o1) (ob_out o2) && globals_eqb (ob_globals o1) (ob_globals o2) &&
  list_eqb (list_eqb tval_eqb) (ob_log o1) (ob_log o2) && list_eqb N.eqb (shape4 o1) (shape4 o2) &&
  match remaining o1, remaining o2 with
  | Some r1, Some r2 => (b1 - r1 =? b2 - r2)
  | _, _ => false
  end.

Definition sufficient (o : obs) : bool :=
  match remaining o with Some r => 1 <=? r | None => false end.

Fixpoint agree_with (b1 : N) (o1 : obs) (runs : list (N * obs)) : list N :=
  match runs with
  | [] => []
  | (b2, o2) :: rest =>
      (if sufficient o2 then (if same_modulo_budget b1 o1 b2 o2 then [] else [2]) else []) ++ agree_with b1 o1 rest
  end.

Fixpoint sufficient_agree (runs : list (N * obs)) : list N :=
  match runs with
  | [] => []
  | (b, o) :: rest => if sufficient o then agree_with b o rest else sufficient_agree rest
  end.

Definition oracle (c : vmcase) : list N :=
  match c with
  | VmProg _ mode _ runs =>
      flat_map (fun r => run_oracle (fst r) (snd r)) runs ++
      match mode with MFresh => sufficient_agree runs | _ => [] end
  | VmOpTable _ => []
  | VmReserved _ => []
  end.

Definition check1 (c : vmcase) : list N := VmCheck.check1 c ++ oracle c.
Definition check_all := CheckUtil.check_all check1.
