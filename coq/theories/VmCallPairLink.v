(* C08: the call pair of every Call card executes the designated body (CompilerCallPairProg + VmCallLink), and
   parameter binding for the functions of a compiled program without the "locals are empty" hypothesis
   (CompilerLocalsEmptyProg + VmCallLink.param_binding). *)
From Coq Require Import NArith ZArith List Lia Bool.
From Cao Require Import ListUtil Bits BitsProofs CardAst Bytecode Compiler StdlibGen ResolveSpec.
From Cao Require Import CompilerProofs CompilerWf CompilerOk CompilerResolve ResolveProofs ResolveTree CompilerLabels
  CompilerCalls C15Link CompilerCallPair CompilerCallPairProg CompilerLocalsEmpty CompilerLocalsEmptyProg.
From Cao Require Vm VmProofs VmNativeProofs VmUpvalueProofs C04VmProofs C01SimVm VmCallProofs.
From Cao Require Import VmCallLink.
Import ListNotations.
Local Open Scope N_scope.

Section Site.
Variable F : Vm.fops.
Variable bld : Vm.build.
Variable reenter : N -> Vm.state -> Vm.rres.

(* For every Call card `name(args)` at any nesting below a card of a function st of the tree: the returned program
   contains FunctionPointer (Handle pos) ar immediately followed by CallFunction, (pos, ar) being what the
   specification designates for `name` from st; it is the compilation of that very reference (its index in the call
   skeleton); and (ii), (iii) of call_executes_designated_body hold at its address. *)
Theorem call_card_executes_designated_body : forall M o B,
  compile M o = COk B ->
  module_names_dotfree (with_std std_module M) = true ->
  let root := with_std std_module M in
  let P := to_vm B in
  exists is mi,
    p_bytecode B = encode is /\ main_index (m_functions M) 0 = Some mi /\
    forall st c name args,
      In st (tree_functions root []) -> In c (f_cards (fs_fn st)) -> subcard (CCall name args) c ->
      exists a b pos arn,
        let h := handle_from_u64 (N.of_nat pos) in
        let ar := N.of_nat arn mod two32 in
        let ip := bytes a in
        is = a ++ IFunctionPointer h ar :: ICallFunction :: b /\
        site_target root st name = Some (pos, arn) /\
        nth_error (flat_map site_items (swap0 (tree_functions root []) mi)) (length (filter is_call_instr a))
          = Some (st, CPtr name) /\
        (* (ii) the two dispatches *)
        (forall s top rest,
           VmProofs.stack_ok s -> (S (length (VmProofs.stack_of s)) < VmUpvalueProofs.cap s)%nat ->
           Vm.st_calls s = top :: rest ->
           let n := length (VmProofs.stack_of s) in
           let fa := N.of_nat (length (Vm.st_heap s)) in
           let s1 := VmCallProofs.pushed (Vm.set_heap s (Vm.st_heap s ++ [Vm.OFun h ar])) (Vm.VObj fa) in
           let s2 := VmCallProofs.popped s1 n in
           Vm.step F bld P reenter ip s = Vm.SNext (ip + 9) s1 /\
           Vm.step F bld P reenter (ip + 9) s1 = VmCallProofs.call_result P (ip + 9) s2 n h ar None top rest /\
           VmProofs.stack_ok s2 /\ VmProofs.stack_of s2 = VmProofs.stack_of s) /\
        (* (iii) for every target but `main`: labels[h] is the first byte of the code of the designated function *)
        (pos <> mi -> label_keys_distinct_module M (o_recursion_limit o) = true ->
         exists fid tgt f before body rest',
           spec_resolve root (fs_path st) (fs_imports st) name = SFound fid /\
           nth_error (tree_functions root []) pos = Some tgt /\
           fs_path tgt = fst fid /\ fs_name tgt = snd fid /\ function_at root fid = Some (fs_fn tgt) /\
           ir_of (N.of_nat pos) tgt f /\
           p_bytecode B = encode before ++ encode body ++ encode rest' /\
           (exists c1 c2, compile_other f c1 = ROk tt c2 /\ rev (cs_code c1) = before /\
                          rev (cs_code c2) = before ++ body) /\
           Vm.assoc h (Vm.p_labels P) = Some (N.of_nat (length (encode before))) /\
           forall s top rest,
             VmProofs.stack_ok s -> (S (length (VmProofs.stack_of s)) < VmUpvalueProofs.cap s)%nat ->
             Vm.st_calls s = top :: rest ->
             (ar <= N.of_nat (length (VmProofs.stack_of s)))%N -> (S (length rest) < Vm.call_stack_size)%nat ->
             let n := length (VmProofs.stack_of s) in
             let fa := N.of_nat (length (Vm.st_heap s)) in
             let s1 := VmCallProofs.pushed (Vm.set_heap s (Vm.st_heap s ++ [Vm.OFun h ar])) (Vm.VObj fa) in
             Vm.step F bld P reenter (ip + 9) s1 =
               Vm.SNext (N.of_nat (length (encode before)))
                 (Vm.set_calls (VmCallProofs.popped s1 n)
                    (VmCallProofs.callee_frame (ip + 9) n ar None :: VmCallProofs.caller_frame (ip + 9) top :: rest))).
Proof.
  intros M o B Hc Hd root P.
  destruct (compile_call_pair_in_program M o B Hc Hd) as (is & mi & Henc & Hmi & HF & _ & Hcards).
  fold root in HF, Hcards.
  exists is, mi. split; [exact Henc|]. split; [exact Hmi|].
  intros st c name args Hst Hin Hsub.
  destruct (Hcards st c name args Hst Hin Hsub) as (a & b & pos & arn & E1 & E2 & E3).
  exists a, b, pos, arn. intros h ar ip. split; [exact E1|]. split; [exact E2|]. split; [exact E3|].
  destruct (call_pair_executes F bld reenter M o B is mi Hc Hd Henc Hmi HF a b h ar E1)
    as (st' & name' & pos' & arn' & N1 & N2 & N3 & N4 & N5 & N6).
  fold root in N1, N2, N6. rewrite E3 in N1. injection N1 as <- <-.
  rewrite E2 in N2. injection N2 as <- <-.
  split; [exact N5 | exact N6].
Qed.

End Site.

(* C08_param_binding for the functions of a compiled program: the state c0 in which the parameters of g are
   declared is the one compile_ir reaches by [before_body] (stage 1, the functions compiled before g, g's
   prologue); its locals are [[]], so param_binding's hypotheses about c0 hold. *)
Theorem param_binding_compiled : forall M o B fs pre (g : function_ir) post m,
  compile M o = COk B ->
  into_ir_stream M (o_recursion_limit o) = inr fs -> fs = pre ++ g :: post ->
  NoDup (fi_args g) -> (m < length (fi_args g))%nat ->
  exists c0 c1 c2,
    before_body fs pre g (init_state (o_debug o)) = ROk tt c0 /\
    add_locals (rev (fi_args g)) c0 = ROk tt c1 /\
    process_cards (fi_cards g) 0 c1 = ROk tt c2 /\
    cs_locals c0 = [[]] /\ cs_ns c0 = fi_ns g /\ cs_imports c0 = fi_imports g /\
  let n := length (fi_args g) in
  let p := nth m (fi_args g) [] in
  let j := N.of_nat (n - 1 - m) in
  N.of_nat n mod two32 = N.of_nat n /\
  resolve_var p c1 = ROk (VLocal j) c1 /\
  (~ In c_dot p -> read_var_card p c1 = push_instr (IReadLocalVar j) c1) /\
  forall F bld P reenter ip0 s low vals a (is_clo : bool) h ups top rest pos,
    C04VmProofs.opcode_at P ip0 = 11 -> VmProofs.stack_ok s ->
    VmProofs.stack_of s = (low ++ vals) ++ [Vm.VObj a] ->
    Vm.hget (Vm.st_heap s) a = Some (VmNativeProofs.callee_obj is_clo h (N.of_nat n) ups) ->
    Vm.st_calls s = top :: rest ->
    (n <= length vals)%nat -> (S (length rest) < Vm.call_stack_size)%nat -> Vm.assoc h (Vm.p_labels P) = Some pos ->
    let fr := VmCallProofs.callee_frame ip0 (length (low ++ vals)) (N.of_nat n) (if is_clo then Some a else None) in
    Vm.step F bld P reenter ip0 s =
      Vm.SNext pos (Vm.set_calls (VmCallProofs.popped s (length (low ++ vals)))
                      (fr :: VmCallProofs.caller_frame ip0 top :: rest)) /\
    forall x cs tmp ip,
      Vm.st_calls x = fr :: cs -> VmProofs.stack_ok x -> VmProofs.stack_of x = low ++ vals ++ tmp ->
      (S (length (VmProofs.stack_of x)) < VmUpvalueProofs.cap x)%nat ->
      C01SimVm.code_at P ip (IReadLocalVar j) ->
      Vm.step F bld P reenter ip x =
        Vm.SNext (ip + 5) (VmCallProofs.pushed x (nth (length vals - 1 - m) vals Vm.VNil)).
Proof.
  intros M o B fs pre g post m Hc Hi Hfs Hnd Hm.
  destruct (compile_ok_inv _ _ _ Hc) as (fs' & s & Hi' & Hir & _).
  rewrite Hi in Hi'. injection Hi' as <-.
  destruct (function_body_starts_without_locals fs _ s pre g post Hir Hfs)
    as (c0 & c1 & c2 & P0 & P1 & P2 & L0 & _ & Ens & Eimp).
  exists c0, c1, c2. split; [exact P0|]. split; [exact P1|]. split; [exact P2|]. split; [exact L0|].
  split; [exact Ens|]. split; [exact Eimp|].
  apply (param_binding g c0 c1 m); auto.
  - rewrite L0. discriminate.
  - rewrite L0. reflexivity.
Qed.
