(* Model of alloc/caolang_alloc.rs (CaoLangAllocator), as repaired: byte counter, collection
   threshold, limit.  A collection nested in an allocation is represented by the number of bytes
   it releases (the ledger model below says which outstanding allocations those are). *)
From Coq Require Import NArith List Bool Lia.
Import ListNotations.
Local Open Scope N_scope.

Record astate := { a_allocated : N; a_next_gc : N; a_limit : N }.

Definition init_threshold (limit : N) : N := N.max (limit / 4) 16.
Definition a_new (limit : N) : astate :=
  {| a_allocated := 0; a_next_gc := init_threshold limit; a_limit := limit |}.

(* alloc(Layout{size, align}); [forced] = the verification hook demands a collection;
   [freed] = bytes released by the collection if one runs.  Result: state, ok?, collected? *)
Definition a_alloc (st : astate) (size align freed : N) (forced : bool) : astate * bool * bool :=
  let s := size + align in
  let a1 := a_allocated st + s in
  if forced || (a_limit st <? a1) || (a_next_gc st <? a1) then
    let a2 := a1 - freed in
    let ng := N.max (a2 * 2) (init_threshold (a_limit st)) in
    if a_limit st <? a2
    then ({| a_allocated := a2 - s; a_next_gc := ng; a_limit := a_limit st |}, false, true)
    else ({| a_allocated := a2; a_next_gc := ng; a_limit := a_limit st |}, true, true)
  else ({| a_allocated := a1; a_next_gc := a_next_gc st; a_limit := a_limit st |}, true, false).

Definition a_dealloc (st : astate) (size align : N) : astate :=
  {| a_allocated := a_allocated st - (size + align); a_next_gc := a_next_gc st; a_limit := a_limit st |}.

(* RuntimeData::clear: every object is released, the threshold is reset *)
Definition a_reset (st : astate) : astate :=
  {| a_allocated := a_allocated st; a_next_gc := init_threshold (a_limit st); a_limit := a_limit st |}.

(* ---------- ledger: which allocations are outstanding ---------- *)
Record lstate := { l_st : astate; l_out : list N }.   (* charged size of every outstanding allocation *)

Fixpoint keep_by {A} (mask : list bool) (l : list A) : list A :=
  match mask, l with
  | b :: m, x :: r => if b then x :: keep_by m r else keep_by m r
  | _, r => r            (* a short mask keeps the rest *)
  end.
Fixpoint sum (l : list N) : N := match l with [] => 0 | x :: r => x + sum r end.

Inductive lev :=
| LAlloc (size align : N) (forced : bool) (mask : list bool)  (* mask: what a collection would keep *)
| LDealloc (i : nat)
| LClear.

Definition remove_nth {A} (i : nat) (l : list A) : list A := firstn i l ++ skipn (S i) l.

Definition l_step (s : lstate) (e : lev) : lstate * option bool :=
  match e with
  | LAlloc size align forced mask =>
      let kept := keep_by mask (l_out s) in
      let freed := sum (l_out s) - sum kept in
      let '(st', ok, collected) := a_alloc (l_st s) size align freed forced in
      let out1 := if collected then kept else l_out s in
      ({| l_st := st'; l_out := if ok then out1 ++ [size + align] else out1 |}, Some ok)
  | LDealloc i =>
      match nth_error (l_out s) i with
      | Some c => ({| l_st := {| a_allocated := a_allocated (l_st s) - c; a_next_gc := a_next_gc (l_st s);
                                 a_limit := a_limit (l_st s) |};
                      l_out := remove_nth i (l_out s) |}, None)
      | None => (s, None)
      end
  | LClear =>
      ({| l_st := a_reset {| a_allocated := 0; a_next_gc := a_next_gc (l_st s); a_limit := a_limit (l_st s) |};
          l_out := [] |}, None)
  end.

Fixpoint l_run (s : lstate) (es : list lev) : lstate * list (option bool) :=
  match es with
  | [] => (s, [])
  | e :: r => let '(s1, x) := l_step s e in let '(s2, xs) := l_run s1 r in (s2, x :: xs)
  end.
