(* C04 - "running is total", Part E.2: every instruction preserves the structural invariant.
   [res_ok s r]: the state of a non-abort result of an instruction started in [s] satisfies vm_inv0, its heap is
   at least as long (no object dies), and for SNext the call stack is not empty and the next instruction
   pointer is an instruction start (or behind the code). *)
From Coq Require Import NArith ZArith List Lia Bool.
From Cao Require Import ListUtil Bits Stacks Vm VmProofs C04VmProofs C04VmProofs2 C04VmProofs3 C04VmProofs4.
Import ListNotations.

(* the VM's reading of C10 well-formedness: [start] holds of the first byte of every instruction *)
Record code_ok (P : program) (start : N -> Prop) : Prop := mkCodeOk {
  co_opcode : forall ip, start ip -> (ip < code_len P)%N ->
                (opcode_at P ip <= 46)%N /\ (ip + 1 + operand_len (opcode_at P ip) <= code_len P)%N;
  co_next : forall ip, start ip -> (ip < code_len P)%N -> ipok P start (ip + 1 + operand_len (opcode_at P ip));
  co_jump : forall ip, start ip -> (ip < code_len P)%N -> In (opcode_at P ip) [28; 29; 30]%N ->
              forall raw, op_u32 P (ip + 1) = Some raw ->
                (0 <= u32_to_i32 raw)%Z /\ ipok P start (Z.to_N (u32_to_i32 raw));
  co_labels : forall h pos, assoc h (p_labels P) = Some pos -> ipok P start pos;
  co_last : ipok P start (last_pos P);
  co_zero : ipok P start 0
}.

Definition scalar (v : value) : Prop := match v with VObj _ => False | _ => True end.
Lemma scalar_ok h v : scalar v -> val_ok h v.
Proof. destruct v; cbn; tauto. Qed.

Section Pres.
Variable F : fops.
Variable bld : build.
Variable P : program.
Variable reenter : N -> state -> rres.
Variable start : N -> Prop.

Notation ipok := (ipok P start).
Notation vm_inv0 := (vm_inv0 P start).
Notation vm_inv := (vm_inv P start).
Notation frame_ok := (frame_ok P start).

Definition st_ok (s s' : state) : Prop := vm_inv0 s' /\ length (st_heap s) <= length (st_heap s').
Definition res_ok (s : state) (r : sres) : Prop :=
  match r with
  | SNext ip' s' => st_ok s s' /\ st_calls s' <> [] /\ ipok ip'
  | SExit s' | SErr _ _ s' => st_ok s s'
  | SStop _ _ => True
  end.

Lemma st_ok_refl s : vm_inv0 s -> st_ok s s.
Proof. intros H. split; [exact H | lia]. Qed.

Lemma st_ok_mono s s1 s' : length (st_heap s) <= length (st_heap s1) -> st_ok s1 s' -> st_ok s s'.
Proof. intros Hl [A B]. split; [exact A | lia]. Qed.

Lemma res_ok_mono s s1 r : length (st_heap s) <= length (st_heap s1) -> res_ok s1 r -> res_ok s r.
Proof.
  intros Hl. destruct r; cbn [res_ok]; try tauto.
  - intros (A & B & C). split; [eapply st_ok_mono; eauto | tauto].
  - apply st_ok_mono; exact Hl.
  - apply st_ok_mono; exact Hl.
Qed.

Lemma pv_push_next ip s v : vm_inv0 s -> st_calls s <> [] -> ipok ip -> val_ok (st_heap s) v ->
  res_ok s (push_next ip s v).
Proof.
  intros Hi Hc Hip Hv. unfold push_next. destruct (spush s v) as [s1|] eqn:E; cbn [res_ok].
  - destruct (inv_spush P start s v s1 E Hi Hv) as (I1 & Hh & Hca & _).
    split; [split; [exact I1 | rewrite Hh; lia] | split; [rewrite Hca; exact Hc | exact Hip]].
  - apply st_ok_refl; exact Hi.
Qed.

(* ---- the value-level operators return scalars ---- *)
Lemma arith_op_scalar o h a b v : arith_op F o h a b = VOk v -> scalar v.
Proof.
  unfold arith_op. destruct (cast_match F h a b) as [[x y]|]; [|discriminate].
  destruct x, y; try (intros H; inversion H; exact I).
  cbv zeta. destruct (i64_result _); intros H; inversion H; exact I.
Qed.
Lemma div_op_scalar h a b v : div_op F h a b = VOk v -> scalar v.
Proof.
  unfold div_op. destruct (cast_match F h a b) as [[x y]|]; [|discriminate].
  destruct x, y; intros H; inversion H; exact I.
Qed.
Lemma bool_op_scalar f h a b v : bool_op F f h a b = VOk v -> scalar v.
Proof. unfold bool_op. destruct (as_bool F h a), (as_bool F h b); intros H; inversion H; exact I. Qed.
Lemma eq_op_scalar neg h a b v : eq_op F neg h a b = VOk v -> scalar v.
Proof. unfold eq_op. destruct (veq0 F h a b); intros H; inversion H; exact I. Qed.
Lemma less_op_scalar oe h a b v : less_op F oe h a b = VOk v -> scalar v.
Proof. unfold less_op. destruct (vcmp F h a b) as [[]| |]; intros H; inversion H; exact I. Qed.

Lemma pv_binary_op ip s op : vm_inv s -> ipok ip ->
  (forall h a b v, op h a b = VOk v -> scalar v) -> res_ok s (binary_op ip s op).
Proof.
  intros [Hi Hc] Hip Hop. unfold binary_op.
  destruct (spop s) as [s1 b] eqn:E1. destruct (spop s1) as [s2 a] eqn:E2.
  destruct (inv_spop P start _ _ _ E1 Hi) as (I1 & _ & Hh1 & Hc1 & _).
  destruct (inv_spop P start _ _ _ E2 I1) as (I2 & _ & Hh2 & Hc2 & _).
  apply (res_ok_mono s s2); [rewrite Hh2, Hh1; lia|].
  destruct (op (st_heap s2) a b) eqn:Eop; cbn [of_vres res_ok]; try exact I.
  apply pv_push_next; [exact I2 | rewrite Hc2, Hc1; exact Hc | exact Hip | apply scalar_ok; eapply Hop; eauto].
Qed.

Hypothesis Hcode : code_ok P start.

Section Instr.
Variable ip0 : N.
Variable s : state.
Hypothesis Hi : vm_inv0 s.
Hypothesis Hc : st_calls s <> [].
(* natives (a native function value called by CallFunction): proved in C04VmProofs6.v under the contract of
   [reenter] *)
Hypothesis native_pres : forall h ip s1, vm_inv s1 -> ipok ip -> st_heap s1 = st_heap s ->
  (exists a, hget (st_heap s) a = Some (ONative h)) -> res_ok s1 (native_step F P reenter h ip s1).

Lemma top_frame_ok : exists fr rest, st_calls s = fr :: rest /\ frame_ok s fr.
Proof.
  destruct (st_calls s) as [|fr rest] eqn:E; [congruence|]. exists fr, rest. split; [reflexivity|].
  apply (vi_frames P start s Hi). rewrite E. left; reflexivity.
Qed.

Lemma top_offset_cap off : top_offset s = Some off -> off < cap s.
Proof.
  unfold top_offset. destruct top_frame_ok as (fr & rest & E & Hf & _). rewrite E. intros H. inversion H; subst. exact Hf.
Qed.

Lemma pv_i_5 ip : ipok (ip + 8) -> res_ok s (i_5 P 5 ip0 ip s).
Proof. intros Hip. unfold i_5. destruct (read_le _ _ _); [|exact I]. apply pv_push_next; auto. exact I. Qed.
Lemma pv_i_6 ip : ipok (ip + 8) -> res_ok s (i_6 P 6 ip0 ip s).
Proof. intros Hip. unfold i_6. destruct (read_le _ _ _); [|exact I]. apply pv_push_next; auto. exact I. Qed.

Lemma pv_alloc_push ip o : ipok ip -> obj_closed (st_heap s) o ->
  res_ok s (let '(s1, a) := salloc s o in push_next ip s1 (VObj a)).
Proof.
  intros Hip Ho. destruct (salloc s o) as [s1 a] eqn:E.
  destruct (inv_salloc P start _ _ _ _ E Hi Ho) as (I1 & Hh & Ha & Hca & _).
  apply (res_ok_mono s s1); [rewrite Hh, app_length; lia|].
  apply pv_push_next; [exact I1 | rewrite Hca; exact Hc | exact Hip |].
  cbn [val_ok]. rewrite Hh, Ha, hget_app_new. discriminate.
Qed.

Lemma pv_i_8 ip : ipok (ip + 4) -> res_ok s (i_8 P 8 ip0 ip s).
Proof.
  intros Hip. unfold i_8. destruct (op_u32 P ip); [|exact I]. cbv zeta.
  destruct (read_str _ _); try exact I; [|apply st_ok_refl; exact Hi].
  apply pv_alloc_push; [exact Hip | exact I].
Qed.
Lemma pv_i_38 ip : ipok (ip + 4) -> res_ok s (i_38 P 38 ip0 ip s).
Proof.
  intros Hip. unfold i_38. destruct (op_u32 P ip); [|exact I]. cbv zeta.
  destruct (read_str _ _); try exact I; [|apply st_ok_refl; exact Hi].
  apply pv_alloc_push; [exact Hip | exact I].
Qed.
Lemma pv_i_31 ip : ipok ip -> res_ok s (i_31 31 ip0 ip s).
Proof. intros Hip. unfold i_31. apply pv_alloc_push; [exact Hip|]. intros v Hv. destruct (empty_mentions v Hv). Qed.
Lemma pv_i_37_42 k ip : ipok (ip + 8) -> res_ok s (i_37_42 P k ip0 ip s).
Proof.
  intros Hip. unfold i_37_42. destruct (op_u32 P ip); [|exact I]. destruct (op_u32 P (ip + 4)); [|exact I]. cbv zeta.
  apply pv_alloc_push; [exact Hip|]. destruct (k =? 37)%N; [exact I | intros ua []].
Qed.

Lemma pv_i_16 ip : ipok ip -> res_ok s (SNext ip (fst (spop s))).
Proof.
  intros Hip. destruct (spop s) as [s1 v] eqn:E. destruct (inv_spop P start _ _ _ E Hi) as (I1 & _ & Hh & Hca & _).
  cbn [fst res_ok]. split; [split; [exact I1 | rewrite Hh; lia] | split; [rewrite Hca; exact Hc | exact Hip]].
Qed.

Lemma pv_i_17 ip : ipok (ip + 4) -> res_ok s (i_17 P 17 ip0 ip s).
Proof.
  intros Hip. unfold i_17. destruct (op_u32 P ip) as [id|]; [|exact I].
  destruct (spop s) as [s1 v] eqn:E. destruct (inv_spop P start _ _ _ E Hi) as (I1 & Hv & Hh & Hca & _).
  cbv zeta. cbn [res_ok]. split; [split|split]; [| cbn [set_globals st_heap]; rewrite Hh; lia | cbn [set_globals st_calls]; rewrite Hca; exact Hc | exact Hip].
  apply inv_set_globals; [exact I1|]. intros w Hw. apply in_upd in Hw. destruct Hw as [Hw|Hw]; [inversion Hw; subst; exact Hv|].
  apply (vi_globals P start s1 I1).
  destruct (length (st_globals s1) <=? N.to_nat id); [|exact Hw].
  apply in_app_or in Hw. destruct Hw as [Hw|Hw]; [exact Hw|]. apply repeat_spec in Hw. discriminate.
Qed.

Lemma pv_i_18 ip : ipok (ip + 4) -> res_ok s (i_18 P 18 ip0 ip s).
Proof.
  intros Hip. unfold i_18. destruct (op_u32 P ip) as [id|]; [|exact I]. cbv zeta.
  destruct (nth_error (st_globals s) (N.to_nat id)) as [[v|]|] eqn:E; try (apply st_ok_refl; exact Hi).
  apply pv_push_next; auto. apply (vi_globals P start s Hi). eapply nth_error_In; eauto.
Qed.

Lemma pv_i_19 ip : ipok (ip + 4) -> res_ok s (i_19 P 19 ip0 ip s).
Proof.
  intros Hip. unfold i_19. destruct (op_u32 P ip) as [hd|]; [|exact I]. cbv zeta.
  destruct (top_offset s) as [off|]; [|exact I].
  destruct (spop_w_offset s off) as [s1 v] eqn:E.
  destruct (inv_spop_w_offset P start _ _ _ _ E Hi) as (I1 & Hv & Hh & Hca & _).
  apply (res_ok_mono s s1); [rewrite Hh; lia|].
  destruct (write_local s1 off hd v) as [s2|] eqn:E2; cbn [res_ok]; [|apply st_ok_refl; exact I1].
  destruct (inv_write_local P start _ _ _ _ _ E2 I1 Hv) as (I2 & Hh2 & Hca2 & _).
  split; [split; [exact I2 | rewrite Hh2; lia] | split; [rewrite Hca2, Hca; exact Hc | exact Hip]].
Qed.

Lemma pv_i_20 ip : ipok (ip + 4) -> res_ok s (i_20 P 20 ip0 ip s).
Proof.
  intros Hip. unfold i_20. destruct (op_u32 P ip) as [hd|]; [|exact I]. cbv zeta.
  destruct (top_offset s) as [off|]; [|exact I].
  apply pv_push_next; auto. apply sget_ok. apply (vi_closed P start s Hi).
Qed.

Lemma pv_i_21 ip : ipok ip -> res_ok s (i_21 21 ip0 ip s).
Proof.
  intros Hip. unfold i_21. destruct (top_offset s) as [off|] eqn:Eo; [|exact I].
  destruct (sclear_until s off) as [s1 v] eqn:E.
  destruct (inv_sclear_until P start _ _ _ _ E Hi (top_offset_cap off Eo)) as (I1 & _ & Hh & Hca & _).
  cbn [fst res_ok]. split; [split; [exact I1 | rewrite Hh; lia] | split; [rewrite Hca; exact Hc | exact Hip]].
Qed.

Lemma pv_i_22 ip : res_ok s (i_22 22 ip0 ip s).
Proof.
  unfold i_22. destruct (st_calls s) as [|fr rest] eqn:Ec; [apply st_ok_refl; exact Hi|]. cbv zeta.
  assert (Hfr : frame_ok s fr) by (apply (vi_frames P start s Hi); rewrite Ec; left; reflexivity).
  assert (I0 : vm_inv0 (set_calls s rest)).
  { apply inv_set_calls; [exact Hi|]. intros f Hf. apply (vi_frames P start s Hi). rewrite Ec. right; exact Hf. }
  pose proof (close_upvalues_from_inv P start (N.to_nat (fr_off fr)) (set_calls s rest) I0) as Hcl.
  destruct (close_upvalues_from _ _) as [s2|e s2|]; [| |exact I].
  - destruct Hcl as (I2 & Hca2 & Hl2 & Hs2). cbn [set_calls st_calls st_heap st_stack] in Hca2, Hl2, Hs2.
    destruct (sclear_until s2 (N.to_nat (fr_off fr))) as [s3 v] eqn:E3.
    assert (Hoff : N.to_nat (fr_off fr) < cap s2) by (unfold cap; rewrite Hs2; apply Hfr).
    destruct (inv_sclear_until P start _ _ _ _ E3 I2 Hoff) as (I3 & Hv & Hh3 & Hca3 & _).
    destruct rest as [|prev rest'].
    + cbn [res_ok]. split; [exact I3 | rewrite Hh3; lia].
    + apply (res_ok_mono s s3); [rewrite Hh3; lia|].
      apply pv_push_next; [exact I3 | rewrite Hca3, Hca2; discriminate | | exact Hv].
      assert (Hp : frame_ok s prev) by (apply (vi_frames P start s Hi); rewrite Ec; right; left; reflexivity).
      apply Hp.
  - destruct Hcl as (I2 & _ & Hl2 & _). cbn [res_ok set_calls st_heap] in *. split; [exact I2 | lia].
Qed.

Lemma pv_i_23 ip : ipok ip -> res_ok s (i_23 23 ip0 ip s).
Proof.
  intros Hip. unfold i_23.
  destruct (spop s) as [s1 b] eqn:E1. destruct (spop s1) as [s2 a] eqn:E2.
  destruct (inv_spop P start _ _ _ E1 Hi) as (I1 & Vb & Hh1 & Hc1 & _).
  destruct (inv_spop P start _ _ _ E2 I1) as (I2 & Va & Hh2 & Hc2 & _).
  destruct (spush s2 b) as [s3|] eqn:E3; [|exact I].
  rewrite <- Hh2 in Vb.
  destruct (inv_spush P start _ _ _ E3 I2 Vb) as (I3 & Hh3 & Hc3 & _).
  destruct (spush s3 a) as [s4|] eqn:E4; [|exact I].
  rewrite <- Hh3 in Va.
  destruct (inv_spush P start _ _ _ E4 I3 Va) as (I4 & Hh4 & Hc4 & _).
  cbn [res_ok]. split; [split; [exact I4 | rewrite Hh4, Hh3, Hh2, Hh1; lia] | split; [|exact Hip]].
  rewrite Hc4, Hc3, Hc2, Hc1. exact Hc.
Qed.

Lemma pv_i_27 ip : ipok ip -> res_ok s (i_27 F 27 ip0 ip s).
Proof.
  intros Hip. unfold i_27. destruct (spop s) as [s1 v] eqn:E. destruct (inv_spop P start _ _ _ E Hi) as (I1 & _ & Hh & Hca & _).
  destruct (as_bool F (st_heap s1) v); [|exact I].
  apply (res_ok_mono s s1); [rewrite Hh; lia|]. apply pv_push_next; [exact I1 | rewrite Hca; exact Hc | exact Hip | exact I].
Qed.

Lemma pv_i_34 ip : ipok ip -> res_ok s (i_34 34 ip0 ip s).
Proof.
  intros Hip. unfold i_34. destruct (spop s) as [s1 v] eqn:E. destruct (inv_spop P start _ _ _ E Hi) as (I1 & _ & Hh & Hca & _).
  apply (res_ok_mono s s1); [rewrite Hh; lia|].
  destruct v; [| | |destruct (vobj_len (st_heap s1) a); [|exact I]];
    (apply pv_push_next; [exact I1 | rewrite Hca; exact Hc | exact Hip | exact I]).
Qed.

(* jumps *)
Lemma jump_target_ok raw t : start ip0 -> (ip0 < code_len P)%N -> In (opcode_at P ip0) [28; 29; 30]%N ->
  op_u32 P (ip0 + 1) = Some raw -> jump_target bld raw = JTo t -> ipok t.
Proof.
  intros Hs Hl Hin Eraw Et. destruct (co_jump P start Hcode ip0 Hs Hl Hin raw Eraw) as [Hnn Hok].
  unfold jump_target in Et. cbv zeta in Et. destruct (Z.ltb_spec (u32_to_i32 raw) 0); [lia|]. inversion Et; subst. exact Hok.
Qed.

Lemma pv_i_28 : start ip0 -> (ip0 < code_len P)%N -> opcode_at P ip0 = 28%N -> res_ok s (i_28 bld P 28 ip0 (ip0 + 1) s).
Proof.
  intros Hs Hl Hop. unfold i_28. destruct (op_u32 P (ip0 + 1)) as [raw|] eqn:Eraw; [|exact I].
  destruct (jump_target bld raw) as [t|] eqn:Et; [|exact I]. cbn [res_ok].
  split; [apply st_ok_refl; exact Hi | split; [exact Hc|]].
  eapply jump_target_ok; eauto. rewrite Hop. cbn [In]. tauto.
Qed.

Lemma pv_i_29_30 k : start ip0 -> (ip0 < code_len P)%N -> opcode_at P ip0 = k -> In k [29; 30]%N ->
  ipok (ip0 + 1 + 4) -> res_ok s (i_29_30 F bld P k ip0 (ip0 + 1) s).
Proof.
  intros Hs Hl Hop Hin Hip. unfold i_29_30.
  destruct (spop s) as [s1 c] eqn:E. destruct (inv_spop P start _ _ _ E Hi) as (I1 & _ & Hh & Hca & _).
  destruct (op_u32 P (ip0 + 1)) as [raw|] eqn:Eraw; [|exact I].
  destruct (jump_target bld raw) as [t|] eqn:Et; [|exact I].
  destruct (as_bool F (st_heap s1) c); [|exact I]. cbn [res_ok].
  split; [split; [exact I1 | rewrite Hh; lia] | split; [rewrite Hca; exact Hc|]].
  assert (Ht : ipok t).
  { eapply jump_target_ok; eauto. rewrite Hop. cbn [In] in *. tauto. }
  destruct (if (k =? 29)%N then b else negb b); assumption.
Qed.

(* CallFunction *)
Lemma pv_i_11 : ipok (ip0 + 1) -> res_ok s (i_11 F P reenter 11 ip0 (ip0 + 1) s).
Proof.
  intros Hip. unfold i_11.
  destruct (spop s) as [s1 fv] eqn:E. destruct (inv_spop P start _ _ _ E Hi) as (I1 & Hfv & Hh & Hca & Hcap).
  assert (Herr : forall e, res_ok s (SErr e (ip0 + 1) s1)) by (intros e; split; [exact I1 | rewrite Hh; lia]).
  destruct fv as [| | |a]; try apply Herr.
  destruct (hget (st_heap s1) a) as [o|] eqn:Ea; [|exact I].
  assert (Hgo : forall arity label clo, (clo = None \/ exists hd ar ups, clo = Some a /\ o = OClo hd ar ups) ->
    res_ok s (match st_calls s1 with
              | [] => SStop APanic s1
              | top :: rest =>
                  let s2 := set_calls s1 (mkFrame (fr_src top) (ip0 + 1) (fr_off top) (fr_clo top) :: rest) in
                  let len := N.of_nat (scount s2) in
                  if (len <? arity)%N then SErr EMissingArgument (ip0 + 1) s2
                  else match push_frame s2 (mkFrame ip0 (ip0 + 1) (len - arity) clo) with
                       | None => SErr ECallStackOverflow (ip0 + 1) s2
                       | Some s3 => match assoc label (p_labels P) with
                                    | None => SErr (EProcedureNotFound label) (ip0 + 1) s3
                                    | Some pos => SNext pos s3
                                    end
                       end
              end)).
  { intros arity label clo Hclo. destruct (st_calls s1) as [|top rest] eqn:Ec; [exact I|]. cbv zeta.
    assert (Htop : frame_ok s1 top) by (apply (vi_frames P start s1 I1); rewrite Ec; left; reflexivity).
    set (s2 := set_calls s1 _).
    assert (I2 : vm_inv0 s2).
    { apply inv_set_calls; [exact I1|]. intros f [<-|Hf].
      - destruct Htop as (A & B & C). split; [exact A | split; [exact Hip | exact C]].
      - apply (vi_frames P start s1 I1). rewrite Ec. right; exact Hf. }
    assert (H2 : st_ok s s2) by (split; [exact I2 | cbn [s2 set_calls st_heap]; rewrite Hh; lia]).
    destruct (_ <? arity)%N; [exact H2|].
    destruct (push_frame s2 _) as [s3|] eqn:E3; [|exact H2].
    assert (Hf : frame_ok s2 (mkFrame ip0 (ip0 + 1) (N.of_nat (scount s2) - arity) clo)).
    { split; [|split; [exact Hip|]].
      - cbn [fr_off]. unfold scount, s2. cbn [set_calls st_stack]. destruct (vi_stack P start s1 I1) as [A _].
        unfold cap in *. cbn [set_calls st_stack]. lia.
      - intros ca Eca. cbn [fr_clo] in Eca. destruct Hclo as [->|(hd & ar & ups & -> & ->)]; [discriminate|].
        inversion Eca; subst. cbn [s2 set_calls st_heap]. eauto. }
    destruct (inv_push_frame P start _ _ _ E3 I2 Hf) as (I3 & Hh3 & Hc3 & _).
    assert (H3 : st_ok s s3) by (split; [exact I3 | rewrite Hh3; cbn [s2 set_calls st_heap]; rewrite Hh; lia]).
    destruct (assoc label (p_labels P)) as [pos|] eqn:El; [|exact H3].
    cbn [res_ok]. split; [exact H3 | split; [rewrite Hc3; discriminate|]].
    eapply (co_labels P start Hcode); eauto. }
  destruct o; cbv zeta; try apply Herr.
  - apply Hgo. left; reflexivity.
  - apply (res_ok_mono s s1); [rewrite Hh; lia|]. apply native_pres; [split; [exact I1 | rewrite Hca; exact Hc] | exact Hip | exact Hh | exists a; rewrite <- Hh; exact Ea].
  - apply Hgo. right. eauto 6.
Qed.

(* ---- tables ---- *)
Lemma table_mentions_ok h a t v : heap_closed h -> hget h a = Some (OTable t) -> tmentions t v -> val_ok h v.
Proof. intros Hhc Ha Hv. apply (Hhc a _ Ha). exact Hv. Qed.

Lemma get_table_some h v a t : get_table h v = TblOk a t -> hget h a = Some (OTable t).
Proof.
  destruct v as [| | |b]; cbn [get_table]; try discriminate. destruct (hget h b) as [[]|] eqn:E; try discriminate.
  intros H. inversion H; subst. exact E.
Qed.

Lemma pv_i_32 ip : ipok ip -> res_ok s (i_32 F 32 ip0 ip s).
Proof.
  intros Hip. unfold i_32.
  destruct (spop s) as [s1 key] eqn:E1. destruct (spop s1) as [s2 inst] eqn:E2.
  destruct (inv_spop P start _ _ _ E1 Hi) as (I1 & _ & Hh1 & Hc1 & _).
  destruct (inv_spop P start _ _ _ E2 I1) as (I2 & _ & Hh2 & Hc2 & _).
  apply (res_ok_mono s s2); [rewrite Hh2, Hh1; lia|].
  destruct (get_table (st_heap s2) inst) as [a t| |] eqn:Eg; [|apply st_ok_refl; exact I2|exact I].
  apply get_table_some in Eg.
  destruct (tget _ t key) as [r|] eqn:Et; [|exact I].
  apply pv_push_next; [exact I2 | rewrite Hc2, Hc1; exact Hc | exact Hip |].
  destruct r as [v|]; [|exact I]. eapply table_mentions_ok; [apply (vi_heap P start s2 I2) | exact Eg | eapply tget_mentions; eauto].
Qed.

Lemma pv_i_33 ip : ipok ip -> res_ok s (i_33 F 33 ip0 ip s).
Proof.
  intros Hip. unfold i_33. cbv zeta. pose proof (inv_spop_n P start s 3 Hi) as I3.
  set (s3 := spop_n s 3) in *. change (st_heap s3) with (st_heap s).
  destruct (get_table (st_heap s) (speek s 1)) as [a t| |] eqn:Eg; [|split; [exact I3 | apply Nat.le_refl]|exact I].
  apply get_table_some in Eg.
  destruct (tinsert _ t (speek s 0) (speek s 2)) as [t'|] eqn:Et; [|exact I]. cbn [res_ok].
  split; [split; [|cbn [set_table set_heap st_heap]; rewrite hset_length; change (st_heap s3) with (st_heap s); lia] | split; [exact Hc | exact Hip]].
  apply (inv_set_table P start s3 a t t' I3 Eg). intros v Hv.
  destruct (tinsert_mentions _ _ _ _ _ Et v Hv) as [H|[->| ->]].
  - eapply table_mentions_ok; [apply (vi_heap P start s Hi) | exact Eg | exact H].
  - exact (speek_ok s 0 (vi_closed P start s Hi)).
  - exact (speek_ok s 2 (vi_closed P start s Hi)).
Qed.

Lemma pv_i_40 ip : ipok ip -> res_ok s (i_40 F 40 ip0 ip s).
Proof.
  intros Hip. unfold i_40. cbv zeta. pose proof (inv_spop_n P start s 2 Hi) as I2.
  set (s2 := spop_n s 2) in *. change (st_heap s2) with (st_heap s).
  destruct (get_table (st_heap s) (speek s 0)) as [a t| |] eqn:Eg; [|split; [exact I2 | apply Nat.le_refl]|exact I].
  apply get_table_some in Eg.
  destruct (tappend _ t (speek s 1)) as [t'| |] eqn:Et; try exact I. cbn [res_ok].
  split; [split; [|cbn [set_table set_heap st_heap]; rewrite hset_length; change (st_heap s2) with (st_heap s); lia] | split; [exact Hc | exact Hip]].
  apply (inv_set_table P start s2 a t t' I2 Eg). intros v Hv.
  unfold tappend in Et. destruct (tappend_idx _ _ _ _) as [[i|]|]; try discriminate.
  destruct (tinsert _ t (VInt i) (speek s 1)) as [t''|] eqn:Et2; inversion Et; subst.
  destruct (tinsert_mentions _ _ _ _ _ Et2 v Hv) as [H|[->| ->]].
  - eapply table_mentions_ok; [apply (vi_heap P start s Hi) | exact Eg | exact H].
  - exact I.
  - exact (speek_ok s 1 (vi_closed P start s Hi)).
Qed.

Lemma pv_i_41 ip : ipok ip -> res_ok s (i_41 F 41 ip0 ip s).
Proof.
  intros Hip. unfold i_41.
  destruct (spop s) as [s1 inst] eqn:E1.
  destruct (inv_spop P start _ _ _ E1 Hi) as (I1 & _ & Hh1 & Hc1 & _).
  apply (res_ok_mono s s1); [rewrite Hh1; lia|].
  destruct (get_table (st_heap s1) inst) as [a t| |] eqn:Eg; [|apply st_ok_refl; exact I1|exact I].
  apply get_table_some in Eg.
  destruct (tpop _ t) as [[t' v]|] eqn:Et; [|exact I].
  destruct (tpop_mentions _ _ _ _ Et) as [Hm Hv].
  assert (I2 : vm_inv0 (set_table s1 a t')).
  { apply (inv_set_table P start s1 a t t' I1 Eg). intros w Hw.
    eapply table_mentions_ok; [apply (vi_heap P start s1 I1) | exact Eg | apply Hm; exact Hw]. }
  apply (res_ok_mono s1 (set_table s1 a t')); [cbn [set_table set_heap st_heap]; rewrite hset_length; lia|].
  apply pv_push_next; [exact I2 | rewrite <- Hc1 in Hc; exact Hc | exact Hip |].
  cbn [set_table set_heap st_heap]. apply (val_ok_len (st_heap s1)); [rewrite hset_length; apply Nat.le_refl|].
  destruct Hv as [->|Hv]; [exact I|]. eapply table_mentions_ok; [apply (vi_heap P start s1 I1) | exact Eg | exact Hv].
Qed.

(* a chain of write_local *)
Lemma pv_write_local_chain (k : state -> sres) ip s1 off hd v :
  vm_inv0 s1 -> val_ok (st_heap s1) v ->
  (forall s2, vm_inv0 s2 -> st_heap s2 = st_heap s1 -> st_calls s2 = st_calls s1 -> res_ok s1 (k s2)) ->
  res_ok s1 (match write_local s1 off hd v with Some s2 => k s2 | None => SErr (EVarNotFound None) ip s1 end).
Proof.
  intros I1 Hv Hk. destruct (write_local s1 off hd v) as [s2|] eqn:E; [|apply st_ok_refl; exact I1].
  destruct (inv_write_local P start _ _ _ _ _ E I1 Hv) as (I2 & Hh & Hca & _). apply Hk; assumption.
Qed.

Lemma pv_i_35 ip : ipok (ip + 8 + 12) -> res_ok s (i_35 P 35 ip0 ip s).
Proof.
  intros Hip. unfold i_35. destruct (op_u32 P ip) as [i_h|]; [|exact I]. destruct (op_u32 P (ip + 4)) as [t_h|]; [|exact I].
  cbv zeta. destruct (get_table (st_heap s) (slast s)) as [a t| |]; [|apply st_ok_refl; exact Hi|exact I].
  destruct (top_offset s) as [off|]; [|exact I].
  assert (Hlast : val_ok (st_heap s) (slast s)) by (apply vs_last_ok; apply (vi_closed P start s Hi)).
  apply pv_write_local_chain; [exact Hi | exact I|]. intros s1 I1 Hh1 Hc1.
  apply (res_ok_mono s s1); [rewrite Hh1; lia|].
  apply pv_write_local_chain; [exact I1 | rewrite Hh1; exact Hlast|]. intros s2 I2 Hh2 Hc2.
  destruct (op_u32 P (ip + 8)); [|exact I]. destruct (op_u32 P (ip + 8 + 4)); [|exact I].
  destruct (op_u32 P (ip + 8 + 8)); [|exact I].
  apply (res_ok_mono s1 s2); [rewrite Hh2; lia|].
  apply pv_write_local_chain; [exact I2 | exact I|]. intros s3 I3 Hh3 Hc3.
  apply (res_ok_mono s2 s3); [rewrite Hh3; lia|].
  apply pv_write_local_chain; [exact I3 | exact I|]. intros s4 I4 Hh4 Hc4.
  apply (res_ok_mono s3 s4); [rewrite Hh4; lia|].
  apply pv_write_local_chain; [exact I4 | exact I|]. intros s5 I5 Hh5 Hc5.
  cbn [res_ok]. split; [split; [exact I5 | rewrite Hh5; lia] | split; [|exact Hip]].
  rewrite Hc5, Hc4, Hc3, Hc2, Hc1. exact Hc.
Qed.

Lemma pv_i_36 ip : ipok (ip + 20) -> res_ok s (i_36 F bld P 36 ip0 ip s).
Proof.
  intros Hip. unfold i_36.
  destruct (op_u32 P ip) as [lv|]; [|exact I]. destruct (op_u32 P (ip + 4)) as [t_h|]; [|exact I].
  destruct (op_u32 P (ip + 8)) as [i_h|]; [|exact I]. destruct (op_u32 P (ip + 12)) as [k_h|]; [|exact I].
  destruct (op_u32 P (ip + 16)) as [v_h|]; [|exact I]. cbv zeta.
  destruct (top_offset s) as [off|]; [|exact I].
  destruct (to_i64 F (st_heap s) _) as [i|]; [|exact I].
  destruct (get_table (st_heap s) _) as [a t| |] eqn:Eg; [|apply st_ok_refl; exact Hi|exact I].
  apply get_table_some in Eg.
  destruct (_ && _); [exact I|].
  destruct ((0 <=? i)%Z && _); [|apply pv_push_next; auto; exact I].
  destruct (tget _ t _) as [r|] eqn:Et; [|exact I].
  assert (Hkey : val_ok (st_heap s) (tnth_key t (Z.to_nat i))).
  { destruct (tnth_key_mentions t (Z.to_nat i)) as [-> | H]; [exact I|].
    eapply table_mentions_ok; [apply (vi_heap P start s Hi) | exact Eg | exact H]. }
  apply pv_write_local_chain; [exact Hi | |]. 
  { destruct r as [v|]; [|exact I]. eapply table_mentions_ok; [apply (vi_heap P start s Hi) | exact Eg | eapply tget_mentions; eauto]. }
  intros s1 I1 Hh1 Hc1. apply (res_ok_mono s s1); [rewrite Hh1; lia|].
  apply pv_write_local_chain; [exact I1 | rewrite Hh1; exact Hkey|]. intros s2 I2 Hh2 Hc2.
  apply (res_ok_mono s1 s2); [rewrite Hh2; lia|].
  apply pv_write_local_chain; [exact I2 | exact I|]. intros s3 I3 Hh3 Hc3.
  destruct (i64_result _); [|exact I].
  apply (res_ok_mono s2 s3); [rewrite Hh3; lia|].
  apply pv_write_local_chain; [exact I3 | exact I|]. intros s4 I4 Hh4 Hc4.
  apply (res_ok_mono s3 s4); [rewrite Hh4; lia|].
  apply pv_push_next; [exact I4 | | exact Hip | exact I]. rewrite Hc4, Hc3, Hc2, Hc1. exact Hc.
Qed.

Lemma pv_i_39 ip : ipok ip -> res_ok s (i_39 F 39 ip0 ip s).
Proof.
  intros Hip. unfold i_39. cbv zeta. pose proof (inv_spop_n P start s 2 Hi) as I2.
  set (s2 := spop_n s 2) in *. change (st_heap s2) with (st_heap s).
  assert (Hs2 : st_ok s s2) by (split; [exact I2 | apply Nat.le_refl]).
  destruct (get_table (st_heap s) (speek s 1)) as [a t| |] eqn:Eg; [|exact Hs2|exact I].
  apply get_table_some in Eg.
  destruct (speek s 0) as [|i| |]; try exact Hs2.
  destruct (i <? 0)%Z; [exact Hs2|].
  set (inside := (i <? Z.of_nat (length (tkeys t)))%Z).
  set (key := if inside then tnth_key t (Z.to_nat i) else VNil).
  assert (Hkey : val_ok (st_heap s) key).
  { unfold key. destruct inside; [|exact I]. destruct (tnth_key_mentions t (Z.to_nat i)) as [-> | H]; [exact I|].
    eapply table_mentions_ok; [apply (vi_heap P start s Hi) | exact Eg | exact H]. }
  destruct (if inside then tget (veq0 F (st_heap s)) t key else Some None) as [r|] eqn:Er; [|exact I].
  set (val := match r with Some v => v | None => VNil end).
  assert (Hval : val_ok (st_heap s) val).
  { unfold val. destruct r as [v|]; [|exact I]. destruct inside; [|discriminate].
    eapply table_mentions_ok; [apply (vi_heap P start s Hi) | exact Eg | eapply tget_mentions; eauto]. }
  destruct (salloc s2 (OTable (mkTable [] []))) as [s3 row] eqn:E3.
  destruct (inv_salloc P start _ _ _ _ E3 I2) as (I3 & Hh3 & Hrow & Hc3 & _); [intros v Hv; destruct (empty_mentions v Hv)|].
  destruct (salloc s3 (OStr str_key)) as [s4 ka] eqn:E4.
  destruct (inv_salloc P start _ _ _ _ E4 I3 I) as (I4 & Hh4 & Hka & Hc4 & _).
  destruct (salloc s4 (OStr str_value)) as [s5 va] eqn:E5.
  destruct (inv_salloc P start _ _ _ _ E5 I4 I) as (I5 & Hh5 & Hva & Hc5 & _).
  change (st_heap s2) with (st_heap s) in *.
  assert (Hlen : length (st_heap s) <= length (st_heap s5)) by (rewrite Hh5, Hh4, Hh3, !app_length; lia).
  destruct (tinsert _ (mkTable [] []) (VObj ka) key) as [t1|] eqn:T1; [|exact I].
  destruct (tinsert _ t1 (VObj va) val) as [t2|] eqn:T2; [|exact I].
  assert (R3 : hget (st_heap s3) row = Some (OTable (mkTable [] []))) by (rewrite Hh3, Hrow; apply hget_app_new).
  assert (R4 : hget (st_heap s4) row = Some (OTable (mkTable [] []))).
  { rewrite Hh4, hget_app_old; [exact R3 | rewrite R3; discriminate]. }
  assert (Hrow5 : hget (st_heap s5) row = Some (OTable (mkTable [] []))).
  { rewrite Hh5, hget_app_old; [exact R4 | rewrite R4; discriminate]. }
  assert (K4 : hget (st_heap s4) ka = Some (OStr str_key)) by (rewrite Hh4, Hka; apply hget_app_new).
  assert (Hka5 : val_ok (st_heap s5) (VObj ka)).
  { cbn [val_ok]. rewrite Hh5, hget_app_old; rewrite K4; discriminate. }
  assert (Hva5 : val_ok (st_heap s5) (VObj va)) by (cbn [val_ok]; rewrite Hh5, Hva, hget_app_new; discriminate).
  assert (I6 : vm_inv0 (set_table s5 row t2)).
  { apply (inv_set_table P start s5 row _ t2 I5 Hrow5). intros v Hv.
    destruct (tinsert_mentions _ _ _ _ _ T2 v Hv) as [H|[->| ->]]; [| exact Hva5 | eapply val_ok_len; eauto].
    destruct (tinsert_mentions _ _ _ _ _ T1 v H) as [H1|[->| ->]]; [destruct (empty_mentions v H1) | exact Hka5 | eapply val_ok_len; eauto]. }
  apply (res_ok_mono s (set_table s5 row t2)); [cbn [set_table set_heap st_heap]; rewrite hset_length; exact Hlen|].
  apply pv_push_next; [exact I6 | | exact Hip |].
  - cbn [set_table set_heap st_calls]. rewrite Hc5, Hc4, Hc3. exact Hc.
  - cbn [val_ok set_table set_heap st_heap]. rewrite hget_hset_same; congruence.
Qed.

(* ---- upvalues ---- *)
Lemma pv_i_43_44 k ip : ipok (ip + 4) -> res_ok s (i_43_44 P k ip0 ip s).
Proof.
  intros Hip. unfold i_43_44. destruct (op_u32 P ip) as [idx|]; [|exact I]. cbv zeta.
  assert (Hs1 : forall s1 wv, (if (k =? 43)%N then spop s else (s, VNil)) = (s1, wv) ->
            vm_inv0 s1 /\ val_ok (st_heap s1) wv /\ st_heap s1 = st_heap s /\ st_calls s1 = st_calls s).
  { intros s1 wv E. destruct (k =? 43)%N.
    - destruct (inv_spop P start _ _ _ E Hi) as (A & B & C & D & _). auto.
    - inversion E; subst. splits; auto. exact I. }
  destruct (if (k =? 43)%N then spop s else (s, VNil)) as [s1 wv] eqn:E1.
  destruct (Hs1 s1 wv eq_refl) as (I1 & Hwv & Hh & Hca).
  apply (res_ok_mono s s1); [rewrite Hh; lia|].
  assert (H1 : st_ok s1 s1) by (apply st_ok_refl; exact I1).
  destruct (st_calls s1) as [|fr rest] eqn:Ec; [exact I|].
  assert (Hc1 : st_calls s1 <> []) by (rewrite Ec; discriminate).
  destruct (fr_clo fr) as [ca|]; [|exact H1].
  destruct (hget (st_heap s1) ca) as [[| | | |hd ar ups|]|] eqn:Eca; try exact I.
  destruct (nth_error ups (N.to_nat idx)) as [ua|]; [|exact H1].
  destruct (hget (st_heap s1) ua) as [o|] eqn:Eua; [|exact I].
  destruct o as [| | | | |u]; try exact H1.
  destruct (k =? 43)%N.
  - destruct (u_loc u) as [l|] eqn:El; cbn [res_ok].
    + split; [split; [apply inv_sraw_set; assumption | apply Nat.le_refl] | split; [exact Hc1 | exact Hip]].
    + split; [split; [|cbn [set_heap st_heap]; rewrite hset_length; apply Nat.le_refl] | split; [exact Hc1 | exact Hip]].
      apply (inv_hset P start s1 ua (OUp u)); [exact I1 | exact Eua | exact Hwv | intros; discriminate |].
      intros u0 loc E0 El0. inversion E0; subst. congruence.
  - apply pv_push_next; [exact I1 | exact Hc1 | exact Hip |].
    destruct (u_loc u); [apply sraw_get_ok; apply (vi_closed P start s1 I1) | apply (vi_heap P start s1 I1 ua _ Eua)].
Qed.

Lemma pv_i_46 ip : ipok (ip + 4) -> res_ok s (i_46 P 46 ip0 ip s).
Proof.
  intros Hip. unfold i_46. destruct (op_u32 P ip) as [idx|]; [|exact I]. cbv zeta.
  destruct (top_offset s) as [off|]; [|exact I].
  pose proof (close_upvalues_from_inv P start (off + N.to_nat idx) s Hi) as Hcl.
  destruct (close_upvalues_from _ _) as [s1|e s1|]; [| |exact I]; destruct Hcl as (I1 & Hca & Hl & _); cbn [res_ok].
  - split; [split; [exact I1 | lia] | split; [rewrite Hca; exact Hc | exact Hip]].
  - split; [exact I1 | lia].
Qed.

(* ---- RegisterUpvalue: a new node is linked into the open list ---- *)
End Instr.

Inductive open_seg (h : heap) : option N -> list N -> option N -> Prop :=
| os_nil o : open_seg h o [] o
| os_cons a u l loc o' : hget h a = Some (OUp u) -> u_loc u = Some loc -> open_seg h (u_next u) l o' ->
                         open_seg h (Some a) (a :: l) o'.

Lemma seg_chain_app h o l1 o' l2 : open_seg h o l1 o' -> open_chain h o' l2 -> open_chain h o (l1 ++ l2).
Proof. induction 1; intros H2; cbn [app]; [exact H2|]. econstructor; eauto. Qed.

Lemma seg_snoc h o l pa pu loc : open_seg h o l (Some pa) -> hget h pa = Some (OUp pu) -> u_loc pu = Some loc ->
  open_seg h o (l ++ [pa]) (u_next pu).
Proof.
  intros H Hp Hl. remember (Some pa) as o' eqn:Eo. induction H; subst; cbn [app].
  - econstructor; eauto. constructor.
  - econstructor; eauto.
Qed.

Lemma seg_snoc_inv h : forall l o pa o', open_seg h o (l ++ [pa]) o' ->
  exists pu loc, open_seg h o l (Some pa) /\ hget h pa = Some (OUp pu) /\ u_loc pu = Some loc /\ u_next pu = o'.
Proof.
  induction l as [|x l IH]; intros o pa o' H; cbn [app] in H.
  - inversion H as [|a u l' loc o2 Ha Hl Hs]; subst. inversion Hs; subst. exists u, loc. repeat split; auto. constructor.
  - inversion H as [|a u l' loc o2 Ha Hl Hs]; subst. destruct (IH _ _ _ Hs) as (pu & lc & A & B & C & D).
    exists pu, lc. repeat split; auto. econstructor; eauto.
Qed.

Lemma open_seg_hset h o l o' a x : open_seg h o l o' -> ~ In a l -> open_seg (hset h a x) o l o'.
Proof.
  induction 1 as [|b u l loc o2 Hb Hloc Hs IH]; intros Hn; [constructor|].
  econstructor; [| exact Hloc |].
  - rewrite hget_hset_other; [exact Hb|]. intros ->. apply Hn. left; reflexivity.
  - apply IH. intros Hin. apply Hn. right; exact Hin.
Qed.
Lemma open_seg_app h o l o' x : open_seg h o l o' -> open_seg (h ++ x) o l o'.
Proof.
  induction 1 as [|b u l loc o2 Hb Hloc Hs IH]; [constructor|].
  econstructor; [| exact Hloc | exact IH]. rewrite hget_app_old; [exact Hb | congruence].
Qed.

Lemma walk_open_spec h loc : forall fuel prev cur l prev' cur',
  open_chain h cur l -> walk_open fuel h loc prev cur = WOk prev' cur' ->
  exists l1 l2, l = l1 ++ l2 /\ open_seg h cur l1 cur' /\ open_chain h cur' l2 /\ (l1 = [] /\ prev' = prev \/ exists l0 pa, l1 = l0 ++ [pa] /\ prev' = Some pa).
Proof.
  induction fuel as [|f IH]; intros prev cur l prev' cur' Hch Hw; cbn [walk_open] in Hw; [discriminate|].
  inversion Hch as [Ho|a u l' lc Ha Hlc Hch' Ho Hl]; subst.
  - inversion Hw; subst. exists [], []. split; [reflexivity|]. split; [constructor|]. split; [constructor|]. left; auto.
  - rewrite Ha, Hlc in Hw. destruct (lc <=? loc).
    + inversion Hw; subst. exists [], (a :: l'). split; [reflexivity|]. split; [constructor|]. split; [exact Hch|]. left; auto.
    + destruct (IH _ _ _ _ _ Hch' Hw) as (l1 & l2 & -> & Hs & Hc2 & Hd).
      exists (a :: l1), l2. split; [reflexivity|]. split; [econstructor; eauto|]. split; [exact Hc2|].
      right. destruct Hd as [[-> ->]|(l0 & pa & -> & ->)]; [exists [], a | exists (a :: l0), pa]; auto.
Qed.

Lemma nodup_insert {A} (l0 : list A) x y r : NoDup (l0 ++ x :: r) -> ~ In y (l0 ++ x :: r) -> NoDup (l0 ++ x :: y :: r).
Proof.
  induction l0 as [|a l0 IH]; cbn [app]; intros Hnd Hy.
  - inversion Hnd as [|x' r' Hx Hr]; subst. constructor.
    + intros [->|H]; [apply Hy; left; reflexivity | contradiction].
    + constructor; [intros H; apply Hy; right; exact H | exact Hr].
  - inversion Hnd as [|a' r' Ha Hr]; subst. constructor.
    + intros H. apply in_app_or in H. destruct H as [H|[->|[->|H]]].
      * apply Ha. apply in_or_app. left; exact H.
      * apply Ha. apply in_or_app. right; left; reflexivity.
      * apply Hy. left; reflexivity.
      * apply Ha. apply in_or_app. right; right; exact H.
    + apply IH; [exact Hr | intros H; apply Hy; right; exact H].
Qed.

Section Instr45.
Variable ip0 : N.
Variable s : state.
Hypothesis Hi : vm_inv0 s.
Hypothesis Hc : st_calls s <> [].

(* appending a live upvalue address to the list of a closure *)
Lemma inv_clo_append s1 ca ch car cups x : vm_inv0 s1 -> hget (st_heap s1) ca = Some (OClo ch car cups) ->
  hget (st_heap s1) x <> None -> vm_inv0 (set_heap s1 (hset (st_heap s1) ca (OClo ch car (cups ++ [x])))).
Proof.
  intros I1 Eca Hx. apply (inv_hset P start s1 ca (OClo ch car cups)); [exact I1 | exact Eca | | |].
  - intros ua Hua. apply in_app_or in Hua. destruct Hua as [Hua|[<-|[]]]; [|exact Hx].
    apply (vi_heap P start s1 I1 ca _ Eca). exact Hua.
  - intros hd ar ups E. inversion E; subst. eauto.
  - intros; discriminate.
Qed.

Lemma pv_i_45 ip : ipok (ip + 2) -> res_ok s (i_45 P 45 ip0 ip s).
Proof.
  intros Hip. unfold i_45.
  destruct (read_le (p_code P) ip 1) as [index|]; [|exact I]. destruct (read_le (p_code P) (ip + 1) 1) as [is_local|]; [|exact I].
  cbv zeta. destruct (spop s) as [s1 cv] eqn:E1.
  destruct (inv_spop P start _ _ _ E1 Hi) as (I1 & _ & Hh1 & Hc1 & _).
  apply (res_ok_mono s s1); [rewrite Hh1; lia|].
  assert (H1 : st_ok s1 s1) by (apply st_ok_refl; exact I1).
  assert (Hcs : st_calls s1 <> []) by (rewrite Hc1; exact Hc).
  destruct cv as [| | |ca]; try exact H1.
  destruct (hget (st_heap s1) ca) as [[| | | |ch car cups|]|] eqn:Eca; try exact H1; try exact I.
  assert (Hdone : forall x, hget (st_heap s1) x <> None ->
            res_ok s1 (SNext (ip + 2) (set_heap s1 (hset (st_heap s1) ca (OClo ch car (cups ++ [x])))))).
  { intros x Hx. cbn [res_ok]. split; [split; [apply inv_clo_append; assumption|] | split; [exact Hcs | exact Hip]].
    cbn [set_heap st_heap]. rewrite hset_length. apply Nat.le_refl. }
  destruct (negb (is_local =? 0)%N).
  - destruct (top_offset s1) as [off|]; [|exact I].
    destruct (scount s1 <=? off + N.to_nat index); [exact H1|].
    set (loc := off + N.to_nat index).
    destruct (vi_open P start s1 I1) as (l & Hch & Hnd).
    destruct (walk_open _ (st_heap s1) loc None (st_open s1)) as [prev cur|] eqn:Ew; [|exact I].
    destruct (walk_open_spec _ _ _ _ _ _ _ _ Hch Ew) as (l1 & l2 & -> & Hseg & Hch2 & Hd).
    match goal with |- res_ok s1 (if ?c then _ else _) => destruct c eqn:Esame end.
    + destruct cur as [a|]; [|exact I]. apply Hdone.
      destruct (hget (st_heap s1) a); [discriminate | discriminate].
    + (* a new node *)
      destruct (salloc s1 (OUp (mkUp (Some loc) VNil cur))) as [s2 ua] eqn:E2.
      destruct (inv_salloc P start _ _ _ _ E2 I1 I) as (I2 & Hh2 & Hua & Hc2 & Hst2).
      assert (Hopen2 : st_open s2 = st_open s1).
      { unfold salloc, halloc in E2. inversion E2; subst. reflexivity. }
      assert (Hlive : forall a, In a (l1 ++ l2) -> hget (st_heap s1) a <> None) by (apply (open_chain_live _ _ _ Hch)).
      assert (Hfresh : ~ In ua (l1 ++ l2)).
      { intros Hin. apply Hlive, hget_lt in Hin. rewrite Hua, Nat2N.id in Hin. lia. }
      assert (Hua2 : hget (st_heap s2) ua = Some (OUp (mkUp (Some loc) VNil cur))) by (rewrite Hh2, Hua; apply hget_app_new).
      assert (Eca2 : hget (st_heap s2) ca = Some (OClo ch car cups)) by (rewrite Hh2, hget_app_old; [exact Eca | congruence]).
      (* the state after linking *)
      match goal with |- res_ok s1 (SNext _ (set_heap ?x _)) => set (s3 := x) end.
      assert (H3 : vm_inv0 s3 /\ hget (st_heap s3) ca = Some (OClo ch car cups) /\ hget (st_heap s3) ua <> None /\
                   length (st_heap s3) = length (st_heap s2) /\ st_calls s3 = st_calls s2).
      { clear Hua. destruct Hd as [[-> ->]|(l0 & pa & -> & ->)].
        - (* new head *)
          inversion Hseg; subst. unfold s3. splits; [| exact Eca2 | cbn [set_open st_heap]; congruence | reflexivity | reflexivity].
          apply (inv_eq P start (set_open (set_heap s2 (st_heap s2)) (Some ua))); try reflexivity.
          apply inv_heap_change; [exact I2 | apply Nat.le_refl | apply (vi_heap P start s2 I2) | intros; eauto |].
          exists (ua :: l2). split; [|constructor; [exact Hfresh | exact Hnd]].
          econstructor; [exact Hua2 | reflexivity |]. cbn [u_next]. rewrite Hh2. apply open_chain_app. exact Hch2.
        - (* linked behind pa *)
          destruct (seg_snoc_inv _ _ _ _ _ Hseg) as (pu & lc & Hs0 & Hpa & Hplc & Hpn).
          assert (Hpa2 : hget (st_heap s2) pa = Some (OUp pu)) by (rewrite Hh2, hget_app_old; [exact Hpa | congruence]).
          unfold s3. rewrite Hpa2.
          rewrite <- app_assoc in Hnd, Hfresh. cbn [app] in Hnd, Hfresh.
          assert (Hne : pa <> ua).
          { intros ->. apply Hfresh. apply in_or_app. right; left; reflexivity. }
          assert (Hpa0 : ~ In pa l0 /\ ~ In pa l2).
          { apply NoDup_remove_2 in Hnd. split; intros H; apply Hnd; apply in_or_app; [left | right]; exact H. }
          splits; cbn [set_heap st_heap st_calls];
            [| rewrite hget_hset_other; [exact Eca2 | intros ->; congruence]
             | rewrite hget_hset_other; [congruence | exact Hne]
             | apply hset_length | reflexivity ].
          apply (inv_eq P start (set_open (set_heap s2 (hset (st_heap s2) pa (OUp (mkUp (u_loc pu) (u_val pu) (Some ua)))))
                                  (st_open s2))); try reflexivity.
          apply inv_heap_change; [exact I2 | rewrite hset_length; apply Nat.le_refl | | |].
          + apply heap_closed_hset; [apply (vi_heap P start s2 I2)|]. cbn [obj_closed u_val].
            apply (vi_heap P start s2 I2 pa _ Hpa2).
          + intros x hd ar ups E. exists ups. rewrite hget_hset_other; [exact E | intros ->; congruence].
          + exists (l0 ++ pa :: ua :: l2). split; [|apply nodup_insert; assumption].
            rewrite Hopen2. apply (seg_chain_app _ _ l0 (Some pa)).
            * apply open_seg_hset; [rewrite Hh2; apply open_seg_app; exact Hs0 | apply Hpa0].
            * econstructor; [apply hget_hset_same; congruence | exact Hplc |]. cbn [u_next].
              econstructor; [rewrite hget_hset_other; [exact Hua2 | exact Hne] | reflexivity |]. cbn [u_next].
              apply open_chain_hset; [rewrite Hh2; apply open_chain_app; rewrite <- Hpn in Hch2; rewrite Hpn in *; exact Hch2 | apply Hpa0]. }
      destruct H3 as (I3 & Eca3 & Hua3 & Hl3 & Hc3).
      cbn [res_ok]. split; [split; [apply inv_clo_append; assumption|] | split; [|exact Hip]].
      * cbn [set_heap st_heap]. rewrite hset_length, Hl3, Hh2, app_length. lia.
      * cbn [set_heap st_calls]. rewrite Hc3, Hc2. exact Hcs.
  - destruct (st_calls s1) as [|fr rest] eqn:Ec; [exact I|].
    destruct (fr_clo fr) as [fa|]; [|exact I].
    destruct (hget (st_heap s1) fa) as [[| | | |fh far fups|]|] eqn:Efa; try exact I.
    destruct (nth_error fups (N.to_nat index)) as [ua|] eqn:En; [|exact I].
    assert (Hx : hget (st_heap s1) ua <> None).
    { apply (vi_heap P start s1 I1 fa _ Efa). eapply nth_error_In; eauto. }
    exact (Hdone ua Hx).
Qed.

End Instr45.
End Pres.
