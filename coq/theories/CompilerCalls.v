(* C08, module level: every static call / function reference of a compiled module is compiled into a
   FunctionPointer (followed by CallFunction for a Call card) that carries the handle (= position in the
   compiler's numbering) and the arity of the function ResolveSpec.spec_resolve designates for that name,
   from that function's module, with that module's imports.

   The proof is a Hoare logic over the compiler monad: [E its m] says that a successful run of [m]
   leaves jump table / namespace / imports alone and appends to the program's call skeleton (the
   FunctionPointer and CallFunction instructions, in order) exactly one instruction per item of [its],
   each FunctionPointer being what resolve_function returned for the item's name in that context. *)
From Coq Require Import List NArith ZArith Bool Lia.
From Cao Require Import ListUtil CheckUtil Bits CardAst Bytecode Compiler CompilerGen StdlibGen ResolveSpec
  CompilerProofs CompilerWf CompilerResolve ResolveProofs ResolveTree CompilerLabels.
Import ListNotations.
Local Open Scope N_scope.

Definition is_call_instr (i : instr) : bool :=
  match i with IFunctionPointer _ _ | ICallFunction => true | _ => false end.
(* the call skeleton of a code buffer (newest first) *)
Definition skel (code : list instr) : list instr := filter is_call_instr code.
Arguments skel _ : simpl never.

Definition cctx (s : cstate) := (cs_jump s, cs_ns s, cs_imports s).

Definition item_ok (c : list (str * fmeta) * list str * list (str * str)) (it : citem) (i : instr) : Prop :=
  match it with
  | CPtr name => exists s0 m, cctx s0 = c /\ resolve_function name s0 = ROk m s0 /\
                              i = IFunctionPointer (fm_handle m) (fm_arity m)
  | CCallI => i = ICallFunction
  end.

(* the two errors of name resolution *)
Definition is_resolve_err (e : cerr) : bool :=
  match e with EInvalidJump _ | ESuperLimitReached => true | _ => false end.

(* ... and when the run fails with a resolution error, that error is what resolve_function returned for
   the name of one of the items, in the same context *)
Definition item_err (c : list (str * fmeta) * list str * list (str * str)) (its : list citem) (e : cerr) : Prop :=
  exists name s0 l0, In (CPtr name) its /\ cctx s0 = c /\ resolve_function name s0 = RErr e l0.

Definition E {A} (its : list citem) (m : M A) : Prop :=
  forall s, match m s with
            | ROk _ s' => cctx s' = cctx s /\
                          exists new, skel (cs_code s') = rev new ++ skel (cs_code s) /\
                                      Forall2 (item_ok (cctx s)) its new
            | RErr e _ => is_resolve_err e = true -> item_err (cctx s) its e
            | _ => True
            end.

Lemma E_ret {A} (a : A) : E [] (ret a).
Proof. intros s. cbn. split; [reflexivity|]. exists []. split; [reflexivity | constructor]. Qed.

Lemma E_bind {A B} a b (m : M A) (f : A -> M B) : E a m -> (forall x, E b (f x)) -> E (a ++ b) (bind m f).
Proof.
  intros Hm Hf s. unfold bind. specialize (Hm s). destruct (m s) as [x s1|e l| |]; auto.
  2:{ intros He. destruct (Hm He) as (name & s0 & l0 & Hin & H1 & H2). exists name, s0, l0.
      split; [apply in_or_app; left; exact Hin | auto]. }
  destruct Hm as (Hc1 & n1 & Hs1 & Hi1). specialize (Hf x s1). destruct (f x s1) as [y s2|e l| |]; auto.
  2:{ intros He. destruct (Hf He) as (name & s0 & l0 & Hin & H1 & H2). exists name, s0, l0.
      split; [apply in_or_app; right; exact Hin | split; [congruence | exact H2]]. }
  destruct Hf as (Hc2 & n2 & Hs2 & Hi2). split; [congruence|].
  exists (n1 ++ n2). split; [rewrite Hs2, Hs1, rev_app_distr, app_assoc; reflexivity|].
  apply Forall2_app; [exact Hi1 | rewrite <- Hc1; exact Hi2].
Qed.

Lemma E_eq {A} its its' (m : M A) : E its' m -> its' = its -> E its m.
Proof. intros H <-. exact H. Qed.

(* ---- nil-emitting code ---- *)
Lemma N_bind {A B} (m : M A) (f : A -> M B) : E [] m -> (forall x, E [] (f x)) -> E [] (bind m f).
Proof. intros Hm Hf. apply (E_bind [] [] m f Hm Hf). Qed.

Definition frame4 {A} (m : M A) : Prop :=
  forall s, match m s with
            | ROk _ s' => cs_code s' = cs_code s /\ cctx s' = cctx s
            | RErr e _ => is_resolve_err e = false
            | _ => True
            end.
Lemma E_frame {A} (m : M A) : frame4 m -> E [] m.
Proof.
  intros Hf s. specialize (Hf s). destruct (m s) as [a s'|e l| |]; auto; [|intros He; congruence]. destruct Hf as [Hc Hx].
  split; [exact Hx|]. exists []. rewrite Hc. split; [reflexivity | constructor].
Qed.
Lemma frame4_ret {A} (a : A) : frame4 (ret a).
Proof. intros s. cbn. auto. Qed.
Lemma frame4_bind {A B} (m : M A) (f : A -> M B) : frame4 m -> (forall a, frame4 (f a)) -> frame4 (bind m f).
Proof.
  intros Hm Hf s. unfold bind. specialize (Hm s). destruct (m s) as [a s1| | |]; auto.
  specialize (Hf a s1). destruct (f a s1) as [b s2| | |]; auto.
  destruct Hm as [a1 a2], Hf as [b1 b2]. split; congruence.
Qed.
Ltac f4 := intros s; cbn; auto.
Lemma frame4_get : frame4 get. Proof. f4. Qed.
Lemma frame4_get_pc : frame4 get_pc. Proof. f4. Qed.
Lemma frame4_get_pc_i32 : frame4 get_pc_i32. Proof. f4. Qed.
Lemma frame4_panic {A} : frame4 (@panic A). Proof. f4. Qed.
Lemma frame4_diverge {A} : frame4 (@diverge A). Proof. f4. Qed.
Lemma frame4_error {A} e : is_resolve_err e = false -> frame4 (@error A e). Proof. intros H s. exact H. Qed.
Lemma frame4_push_sub i : frame4 (push_sub i). Proof. f4. Qed.
Lemma frame4_pop_sub : frame4 pop_sub. Proof. f4. Qed.
Lemma frame4_set_index_m f i : frame4 (set_index_m f i). Proof. f4. Qed.
Lemma frame4_set_fh_m h : frame4 (set_fh_m h). Proof. f4. Qed.
Lemma frame4_scope_begin : frame4 scope_begin. Proof. f4. Qed.
Lemma frame4_compile_begin : frame4 compile_begin. Proof. f4. Qed.
Lemma frame4_compile_end : frame4 compile_end. Proof. f4. Qed.
Lemma frame4_validate n : frame4 (validate_var_name n).
Proof. unfold validate_var_name. destruct (is_empty n); [apply frame4_error; reflexivity | f4]. Qed.
Lemma frame4_add_local_unchecked n : frame4 (add_local_unchecked n).
Proof. intros s. unfold add_local_unchecked. destruct (Nat.leb _ _); cbn; auto. Qed.
Lemma frame4_add_local n : frame4 (add_local n).
Proof. unfold add_local. apply frame4_bind; [apply frame4_validate | intros; apply frame4_add_local_unchecked]. Qed.
Lemma frame4_add_locals l : frame4 (add_locals l).
Proof.
  induction l as [|n r IH]; cbn [add_locals]; [apply frame4_ret|].
  apply frame4_bind; [apply frame4_add_local | intros; exact IH].
Qed.
Lemma frame4_handle_from_bytes bs : frame4 (handle_from_bytes_m bs).
Proof. f4. Qed.
Lemma frame4_index_handle : frame4 index_handle.
Proof.
  unfold index_handle. apply frame4_bind; [apply frame4_get|]. intros s.
  apply frame4_bind; [apply frame4_handle_from_bytes | intros; apply frame4_ret].
Qed.
Lemma frame4_label_entry h : frame4 (label_entry_here h).
Proof.
  intros s. unfold label_entry_here. destruct (two32 <=? cs_pc s); [exact I|].
  destruct (h =? 0); [cbn; auto|]. destruct (nm_find h (cs_labels s)); cbn; auto.
Qed.
Lemma frame4_label_insert h : frame4 (label_insert_here h).
Proof. intros s. unfold label_insert_here. destruct ((two32 <=? cs_pc s) || (h =? 0)); cbn; auto. Qed.
Lemma frame4_card_label : frame4 card_label.
Proof. unfold card_label. apply frame4_bind; [apply frame4_index_handle | intros; apply frame4_label_entry]. Qed.
Lemma frame4_resolve_var n : frame4 (resolve_var n).
Proof.
  unfold resolve_var. apply frame4_bind; [apply frame4_validate|]. intros _ s.
  destruct (rfind_index _ _ _ _); cbn; [auto|].
  destruct (resolve_upvalue _ _ _) as [[[v ls] us]|]; cbn; auto.
Qed.
Lemma frame4_global_id n : frame4 (global_id n).
Proof.
  unfold global_id. apply frame4_bind; [apply frame4_handle_from_bytes|]. intros h s.
  destruct (nm_find h (cs_ids s)); [|destruct (ht_entry_hangs (cs_ids s)); [exact I|]];
    (destruct (nm_find _ (cs_names s));
     [unfold name_checked; destruct (global_name_checked && negb (str_eqb _ _)); cbn; auto|];
     destruct (ht_entry_hangs (cs_names s)); cbn; auto).
Qed.

(* ---- operations on the code ---- *)
Lemma E_push_other i : is_call_instr i = false -> E [] (push_instr i).
Proof.
  intros Hi s. rewrite push_instr_eq. unfold pushed. cbn. split; [reflexivity|].
  exists []. unfold skel. cbn [filter]. rewrite Hi. split; [reflexivity | constructor].
Qed.
Lemma E_push_call : E [CCallI] (push_instr ICallFunction).
Proof.
  intros s. rewrite push_instr_eq. unfold pushed. cbn. split; [reflexivity|].
  exists [ICallFunction]. split; [reflexivity|]. constructor; [reflexivity | constructor].
Qed.

Lemma resolve_function_state n s m s' : resolve_function n s = ROk m s' -> s' = s.
Proof.
  intros H. destruct (resolve_outcomes n s) as [(m0 & key & E0 & _)|[E0|E0]]; rewrite E0 in H; try discriminate.
  injection H as _ <-. reflexivity.
Qed.

Lemma E_fnptr name :
  E [CPtr name] (do m <- resolve_function name ;; push_instr (IFunctionPointer (fm_handle m) (fm_arity m))).
Proof.
  intros s. unfold bind. destruct (resolve_function name s) as [m s1|e l| |] eqn:Er; auto.
  2:{ intros _. exists name, s, l. split; [left; reflexivity | auto]. }
  pose proof (resolve_function_state _ _ _ _ Er) as ->.
  rewrite push_instr_eq. unfold pushed. cbn. split; [reflexivity|].
  exists [IFunctionPointer (fm_handle m) (fm_arity m)]. split; [reflexivity|].
  constructor; [|constructor]. exists s, m. auto.
Qed.
Lemma E_call name :
  E [CPtr name; CCallI]
    (do m <- resolve_function name ;; push_instr (IFunctionPointer (fm_handle m) (fm_arity m)) ;; push_instr ICallFunction).
Proof.
  intros s. unfold bind. destruct (resolve_function name s) as [m s1|e l| |] eqn:Er; auto.
  2:{ intros _. exists name, s, l. split; [left; reflexivity | auto]. }
  pose proof (resolve_function_state _ _ _ _ Er) as ->.
  rewrite !push_instr_eq. unfold pushed. cbn. split; [reflexivity|].
  exists [IFunctionPointer (fm_handle m) (fm_arity m); ICallFunction]. split; [reflexivity|].
  constructor; [exists s, m; auto|]. constructor; [reflexivity | constructor].
Qed.

Lemma set_jump_target_not_call i z i' : set_jump_target i z = Some i' -> is_call_instr i = false /\ is_call_instr i' = false.
Proof. destruct i; cbn; intros H; try discriminate; injection H as <-; auto. Qed.
Lemma skel_patch_code code : forall cur at_pc z code', patch_code code cur at_pc z = Some code' -> skel code' = skel code.
Proof.
  induction code as [|i r IH]; intros cur at_pc z code' H; cbn [patch_code] in H; [discriminate|].
  destruct (cur - N.of_nat (instr_span i) =? at_pc).
  - destruct (set_jump_target i z) as [i'|] eqn:Es; [|discriminate]. injection H as <-.
    destruct (set_jump_target_not_call _ _ _ Es) as [H1 H2]. unfold skel. cbn [filter]. rewrite H1, H2. reflexivity.
  - destruct (cur - N.of_nat (instr_span i) <? at_pc); [discriminate|].
    destruct (patch_code r _ at_pc z) as [r'|] eqn:Er; [|discriminate]. injection H as <-.
    unfold skel in *. cbn [filter]. rewrite (IH _ _ _ _ Er). reflexivity.
Qed.
Lemma E_patch q : E [] (patch_jump_here q).
Proof.
  intros s. unfold patch_jump_here. destruct (patch_code _ _ _ _) as [c|] eqn:Ep; [|exact I].
  cbn. split; [reflexivity|]. exists []. rewrite (skel_patch_code _ _ _ _ _ Ep). split; [reflexivity | constructor].
Qed.

Lemma E_push_string mk st : (forall x, is_call_instr (mk x) = false) -> E [] (push_string mk st).
Proof.
  intros Hmk. unfold push_string. apply N_bind; [apply E_frame, frame4_get | intros s0].
  apply N_bind; [apply E_push_other, Hmk | intros _].
  apply E_frame. intros s. destruct (two32 <=? N.of_nat (length st)); cbn; auto.
Qed.

Ltac frame4_tac :=
  repeat first
    [ apply frame4_ret | apply frame4_get | apply frame4_get_pc | apply frame4_get_pc_i32 | apply frame4_panic
    | apply frame4_diverge | apply frame4_error; reflexivity | apply frame4_push_sub | apply frame4_pop_sub
    | apply frame4_set_index_m | apply frame4_set_fh_m | apply frame4_scope_begin | apply frame4_compile_begin
    | apply frame4_compile_end | apply frame4_validate | apply frame4_add_local_unchecked
    | apply frame4_add_local | apply frame4_add_locals | apply frame4_handle_from_bytes
    | apply frame4_index_handle | apply frame4_resolve_var | apply frame4_global_id
    | apply frame4_label_entry | apply frame4_label_insert | apply frame4_card_label
    | apply frame4_bind; [|intros ?] ].

Lemma pop_locals_not_call rls d : Forall (fun i => is_call_instr i = false) (snd (pop_locals rls d)).
Proof.
  induction rls as [|l r IH]; cbn [pop_locals]; [constructor|].
  destruct (d <? l_depth l)%Z; [|constructor].
  destruct (pop_locals r d) as [r' is]. cbn [snd] in *. constructor; auto.
  destruct (l_captured l); reflexivity.
Qed.
Lemma E_push_raws is : Forall (fun i => is_call_instr i = false) is -> E [] (push_raws is).
Proof.
  induction 1 as [|i r Hi _ IH]; cbn [push_raws]; [apply E_ret|].
  apply N_bind; [apply E_push_other, Hi | intros _; exact IH].
Qed.
Lemma E_scope_end : E [] scope_end.
Proof.
  intros s. unfold scope_end.
  set (ds := map_hd _ (cs_depth s)). set (rlis := pop_locals _ _). set (s1 := set_scopes _ _ _ s).
  pose proof (E_push_raws (snd rlis) (pop_locals_not_call _ _) s1) as H.
  destruct (push_raws (snd rlis) s1); auto.
Qed.

Lemma E_with_sub its i m : E its m -> E its (with_sub i m).
Proof.
  intros H. unfold with_sub. eapply E_eq.
  - eapply E_bind; [apply E_frame, frame4_push_sub | intros _].
    eapply E_bind; [exact H | intros _]. apply E_frame, frame4_pop_sub.
  - cbn [app]. apply app_nil_r.
Qed.
Lemma E_encode_if_then its skip body :
  skip = IGotoIfFalse \/ skip = IGotoIfTrue -> E its body -> E its (encode_if_then skip body).
Proof.
  intros Hs Hb. unfold encode_if_then. eapply E_eq.
  - eapply E_bind; [apply E_frame, frame4_get_pc | intros q].
    eapply E_bind; [apply E_push_other; destruct Hs; subst; reflexivity | intros _].
    eapply E_bind; [exact Hb | intros _]. apply E_patch.
  - cbn [app]. apply app_nil_r.
Qed.

Ltac ntac :=
  repeat first
    [ apply E_ret
    | apply E_scope_end
    | apply E_patch
    | apply E_push_other; reflexivity
    | apply E_push_string; reflexivity
    | apply E_frame; solve [frame4_tac]
    | apply N_bind; [|intros ?] ].

Lemma E_read_props props : E [] (read_props props).
Proof.
  induction props as [|p r IH]; cbn [read_props]; [apply E_ret|].
  apply N_bind; [|intros _; exact IH]. destruct (is_empty p); ntac.
Qed.
Lemma E_read_var_card v : E [] (read_var_card v).
Proof.
  unfold read_var_card. destruct (split_once_c c_dot v) as [[a b]|].
  - apply N_bind; [ntac | intros sc]. apply N_bind; [destruct sc; ntac | intros _; apply E_read_props].
  - apply N_bind; [ntac | intros sc]. apply N_bind; [destruct sc; ntac | intros _; apply E_read_props].
Qed.
Lemma E_bind_loop_var o src : E [] (bind_loop_var o src).
Proof. destruct o; cbn [bind_loop_var]; unfold read_local, write_local; ntac. Qed.
Lemma E_emit_upvalues ups : E [] (emit_upvalues ups).
Proof.
  induction ups as [|u r IH]; cbn [emit_upvalues]; [apply E_ret|].
  apply N_bind; [ntac | intros _]. apply N_bind; [ntac | intros _; exact IH].
Qed.
Lemma E_process_leaf i : is_call_instr i = false -> E [] (process_leaf i).
Proof. intros H. unfold process_leaf. apply N_bind; [ntac | intros _; apply E_push_other, H]. Qed.

(* ------------------------------------------------------------------ cards *)
Definition card_E (c : card) : Prop := E (card_items c) (process_card c).

Lemma E_subexpr l : Forall card_E l -> forall i,
  E (flat_map card_items l)
    ((fix subexpr (l : list card) (i : N) {struct l} : M unit :=
        match l with
        | [] => ret tt
        | x :: r => with_sub i (process_card x) ;; subexpr r (i + 1)
        end) l i).
Proof.
  induction 1 as [|x r Hx _ IH]; intros i; [apply E_ret|]. cbn [flat_map].
  apply E_bind; [apply E_with_sub, Hx | intros _; apply IH].
Qed.
Lemma E_array_items tv l : Forall card_E l -> forall i,
  E (flat_map card_items l)
    ((fix items (l : list card) (i : N) {struct l} : M unit :=
         match l with
         | [] => ret tt
         | x :: r =>
             push_instr IScalarNil ;;
             with_sub i (process_card x) ;;
             read_local tv ;;
             push_instr IAppendTable ;;
             items r (i + 1)
         end) l i).
Proof.
  induction 1 as [|x r Hx _ IH]; intros i; [apply E_ret|]. cbn [flat_map].
  eapply E_eq.
  - eapply E_bind; [apply E_push_other; reflexivity | intros _].
    eapply E_bind; [apply E_with_sub, Hx | intros _].
    eapply E_bind; [apply E_push_other; reflexivity | intros _].
    eapply E_bind; [apply E_push_other; reflexivity | intros _; apply IH].
  - reflexivity.
Qed.

Ltac estep :=
  first
    [ apply E_ret
    | match goal with H : card_E ?c |- E _ (process_card ?c) => exact H end
    | apply E_with_sub
    | apply E_subexpr; assumption
    | apply E_array_items; assumption
    | apply E_encode_if_then; [first [left; reflexivity | right; reflexivity]|]
    | apply E_call
    | apply E_fnptr
    | apply E_push_call
    | apply E_scope_end
    | apply E_read_var_card
    | apply E_bind_loop_var
    | apply E_emit_upvalues
    | apply E_patch
    | apply E_push_other; reflexivity
    | apply E_push_string; reflexivity
    | apply E_process_leaf; reflexivity
    | apply E_frame; solve [frame4_tac]
    | eapply E_bind; [|intros ?] ].

Ltac norm := cbn [app]; rewrite ?app_nil_r, <- ?app_assoc; cbn [app]; reflexivity.

Lemma process_card_E c : card_E c.
Proof.
  induction c using card_ind'; unfold card_E; cbn [process_card card_items].
  - (* CBin *) destruct op; (eapply E_eq; [repeat estep | norm]).
  - (* CUn *) destruct op; (eapply E_eq; [repeat estep | norm]).
  - (* CTri *) destruct op; (eapply E_eq; [repeat estep | norm]).
  - eapply E_eq; [repeat estep | norm].
  - eapply E_eq; [repeat estep | norm].
  - eapply E_eq; [repeat estep | norm].
  - eapply E_eq; [repeat estep | norm].
  - eapply E_eq; [repeat estep | norm].
  - eapply E_eq; [repeat estep | norm].
  - eapply E_eq; [repeat estep | norm].
  - (* CFunction *) eapply E_eq; [repeat estep | norm].
  - eapply E_eq; [repeat estep | norm].
  - eapply E_eq; [repeat estep | norm].
  - (* CCallNative *) eapply E_eq; [repeat estep | norm].
  - (* CCall *) eapply E_eq; [repeat estep | norm].
  - (* CDynamicCall *) eapply E_eq; [repeat estep | norm].
  - (* CSetGlobalVar *)
    eapply E_eq.
    + eapply E_bind; [estep | intros _]. eapply E_bind; [repeat estep | intros _].
      destruct (is_empty n); ntac.
    + norm.
  - (* CSetVar *)
    eapply E_eq.
    + eapply E_bind; [estep | intros _]. eapply E_bind; [repeat estep | intros _].
      destruct (rsplit_once_c c_dot n) as [[rp sp]|].
      * apply N_bind; [apply E_read_var_card | intros _]. ntac.
      * apply N_bind; [ntac | intros var]. destruct var; unfold write_local, write_upvalue; ntac.
    + norm.
  - (* CRepeat *) eapply E_eq; [repeat estep | norm].
  - (* CForEach *) eapply E_eq; [repeat estep | norm].
  - (* CComposite *) eapply E_eq; [repeat estep | norm].
  - (* CArray *) eapply E_eq; [repeat estep | norm].
  - (* CClosure *) eapply E_eq; [repeat estep | norm].
Qed.

(* ------------------------------------------------------------------ functions and stages *)
Lemma E_process_cards cards : forall ic, E (flat_map card_items cards) (process_cards cards ic).
Proof.
  induction cards as [|c r IH]; intros ic; cbn [process_cards flat_map]; [apply E_ret|].
  eapply E_eq.
  - eapply E_bind; [apply E_frame, frame4_pop_sub | intros _].
    eapply E_bind; [apply E_frame, frame4_push_sub | intros _].
    eapply E_bind; [apply process_card_E | intros _; apply IH].
  - reflexivity.
Qed.

(* an item together with the namespace and import table of the function it belongs to *)
Definition fitem : Type := (list str * list (str * str) * citem)%type.
Definition item_ok2 (jt : list (str * fmeta)) (x : fitem) (i : instr) : Prop :=
  item_ok (jt, fst (fst x), snd (fst x)) (snd x) i.
Definition fitems (f : function_ir) : list fitem :=
  map (fun it => (fi_ns f, fi_imports f, it)) (flat_map card_items (fi_cards f)).

Definition fitem_err (jt : list (str * fmeta)) (its : list fitem) (e : cerr) : Prop :=
  exists x name s0 l0, In x its /\ snd x = CPtr name /\ cctx s0 = (jt, fst (fst x), snd (fst x)) /\
                       resolve_function name s0 = RErr e l0.

Definition G {A} (its : list fitem) (m : M A) : Prop :=
  forall s, match m s with
            | ROk _ s' => cs_jump s' = cs_jump s /\
                          exists new, skel (cs_code s') = rev new ++ skel (cs_code s) /\
                                      Forall2 (item_ok2 (cs_jump s)) its new
            | RErr e _ => is_resolve_err e = true -> fitem_err (cs_jump s) its e
            | _ => True
            end.
Lemma G_bind {A B} a b (m : M A) (f : A -> M B) : G a m -> (forall x, G b (f x)) -> G (a ++ b) (bind m f).
Proof.
  intros Hm Hf s. unfold bind. specialize (Hm s). destruct (m s) as [x s1|e l| |]; auto.
  2:{ intros He. destruct (Hm He) as (it & name & s0 & l0 & Hin & H1 & H2 & H3). exists it, name, s0, l0.
      split; [apply in_or_app; left; exact Hin | auto]. }
  destruct Hm as (Hc1 & n1 & Hs1 & Hi1). specialize (Hf x s1). destruct (f x s1) as [y s2|e l| |]; auto.
  2:{ intros He. destruct (Hf He) as (it & name & s0 & l0 & Hin & H1 & H2 & H3). exists it, name, s0, l0.
      split; [apply in_or_app; right; exact Hin | split; [exact H1 | split; [congruence | exact H3]]]. }
  destruct Hf as (Hc2 & n2 & Hs2 & Hi2). split; [congruence|].
  exists (n1 ++ n2). split; [rewrite Hs2, Hs1, rev_app_distr, app_assoc; reflexivity|].
  apply Forall2_app; [exact Hi1 | rewrite <- Hc1; exact Hi2].
Qed.
Lemma G_nil {A} (m : M A) : E [] m -> G [] m.
Proof.
  intros H s. specialize (H s). destruct (m s) as [x s1|e l| |]; auto.
  2:{ intros He. destruct (H He) as (name & s0 & l0 & [] & _). }
  destruct H as (Hc & new & Hs & Hi). inversion Hi; subst. split; [unfold cctx in Hc; congruence|].
  exists []. split; [exact Hs | constructor].
Qed.
Lemma G_eq {A} its its' (m : M A) : G its' m -> its' = its -> G its m.
Proof. intros H <-. exact H. Qed.

Lemma G_process_function f : G (fitems f) (process_function f).
Proof.
  intros s. unfold process_function. unfold bind at 1.
  set (s1 := set_fctx (fi_ns f) (fi_imports f) s).
  assert (HE : E (flat_map card_items (fi_cards f)) (add_locals (rev (fi_args f)) ;; process_cards (fi_cards f) 0)).
  { eapply E_eq; [eapply E_bind; [apply E_frame, frame4_add_locals | intros _; apply E_process_cards] | reflexivity]. }
  specialize (HE s1). destruct ((add_locals (rev (fi_args f)) ;; process_cards (fi_cards f) 0) s1) as [x s2|e l| |]; auto.
  2:{ intros He. destruct (HE He) as (name & s0 & l0 & Hin & H1 & H2).
      exists (fi_ns f, fi_imports f, CPtr name), name, s0, l0. split; [|auto].
      unfold fitems. apply in_map_iff. exists (CPtr name). auto. }
  destruct HE as (Hc & new & Hs & Hi). split; [unfold cctx in Hc; injection Hc as -> _ _; reflexivity|].
  exists new. split; [exact Hs|]. unfold fitems.
  clear -Hi. induction Hi; cbn [map]; constructor; auto.
Qed.

Ltac gstep :=
  first [ apply G_process_function
        | apply G_nil; first [ apply E_scope_end | apply E_process_leaf; reflexivity | apply E_push_other; reflexivity
                             | apply E_frame; solve [frame4_tac] ]
        | eapply G_bind; [|intros ?] ].

Lemma G_compile_main f : G (fitems f) (compile_main f).
Proof. unfold compile_main. eapply G_eq; [repeat gstep | norm]. Qed.
Lemma G_compile_other f : G (fitems f) (compile_other f).
Proof. unfold compile_other. eapply G_eq; [repeat gstep | norm]. Qed.
Lemma G_compile_others fs : G (flat_map fitems fs) (compile_others fs).
Proof.
  induction fs as [|f r IH]; cbn [compile_others flat_map]; [apply G_nil, E_ret|].
  apply G_bind; [apply G_compile_other | intros _; exact IH].
Qed.
Lemma G_stage_2 fs : G (flat_map fitems fs) (stage_2 fs).
Proof.
  destruct fs as [|f r]; cbn [stage_2 flat_map]; [apply G_nil, E_ret|].
  apply G_bind; [apply G_compile_main | intros _; apply G_compile_others].
Qed.

Lemma filter_rev {A} (p : A -> bool) l : filter p (rev l) = rev (filter p l).
Proof.
  induction l as [|x l IH]; [reflexivity|]. cbn [rev filter]. rewrite filter_app, IH. cbn [filter].
  destruct (p x); cbn [rev]; [reflexivity | apply app_nil_r].
Qed.

(* the call skeleton of the compiled program, function by function *)
Theorem compile_ir_calls fs d s_end :
  compile_ir fs (init_state d) = ROk tt s_end ->
  exists s1, stage_1 fs (init_state d) = ROk tt s1 /\
             Forall2 (item_ok2 (cs_jump s1)) (flat_map fitems fs) (filter is_call_instr (rev (cs_code s_end))).
Proof.
  intros H. destruct fs as [|f r]; [discriminate|]. unfold compile_ir in H.
  unfold bind in H.
  pose proof (frame_stage_1 (f :: r) (init_state d)) as F1.
  destruct (stage_1 (f :: r) (init_state d)) as [[] s1| | |]; try discriminate.
  exists s1. split; [reflexivity|].
  pose proof (G_stage_2 (f :: r) s1) as G2.
  destruct (stage_2 (f :: r) s1) as [[] s2| | |]; try discriminate.
  rewrite push_instr_eq in H. injection H as <-. unfold pushed. cbn [cs_code set_code set_trace set_fctx].
  destruct G2 as (_ & new & Hs & Hi). destruct F1 as (Hc & _). rewrite Hc in Hs. cbn in Hs. rewrite app_nil_r in Hs.
  cbn [rev]. rewrite filter_app. cbn [filter is_call_instr]. rewrite app_nil_r, filter_rev.
  change (filter is_call_instr (cs_code s2)) with (skel (cs_code s2)). rewrite Hs, rev_involutive. exact Hi.
Qed.

(* ------------------------------------------------------------------ from the model's resolution to the specification *)
Definition site_item_ok (root : module) (x : fsite * citem) (i : instr) : Prop :=
  match snd x with
  | CPtr name => exists pos ar, site_target root (fst x) name = Some (pos, ar) /\
                                i = IFunctionPointer (handle_from_u64 (N.of_nat pos)) (N.of_nat ar mod two32)
  | CCallI => i = ICallFunction
  end.

(* site and IR function correspond, and the site's module path is dot-free *)
Definition site_ir (st : fsite) (f : function_ir) : Prop := (exists k, ir_of k st f) /\ Forall dotfree (fs_path st).

Lemma item_to_site root irs fs jt st f it i :
  table_matches root jt -> irs_from 0 (tree_functions root []) irs -> (forall g, In g fs <-> In g irs) -> table_of fs jt ->
  site_ir st f -> item_ok2 jt (fi_ns f, fi_imports f, it) i -> site_item_ok root (st, it) i.
Proof.
  intros Ht Hirs Hperm Htab [[k (E1 & E2 & E3 & E4 & E5 & E6 & E7)] Hp] H.
  unfold item_ok2 in H. cbn [fst snd] in H. unfold site_item_ok. cbn [fst snd].
  destruct it as [name|]; [|exact H].
  destruct H as (s0 & m & Hc & Hr & ->). unfold cctx in Hc. injection Hc as Hj Hn Hi.
  destruct (resolve_sound root (fs_imports st) name s0 m s0) as (_ & fid & Hs & Hm); auto.
  { rewrite Hj. exact Ht. } { rewrite Hn, E4. exact Hp. } { rewrite Hi. exact E5. }
  pose proof (spec_found_lookup _ _ _ _ _ Hs) as Hl. destruct fid as [p g]. cbn [fst snd] in *.
  rewrite Hj in Hm.
  destruct (entry_is_position root irs fs jt p g m Hirs Hperm Htab Hl Hm) as (pos & fn & H1 & H2 & H3 & H4).
  exists pos, (length (f_args fn)). unfold site_target. rewrite <- E4, <- Hn, Hs. cbn [fst snd]. rewrite H1, H2.
  split; [reflexivity|]. rewrite H3, H4. reflexivity.
Qed.

Lemma items_to_sites root irs fs jt :
  table_matches root jt -> irs_from 0 (tree_functions root []) irs -> (forall g, In g fs <-> In g irs) -> table_of fs jt ->
  forall sts fl, Forall2 site_ir sts fl ->
  forall new, Forall2 (item_ok2 jt) (flat_map fitems fl) new -> Forall2 (site_item_ok root) (flat_map site_items sts) new.
Proof.
  intros Ht Hirs Hperm Htab. induction 1 as [|st f sts fl Hsf _ IH]; intros new H; cbn [flat_map] in *.
  - inversion H; constructor.
  - apply Forall2_app_inv_l in H. destruct H as (n1 & n2 & H1 & H2 & ->).
    apply Forall2_app; [|apply IH, H2].
    unfold fitems in H1. unfold site_items.
    assert (Ec : fi_cards f = f_cards (fs_fn st)) by (destruct Hsf as [[k Hk] _]; apply Hk).
    rewrite <- Ec. clear IH H2 Ec. revert n1 H1.
    induction (flat_map card_items (fi_cards f)) as [|it l IHl]; intros n1 H1; cbn [map] in *.
    + inversion H1; constructor.
    + inversion H1 as [|? y ? n1' Hy Hr]; subst. constructor; [|apply IHl, Hr].
      eapply item_to_site; eauto.
Qed.

Lemma Forall2_nth_error {A B} (R : A -> B -> Prop) a b : Forall2 R a b -> forall i x,
  nth_error a i = Some x -> exists y, nth_error b i = Some y /\ R x y.
Proof.
  induction 1 as [|x0 y0 a b H0 _ IH]; intros i x Hn; [destruct i; discriminate|].
  destruct i as [|i]; cbn [nth_error] in *; [injection Hn as <-; eauto | apply IH, Hn].
Qed.
Lemma Forall2_nth_error_none {A B} (R : A -> B -> Prop) a b : Forall2 R a b -> forall i,
  nth_error a i = None -> nth_error b i = None.
Proof.
  induction 1 as [|x0 y0 a b H0 _ IH]; intros i Hn; [destruct i; reflexivity|].
  destruct i as [|i]; cbn [nth_error] in *; [discriminate | apply IH, Hn].
Qed.
Lemma Forall2_upd {A B} (R : A -> B -> Prop) a b : Forall2 R a b -> forall i x y,
  R x y -> Forall2 R (upd a i x) (upd b i y).
Proof.
  induction 1 as [|x0 y0 a b H0 Hr IH]; intros i x y Hxy; [constructor|].
  destruct i as [|i]; cbn [upd]; constructor; auto.
Qed.
Lemma Forall2_swap0 {A B} (R : A -> B -> Prop) a b i : Forall2 R a b -> Forall2 R (swap0 a i) (swap0 b i).
Proof.
  intros H. unfold swap0. destruct H as [|x0 y0 a b H0 Hr]; [constructor|].
  assert (Hall : Forall2 R (x0 :: a) (y0 :: b)) by (constructor; assumption).
  destruct (nth_error (x0 :: a) i) as [xi|] eqn:E.
  - destruct (Forall2_nth_error R _ _ Hall i xi E) as (yi & -> & Hxy).
    apply Forall2_upd; [apply Forall2_upd; assumption | exact H0].
  - rewrite (Forall2_nth_error_none R _ _ Hall i E). exact Hall.
Qed.

Lemma irs_from_site_ir : forall sts k irs,
  (forall st, In st sts -> Forall dotfree (fs_path st)) -> irs_from k sts irs -> Forall2 site_ir sts irs.
Proof.
  induction sts as [|st sts IH]; intros k [|f irs] Hp H; cbn [irs_from] in H; try contradiction; constructor.
  - split; [exists k; apply H | apply Hp; left; reflexivity].
  - apply (IH (k + 1)); [intros x Hx; apply Hp; right; exact Hx | apply H].
Qed.

Lemma find_index_main funs : forall i,
  find_index (fun nf : str * function => str_eqb (fst nf) s_main) funs i = main_index funs i.
Proof. induction funs as [|[n f] r IH]; intros i; [reflexivity|]. cbn [find_index main_index fst]. rewrite IH. reflexivity. Qed.

(* ------------------------------------------------------------------ the module-level theorem *)
(* the call skeleton of the compiled program - its FunctionPointer and CallFunction instructions, in
   program order - is, site by site in the order in which the functions are compiled (tree order with
   `main` swapped to the front), one FunctionPointer per static call / function reference carrying the
   position and arity of the function the specification designates, and one CallFunction per call *)
Theorem compile_calls M o B :
  compile M o = COk B ->
  module_names_dotfree (with_std std_module M) = true ->
  exists is mi,
    p_bytecode B = encode is /\
    main_index (m_functions M) 0 = Some mi /\
    Forall2 (site_item_ok (with_std std_module M))
            (flat_map site_items (swap0 (tree_functions (with_std std_module M) []) mi))
            (filter is_call_instr is).
Proof.
  intros Hc Hd. destruct (compile_ok_inv _ _ _ Hc) as (fs & s & Hi & Hir & ->).
  destruct (compile_ir_calls _ _ _ Hir) as (s1 & H1 & Hit).
  pose proof (compile_table_matches _ _ _ _ _ Hi Hd H1) as Ht.
  pose proof (stage_1_ok_table _ _ _ H1) as Htab.
  assert (Hmi : exists mi, main_index (m_functions M) 0 = Some mi /\
                  exists irs, fs = swap0 irs mi /\ irs_from 0 (tree_functions (with_std std_module M) []) irs).
  { destruct M as [subs funs imps]. unfold into_ir_stream in Hi. rewrite with_std_eq.
    destruct (ensure_invariants _); [discriminate|].
    destruct (find_index _ funs 0) as [mi|] eqn:Em; [|discriminate].
    destruct (flatten_module _ _ [] [] 0) as [e|[out n]] eqn:Ef; [discriminate|]. injection Hi as <-.
    destruct (flatten_module_spec _ _ _ _ _ _ _ Ef) as (irs & -> & _ & Hirs).
    exists mi. rewrite find_index_main in Em. split; [exact Em|].
    exists irs. rewrite app_nil_r, rev_involutive. auto. }
  destruct Hmi as (mi & Hm & irs & -> & Hirs).
  exists (rev (cs_code s)), mi. split; [reflexivity|]. split; [exact Hm|].
  unfold module_names_dotfree in Hd. pose proof Hd as Hd'. apply negb_true_iff in Hd'.
  assert (Hsi : Forall2 site_ir (tree_functions (with_std std_module M) []) irs).
  { apply (irs_from_site_ir _ 0); [|exact Hirs].
    intros st Hst. apply (site_path_dotfree _ O [] st Hd' (Forall_nil _) Hst). }
  eapply items_to_sites; eauto.
  - intros g. apply in_swap0.
  - apply Forall2_swap0, Hsi.
Qed.

(* ------------------------------------------------------------------ labels, by position in the tree *)
Lemma main_index_lt funs : forall i mi, main_index funs i = Some mi -> (mi < i + length funs)%nat.
Proof.
  induction funs as [|[n f] r IH]; intros i mi H; cbn [main_index] in H; [discriminate|].
  destruct (seq_eqb n w_main); [injection H as <-; cbn; lia|]. apply IH in H. cbn [length]. lia.
Qed.

Lemma swap0_position {A} (l : list A) mi pos g :
  (mi < length l)%nat -> nth_error l pos = Some g -> pos <> mi ->
  exists j, nth_error (swap0 l mi) (S j) = Some g.
Proof.
  intros Hmi Hg Hne. unfold swap0. destruct l as [|x0 t]; [destruct pos; discriminate|].
  destruct (nth_error (x0 :: t) mi) as [xi|] eqn:E; [|apply nth_error_None in E; lia].
  destruct pos as [|pos].
  - cbn in Hg. injection Hg as <-. destruct mi as [|mi]; [contradiction|]. exists mi.
    apply nth_error_upd_same with (x := xi). rewrite nth_error_upd_other by discriminate. exact E.
  - exists pos. rewrite nth_error_upd_other by congruence. rewrite nth_error_upd_other by discriminate. exact Hg.
Qed.

Lemma split_at_nth {A} (l : list A) j g : nth_error l j = Some g -> l = firstn j l ++ g :: skipn (S j) l.
Proof.
  revert j; induction l as [|x l IH]; intros [|j] H; cbn in *; try discriminate.
  - injection H as ->. reflexivity.
  - f_equal. apply IH, H.
Qed.

(* labels[Handle(pos)] is the first byte of the code of the function at position pos of the tree, for
   every function but `main` (which is compiled first and gets no label) *)
Theorem compile_label_of_position M o B pos st :
  compile M o = COk B ->
  label_keys_distinct_module M (o_recursion_limit o) = true ->
  nth_error (tree_functions (with_std std_module M) []) pos = Some st ->
  main_index (m_functions M) 0 <> Some pos ->
  exists f before body rest,
    ir_of (N.of_nat pos) st f /\
    p_bytecode B = encode before ++ encode body ++ encode rest /\
    nm_find (handle_from_u64 (N.of_nat pos)) (p_labels B) = Some (N.of_nat (length (encode before))) /\
    exists s1 s2, compile_other f s1 = ROk tt s2 /\ rev (cs_code s1) = before /\ rev (cs_code s2) = before ++ body.
Proof.
  intros Hc Hd Hn Hm. destruct (compile_ok_inv _ _ _ Hc) as (fs & s & Hi & _ & _).
  unfold label_keys_distinct_module in Hd. rewrite Hi in Hd.
  assert (Hmi : exists mi irs, main_index (m_functions M) 0 = Some mi /\ (mi < length irs)%nat /\
                  fs = swap0 irs mi /\ irs_from 0 (tree_functions (with_std std_module M) []) irs).
  { destruct M as [subs funs imps]. pose proof Hi as Hi'. unfold into_ir_stream in Hi'. rewrite with_std_eq.
    destruct (ensure_invariants _); [discriminate|].
    destruct (find_index _ funs 0) as [mi|] eqn:Em; [|discriminate].
    destruct (flatten_module _ _ [] [] 0) as [e|[out n]] eqn:Ef; [discriminate|]. injection Hi' as <-.
    destruct (flatten_module_spec _ _ _ _ _ _ _ Ef) as (irs & -> & _ & Hirs).
    rewrite find_index_main in Em. exists mi, irs. split; [exact Em|].
    rewrite app_nil_r, rev_involutive. split; [|auto].
    rewrite (irs_from_length _ _ _ Hirs), tree_functions_eq, app_length, map_length.
    apply main_index_lt in Em. lia. }
  destruct Hmi as (mi & irs & Hmi & Hlt & -> & Hirs).
  destruct (irs_from_nth _ _ _ _ _ Hirs Hn) as (f & Hf & Hir). rewrite N.add_0_l in Hir.
  assert (Hne : pos <> mi) by (intros ->; apply Hm; exact Hmi).
  destruct (swap0_position irs mi pos f Hlt Hf Hne) as (j & Hj).
  pose proof (split_at_nth _ _ _ Hj) as Hsplit.
  assert (Hpre : firstn (S j) (swap0 irs mi) <> []).
  { destruct (swap0 irs mi); [destruct j; discriminate | discriminate]. }
  destruct (compile_label_points_to_body M o B _ _ f _ Hi Hsplit Hpre Hc Hd) as (before & body & rest & H1 & H2 & H3).
  exists f, before, body, rest. split; [exact Hir|]. split; [exact H1|].
  split; [|exact H3]. destruct Hir as (_ & _ & _ & _ & _ & E6 & _). rewrite <- E6. exact H2.
Qed.

(* ------------------------------------------------------------------ corollaries *)
Lemma Forall2_In_l {A B} (R : A -> B -> Prop) a b x : Forall2 R a b -> In x a -> exists y, In y b /\ R x y.
Proof.
  induction 1 as [|x0 y0 a b H0 _ IH]; intros Hin; [destruct Hin|].
  destruct Hin as [<-|Hin]; [exists y0; split; [left; reflexivity | exact H0]|].
  destruct (IH Hin) as (y & Hy & Hr). exists y. split; [right; exact Hy | exact Hr].
Qed.
Lemma Forall2_In_r {A B} (R : A -> B -> Prop) a b y : Forall2 R a b -> In y b -> exists x, In x a /\ R x y.
Proof.
  induction 1 as [|x0 y0 a b H0 _ IH]; intros Hin; [destruct Hin|].
  destruct Hin as [<-|Hin]; [exists x0; split; [left; reflexivity | exact H0]|].
  destruct (IH Hin) as (x & Hx & Hr). exists x. split; [right; exact Hx | exact Hr].
Qed.

(* if the module compiles, every static call / function reference of every function of the tree
   resolves under the specification, and the program contains the FunctionPointer of its target *)
Theorem compile_every_call_resolves M o B :
  compile M o = COk B ->
  module_names_dotfree (with_std std_module M) = true ->
  exists is, p_bytecode B = encode is /\
    forall st name,
      In st (tree_functions (with_std std_module M) []) ->
      In (CPtr name) (flat_map card_items (f_cards (fs_fn st))) ->
      exists pos ar, site_target (with_std std_module M) st name = Some (pos, ar) /\
                     In (IFunctionPointer (handle_from_u64 (N.of_nat pos)) (N.of_nat ar mod two32)) is.
Proof.
  intros Hc Hd. destruct (compile_calls M o B Hc Hd) as (is & mi & Hb & _ & Hf).
  exists is. split; [exact Hb|]. intros st name Hst Hn.
  assert (Hin : In (st, CPtr name) (flat_map site_items (swap0 (tree_functions (with_std std_module M) []) mi))).
  { apply in_flat_map. exists st. split; [apply in_swap0, Hst|]. unfold site_items. apply in_map. exact Hn. }
  destruct (Forall2_In_l _ _ _ _ Hf Hin) as (i & Hi & Hok). unfold site_item_ok in Hok. cbn [fst snd] in Hok.
  destruct Hok as (pos & ar & Ht & ->). exists pos, ar. split; [exact Ht|].
  apply filter_In in Hi. apply Hi.
Qed.

(* ---- resolution errors of compile ---- *)
Lemma execute_imports_not_resolve_err imps acc e : execute_imports imps acc = inl e -> is_resolve_err e = false.
Proof.
  intros H. destruct (execute_imports_errors _ _ _ H) as (imp & _ & [[-> _]|[-> _]]); reflexivity.
Qed.
Lemma flatten_module_not_resolve_err m : forall limit ns out n e,
  flatten_module m limit ns out n = inl e -> is_resolve_err e = false.
Proof.
  induction m as [subs funs imps IHs] using module_ind'. intros limit ns out n e H. cbn [flatten_module] in H.
  destruct (limit <=? N.of_nat (length ns)); [injection H as <-; reflexivity|].
  destruct (execute_imports imps []) as [e0|imports] eqn:Ei.
  { injection H as <-. eapply execute_imports_not_resolve_err; eauto. }
  destruct (flatten_functions funs 0 ns imports out n) as [e0|[out1 n1]] eqn:Ef.
  { injection H as <-. destruct (flatten_functions_errors _ _ _ _ _ _ _ Ef) as (nm & -> & _). reflexivity. }
  clear Ef. revert out1 n1 H. induction IHs as [|[name sub] r Hsub _ IHr]; intros out1 n1 H; [discriminate|].
  cbn [snd] in Hsub. destruct (flatten_module sub limit (ns ++ [name]) out1 n1) as [e0|[o k]] eqn:Em.
  - injection H as <-. eapply Hsub; eauto.
  - eapply IHr; eauto.
Qed.
Lemma into_ir_stream_not_resolve_err M limit e : into_ir_stream M limit = inl e -> is_resolve_err e = false.
Proof.
  destruct M as [subs funs imps]. unfold into_ir_stream. intros H.
  destruct (ensure_invariants _); [injection H as <-; reflexivity|].
  destruct (find_index _ funs 0); [|injection H as <-; reflexivity].
  destruct (flatten_module _ limit [] [] 0) as [e0|[out k]] eqn:Ef; [|discriminate].
  injection H as <-. eapply flatten_module_not_resolve_err; eauto.
Qed.

Theorem compile_ir_resolve_error fs d e l :
  compile_ir fs (init_state d) = RErr e l -> is_resolve_err e = true ->
  exists s1, stage_1 fs (init_state d) = ROk tt s1 /\ fitem_err (cs_jump s1) (flat_map fitems fs) e.
Proof.
  intros H He. destruct fs as [|f r]; [cbn in H; injection H as <- _; discriminate|]. unfold compile_ir in H.
  unfold bind in H.
  destruct (stage_1 (f :: r) (init_state d)) as [[] s1|e1 l1| |] eqn:E1; try discriminate.
  2:{ injection H as <- _. destruct (stage_1_errors _ _ _ _ E1) as [n ->]. discriminate. }
  exists s1. split; [reflexivity|].
  pose proof (G_stage_2 (f :: r) s1) as G2.
  destruct (stage_2 (f :: r) s1) as [[] s2|e2 l2| |]; try discriminate.
  injection H as <- _. exact (G2 He).
Qed.

(* compile fails with InvalidJump / SuperLimitReached only because some static call or function
   reference of the tree does not resolve under the specification - with exactly that outcome *)
Theorem compile_resolve_error M o e l :
  compile M o = CErr e l -> is_resolve_err e = true ->
  module_names_dotfree (with_std std_module M) = true ->
  exists st name,
    In st (tree_functions (with_std std_module M) []) /\
    In (CPtr name) (flat_map card_items (f_cards (fs_fn st))) /\
    ((e = EInvalidJump name /\ spec_resolve (with_std std_module M) (fs_path st) (fs_imports st) name = SNotFound) \/
     (e = ESuperLimitReached /\ spec_resolve (with_std std_module M) (fs_path st) (fs_imports st) name = SSuperLimit)).
Proof.
  intros Hc He Hd. unfold compile in Hc.
  destruct (into_ir_stream M (o_recursion_limit o)) as [e0|fs] eqn:Hi.
  { injection Hc as <- _. rewrite (into_ir_stream_not_resolve_err _ _ _ Hi) in He. discriminate. }
  destruct (compile_ir fs (init_state (o_debug o))) as [[] s|e1 l1| |] eqn:Hir; try discriminate.
  injection Hc as <- <-.
  destruct (compile_ir_resolve_error _ _ _ _ Hir He) as (s1 & H1 & (x & name & s0 & l0 & Hx & Hsnd & Hctx & Hr)).
  pose proof (compile_table_matches _ _ _ _ _ Hi Hd H1) as Ht.
  destruct (into_ir_stream_spec _ _ _ Hi) as (_ & irs & mi & -> & Hirs).
  unfold module_names_dotfree in Hd. pose proof Hd as Hd'. apply negb_true_iff in Hd'.
  assert (Hsi : Forall2 site_ir (tree_functions (with_std std_module M) []) irs).
  { apply (irs_from_site_ir _ 0); [|exact Hirs].
    intros st Hst. apply (site_path_dotfree _ O [] st Hd' (Forall_nil _) Hst). }
  apply in_flat_map in Hx. destruct Hx as (f & Hf & Hx). apply in_swap0 in Hf.
  destruct (Forall2_In_r _ _ _ _ Hsi Hf) as (st & Hst & [[k (E1 & E2 & E3 & E4 & E5 & E6 & E7)] Hp]).
  unfold fitems in Hx. apply in_map_iff in Hx. destruct Hx as (it & <- & Hit). cbn [fst snd] in *. subst it.
  exists st, name. split; [exact Hst|]. split; [rewrite <- E3; exact Hit|].
  unfold cctx in Hctx. injection Hctx as Hj Hn Himp.
  destruct (resolve_errors (with_std std_module M) (fs_imports st) name s0) as (Herr & _ & _).
  { rewrite Hj. exact Ht. } { rewrite Hn, E4. exact Hp. } { rewrite Himp. exact E5. }
  destruct (Herr _ _ Hr) as (_ & Hcase). rewrite Hn, E4 in Hcase. exact Hcase.
Qed.

Lemma Forall2_firstn {A B} (R : A -> B -> Prop) n : forall a b, Forall2 R a b -> Forall2 R (firstn n a) (firstn n b).
Proof.
  induction n as [|n IH]; intros a b H; [constructor|]. destruct H; cbn [firstn]; constructor; auto.
Qed.
