(* C09, part C: the CARD programs of std.filter / std.map / std.any (StdlibGen.std_module),
   evaluated by the reference semantics RefSem.eval with enough fuel on ANY well-formed table and
   ANY pure callback (an oracle), return what the specification functions of StdSpec.v say, and
   leave the input table, the globals and the host log as they were.
   The proof is a loop invariant over RefSem's ForEach (task TkForEach). *)
From Coq Require Import List NArith ZArith Bool Arith Lia.
From Cao Require Import CheckUtil Bits CardAst Table TableProofs Value StdlibGen RefSem RefSemProofs StdSpec StdRun StdRunProofs.
Import ListNotations.

(* ------------------------------------------------------------------------------------------ *)
(* lists, tables                                                                              *)
(* ------------------------------------------------------------------------------------------ *)
Lemma upd_last {A} (l : list A) x y : upd (l ++ [x]) (length l) y = l ++ [y].
Proof. induction l as [|a l IH]; cbn [upd app length]; [reflexivity | rewrite IH; reflexivity]. Qed.

Lemma nth_error_last {A} (l : list A) x : nth_error (l ++ [x]) (length l) = Some x.
Proof. rewrite nth_error_app2 by lia. rewrite Nat.sub_diag. reflexivity. Qed.

Lemma nth_error_mid {A} (l r : list A) x : nth_error (l ++ x :: r) (length l) = Some x.
Proof. rewrite nth_error_app2 by lia. rewrite Nat.sub_diag. reflexivity. Qed.

Lemma m_get_notin V (l : otable V) k : ~ In k (map fst l) -> m_get l k = None.
Proof. intros H. apply m_get_none. exact H. Qed.

Lemma s_insert_fresh V (l : otable V) k v : ~ In k (map fst l) -> s_insert l k v = l ++ [(k, v)].
Proof. intros H. unfold s_insert. rewrite m_get_notin by exact H. reflexivity. Qed.

(* the key of an entry in the middle of a table without duplicate keys is not among the keys of
   the entries before it *)
Lemma key_fresh V (pre suf : otable V) k v :
  NoDup (map fst (pre ++ (k, v) :: suf)) -> ~ In k (map fst pre).
Proof.
  rewrite map_app. cbn [map fst]. intros H Hin. apply NoDup_remove_2 in H.
  apply H. apply in_or_app. left. exact Hin.
Qed.

Lemma wf_key_ok V (pre suf : otable V) k v :
  Forall key_ok (map fst (pre ++ (k, v) :: suf)) -> to_key (of_key k) = Some k.
Proof.
  rewrite map_app. cbn [map fst]. intros H. apply Forall_app in H. destruct H as [_ H].
  inversion H; subst. assumption.
Qed.

(* truthiness looks at the heap only through the tables a value points to *)
Lemma v_bool_app h x v : val_in_heap h v -> v_bool (h ++ x) v = v_bool h v.
Proof.
  destruct v; cbn [val_in_heap v_bool obj_len]; intros H; try reflexivity.
  rewrite nth_error_app1 by exact H. reflexivity.
Qed.

(* ------------------------------------------------------------------------------------------ *)
(* the specification functions on a table split into a prefix and one more entry              *)
(* ------------------------------------------------------------------------------------------ *)
Section SpecSnoc.
  Variables (K V : Type) (kv : K -> V) (iv : nat -> V) (truthy : V -> bool) (cb : list V -> V).

  Lemma spec_filter_from_app i (l1 l2 : list (entry K V)) :
    spec_filter_from kv iv truthy cb i (l1 ++ l2) =
    spec_filter_from kv iv truthy cb i l1 ++ spec_filter_from kv iv truthy cb (i + length l1) l2.
  Proof.
    revert i. induction l1 as [|e r IH]; intros i; cbn [app spec_filter_from length].
    - rewrite Nat.add_0_r. reflexivity.
    - rewrite IH. replace (S i + length r) with (i + S (length r)) by lia.
      destruct (truthy _); reflexivity.
  Qed.

  Lemma spec_filter_from_keys i (l : list (entry K V)) k :
    In k (map fst (spec_filter_from kv iv truthy cb i l)) -> In k (map fst l).
  Proof.
    revert i. induction l as [|e r IH]; intros i; cbn [spec_filter_from map]; [tauto|].
    destruct (truthy _); cbn [map In]; intros H.
    - destruct H as [H | H]; [left; exact H | right; eapply IH; exact H].
    - right. eapply IH; exact H.
  Qed.

  Lemma spec_map_from_app i (l1 l2 : list (entry K V)) :
    spec_map_from kv iv cb i (l1 ++ l2) =
    spec_map_from kv iv cb i l1 ++ spec_map_from kv iv cb (i + length l1) l2.
  Proof.
    revert i. induction l1 as [|e r IH]; intros i; cbn [app spec_map_from length].
    - rewrite Nat.add_0_r. reflexivity.
    - rewrite IH. replace (S i + length r) with (i + S (length r)) by lia. reflexivity.
  Qed.

  Lemma spec_map_from_keys i (l : list (entry K V)) :
    map fst (spec_map_from kv iv cb i l) = map fst l.
  Proof.
    revert i. induction l as [|e r IH]; intros i; cbn [spec_map_from map fst]; [reflexivity|].
    rewrite IH. reflexivity.
  Qed.

  Lemma spec_any_from_app_none i (l1 l2 : list (entry K V)) :
    spec_any_from kv iv truthy cb i l1 = None ->
    spec_any_from kv iv truthy cb i (l1 ++ l2) = spec_any_from kv iv truthy cb (i + length l1) l2.
  Proof.
    revert i. induction l1 as [|e r IH]; intros i; cbn [app spec_any_from length].
    - rewrite Nat.add_0_r. reflexivity.
    - destruct (truthy _); [discriminate|]. intros H. rewrite IH by exact H.
      replace (S i + length r) with (i + S (length r)) by lia. reflexivity.
  Qed.
End SpecSnoc.

(* ------------------------------------------------------------------------------------------ *)
(* states: what a step that only creates variables / closures preserves                       *)
(* ------------------------------------------------------------------------------------------ *)
(* s' has the globals and the log of s, and the cells of s (and maybe more); nothing about the heap *)
Record cext (s s' : state) : Prop := {
  cx_globals : st_globals s' = st_globals s;
  cx_log : st_log s' = st_log s;
  cx_cells : exists x, st_cells s' = st_cells s ++ x }.

Lemma cext_refl s : cext s s.
Proof. split; try reflexivity. exists []. rewrite app_nil_r. reflexivity. Qed.

Lemma cext_trans a b c : cext a b -> cext b c -> cext a c.
Proof.
  intros [g1 l1 [x1 c1]] [g2 l2 [x2 c2]]. split; try congruence.
  exists (x1 ++ x2). rewrite c2, c1, app_assoc. reflexivity.
Qed.

Lemma extends_cext s s' : extends s s' -> cext s s'.
Proof. intros [h g l c k]. split; assumption. Qed.

Lemma cext_bump s : cext s (bump s).
Proof. apply extends_cext, extends_bump. Qed.

Lemma cext_set_heap s h : cext s (set_heap h s).
Proof. split; cbn; try reflexivity. exists []. rewrite app_nil_r. reflexivity. Qed.

Lemma cext_alloc s x : cext s (set_cells (st_cells s ++ x) s).
Proof. split; cbn; try reflexivity. exists x. reflexivity. Qed.

Lemma cext_cell s s' c v : cext s s' -> nth_error (st_cells s) c = Some v -> nth_error (st_cells s') c = Some v.
Proof.
  intros [_ _ [x E]] H. rewrite E. rewrite nth_error_app1; [exact H|].
  apply nth_error_Some. congruence.
Qed.

(* the variable x (a plain name) is visible in e and holds v in s *)
Definition var_is (e : env) (s : state) (x : str) (v : value) : Prop :=
  split_once_c c_dot x = None /\ is_empty x = false /\
  exists c, lookup_var e x = Some c /\ nth_error (st_cells s) c = Some v.

Lemma var_is_cext e s s' x v : cext s s' -> var_is e s x v -> var_is e s' x v.
Proof.
  intros X (H1 & H2 & c & H3 & H4). split; [exact H1|]. split; [exact H2|].
  exists c. split; [exact H3|]. eapply cext_cell; eassumption.
Qed.

Lemma read_var_simple e s x v k : var_is e s x v -> read_var e s x k = k v.
Proof.
  intros (H1 & H2 & c & H3 & H4). unfold read_var. rewrite H1. cbv beta iota zeta.
  rewrite H2, H3, H4. reflexivity.
Qed.

(* a result that is not "finished normally": it travels through [bnd] *)
Definition stops (r : res) : Prop :=
  match r with ROk (ONorm _) _ _ => False | _ => True end.

Lemma bnd_stops r k : stops r -> bnd r k = r.
Proof. destruct r as [| |[] ? ?]; cbn; tauto. Qed.

(* ------------------------------------------------------------------------------------------ *)
(* rules: one unfolding of the evaluator for each task / card the three programs use           *)
(* ------------------------------------------------------------------------------------------ *)
Section Rules.
  Variable P : list fentry.
  Variable host : list str.
  Notation runs := (runs P host).

  Lemma runs_not_fuel t s r : runs t s r -> r <> RFuel.
  Proof. intros (f & l & _ & N). exact N. Qed.

  (* common fuel and limit for one, two, three sub-evaluations; the limit as large as wanted *)
  Lemma join1 b t1 s1 r1 : runs t1 s1 r1 ->
    exists f l, (b <= l)%N /\ eval P host l f t1 s1 = r1.
  Proof.
    intros (f1 & l1 & E1 & N1). exists f1, (N.max l1 b). split; [lia|].
    eapply eval_lift; [exact E1 | exact N1 | lia | lia].
  Qed.

  Lemma join2 b t1 s1 r1 t2 s2 r2 : runs t1 s1 r1 -> runs t2 s2 r2 ->
    exists f l, (b <= l)%N /\ eval P host l f t1 s1 = r1 /\ eval P host l f t2 s2 = r2.
  Proof.
    intros (f1 & l1 & E1 & N1) (f2 & l2 & E2 & N2).
    exists (max f1 f2), (N.max (N.max l1 l2) b). split; [lia|]. split.
    - eapply eval_lift; [exact E1 | exact N1 | lia | lia].
    - eapply eval_lift; [exact E2 | exact N2 | lia | lia].
  Qed.

  Lemma join3 b t1 s1 r1 t2 s2 r2 t3 s3 r3 : runs t1 s1 r1 -> runs t2 s2 r2 -> runs t3 s3 r3 ->
    exists f l, (b <= l)%N /\ eval P host l f t1 s1 = r1 /\ eval P host l f t2 s2 = r2 /\
                eval P host l f t3 s3 = r3.
  Proof.
    intros (f1 & l1 & E1 & N1) (f2 & l2 & E2 & N2) (f3 & l3 & E3 & N3).
    exists (max (max f1 f2) f3), (N.max (N.max (N.max l1 l2) l3) b). split; [lia|]. split; [|split].
    - eapply eval_lift; [exact E1 | exact N1 | lia | lia].
    - eapply eval_lift; [exact E2 | exact N2 | lia | lia].
    - eapply eval_lift; [exact E3 | exact N3 | lia | lia].
  Qed.

  (* a task that needs no sub-evaluation *)
  Ltac leaf s :=
    exists 1, (st_steps s); split; [rewrite eval_S, F_unfold by lia; cbv zeta | ].

  Lemma r_seq_nil fi e s : runs (TkSeq fi e []) s (ok [] e (bump s)).
  Proof. leaf s; [reflexivity | discriminate]. Qed.

  Lemma r_args_nil len fi e s : runs (TkArgs len fi e []) s (ok [] e (bump s)).
  Proof. leaf s; [reflexivity | discriminate]. Qed.

  Lemma r_readvar fi e s x v : var_is e (bump s) x v -> runs (TkCard fi e (CReadVar x)) s (ok [v] e (bump s)).
  Proof.
    intros H. leaf s; [|discriminate]. cbn [eval_card]. exact (read_var_simple e (bump s) x v _ H).
  Qed.

  Lemma r_nil fi e s : runs (TkCard fi e CScalarNil) s (ok [VNil] e (bump s)).
  Proof. leaf s; [reflexivity | discriminate]. Qed.

  Lemma r_create_table fi e s :
    runs (TkCard fi e CCreateTable) s
         (ok [VTable (length (st_heap s))] e (set_heap (st_heap s ++ [[]]) (bump s))).
  Proof. leaf s; [reflexivity | discriminate]. Qed.

  Lemma r_seq_cons fi e c r s v1 e1 s1 v2 e2 s2 :
    runs (TkCard fi e c) (bump s) (ok v1 e1 s1) -> runs (TkSeq fi e1 r) s1 (ok v2 e2 s2) ->
    runs (TkSeq fi e (c :: r)) s (ok (v1 ++ v2) e2 s2).
  Proof.
    intros H1 H2. destruct (join2 (st_steps s) _ _ _ _ _ _ H1 H2) as (f & l & Hl & E1 & E2).
    exists (S f), l. split; [|discriminate]. rewrite eval_S, F_unfold by exact Hl. cbv zeta.
    rewrite E1. cbn [bnd ok]. rewrite E2. reflexivity.
  Qed.

  Lemma r_seq_stop fi e c r s x : runs (TkCard fi e c) (bump s) x -> stops x -> runs (TkSeq fi e (c :: r)) s x.
  Proof.
    intros H1 St. pose proof (runs_not_fuel _ _ _ H1) as N.
    destruct (join1 (st_steps s) _ _ _ H1) as (f & l & Hl & E1).
    exists (S f), l. split; [|exact N]. rewrite eval_S, F_unfold by exact Hl. cbv zeta.
    rewrite E1. apply bnd_stops. exact St.
  Qed.

  Lemma r_seq_cons_stop fi e c r s v1 e1 s1 x :
    runs (TkCard fi e c) (bump s) (ok v1 e1 s1) -> runs (TkSeq fi e1 r) s1 x -> stops x ->
    runs (TkSeq fi e (c :: r)) s x.
  Proof.
    intros H1 H2 St. pose proof (runs_not_fuel _ _ _ H2) as N.
    destruct (join2 (st_steps s) _ _ _ _ _ _ H1 H2) as (f & l & Hl & E1 & E2).
    exists (S f), l. split; [|exact N]. rewrite eval_S, F_unfold by exact Hl. cbv zeta.
    rewrite E1. cbn [bnd ok]. rewrite E2. apply bnd_stops. exact St.
  Qed.

  Lemma r_args_cons len fi e c r s v e1 s1 vs e2 s2 :
    runs (TkCard fi e c) (bump s) (ok [v] e1 s1) -> runs (TkArgs len fi e1 r) s1 (ok vs e2 s2) ->
    runs (TkArgs len fi e (c :: r)) s (ok (v :: vs) e2 s2).
  Proof.
    intros H1 H2. destruct (join2 (st_steps s) _ _ _ _ _ _ H1 H2) as (f & l & Hl & E1 & E2).
    exists (S f), l. split; [|discriminate]. rewrite eval_S, F_unfold by exact Hl. cbv zeta.
    rewrite E1. cbn [bnd ok]. rewrite E2. reflexivity.
  Qed.

  Lemma r_args_stop len fi e c r s x :
    runs (TkCard fi e c) (bump s) x -> stops x -> runs (TkArgs len fi e (c :: r)) s x.
  Proof.
    intros H1 St. pose proof (runs_not_fuel _ _ _ H1) as N.
    destruct (join1 (st_steps s) _ _ _ H1) as (f & l & Hl & E1).
    exists (S f), l. split; [|exact N]. rewrite eval_S, F_unfold by exact Hl. cbv zeta.
    rewrite E1. apply bnd_stops. exact St.
  Qed.

  Lemma r_composite fi e ty cs s x : runs (TkSeq fi e cs) (bump s) x -> runs (TkCard fi e (CComposite ty cs)) s x.
  Proof.
    intros H1. pose proof (runs_not_fuel _ _ _ H1) as N.
    destruct (join1 (st_steps s) _ _ _ H1) as (f & l & Hl & E1).
    exists (S f), l. split; [|exact N]. rewrite eval_S, F_unfold by exact Hl. cbv zeta.
    cbn [eval_card]. exact E1.
  Qed.

  Lemma r_if_true fi e c1 body s v e1 s1 x :
    runs (TkArgs false fi e [c1]) (bump s) (ok [v] e1 s1) -> v_bool (st_heap s1) v = true ->
    runs (TkCard fi e1 body) s1 x -> runs (TkCard fi e (CBin BIfTrue c1 body)) s x.
  Proof.
    intros H1 Hb H2. pose proof (runs_not_fuel _ _ _ H2) as N.
    destruct (join2 (st_steps s) _ _ _ _ _ _ H1 H2) as (f & l & Hl & E1 & E2).
    exists (S f), l. split; [|exact N]. rewrite eval_S, F_unfold by exact Hl. cbv zeta.
    cbn [eval_card]. rewrite E1. cbn [bnd ok one]. rewrite Hb. exact E2.
  Qed.

  Lemma r_if_false fi e c1 body s v e1 s1 :
    runs (TkArgs false fi e [c1]) (bump s) (ok [v] e1 s1) -> v_bool (st_heap s1) v = false ->
    runs (TkCard fi e (CBin BIfTrue c1 body)) s (ok [] e1 s1).
  Proof.
    intros H1 Hb. destruct (join1 (st_steps s) _ _ _ H1) as (f & l & Hl & E1).
    exists (S f), l. split; [|discriminate]. rewrite eval_S, F_unfold by exact Hl. cbv zeta.
    cbn [eval_card]. rewrite E1. cbn [bnd ok one]. rewrite Hb. reflexivity.
  Qed.

  Lemma r_dyncall fi e f cs s vs e1 s1 fv e2 s2 r e' s3 :
    runs (TkArgs false fi e cs) (bump s) (ok vs e1 s1) ->
    runs (TkArgs false fi e1 [f]) s1 (ok [fv] e2 s2) ->
    runs (TkCallVal fv vs) s2 (ok r e' s3) ->
    runs (TkCard fi e (CDynamicCall f cs)) s (ok r e2 s3).
  Proof.
    intros H1 H2 H3.
    destruct (join3 (st_steps s) _ _ _ _ _ _ _ _ _ H1 H2 H3) as (fu & l & Hl & E1 & E2 & E3).
    exists (S fu), l. split; [|discriminate]. rewrite eval_S, F_unfold by exact Hl. cbv zeta.
    cbn [eval_card]. rewrite E1. cbn [bnd ok]. rewrite E2. cbn [bnd ok one]. rewrite E3. reflexivity.
  Qed.

  Lemma r_set_property fi e a b c s x q key e1 s1 tb kk :
    runs (TkArgs false fi e [a; b; c]) (bump s) (ok [x; VTable q; key] e1 s1) ->
    nth_error (st_heap s1) q = Some tb -> to_key key = Some kk ->
    runs (TkCard fi e (CTri TSetProperty a b c)) s
         (ok [] e1 (set_heap (upd (st_heap s1) q (s_insert tb kk x)) s1)).
  Proof.
    intros H1 Hq Hk. destruct (join1 (st_steps s) _ _ _ H1) as (f & l & Hl & E1).
    exists (S f), l. split; [|discriminate]. rewrite eval_S, F_unfold by exact Hl. cbv zeta.
    cbn [eval_card]. rewrite E1. cbn [bnd ok]. unfold set_prop, with_table. rewrite Hq, Hk. reflexivity.
  Qed.

  Lemma r_return fi e a s v e1 s1 :
    runs (TkArgs false fi e [a]) (bump s) (ok [v] e1 s1) ->
    runs (TkCard fi e (CUn UReturn a)) s (ROk (ORet v) e1 s1).
  Proof.
    intros H1. destruct (join1 (st_steps s) _ _ _ H1) as (f & l & Hl & E1).
    exists (S f), l. split; [|discriminate]. rewrite eval_S, F_unfold by exact Hl. cbv zeta.
    cbn [eval_card]. rewrite E1. reflexivity.
  Qed.

  (* SetVar of a plain name that is not yet visible: a declaration *)
  Lemma r_set_var_new fi e name a s x e1 s1 :
    runs (TkArgs false fi e [a]) (bump s) (ok [x] e1 s1) ->
    rsplit_once_c c_dot name = None -> is_empty name = false -> lookup_var e1 name = None ->
    runs (TkCard fi e (CSetVar name a)) s (ok [] (fst (declare name x e1 s1)) (snd (declare name x e1 s1))).
  Proof.
    intros H1 Hn He Hl1. destruct (join1 (st_steps s) _ _ _ H1) as (f & l & Hl & E1).
    exists (S f), l. split; [|discriminate]. rewrite eval_S, F_unfold by exact Hl. cbv zeta.
    cbn [eval_card]. rewrite E1. cbn [bnd ok one]. rewrite Hn, He, Hl1.
    destruct (declare name x e1 s1). reflexivity.
  Qed.

  Lemma r_foreach_card fi e iv kv vv it body s p e1 s1 tb x :
    runs (TkArgs false fi e [it]) (bump s) (ok [VTable p] e1 s1) ->
    nth_error (st_heap s1) p = Some tb ->
    runs (TkForEach fi e1 iv kv vv p 0 body) s1 x ->
    runs (TkCard fi e (CForEach iv kv vv it body)) s x.
  Proof.
    intros H1 Hp H2. pose proof (runs_not_fuel _ _ _ H2) as N.
    destruct (join2 (st_steps s) _ _ _ _ _ _ H1 H2) as (f & l & Hl & E1 & E2).
    exists (S f), l. split; [|exact N]. rewrite eval_S, F_unfold by exact Hl. cbv zeta.
    cbn [eval_card]. rewrite E1. cbn [bnd ok one]. unfold with_table. rewrite Hp. exact E2.
  Qed.

  (* ---- ForEach with the three loop variables named ---- *)
  Definition loop_env (e : env) (n : nat) (xi xk xv : str) : env :=
    {| e_scopes := [(xi, S (S n)); (xk, S n); (xv, n)] :: e_scopes e; e_up := e_up e |}.
  Definition loop_state (s : state) (key : tkey) (val : value) (k : nat) : state :=
    set_cells (st_cells s ++ [val; of_key key; VInt (Z.of_nat k)]) s.

  Lemma foreach_enter e s xi xk xv key val k :
    (let '(e1, s1) := declare_opt (Some xv) val (push_scope e) s in
     let '(e2, s2) := declare_opt (Some xk) (of_key key) e1 s1 in
     declare_opt (Some xi) (VInt (Z.of_nat k)) e2 s2) =
    (loop_env e (length (st_cells s)) xi xk xv, loop_state s key val k).
  Proof.
    unfold declare_opt, declare, alloc_cell, push_scope, loop_env, loop_state, set_cells.
    cbn [e_scopes e_up st_cells st_heap st_clos st_globals st_log st_steps st_notes].
    rewrite !app_length. cbn [length]. rewrite <- !app_assoc. cbn [app].
    rewrite !Nat.add_1_r. reflexivity.
  Qed.

  Lemma r_foreach_exit fi e iv kv vv p k body s tb :
    nth_error (st_heap s) p = Some tb -> nth_error tb k = None ->
    runs (TkForEach fi e iv kv vv p k body) s (ok [] e (bump s)).
  Proof.
    intros Hp Hk. leaf s; [|discriminate]. cbn [bump st_heap]. rewrite Hp, Hk. reflexivity.
  Qed.

  Lemma foreach_unfold l rec fi e xi xk xv p k body s tb key val :
    (st_steps s <= l)%N -> nth_error (st_heap s) p = Some tb -> nth_error tb k = Some (key, val) ->
    F P host l rec (TkForEach fi e (Some xi) (Some xk) (Some xv) p k body) s =
    bnd (rec (TkCard fi (loop_env e (length (st_cells s)) xi xk xv) body) (loop_state (bump s) key val k))
        (fun _ _ s4 => rec (TkForEach fi e (Some xi) (Some xk) (Some xv) p (S k) body) s4).
  Proof.
    intros Hl Hp Hk. rewrite F_unfold by exact Hl. cbv zeta. cbn [bump st_heap]. rewrite Hp, Hk.
    pose proof (foreach_enter e (bump s) xi xk xv key val k) as E.
    destruct (declare_opt (Some xv) val (push_scope e) (bump s)) as [e1 s1].
    destruct (declare_opt (Some xk) (of_key key) e1 s1) as [e2 s2].
    rewrite E. reflexivity.
  Qed.

  Lemma r_foreach_iter fi e xi xk xv p k body s tb key val vs e' s4 x :
    nth_error (st_heap s) p = Some tb -> nth_error tb k = Some (key, val) ->
    runs (TkCard fi (loop_env e (length (st_cells s)) xi xk xv) body) (loop_state (bump s) key val k) (ok vs e' s4) ->
    runs (TkForEach fi e (Some xi) (Some xk) (Some xv) p (S k) body) s4 x ->
    runs (TkForEach fi e (Some xi) (Some xk) (Some xv) p k body) s x.
  Proof.
    intros Hp Hk H1 H2. pose proof (runs_not_fuel _ _ _ H2) as N.
    destruct (join2 (st_steps s) _ _ _ _ _ _ H1 H2) as (f & l & Hl & E1 & E2).
    exists (S f), l. split; [|exact N]. rewrite eval_S.
    rewrite (foreach_unfold _ _ _ _ _ _ _ _ _ _ _ _ _ _ Hl Hp Hk).
    rewrite E1. cbn [bnd ok]. exact E2.
  Qed.

  Lemma r_foreach_stop fi e xi xk xv p k body s tb key val x :
    nth_error (st_heap s) p = Some tb -> nth_error tb k = Some (key, val) ->
    runs (TkCard fi (loop_env e (length (st_cells s)) xi xk xv) body) (loop_state (bump s) key val k) x ->
    stops x ->
    runs (TkForEach fi e (Some xi) (Some xk) (Some xv) p k body) s x.
  Proof.
    intros Hp Hk H1 St. pose proof (runs_not_fuel _ _ _ H1) as N.
    destruct (join1 (st_steps s) _ _ _ H1) as (f & l & Hl & E1).
    exists (S f), l. split; [|exact N]. rewrite eval_S.
    rewrite (foreach_unfold _ _ _ _ _ _ _ _ _ _ _ _ _ _ Hl Hp Hk).
    rewrite E1. apply bnd_stops. exact St.
  Qed.

  (* the loop rule: an invariant [Inv k s] at the start of iteration k; the body either ends
     normally and re-establishes the invariant for k+1, or stops (Return) with [Post] *)
  Section Loop.
    Variables (fi : nat) (e : env) (xi xk xv : str) (p : nat) (body : card) (tb : otable value).
    Variable Inv : nat -> state -> Prop.
    Variable Post : res -> Prop.
    Hypothesis Hheap : forall k s, Inv k s -> nth_error (st_heap s) p = Some tb.
    Hypothesis Hexit : forall s, Inv (length tb) s -> Post (ok [] e (bump s)).
    Hypothesis Hbody : forall k key val s,
      nth_error tb k = Some (key, val) -> Inv k s ->
      exists x, runs (TkCard fi (loop_env e (length (st_cells s)) xi xk xv) body) (loop_state (bump s) key val k) x /\
                ((exists vs e' s4, x = ok vs e' s4 /\ Inv (S k) s4) \/ (stops x /\ Post x)).

    Lemma foreach_loop : forall n k s, n = length tb - k -> k <= length tb -> Inv k s ->
      exists x, runs (TkForEach fi e (Some xi) (Some xk) (Some xv) p k body) s x /\ Post x.
    Proof.
      induction n as [|n IH]; intros k s Hn Hk HI.
      - assert (k = length tb) by lia. subst k.
        exists (ok [] e (bump s)). split; [|apply Hexit; exact HI].
        eapply r_foreach_exit; [eapply Hheap; exact HI|]. apply nth_error_None. lia.
      - destruct (nth_error tb k) as [[key val]|] eqn:Ek; [|apply nth_error_None in Ek; lia].
        destruct (Hbody k key val s Ek HI) as (x & Hx & [(vs & e' & s4 & -> & HI') | (St & HP)]).
        + assert (Hlt : k < length tb) by (apply nth_error_Some; congruence).
          destruct (IH (S k) s4) as (y & Hy & HPy); [lia | lia | exact HI' |].
          exists y. split; [|exact HPy].
          eapply r_foreach_iter; [eapply Hheap; exact HI | exact Ek | exact Hx | exact Hy].
        + exists x. split; [|exact HP].
          eapply r_foreach_stop; [eapply Hheap; exact HI | exact Ek | exact Hx | exact St].
    Qed.
  End Loop.
End Rules.

(* ------------------------------------------------------------------------------------------ *)
(* the three programs                                                                         *)
(* ------------------------------------------------------------------------------------------ *)
Definition s_iterable : str := [105; 116; 101; 114; 97; 98; 108; 101]%N.
Definition s_callback : str := [99; 97; 108; 108; 98; 97; 99; 107]%N.
Definition s_res : str := [114; 101; 115]%N.
Definition s_i : str := [105]%N.
Definition s_k : str := [107]%N.
Definition s_v : str := [118]%N.

Definition dyn_call : card :=
  CDynamicCall (CReadVar s_callback) [CReadVar s_i; CReadVar s_v; CReadVar s_k].
Definition set_res (v : card) : card := CTri TSetProperty v (CReadVar s_res) (CReadVar s_k).
Definition filter_body : card := CComposite [95%N] [CBin BIfTrue dyn_call (set_res (CReadVar s_v))].
Definition any_body : card := CComposite [95%N] [CBin BIfTrue dyn_call (CUn UReturn (CReadVar s_k))].
Definition map_body : card := CComposite [95%N] [set_res (CComposite [] [dyn_call])].
Definition std_loop (body : card) : card :=
  CForEach (Some s_i) (Some s_k) (Some s_v) (CReadVar s_iterable) body.
Definition std_fun (body last : card) : function :=
  Build_function [s_iterable; s_callback] [CSetVar s_res CCreateTable; std_loop body; last].

Lemma std_fn_filter : std_fn s_filter = Some (std_fun filter_body (CUn UReturn (CReadVar s_res))).
Proof. vm_compute. reflexivity. Qed.
Lemma std_fn_map : std_fn s_map = Some (std_fun map_body (CUn UReturn (CReadVar s_res))).
Proof. vm_compute. reflexivity. Qed.
Lemma std_fn_any : std_fn s_any = Some (std_fun any_body (CUn UReturn CScalarNil)).
Proof. vm_compute. reflexivity. Qed.

(* the environments: after the parameters, after the declaration of res, inside the loop *)
Definition env0 (c0 : nat) : env :=
  {| e_scopes := [[(s_iterable, c0); (s_callback, S c0)]]; e_up := [] |}.
Definition env1 (c0 : nat) : env :=
  {| e_scopes := [[(s_res, S (S c0)); (s_iterable, c0); (s_callback, S c0)]]; e_up := [] |}.
Definition lenv (c0 n : nat) : env := loop_env (env1 c0) n s_i s_k s_v.

(* the cells of the parameters, of res and of the loop variables hold what they should *)
Definition frame_ok (c0 p : nat) (cbv : value) (hl : nat) (s : state) : Prop :=
  nth_error (st_cells s) c0 = Some (VTable p) /\
  nth_error (st_cells s) (S c0) = Some cbv /\
  nth_error (st_cells s) (S (S c0)) = Some (VTable hl).
Definition vars_ok (c0 n p : nat) (cbv : value) (hl : nat) (key : tkey) (val : value) (k : nat) (s : state) : Prop :=
  frame_ok c0 p cbv hl s /\
  nth_error (st_cells s) n = Some val /\
  nth_error (st_cells s) (S n) = Some (of_key key) /\
  nth_error (st_cells s) (S (S n)) = Some (v_idx k).

Lemma frame_ok_cext c0 p cbv hl s s' : cext s s' -> frame_ok c0 p cbv hl s -> frame_ok c0 p cbv hl s'.
Proof. intros X (A & B & C). repeat split; eapply cext_cell; eassumption. Qed.

Lemma vars_ok_cext c0 n p cbv hl key val k s s' :
  cext s s' -> vars_ok c0 n p cbv hl key val k s -> vars_ok c0 n p cbv hl key val k s'.
Proof.
  intros X (A & B & C & D). split; [eapply frame_ok_cext; eassumption|].
  repeat split; eapply cext_cell; eassumption.
Qed.

Section VarsOk.
  Variables (c0 n p : nat) (cbv : value) (hl : nat) (key : tkey) (val : value) (k : nat) (s : state).
  Hypothesis V : vars_ok c0 n p cbv hl key val k s.

  Lemma vi_iterable : var_is (lenv c0 n) s s_iterable (VTable p).
  Proof. split; [reflexivity|]. split; [reflexivity|]. exists c0. split; [reflexivity | apply V]. Qed.
  Lemma vi_callback : var_is (lenv c0 n) s s_callback cbv.
  Proof. split; [reflexivity|]. split; [reflexivity|]. exists (S c0). split; [reflexivity | apply V]. Qed.
  Lemma vi_res : var_is (lenv c0 n) s s_res (VTable hl).
  Proof. split; [reflexivity|]. split; [reflexivity|]. exists (S (S c0)). split; [reflexivity | apply V]. Qed.
  Lemma vi_v : var_is (lenv c0 n) s s_v val.
  Proof. split; [reflexivity|]. split; [reflexivity|]. exists n. split; [reflexivity | apply V]. Qed.
  Lemma vi_k : var_is (lenv c0 n) s s_k (of_key key).
  Proof. split; [reflexivity|]. split; [reflexivity|]. exists (S n). split; [reflexivity | apply V]. Qed.
  Lemma vi_i : var_is (lenv c0 n) s s_i (v_idx k).
  Proof. split; [reflexivity|]. split; [reflexivity|]. exists (S (S n)). split; [reflexivity | apply V]. Qed.
End VarsOk.

Section Programs.
  Variable P : list fentry.
  Variable host : list str.
  Notation runs := (runs P host).
  Variable fi : nat.

  (* operands that are variables *)
  Lemma run_args_vars e : forall xs vs s,
    Forall2 (fun x v => var_is e s x v) xs vs ->
    exists s', runs (TkArgs false fi e (map CReadVar xs)) s (ok vs e s') /\ extends s s'.
  Proof.
    induction xs as [|x xs IH]; intros vs s H; inversion H as [|? v ? vs' Hx Hr]; subst.
    - exists (bump s). split; [apply r_args_nil | apply extends_bump].
    - assert (X : cext s (bump (bump s))) by (eapply cext_trans; apply cext_bump).
      destruct (IH vs' (bump (bump s))) as (s' & R & E).
      { clear -Hr X. induction Hr; constructor; [eapply var_is_cext; eassumption | assumption]. }
      exists s'. split.
      + cbn [map]. eapply r_args_cons; [|exact R]. apply r_readvar. eapply var_is_cext; eassumption.
      + eapply extends_trans; [apply extends_bump|]. eapply extends_trans; [apply extends_bump | exact E].
  Qed.

  Section Callback.
    Variables (cbv : value) (cb : list value -> value).
    Hypothesis Hcb : pure_cb P host cbv cb.
    Variables (c0 n p hl : nat) (key : tkey) (val : value) (k : nat).
    Notation VOK := (vars_ok c0 n p cbv hl key val k).
    Notation cbres := (cb (args3 of_key v_idx k (key, val))).

    (* the DynamicCall of the callback on (index, value, key) *)
    Lemma run_dyn s : VOK s ->
      exists s1, runs (TkCard fi (lenv c0 n) dyn_call) s (ok [cbres] (lenv c0 n) s1) /\ extends s s1.
    Proof.
      intros V0.
      pose proof (vars_ok_cext _ _ _ _ _ _ _ _ _ _ (cext_bump s) V0) as V.
      destruct (run_args_vars (lenv c0 n) [s_i; s_v; s_k] [v_idx k; val; of_key key] (bump s))
        as (s1 & R1 & X1).
      { repeat constructor; [eapply vi_i | eapply vi_v | eapply vi_k]; exact V. }
      pose proof (vars_ok_cext _ _ _ _ _ _ _ _ _ _ (extends_cext _ _ X1) V) as V1.
      destruct (run_args_vars (lenv c0 n) [s_callback] [cbv] s1) as (s2 & R2 & X2).
      { repeat constructor. eapply vi_callback; exact V1. }
      destruct (Hcb [v_idx k; val; of_key key] s2) as (s3 & R3 & X3).
      exists s3. split.
      - unfold dyn_call. eapply r_dyncall; [exact R1 | exact R2 | exact R3].
      - eapply extends_trans; [apply extends_bump|].
        eapply extends_trans; [exact X1|]. eapply extends_trans; [exact X2 | exact X3].
    Qed.

    (* the same as the one operand of IfTrue *)
    Lemma run_cond s : VOK s ->
      exists s1, runs (TkArgs false fi (lenv c0 n) [dyn_call]) s (ok [cbres] (lenv c0 n) s1) /\ extends s s1.
    Proof.
      intros V0. destruct (run_dyn (bump s)) as (s1 & R1 & X1).
      { eapply vars_ok_cext; [apply cext_bump | exact V0]. }
      exists (bump s1). split.
      - eapply r_args_cons; [exact R1 | apply r_args_nil].
      - eapply extends_trans; [apply extends_bump|]. eapply extends_trans; [exact X1 | apply extends_bump].
    Qed.
  End Callback.

  (* ---- the call of a function with two parameters; the prologue [res = CreateTable] ---- *)
  Lemma bind_params2 a b x y s :
    bind_params [a; b] [y; x] s =
    ([(a, length (st_cells s)); (b, S (length (st_cells s)))], set_cells (st_cells s ++ [x; y]) s).
  Proof.
    unfold bind_params. cbn [rev app combine fold_left alloc_cell fst snd].
    unfold set_cells. cbn [st_cells st_heap st_clos st_globals st_log st_steps st_notes].
    rewrite app_length. cbn [length]. rewrite Nat.add_1_r. rewrite <- app_assoc. reflexivity.
  Qed.

  Lemma finish_call_not_fuel r : r <> RFuel -> finish_call r <> RFuel.
  Proof. destruct r as [| |[] ? ?]; cbn; intros H; try discriminate. exact H. Qed.

  Lemma r_call2 idx fe a b body x y s r :
    nth_error P idx = Some fe -> fe_fn fe = Build_function [a; b] body ->
    runs (TkSeq idx {| e_scopes := [[(a, length (st_cells s)); (b, S (length (st_cells s)))]]; e_up := [] |} body)
         (set_cells (st_cells s ++ [x; y]) (bump s)) r ->
    runs (TkCallFn idx [y; x]) s (finish_call r).
  Proof.
    intros Hfe Hfn H1. pose proof (runs_not_fuel _ _ _ _ _ H1) as N.
    destruct (join1 P host (st_steps s) _ _ _ H1) as (f & l & Hl & E1).
    exists (S f), l. split; [|apply finish_call_not_fuel; exact N].
    rewrite eval_S, F_unfold by exact Hl. cbv zeta. rewrite Hfe, Hfn. cbn [f_args f_cards].
    unfold call_body. cbn [length Nat.ltb Nat.leb]. rewrite bind_params2.
    f_equal. exact E1.
  Qed.

  Lemma run_prologue c0 s : length (st_cells s) = S (S c0) ->
    exists s2, runs (TkCard fi (env0 c0) (CSetVar s_res CCreateTable)) s (ok [] (env1 c0) s2) /\
      st_heap s2 = st_heap s ++ [[]] /\ cext s s2 /\
      nth_error (st_cells s2) (S (S c0)) = Some (VTable (length (st_heap s))).
  Proof.
    intros Hlen.
    assert (R : runs (TkArgs false fi (env0 c0) [CCreateTable]) (bump s)
                     (ok [VTable (length (st_heap s))] (env0 c0)
                         (bump (set_heap (st_heap s ++ [[]]) (bump (bump (bump s))))))).
    { eapply r_args_cons; [exact (r_create_table P host fi (env0 c0) (bump (bump s))) | apply r_args_nil]. }
    pose proof (r_set_var_new _ _ _ _ s_res _ _ _ _ _ R eq_refl eq_refl eq_refl) as H.
    unfold declare, alloc_cell in H.
    cbn [fst snd e_scopes e_up env0 st_cells bump set_heap] in H. rewrite Hlen in H.
    eexists. split; [exact H|]. split; [reflexivity|]. split.
    - split; cbn; try reflexivity. eexists. reflexivity.
    - cbn [st_cells set_cells]. rewrite <- Hlen. apply nth_error_last.
  Qed.

  (* ---- SetProperty(a, res, k) where the card a yields x without touching the heap ---- *)
  Section Bodies.
    Variables (cbv : value) (cb : list value -> value).
    Hypothesis Hcb : pure_cb P host cbv cb.
    Variables (h0 : list (otable value)) (c0 p : nat).
    Notation hl := (length h0).

    Lemma run_set_res a x n key val k s sa R :
      vars_ok c0 n p cbv hl key val k s -> st_heap s = h0 ++ [R] ->
      runs (TkCard fi (lenv c0 n) a) (bump (bump s)) (ok [x] (lenv c0 n) sa) -> extends (bump (bump s)) sa ->
      to_key (of_key key) = Some key ->
      exists s', runs (TkCard fi (lenv c0 n) (set_res a)) s (ok [] (lenv c0 n) s') /\ cext s s' /\
      st_heap s' = h0 ++ [s_insert R key x].
    Proof.
      intros V Hh Ra Xa Hk.
      assert (Xsa : cext s sa).
      { eapply cext_trans; [apply cext_bump|]. eapply cext_trans; [apply cext_bump | apply extends_cext; exact Xa]. }
      pose proof (vars_ok_cext _ _ _ _ _ _ _ _ _ _ Xsa V) as Va.
      destruct (run_args_vars (lenv c0 n) [s_res; s_k] [VTable hl; of_key key] sa) as (s1 & R1 & X1).
      { repeat constructor; [eapply vi_res | eapply vi_k]; exact Va. }
      assert (Hh1 : st_heap s1 = h0 ++ [R]).
      { rewrite (ext_heap _ _ X1), (ext_heap _ _ Xa). exact Hh. }
      eexists. split; [|split].
      - unfold set_res. eapply r_set_property.
        + eapply r_args_cons; [exact Ra | exact R1].
        + rewrite Hh1. apply nth_error_last.
        + exact Hk.
      - eapply cext_trans; [exact Xsa|]. eapply cext_trans; [apply extends_cext; exact X1 | apply cext_set_heap].
      - cbn [st_heap set_heap]. rewrite Hh1. apply upd_last.
    Qed.

    (* one iteration of filter *)
    Lemma run_filter_body n key val k s R :
      (forall args, val_in_heap h0 (cb args)) ->
      vars_ok c0 n p cbv hl key val k s -> st_heap s = h0 ++ [R] -> to_key (of_key key) = Some key ->
      exists vs e' s', runs (TkCard fi (lenv c0 n) filter_body) s (ok vs e' s') /\ cext s s' /\
      st_heap s' = h0 ++ [if v_bool h0 (cb (args3 of_key v_idx k (key, val))) then s_insert R key val else R].
    Proof.
      intros Hin V Hh Hk.
      assert (X3 : cext s (bump (bump (bump s)))).
      { eapply cext_trans; [apply cext_bump|]. eapply cext_trans; apply cext_bump. }
      destruct (run_cond cbv cb Hcb c0 n p hl key val k (bump (bump (bump s)))) as (s1 & R1 & X1).
      { eapply vars_ok_cext; [exact X3 | exact V]. }
      assert (Xs1 : cext s s1) by (eapply cext_trans; [exact X3 | apply extends_cext; exact X1]).
      assert (Hh1 : st_heap s1 = h0 ++ [R]) by (rewrite (ext_heap _ _ X1); exact Hh).
      pose proof (vars_ok_cext _ _ _ _ _ _ _ _ _ _ Xs1 V) as V1.
      destruct (v_bool h0 (cb (args3 of_key v_idx k (key, val)))) eqn:B.
      - destruct (run_set_res (CReadVar s_v) val n key val k s1 (bump (bump (bump s1))) R V1 Hh1) as (s2 & R2 & X2 & Hh2).
        { apply r_readvar. eapply vi_v. eapply vars_ok_cext; [|exact V1].
          eapply cext_trans; [apply cext_bump|]. eapply cext_trans; apply cext_bump. }
        { apply extends_bump. }
        { exact Hk. }
        eexists _, _, _. split; [|split].
        + unfold filter_body. apply r_composite. eapply r_seq_cons; [|apply r_seq_nil].
          eapply r_if_true; [exact R1 | | exact R2].
          rewrite Hh1, v_bool_app by apply Hin. exact B.
        + eapply cext_trans; [exact Xs1|]. eapply cext_trans; [exact X2 | apply cext_bump].
        + cbn [st_heap bump]. exact Hh2.
      - eexists _, _, _. split; [|split].
        + unfold filter_body. apply r_composite. eapply r_seq_cons; [|apply r_seq_nil].
          eapply r_if_false; [exact R1|].
          rewrite Hh1, v_bool_app by apply Hin. exact B.
        + eapply cext_trans; [exact Xs1 | apply cext_bump].
        + cbn [st_heap bump]. exact Hh1.
    Qed.
  End Bodies.
  (* ---- variables outside the loop ---- *)
  Lemma vi1_iterable c0 p cbv hl s : frame_ok c0 p cbv hl s -> var_is (env1 c0) s s_iterable (VTable p).
  Proof. intros V. split; [reflexivity|]. split; [reflexivity|]. exists c0. split; [reflexivity | apply V]. Qed.
  Lemma vi1_res c0 p cbv hl s : frame_ok c0 p cbv hl s -> var_is (env1 c0) s s_res (VTable hl).
  Proof. intros V. split; [reflexivity|]. split; [reflexivity|]. exists (S (S c0)). split; [reflexivity | apply V]. Qed.

  Lemma split_at {A} (l : list A) k e : nth_error l k = Some e ->
    exists pre suf, l = pre ++ e :: suf /\ firstn k l = pre /\ firstn (S k) l = pre ++ [e] /\ length pre = k.
  Proof.
    intros H. destruct (nth_error_split l k H) as (l1 & l2 & -> & Hlen). exists l1, l2. subst k.
    split; [reflexivity|]. split; [|split; [|reflexivity]].
    - rewrite firstn_app, Nat.sub_diag, firstn_all. cbn [firstn]. apply app_nil_r.
    - rewrite firstn_app. rewrite firstn_all2 by lia.
      replace (S (length l1) - length l1) with 1 by lia. reflexivity.
  Qed.

  Lemma nth_error_3 {A} (l : list A) a b c :
    nth_error (l ++ [a; b; c]) (length l) = Some a /\
    nth_error (l ++ [a; b; c]) (S (length l)) = Some b /\
    nth_error (l ++ [a; b; c]) (S (S (length l))) = Some c.
  Proof. induction l as [|x l IH]; cbn [app length nth_error]; [repeat split | exact IH]. Qed.

  (* entering an iteration: the variables of the loop and of the function are in place *)
  Lemma enter_vars_ok c0 p cbv hl key val k s :
    frame_ok c0 p cbv hl s ->
    vars_ok c0 (length (st_cells s)) p cbv hl key val k (loop_state (bump s) key val k).
  Proof.
    intros Fr. split.
    - eapply frame_ok_cext; [|exact Fr]. eapply cext_trans; [apply cext_bump|].
      unfold loop_state. apply cext_alloc.
    - unfold loop_state. cbn [st_cells set_cells bump]. apply nth_error_3.
  Qed.

  Lemma enter_cext s key val k : cext s (loop_state (bump s) key val k).
  Proof. eapply cext_trans; [apply cext_bump|]. unfold loop_state. apply cext_alloc. Qed.

  (* ---------------------------------------------------------------------------------------- *)
  (* filter                                                                                   *)
  (* ---------------------------------------------------------------------------------------- *)
  Section FilterLoop.
    Variables (cbv : value) (cb : list value -> value).
    Hypothesis Hcb : pure_cb P host cbv cb.
    Variables (h0 : list (otable value)) (g0 : list (str * value)) (l0 : list (str * list tree)).
    Variables (c0 p : nat) (tb : otable value).
    Hypothesis Hp : nth_error h0 p = Some tb.
    Hypothesis Hwf : wf_table tb.
    Hypothesis Hin : forall args, val_in_heap h0 (cb args).
    Notation hl := (length h0).
    Notation sff := (spec_filter_from of_key v_idx (v_bool h0) cb).

    Definition finv (k : nat) (s : state) : Prop :=
      st_heap s = h0 ++ [sff 0 (firstn k tb)] /\ st_globals s = g0 /\ st_log s = l0 /\
      frame_ok c0 p cbv hl s.
    Definition fpost (x : res) : Prop := exists s', x = ok [] (env1 c0) s' /\ finv (length tb) s'.

    Lemma filter_loop s : finv 0 s ->
      exists s', runs (TkForEach fi (env1 c0) (Some s_i) (Some s_k) (Some s_v) p 0 filter_body) s
                      (ok [] (env1 c0) s') /\ finv (length tb) s'.
    Proof.
      intros HI.
      destruct (foreach_loop P host fi (env1 c0) s_i s_k s_v p filter_body tb finv fpost)
        with (n := length tb) (k := 0) (s := s) as (x & Hx & (s' & -> & HI')).
      - intros k s1 (Hh & _). rewrite Hh. rewrite nth_error_app1; [exact Hp|].
        apply nth_error_Some. congruence.
      - intros s1 (A & B & C & D). exists (bump s1). split; [reflexivity|].
        split; [exact A|]. split; [exact B|]. split; [exact C|].
        eapply frame_ok_cext; [apply cext_bump | exact D].
      - intros k key val s1 Ek (Hh & Hg & Hl & Fr).
        destruct (split_at tb k (key, val) Ek) as (pre & suf & Etb & Ef & Ef' & Elen).
        destruct Hwf as [Hnd Hko].
        assert (Hk : to_key (of_key key) = Some key).
        { rewrite Etb in Hko. eapply wf_key_ok; exact Hko. }
        destruct (run_filter_body cbv cb Hcb h0 c0 p (length (st_cells s1)) key val k
                    (loop_state (bump s1) key val k) (sff 0 (firstn k tb)) Hin)
          as (vs & e' & s4 & R4 & X4 & H4).
        { apply enter_vars_ok. exact Fr. }
        { exact Hh. }
        { exact Hk. }
        exists (ok vs e' s4). split; [exact R4|]. left. exists vs, e', s4. split; [reflexivity|].
        pose proof (cext_trans _ _ _ (enter_cext s1 key val k) X4) as X.
        split; [|split; [|split]].
        + rewrite H4, Ef', Ef. rewrite spec_filter_from_app. cbn [spec_filter_from]. unfold entry. rewrite Elen.
          cbn [Nat.add]. f_equal. f_equal.
          destruct (v_bool h0 (cb (args3 of_key v_idx k (key, val)))).
          * apply s_insert_fresh. intros Hi. apply spec_filter_from_keys in Hi.
            rewrite Etb in Hnd. eapply key_fresh; [exact Hnd | exact Hi].
          * rewrite app_nil_r. reflexivity.
        + rewrite (cx_globals _ _ X). exact Hg.
        + rewrite (cx_log _ _ X). exact Hl.
        + eapply frame_ok_cext; [exact X | exact Fr].
      - lia.
      - lia.
      - exact HI.
      - exists s'. split; [exact Hx | exact HI'].
    Qed.
  End FilterLoop.
  (* ---------------------------------------------------------------------------------------- *)
  (* map                                                                                      *)
  (* ---------------------------------------------------------------------------------------- *)
  Section MapLoop.
    Variables (cbv : value) (cb : list value -> value).
    Hypothesis Hcb : pure_cb P host cbv cb.
    Variables (h0 : list (otable value)) (g0 : list (str * value)) (l0 : list (str * list tree)).
    Variables (c0 p : nat) (tb : otable value).
    Hypothesis Hp : nth_error h0 p = Some tb.
    Hypothesis Hwf : wf_table tb.
    Notation hl := (length h0).
    Notation smf := (spec_map_from of_key v_idx cb).

    (* one iteration of map *)
    Lemma run_map_body n key val k s R :
      vars_ok c0 n p cbv hl key val k s -> st_heap s = h0 ++ [R] -> to_key (of_key key) = Some key ->
      exists vs e' s', runs (TkCard fi (lenv c0 n) map_body) s (ok vs e' s') /\ cext s s' /\
        st_heap s' = h0 ++ [s_insert R key (cb (args3 of_key v_idx k (key, val)))].
    Proof.
      intros V Hh Hk.
      set (sb := bump (bump s)).
      assert (Xb : cext s sb) by (eapply cext_trans; apply cext_bump).
      pose proof (vars_ok_cext _ _ _ _ _ _ _ _ _ _ Xb V) as Vb.
      set (t0 := bump (bump (bump (bump sb)))).
      assert (Xt : extends (bump (bump sb)) t0).
      { eapply extends_trans; apply extends_bump. }
      destruct (run_dyn cbv cb Hcb c0 n p hl key val k t0) as (s1 & R1 & X1).
      { eapply vars_ok_cext; [|exact Vb]. eapply cext_trans; [apply cext_bump|].
        eapply cext_trans; [apply cext_bump | apply extends_cext; exact Xt]. }
      destruct (run_set_res cbv h0 c0 p (CComposite [] [dyn_call]) (cb (args3 of_key v_idx k (key, val)))
                  n key val k sb (bump s1) R Vb) as (s2 & R2 & X2 & H2).
      { exact Hh. }
      { apply r_composite.
        change [cb (args3 of_key v_idx k (key, val))] with ([cb (args3 of_key v_idx k (key, val))] ++ []).
        eapply r_seq_cons; [exact R1 | apply r_seq_nil]. }
      { eapply extends_trans; [exact Xt|]. eapply extends_trans; [exact X1 | apply extends_bump]. }
      { exact Hk. }
      eexists _, _, _. split; [|split].
      - unfold map_body. apply r_composite. eapply r_seq_cons; [exact R2 | apply r_seq_nil].
      - eapply cext_trans; [exact Xb|]. eapply cext_trans; [exact X2 | apply cext_bump].
      - cbn [st_heap bump]. exact H2.
    Qed.

    Definition minv (k : nat) (s : state) : Prop :=
      st_heap s = h0 ++ [smf 0 (firstn k tb)] /\ st_globals s = g0 /\ st_log s = l0 /\
      frame_ok c0 p cbv hl s.
    Definition mpost (x : res) : Prop := exists s', x = ok [] (env1 c0) s' /\ minv (length tb) s'.

    Lemma map_loop s : minv 0 s ->
      exists s', runs (TkForEach fi (env1 c0) (Some s_i) (Some s_k) (Some s_v) p 0 map_body) s
                      (ok [] (env1 c0) s') /\ minv (length tb) s'.
    Proof.
      intros HI.
      destruct (foreach_loop P host fi (env1 c0) s_i s_k s_v p map_body tb minv mpost)
        with (n := length tb) (k := 0) (s := s) as (x & Hx & (s' & -> & HI')).
      - intros k s1 (Hh & _). rewrite Hh. rewrite nth_error_app1; [exact Hp|].
        apply nth_error_Some. congruence.
      - intros s1 (A & B & C & D). exists (bump s1). split; [reflexivity|].
        split; [exact A|]. split; [exact B|]. split; [exact C|].
        eapply frame_ok_cext; [apply cext_bump | exact D].
      - intros k key val s1 Ek (Hh & Hg & Hl & Fr).
        destruct (split_at tb k (key, val) Ek) as (pre & suf & Etb & Ef & Ef' & Elen).
        destruct Hwf as [Hnd Hko].
        assert (Hk : to_key (of_key key) = Some key).
        { rewrite Etb in Hko. eapply wf_key_ok; exact Hko. }
        destruct (run_map_body (length (st_cells s1)) key val k
                    (loop_state (bump s1) key val k) (smf 0 (firstn k tb)))
          as (vs & e' & s4 & R4 & X4 & H4).
        { apply enter_vars_ok. exact Fr. }
        { exact Hh. }
        { exact Hk. }
        exists (ok vs e' s4). split; [exact R4|]. left. exists vs, e', s4. split; [reflexivity|].
        pose proof (cext_trans _ _ _ (enter_cext s1 key val k) X4) as X.
        split; [|split; [|split]].
        + rewrite H4, Ef', Ef. rewrite spec_map_from_app. cbn [spec_map_from fst]. unfold entry. rewrite Elen.
          cbn [Nat.add]. f_equal. f_equal.
          apply s_insert_fresh. rewrite spec_map_from_keys.
          rewrite Etb in Hnd. eapply key_fresh; exact Hnd.
        + rewrite (cx_globals _ _ X). exact Hg.
        + rewrite (cx_log _ _ X). exact Hl.
        + eapply frame_ok_cext; [exact X | exact Fr].
      - lia.
      - lia.
      - exact HI.
      - exists s'. split; [exact Hx | exact HI'].
    Qed.
  End MapLoop.

  (* ---------------------------------------------------------------------------------------- *)
  (* any                                                                                      *)
  (* ---------------------------------------------------------------------------------------- *)
  Section AnyLoop.
    Variables (cbv : value) (cb : list value -> value).
    Hypothesis Hcb : pure_cb P host cbv cb.
    Variables (h0 : list (otable value)) (g0 : list (str * value)) (l0 : list (str * list tree)).
    Variables (c0 p : nat) (tb : otable value).
    Hypothesis Hp : nth_error h0 p = Some tb.
    Hypothesis Hin : forall args, val_in_heap h0 (cb args).
    Notation hl := (length h0).
    Notation saf := (spec_any_from of_key v_idx (v_bool h0) cb).

    (* one iteration of any: the callback says yes - Return k; no - nothing *)
    Lemma run_any_body n key val k s R :
      vars_ok c0 n p cbv hl key val k s -> st_heap s = h0 ++ [R] ->
      exists x, runs (TkCard fi (lenv c0 n) any_body) s x /\
        if v_bool h0 (cb (args3 of_key v_idx k (key, val)))
        then exists e' s', x = ROk (ORet (of_key key)) e' s' /\ cext s s' /\ st_heap s' = st_heap s
        else exists vs e' s', x = ok vs e' s' /\ cext s s' /\ st_heap s' = st_heap s.
    Proof.
      intros V Hh.
      assert (X3 : cext s (bump (bump (bump s)))).
      { eapply cext_trans; [apply cext_bump|]. eapply cext_trans; apply cext_bump. }
      destruct (run_cond cbv cb Hcb c0 n p hl key val k (bump (bump (bump s)))) as (s1 & R1 & X1).
      { eapply vars_ok_cext; [exact X3 | exact V]. }
      assert (Xs1 : cext s s1) by (eapply cext_trans; [exact X3 | apply extends_cext; exact X1]).
      assert (Hh1 : st_heap s1 = st_heap s) by (rewrite (ext_heap _ _ X1); reflexivity).
      pose proof (vars_ok_cext _ _ _ _ _ _ _ _ _ _ Xs1 V) as V1.
      destruct (v_bool h0 (cb (args3 of_key v_idx k (key, val)))) eqn:B.
      - destruct (run_args_vars (lenv c0 n) [s_k] [of_key key] (bump s1)) as (s2 & R2 & X2).
        { repeat constructor. eapply vi_k. eapply vars_ok_cext; [apply cext_bump | exact V1]. }
        eexists. split.
        + unfold any_body. apply r_composite. apply r_seq_stop.
          * eapply r_if_true; [exact R1 | | apply r_return; exact R2].
            rewrite Hh1, Hh, v_bool_app by apply Hin. exact B.
          * exact I.
        + eexists _, _. split; [reflexivity|]. split.
          * eapply cext_trans; [exact Xs1|]. eapply cext_trans; [apply cext_bump | apply extends_cext; exact X2].
          * rewrite (ext_heap _ _ X2). cbn [st_heap bump]. exact Hh1.
      - eexists. split.
        + unfold any_body. apply r_composite. eapply r_seq_cons; [|apply r_seq_nil].
          eapply r_if_false; [exact R1|].
          rewrite Hh1, Hh, v_bool_app by apply Hin. exact B.
        + eexists _, _, _. split; [reflexivity|]. split.
          * eapply cext_trans; [exact Xs1 | apply cext_bump].
          * cbn [st_heap bump]. exact Hh1.
    Qed.

    Definition ainv (k : nat) (s : state) : Prop :=
      st_heap s = h0 ++ [[]] /\ st_globals s = g0 /\ st_log s = l0 /\
      frame_ok c0 p cbv hl s /\ saf 0 (firstn k tb) = None.
    Definition apost (x : res) : Prop :=
      (exists s', x = ok [] (env1 c0) s' /\ ainv (length tb) s') \/
      (exists key e' s', x = ROk (ORet (of_key key)) e' s' /\ saf 0 tb = Some key /\
                         st_heap s' = h0 ++ [[]] /\ st_globals s' = g0 /\ st_log s' = l0).

    Lemma any_loop s : ainv 0 s ->
      exists x, runs (TkForEach fi (env1 c0) (Some s_i) (Some s_k) (Some s_v) p 0 any_body) s x /\ apost x.
    Proof.
      intros HI.
      apply (foreach_loop P host fi (env1 c0) s_i s_k s_v p any_body tb ainv apost)
        with (n := length tb) (k := 0) (s := s).
      - intros k s1 (Hh & _). rewrite Hh. rewrite nth_error_app1; [exact Hp|].
        apply nth_error_Some. congruence.
      - intros s1 (A & B & C & D & E). left. exists (bump s1). split; [reflexivity|].
        split; [exact A|]. split; [exact B|]. split; [exact C|]. split; [|exact E].
        eapply frame_ok_cext; [apply cext_bump | exact D].
      - intros k key val s1 Ek (Hh & Hg & Hl & Fr & Hnone).
        destruct (split_at tb k (key, val) Ek) as (pre & suf & Etb & Ef & Ef' & Elen).
        destruct (run_any_body (length (st_cells s1)) key val k (loop_state (bump s1) key val k) [])
          as (x & Rx & Hx).
        { apply enter_vars_ok. exact Fr. }
        { exact Hh. }
        exists x. split; [exact Rx|].
        pose proof (enter_cext s1 key val k) as X0.
        rewrite Ef in Hnone.
        destruct (v_bool h0 (cb (args3 of_key v_idx k (key, val)))) eqn:B.
        + destruct Hx as (e' & s' & -> & X4 & H4). right. split; [exact I|].
          pose proof (cext_trans _ _ _ X0 X4) as X.
          right. exists key, e', s'. split; [reflexivity|]. split; [|split; [|split]].
          * rewrite Etb. rewrite spec_any_from_app_none by exact Hnone.
            cbn [spec_any_from fst]. unfold entry. rewrite Elen. cbn [Nat.add]. rewrite B. reflexivity.
          * rewrite H4. exact Hh.
          * rewrite (cx_globals _ _ X). exact Hg.
          * rewrite (cx_log _ _ X). exact Hl.
        + destruct Hx as (vs & e' & s' & -> & X4 & H4). left. exists vs, e', s'. split; [reflexivity|].
          pose proof (cext_trans _ _ _ X0 X4) as X.
          split; [|split; [|split; [|split]]].
          * rewrite H4. exact Hh.
          * rewrite (cx_globals _ _ X). exact Hg.
          * rewrite (cx_log _ _ X). exact Hl.
          * eapply frame_ok_cext; [exact X | exact Fr].
          * rewrite Ef'. rewrite spec_any_from_app_none by exact Hnone.
            cbn [spec_any_from fst]. unfold entry. rewrite Elen. cbn [Nat.add]. rewrite B. reflexivity.
      - lia.
      - lia.
      - exact HI.
    Qed.
  End AnyLoop.
End Programs.

Theorem std_filter_correct : forall P host idx cbv cb s p tb,
  has_std P idx s_filter ->
  nth_error (st_heap s) p = Some tb -> wf_table tb ->
  pure_cb P host cbv cb ->
  (forall args, val_in_heap (st_heap s) (cb args)) ->
  exists s',
    runs P host (TkCallFn idx [cbv; VTable p]) s (ok [VTable (length (st_heap s))] empty_env s') /\
    st_heap s' = st_heap s ++ [spec_filter of_key v_idx (v_bool (st_heap s)) cb tb] /\
    st_globals s' = st_globals s /\ st_log s' = st_log s.
Proof.
  intros P host idx cbv cb s p tb (fe & f & Hfe & Hf & Hff) Hp Hwf Hcb Hin.
  rewrite std_fn_filter in Hf. injection Hf as <-.
  set (c0 := length (st_cells s)).
  set (s1 := set_cells (st_cells s ++ [VTable p; cbv]) (bump s)).
  assert (Fr1 : nth_error (st_cells s1) c0 = Some (VTable p) /\ nth_error (st_cells s1) (S c0) = Some cbv).
  { unfold s1, c0. cbn [st_cells set_cells]. clear. induction (st_cells s) as [|x l IH]; cbn; [split; reflexivity | exact IH]. }
  (* res = CreateTable *)
  destruct (run_prologue P host idx c0 (bump s1)) as (s2 & R2 & H2 & X2 & C2).
  { unfold s1, c0. cbn [st_cells set_cells bump]. rewrite app_length. cbn [length]. lia. }
  assert (Fr2 : frame_ok c0 p cbv (length (st_heap s)) s2).
  { pose proof (cext_trans _ _ _ (cext_bump s1) X2) as X. destruct Fr1 as [A B].
    split; [eapply cext_cell; eassumption|]. split; [eapply cext_cell; eassumption | exact C2]. }
  assert (Hh2 : st_heap s2 = st_heap s ++ [[]]) by exact H2.
  (* the loop *)
  destruct (run_args_vars P host idx (env1 c0) [s_iterable] [VTable p] (bump (bump s2))) as (s3 & R3 & X3).
  { repeat constructor. eapply vi1_iterable. eapply frame_ok_cext; [|exact Fr2].
    eapply cext_trans; apply cext_bump. }
  assert (Xs3 : cext s2 s3).
  { eapply cext_trans; [apply cext_bump|]. eapply cext_trans; [apply cext_bump | apply extends_cext; exact X3]. }
  assert (Hh3 : st_heap s3 = st_heap s ++ [[]]) by (rewrite (ext_heap _ _ X3); exact Hh2).
  assert (G2 : st_globals s2 = st_globals s /\ st_log s2 = st_log s).
  { pose proof (cext_trans _ _ _ (cext_bump s1) X2) as X. rewrite (cx_globals _ _ X), (cx_log _ _ X). split; reflexivity. }
  destruct (filter_loop P host idx cbv cb Hcb (st_heap s) (st_globals s) (st_log s) c0 p tb Hp Hwf Hin s3)
    as (s4 & R4 & (Hh4 & Hg4 & Hl4 & Fr4)).
  { split; [exact Hh3|]. split; [|split].
    - rewrite (cx_globals _ _ Xs3). apply G2.
    - rewrite (cx_log _ _ Xs3). apply G2.
    - eapply frame_ok_cext; [exact Xs3 | exact Fr2]. }
  assert (Rc2 : runs P host (TkCard idx (env1 c0) (std_loop filter_body)) (bump s2) (ok [] (env1 c0) s4)).
  { unfold std_loop. eapply r_foreach_card; [exact R3 | | exact R4].
    rewrite Hh3. rewrite nth_error_app1; [exact Hp | apply nth_error_Some; congruence]. }
  (* Return res *)
  destruct (run_args_vars P host idx (env1 c0) [s_res] [VTable (length (st_heap s))] (bump (bump s4))) as (s5 & R5 & X5).
  { repeat constructor. eapply vi1_res. eapply frame_ok_cext; [|exact Fr4].
    eapply cext_trans; apply cext_bump. }
  exists s5. split; [|split; [|split]].
  - change (ok [VTable (length (st_heap s))] empty_env s5)
      with (finish_call (ROk (ORet (VTable (length (st_heap s)))) (env1 c0) s5)).
    eapply r_call2; [exact Hfe | exact Hff |].
    fold c0. fold s1. change {| e_scopes := [[(s_iterable, c0); (s_callback, S c0)]]; e_up := [] |} with (env0 c0).
    eapply r_seq_cons_stop; [exact R2 | | exact I].
    eapply r_seq_cons_stop; [exact Rc2 | | exact I].
    apply r_seq_stop; [|exact I]. apply r_return. exact R5.
  - rewrite (ext_heap _ _ X5). cbn [st_heap bump]. rewrite Hh4, firstn_all. reflexivity.
  - rewrite (ext_globals _ _ X5). cbn [st_globals bump]. exact Hg4.
  - rewrite (ext_log _ _ X5). cbn [st_log bump]. exact Hl4.
Qed.

(* the part of the three proofs before the loop: the call, res = CreateTable, the iterable *)
Lemma std_prefix P host idx cbv s p tb fe body last :
  nth_error P idx = Some fe -> fe_fn fe = std_fun body last ->
  nth_error (st_heap s) p = Some tb ->
  let c0 := length (st_cells s) in
  exists s3,
    st_heap s3 = st_heap s ++ [[]] /\ st_globals s3 = st_globals s /\ st_log s3 = st_log s /\
    frame_ok c0 p cbv (length (st_heap s)) s3 /\
    forall x, stops x ->
      (runs P host (TkForEach idx (env1 c0) (Some s_i) (Some s_k) (Some s_v) p 0 body) s3 x \/
       exists s4, runs P host (TkForEach idx (env1 c0) (Some s_i) (Some s_k) (Some s_v) p 0 body) s3 (ok [] (env1 c0) s4) /\
                  runs P host (TkCard idx (env1 c0) last) (bump s4) x) ->
      runs P host (TkCallFn idx [cbv; VTable p]) s (finish_call x).
Proof.
  intros Hfe Hff Hp c0.
  set (s1 := set_cells (st_cells s ++ [VTable p; cbv]) (bump s)).
  assert (Fr1 : nth_error (st_cells s1) c0 = Some (VTable p) /\ nth_error (st_cells s1) (S c0) = Some cbv).
  { unfold s1, c0. cbn [st_cells set_cells]. clear. induction (st_cells s) as [|x l IH]; cbn; [split; reflexivity | exact IH]. }
  destruct (run_prologue P host idx c0 (bump s1)) as (s2 & R2 & H2 & X2 & C2).
  { unfold s1, c0. cbn [st_cells set_cells bump]. rewrite app_length. cbn [length]. lia. }
  assert (Fr2 : frame_ok c0 p cbv (length (st_heap s)) s2).
  { pose proof (cext_trans _ _ _ (cext_bump s1) X2) as X. destruct Fr1 as [A B].
    split; [eapply cext_cell; eassumption|]. split; [eapply cext_cell; eassumption | exact C2]. }
  assert (Hh2 : st_heap s2 = st_heap s ++ [[]]) by exact H2.
  destruct (run_args_vars P host idx (env1 c0) [s_iterable] [VTable p] (bump (bump s2))) as (s3 & R3 & X3).
  { repeat constructor. eapply vi1_iterable. eapply frame_ok_cext; [|exact Fr2].
    eapply cext_trans; apply cext_bump. }
  assert (Xs3 : cext s2 s3).
  { eapply cext_trans; [apply cext_bump|]. eapply cext_trans; [apply cext_bump | apply extends_cext; exact X3]. }
  assert (Hh3 : st_heap s3 = st_heap s ++ [[]]) by (rewrite (ext_heap _ _ X3); exact Hh2).
  assert (G2 : st_globals s2 = st_globals s /\ st_log s2 = st_log s).
  { pose proof (cext_trans _ _ _ (cext_bump s1) X2) as X. rewrite (cx_globals _ _ X), (cx_log _ _ X). split; reflexivity. }
  assert (Hp3 : nth_error (st_heap s3) p = Some tb).
  { rewrite Hh3. rewrite nth_error_app1; [exact Hp | apply nth_error_Some; congruence]. }
  exists s3. split; [exact Hh3|]. split; [|split; [|split]].
  - rewrite (cx_globals _ _ Xs3). apply G2.
  - rewrite (cx_log _ _ Xs3). apply G2.
  - eapply frame_ok_cext; [exact Xs3 | exact Fr2].
  - intros x St Hx.
    eapply r_call2; [exact Hfe | exact Hff |].
    fold c0. fold s1. change {| e_scopes := [[(s_iterable, c0); (s_callback, S c0)]]; e_up := [] |} with (env0 c0).
    eapply r_seq_cons_stop; [exact R2 | | exact St].
    destruct Hx as [Hx | (s4 & R4 & Hx)].
    + apply r_seq_stop; [|exact St]. unfold std_loop. eapply r_foreach_card; [exact R3 | exact Hp3 | exact Hx].
    + eapply r_seq_cons_stop; [| |exact St].
      * unfold std_loop. eapply r_foreach_card; [exact R3 | exact Hp3 | exact R4].
      * apply r_seq_stop; [exact Hx | exact St].
Qed.

Theorem std_map_correct : forall P host idx cbv cb s p tb,
  has_std P idx s_map ->
  nth_error (st_heap s) p = Some tb -> wf_table tb ->
  pure_cb P host cbv cb ->
  exists s',
    runs P host (TkCallFn idx [cbv; VTable p]) s (ok [VTable (length (st_heap s))] empty_env s') /\
    st_heap s' = st_heap s ++ [spec_map of_key v_idx cb tb] /\
    st_globals s' = st_globals s /\ st_log s' = st_log s.
Proof.
  intros P host idx cbv cb s p tb (fe & f & Hfe & Hf & Hff) Hp Hwf Hcb.
  rewrite std_fn_map in Hf. injection Hf as <-.
  destruct (std_prefix P host idx cbv s p tb fe _ _ Hfe Hff Hp) as (s3 & Hh3 & Hg3 & Hl3 & Fr3 & Hfin).
  set (c0 := length (st_cells s)) in *.
  destruct (map_loop P host idx cbv cb Hcb (st_heap s) (st_globals s) (st_log s) c0 p tb Hp Hwf s3)
    as (s4 & R4 & (Hh4 & Hg4 & Hl4 & Fr4)).
  { split; [exact Hh3|]. split; [exact Hg3|]. split; [exact Hl3 | exact Fr3]. }
  destruct (run_args_vars P host idx (env1 c0) [s_res] [VTable (length (st_heap s))] (bump (bump s4))) as (s5 & R5 & X5).
  { repeat constructor. eapply vi1_res. eapply frame_ok_cext; [|exact Fr4].
    eapply cext_trans; apply cext_bump. }
  exists s5. split; [|split; [|split]].
  - change (ok [VTable (length (st_heap s))] empty_env s5)
      with (finish_call (ROk (ORet (VTable (length (st_heap s)))) (env1 c0) s5)).
    apply Hfin; [exact I|]. right. exists s4. split; [exact R4|]. apply r_return. exact R5.
  - rewrite (ext_heap _ _ X5). cbn [st_heap bump]. rewrite Hh4, firstn_all. reflexivity.
  - rewrite (ext_globals _ _ X5). cbn [st_globals bump]. exact Hg4.
  - rewrite (ext_log _ _ X5). cbn [st_log bump]. exact Hl4.
Qed.

Theorem std_any_correct : forall P host idx cbv cb s p tb,
  has_std P idx s_any ->
  nth_error (st_heap s) p = Some tb -> wf_table tb ->
  pure_cb P host cbv cb ->
  (forall args, val_in_heap (st_heap s) (cb args)) ->
  exists s',
    runs P host (TkCallFn idx [cbv; VTable p]) s
         (ok [opt_key_value (spec_any of_key v_idx (v_bool (st_heap s)) cb tb)] empty_env s') /\
    st_heap s' = st_heap s ++ [[]] /\            (* the unused `res` table any creates *)
    st_globals s' = st_globals s /\ st_log s' = st_log s.
Proof.
  intros P host idx cbv cb s p tb (fe & f & Hfe & Hf & Hff) Hp Hwf Hcb Hin.
  rewrite std_fn_any in Hf. injection Hf as <-.
  destruct (std_prefix P host idx cbv s p tb fe _ _ Hfe Hff Hp) as (s3 & Hh3 & Hg3 & Hl3 & Fr3 & Hfin).
  set (c0 := length (st_cells s)) in *.
  destruct (any_loop P host idx cbv cb Hcb (st_heap s) (st_globals s) (st_log s) c0 p tb Hp Hin s3)
    as (x & Rx & [(s4 & -> & (Hh4 & Hg4 & Hl4 & Fr4 & Hnone)) | (key & e' & s4 & -> & Hsome & Hh4 & Hg4 & Hl4)]).
  { split; [exact Hh3|]. split; [exact Hg3|]. split; [exact Hl3|]. split; [exact Fr3 | reflexivity]. }
  - (* nobody said yes: Return nil *)
    rewrite firstn_all in Hnone. unfold spec_any. rewrite Hnone. cbn [opt_key_value].
    exists (bump (bump (bump (bump (bump s4))))). split; [|split; [|split]].
    + change (ok [VNil] empty_env (bump (bump (bump (bump (bump s4))))))
        with (finish_call (ROk (ORet VNil) (env1 c0) (bump (bump (bump (bump (bump s4))))))).
      apply Hfin; [exact I|]. right. exists s4. split; [exact Rx|]. apply r_return.
      eapply r_args_cons; [apply r_nil | apply r_args_nil].
    + exact Hh4.
    + exact Hg4.
    + exact Hl4.
  - (* the Return inside the loop *)
    unfold spec_any. rewrite Hsome. cbn [opt_key_value].
    exists s4. split; [|split; [|split]].
    + change (ok [of_key key] empty_env s4) with (finish_call (ROk (ORet (of_key key)) e' s4)).
      apply Hfin; [exact I|]. left. exact Rx.
    + exact Hh4.
    + exact Hg4.
    + exact Hl4.
Qed.

(* the input table is where it was, unchanged *)
Corollary std_filter_input_unchanged : forall P host idx cbv cb s p tb,
  has_std P idx s_filter -> nth_error (st_heap s) p = Some tb -> wf_table tb ->
  pure_cb P host cbv cb -> (forall args, val_in_heap (st_heap s) (cb args)) ->
  exists s', runs P host (TkCallFn idx [cbv; VTable p]) s (ok [VTable (length (st_heap s))] empty_env s') /\
             nth_error (st_heap s') p = Some tb.
Proof.
  intros P host idx cbv cb s p tb H Hp Hwf Hcb Hin.
  destruct (std_filter_correct P host idx cbv cb s p tb H Hp Hwf Hcb Hin) as (s' & R & Hh & _).
  exists s'. split; [exact R|]. rewrite Hh. rewrite nth_error_app1; [exact Hp | apply nth_error_Some; congruence].
Qed.

Corollary std_map_input_unchanged : forall P host idx cbv cb s p tb,
  has_std P idx s_map -> nth_error (st_heap s) p = Some tb -> wf_table tb ->
  pure_cb P host cbv cb ->
  exists s', runs P host (TkCallFn idx [cbv; VTable p]) s (ok [VTable (length (st_heap s))] empty_env s') /\
             nth_error (st_heap s') p = Some tb.
Proof.
  intros P host idx cbv cb s p tb H Hp Hwf Hcb.
  destruct (std_map_correct P host idx cbv cb s p tb H Hp Hwf Hcb) as (s' & R & Hh & _).
  exists s'. split; [exact R|]. rewrite Hh. rewrite nth_error_app1; [exact Hp | apply nth_error_Some; congruence].
Qed.

Corollary std_any_input_unchanged : forall P host idx cbv cb s p tb,
  has_std P idx s_any -> nth_error (st_heap s) p = Some tb -> wf_table tb ->
  pure_cb P host cbv cb -> (forall args, val_in_heap (st_heap s) (cb args)) ->
  exists s', runs P host (TkCallFn idx [cbv; VTable p]) s
                  (ok [opt_key_value (spec_any of_key v_idx (v_bool (st_heap s)) cb tb)] empty_env s') /\
             nth_error (st_heap s') p = Some tb.
Proof.
  intros P host idx cbv cb s p tb H Hp Hwf Hcb Hin.
  destruct (std_any_correct P host idx cbv cb s p tb H Hp Hwf Hcb Hin) as (s' & R & Hh & _).
  exists s'. split; [exact R|]. rewrite Hh. rewrite nth_error_app1; [exact Hp | apply nth_error_Some; congruence].
Qed.

Print Assumptions std_filter_correct.
Print Assumptions std_map_correct.
Print Assumptions std_any_correct.
