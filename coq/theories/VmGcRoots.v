(* C02, link between the VM model (Vm.v) and the collector model (Gc.v), part 1: what RuntimeData::gc
   (vm/runtime.rs) reads of a VM state.  Executable definitions only, stdlib style.

   * [vm_kids F s o]  the addresses the marking loop enqueues when it takes object [o] off the work list:
       Table    `for (key, value) in obj.iter()`: CaoLangTable::iter = the keys of the key vector that the map part
                contains, with the value found there ([titer], which needs the heap's ==);
       Closure  its upvalue objects;
       Upvalue  `*u.location`: the value-stack slot while the upvalue is open (the RAW slot, it may lie above the
                stack height: VmUpvalueSem.open_slot_may_be_dead), its own `value` field once it is closed;
                `next` is NOT traced from an upvalue;
       String / Function / NativeFunction: nothing.
   * [vm_roots s]     the addresses the collector starts from, in the order of the code: the live part of the value
       stack (`value_stack.iter()` = the slots below the height), `closure_object` of every call frame, every node of
       the open-upvalue list (the walk follows `next` as long as the node is an upvalue object), the assigned
       globals.  The VM model has no guarded (Protected) objects: those are host-side handles.
   * [state_closed s] no dangling address: every address held by a root, by an object of the heap, by a stack slot
       below the height / below a frame's offset / at or below the slot of an open upvalue is an index into
       [st_heap s].  This is what makes Gc.closed hold for the abstraction of the state (VmGcLink.v). *)
From Coq Require Import NArith ZArith List Lia Bool.
From Cao Require Import ListUtil Bits Stacks Vm.
Import ListNotations.

Set Implicit Arguments.

Definition vaddr (v : value) : list N := match v with VObj a => [a] | _ => [] end.
Definition oaddr (o : option N) : list N := match o with Some a => [a] | None => [] end.
Definition pair_addrs (kv : value * value) : list N := vaddr (fst kv) ++ vaddr (snd kv).
(* every address a table holds, in the key vector or in the map part *)
Definition table_addrs (t : table) : list N := flat_map vaddr (tkeys t) ++ flat_map pair_addrs (tmap t).

Definition vm_kids (F : fops) (s : state) (o : obj) : list N :=
  match o with
  | OTable t =>
      match titer (veq0 F (st_heap s)) t with
      | Some l => flat_map pair_addrs l
      (* the == / hash of a key does not return (cyclic table used as a key, A-37): the real marking loop does not
         come back either, no object is freed; the model keeps everything the table holds *)
      | None => table_addrs t
      end
  | OClo _ _ ups => ups
  | OUp u => match u_loc u with Some l => vaddr (sraw_get s l) | None => vaddr (u_val u) end
  | OStr _ | OFun _ _ | ONative _ => []
  end.

(* `while let Some(t) = upvalue.as_mut() { upvalue = t.as_upvalue().map(|u| u.next) ...; enqueue t }` *)
Fixpoint open_chain (fuel : nat) (h : heap) (c : option N) : list N :=
  match fuel, c with
  | S f, Some a =>
      a :: match hget h a with
           | Some (OUp u) => open_chain f h (u_next u)
           | _ => []
           end
  | _, _ => []
  end.

Definition live_stack (s : state) : list value := firstn (vcount (st_stack s)) (vdata (st_stack s)).

Definition vm_roots (s : state) : list N :=
  flat_map vaddr (live_stack s) ++
  flat_map (fun f => oaddr (fr_clo f)) (st_calls s) ++
  open_chain (S (length (st_heap s))) (st_heap s) (st_open s) ++
  flat_map (fun g => match g with Some v => vaddr v | None => [] end) (st_globals s).

(* ---- closedness ---- *)
Definition aok (n : nat) (a : N) : Prop := N.to_nat a < n.
Definition vok (n : nat) (v : value) : Prop := match v with VObj a => aok n a | _ => True end.
Definition ook (n : nat) (o : option N) : Prop := match o with Some a => aok n a | None => True end.
Definition gvok (n : nat) (g : option value) : Prop := match g with Some v => vok n v | None => True end.
(* the raw slots 0 .. m-1 of the stack array hold no dangling address *)
Definition pre_ok (n : nat) (d : list value) (m : nat) : Prop := forall i, i < m -> vok n (nth i d VNil).
Definition pair_ok (n : nat) (kv : value * value) : Prop := vok n (fst kv) /\ vok n (snd kv).
Definition table_ok (n : nat) (t : table) : Prop := Forall (vok n) (tkeys t) /\ Forall (pair_ok n) (tmap t).
Definition obj_ok (n : nat) (d : list value) (o : obj) : Prop :=
  match o with
  | OTable t => table_ok n t
  | OClo _ _ ups => Forall (aok n) ups
  | OUp u => vok n (u_val u) /\ ook n (u_next u) /\
             match u_loc u with Some l => pre_ok n d (S l) | None => True end
  | OStr _ | OFun _ _ | ONative _ => True
  end.
Definition frame_ok (n : nat) (d : list value) (f : frame) : Prop :=
  pre_ok n d (N.to_nat (fr_off f)) /\ ook n (fr_clo f).

Definition hl (s : state) : nat := length (st_heap s).
Definition sd (s : state) : list value := vdata (st_stack s).

Record state_closed (s : state) : Prop := mkClosed {
  sc_stack : pre_ok (hl s) (sd s) (vcount (st_stack s));
  sc_calls : Forall (frame_ok (hl s) (sd s)) (st_calls s);
  sc_globals : Forall (gvok (hl s)) (st_globals s);
  sc_open : ook (hl s) (st_open s);
  sc_heap : Forall (obj_ok (hl s) (sd s)) (st_heap s)
}.
