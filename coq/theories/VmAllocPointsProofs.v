(* C02, allocation points (VmAllocPoints.v): every temporary the Rust code holds across a call of `alloc` is reachable
   from the VM roots of the state at that moment plus the objects under a live ObjectGcGuard - up to the addresses
   listed in [ap_assumed] (see VmAllocPoints.v) - hence a collection started by that allocation keeps it. *)
From stdpp Require Import gmap list.
From Cao Require Import Gc GcProofs.
From Cao Require Import Stacks Vm VmGcRoots VmGcClosed VmGcReach VmGcLink VmAllocPoints.
From Coq Require Import Lia.

Section Reach.
  Variable F : fops.
  Variable s : state.
  Variable g : list N.
  Notation R := (reach (vm_abs F s) (vm_roots s ++ g)).

  Lemma R_root a : In a (vm_roots s) -> R a.
  Proof. intros H. apply reach_root. apply elem_of_list_In. apply in_or_app. left. exact H. Qed.
  Lemma R_guard a : In a g -> R a.
  Proof. intros H. apply reach_root. apply elem_of_list_In. apply in_or_app. right. exact H. Qed.
  Lemma R_kid a o c : R a -> hget (st_heap s) a = Some o -> In c (vm_kids F s o) -> R c.
  Proof.
    intros Hr Ha Hc. eapply reach_kid; [exact Hr| |].
    - rewrite vm_abs_lookup, Ha. reflexivity.
    - cbn. apply elem_of_list_In. exact Hc.
  Qed.
  Lemma R_vaddr_peek k a : In a (vaddr (speek s k)) -> R a.
  Proof.
    intros H. apply R_root. destruct (speek s k) eqn:E; cbn in H; try contradiction.
    destruct H as [<-|[]]. eapply speek_root; eauto.
  Qed.
End Reach.

Lemma in_vaddr a v : In a (vaddr v) -> v = VObj a.
Proof. destruct v; cbn; try contradiction. intros [<-|[]]. reflexivity. Qed.

Lemma get_table_inv h v a t : get_table h v = TblOk a t -> v = VObj a /\ hget h a = Some (OTable t).
Proof.
  unfold get_table. destruct v as [| | |b]; try discriminate. destruct (hget h b) as [[]|] eqn:E; try discriminate.
  intros H. injection H as <- <-. split; [reflexivity|exact E].
Qed.

(* ---- a key of the key vector that the map part holds is among the pairs the collector traces ---- *)
Lemma titer_go_in eq m : forall ks l k i v,
  titer_go eq m ks = Some l -> In k ks -> map_find eq k m = Some (Some (i, v)) -> In (k, v) l.
Proof.
  induction ks as [|k0 r IH]; intros l k i v Ht Hin Hf; [contradiction|]. cbn [titer_go] in Ht.
  destruct Hin as [->|Hin].
  - rewrite Hf in Ht. destruct (titer_go eq m r); [|discriminate]. injection Ht as <-. left. reflexivity.
  - destruct (map_find eq k0 m) as [[[i0 v0]|]|]; [| |discriminate];
      destruct (titer_go eq m r) as [l0|] eqn:E; try discriminate; injection Ht as <-.
    + right. eapply IH; eauto.
    + eapply IH; eauto.
Qed.

Lemma map_find_in eq k : forall m i v, map_find eq k m = Some (Some (i, v)) -> exists k', In (k', v) m.
Proof.
  induction m as [|[k' v'] r IH]; intros i v H; cbn [map_find] in H; [discriminate|].
  destruct (keq eq k' k) as [[|]|]; [| |discriminate].
  - injection H as <- <-. exists k'. left. reflexivity.
  - destruct (map_find eq k r) as [[[i0 v0]|]|]; try discriminate. injection H as <- <-.
    destruct (IH _ _ eq_refl) as [k'' Hk]. exists k''. right. exact Hk.
Qed.

Lemma table_entry_kids F s t k i v :
  In k (tkeys t) -> map_find (veq0 F (st_heap s)) k (tmap t) = Some (Some (i, v)) ->
  forall c, In c (vaddr k ++ vaddr v) -> In c (vm_kids F s (OTable t)).
Proof.
  intros Hk Hf c Hc. cbn [vm_kids]. destruct (titer (veq0 F (st_heap s)) t) as [l|] eqn:Et.
  - apply in_flat_map. exists (k, v). split; [eapply titer_go_in; eauto|exact Hc].
  - unfold table_addrs. apply in_app_or in Hc. apply in_or_app. destruct Hc as [Hc|Hc].
    + left. apply in_flat_map. exists k. split; assumption.
    + right. destruct (map_find_in _ _ _ _ _ Hf) as [k' Hk']. apply in_flat_map. exists (k', v).
      split; [exact Hk'|]. unfold pair_addrs. apply in_or_app. right. exact Hc.
Qed.

(* ---- the nodes register_upvalue's walk stops at are nodes of the open-upvalue list ---- *)
Lemma walk_open_chain h loc (Q : N -> Prop) : forall fuel prev cur p c,
  walk_open fuel h loc prev cur = WOk p c ->
  (forall x, prev = Some x -> Q x) -> (forall x, In x (open_chain fuel h cur) -> Q x) ->
  (forall x, p = Some x -> Q x) /\ (forall x, c = Some x -> Q x).
Proof.
  induction fuel as [|f IH]; intros prev cur p c Hw Hp Hc; cbn [walk_open] in Hw; [discriminate|].
  destruct cur as [a|].
  - assert (Ha : Q a) by (apply Hc; cbn [open_chain]; left; reflexivity).
    assert (Hret : WOk prev (Some a) = WOk p c ->
                   (forall x, p = Some x -> Q x) /\ (forall x, c = Some x -> Q x)).
    { intros E. injection E as <- <-. split; [exact Hp|]. intros x Hx. injection Hx as <-. exact Ha. }
    destruct (hget h a) as [[t|b|hh ar|hh|hh ar ups|u]|] eqn:Ea; try discriminate; try (apply Hret; exact Hw).
    destruct (u_loc u) as [l|]; [|discriminate]. destruct (l <=? loc); [apply Hret; exact Hw|].
    eapply IH; [exact Hw| |].
    + intros x Hx. injection Hx as <-. exact Ha.
    + intros x Hx. apply Hc. cbn [open_chain]. rewrite Ea. right. exact Hx.
  - injection Hw as <- <-. split; [exact Hp|]. intros x Hx. discriminate.
Qed.

Lemma open_chain_root s x : In x (open_chain (S (length (st_heap s))) (st_heap s) (st_open s)) -> In x (vm_roots s).
Proof. intros H. unfold vm_roots. apply in_or_app. right. apply in_or_app. right. apply in_or_app. left. exact H. Qed.

(* ---- states of allocation points ---- *)
Lemma salloc_closed s o s1 a : salloc s o = (s1, a) -> state_closed s -> flat_obj o -> state_closed s1 /\ aok (hl s1) a.
Proof.
  intros E Hs Hf. destruct (closed_salloc s o s1 a E Hs (flat_obj_ok _ _ _ Hf)) as (A & B & C & _).
  split; [exact A|]. rewrite B, C. unfold aok. lia.
Qed.

Definition ap_good (F : fops) (p : apoint) : Prop :=
  state_closed (ap_state p) /\
  Forall (aok (hl (ap_state p))) (ap_guards p) /\
  ((forall a, In a (ap_assumed p) -> reach (vm_abs F (ap_state p)) (ap_roots p) a) ->
   forall a, In a (ap_uses p) -> reach (vm_abs F (ap_state p)) (ap_roots p) a).

Lemma good_nouse F k s : state_closed s -> ap_good F (mkAP k s [] [] []).
Proof. intros Hs. split; [exact Hs|]. split; [constructor|]. intros _ a []. Qed.

Lemma Forall_init2 F s g u asm p :
  In p (init2 s g u asm) -> ap_good F (mkAP AObject s g u asm) -> ap_good F p.
Proof. intros [<-|[<-|[]]] H; exact H. Qed.
Ltac nil_case := let H := fresh in intros H; exact (match H : False with end).
Ltac init2_tac := let Hin := fresh "Hin" in intros Hin; eapply Forall_init2; [exact Hin|].

Section Points.
  Variable F : fops.
  Variable P : program.

  Lemma ap_8_good ip s p : state_closed s -> In p (ap_8 P ip s) -> ap_good F p.
  Proof.
    intros Hs. unfold ap_8. destruct (op_u32 P ip); [|intros []]. destruct (read_str _ _); try nil_case.
    init2_tac. apply good_nouse. exact Hs.
  Qed.

  Lemma ap_31_good s p : state_closed s -> In p (ap_31 s) -> ap_good F p.
  Proof. intros Hs. unfold ap_31. init2_tac. apply good_nouse. exact Hs. Qed.

  Lemma ap_37_42_good ip s p : state_closed s -> In p (ap_37_42 P ip s) -> ap_good F p.
  Proof.
    intros Hs. unfold ap_37_42. destruct (op_u32 P ip); [|intros []]. destruct (op_u32 P (ip + 4)); [|intros []].
    intros [<-|[]]. apply good_nouse. exact Hs.
  Qed.

  Lemma ap_38_good ip s p : state_closed s -> In p (ap_38 P ip s) -> ap_good F p.
  Proof.
    intros Hs. unfold ap_38. destruct (op_u32 P ip); [|intros []]. destruct (read_str _ _); try nil_case.
    intros [<-|[]]. apply good_nouse. exact Hs.
  Qed.

  Lemma ap_33_good s p : state_closed s -> In p (ap_33 F s) -> ap_good F p.
  Proof.
    intros Hs. unfold ap_33. destruct (get_table (st_heap s) (speek s 1)) as [a t| |] eqn:Eg; try nil_case.
    destruct (map_find _ _ _) as [[|]|]; try nil_case. intros [<-|[]].
    split; [exact Hs|]. split; [constructor|]. intros _ x Hx. unfold ap_roots. cbn [ap_state ap_guards ap_uses] in *.
    destruct (get_table_inv _ _ _ _ Eg) as [Ev _]. destruct Hx as [<-|Hx].
    - apply R_root. eapply speek_root; eauto.
    - apply in_app_or in Hx. destruct Hx as [Hx|Hx]; eapply R_vaddr_peek; eauto.
  Qed.

  Lemma ap_40_good s p : state_closed s -> In p (ap_40 F s) -> ap_good F p.
  Proof.
    intros Hs. unfold ap_40. destruct (get_table (st_heap s) (speek s 0)) as [a t| |] eqn:Eg; try nil_case.
    destruct (tappend _ _ _); try nil_case. intros [<-|[]].
    split; [exact Hs|]. split; [constructor|]. intros _ x Hx. unfold ap_roots. cbn [ap_state ap_guards ap_uses] in *.
    destruct (get_table_inv _ _ _ _ Eg) as [Ev _]. destruct Hx as [<-|Hx].
    - apply R_root. eapply speek_root; eauto.
    - eapply R_vaddr_peek; eauto.
  Qed.

  Lemma to_array_ins_ok n : forall l i, Forall (pair_ok n) l -> Forall (pair_ok n) (to_array_ins i l).
  Proof.
    induction l as [|[k v] r IH]; intros i Hl; cbn [to_array_ins]; [constructor|].
    inversion Hl as [|? ? [_ Hv] Hr]; subst. constructor; [split; [exact I|exact Hv]|apply IH; exact Hr].
  Qed.

  Lemma fill_points_good eq s2 src out others : state_closed s2 -> aok (hl s2) out ->
    (forall x, In x (src :: others) -> exists k, speek s2 k = VObj x) ->
    forall ins t p, table_ok (hl s2) t -> Forall (pair_ok (hl s2)) ins ->
    In p (fill_points eq s2 src out others t ins) -> ap_good F p.
  Proof.
    intros Hs Ho Hr. induction ins as [|[k v] r IH]; intros t p Ht Hi Hin; cbn [fill_points] in Hin; [contradiction|].
    inversion Hi as [|? ? [Hk Hv] Hi']; subst. cbn [fst snd] in Hk, Hv.
    apply in_app_or in Hin. destruct Hin as [Hin|Hin].
    - destruct (map_find eq k (tmap t)) as [[|]|]; try contradiction. destruct Hin as [<-|[]].
      split; [apply closed_set_table; assumption|]. cbn [ap_state ap_guards ap_uses ap_assumed]. unfold ap_roots.
      cbn [ap_state ap_guards]. split; [repeat constructor; rewrite hl_set_table; exact Ho|].
      intros Ha x Hx.
      assert (Hroot : forall y, In y (src :: others) -> reach (vm_abs F (set_table s2 out t))
                                  (vm_roots (set_table s2 out t) ++ [out]) y).
      { intros y Hy. destruct (Hr y Hy) as [j Hj]. apply R_root. apply (speek_root (set_table s2 out t) j). exact Hj. }
      destruct Hx as [<-|[<-|Hx]].
      + apply Hroot. left. reflexivity.
      + apply R_guard. left. reflexivity.
      + apply in_app_or in Hx. destruct Hx as [Hx|Hx]; [apply Hroot; right; exact Hx|apply Ha; exact Hx].
    - destruct (tinsert eq t k v) as [t'|] eqn:Et; [|contradiction].
      eapply IH; [eapply tinsert_ok; [exact Ht|exact Hk|exact Hv|exact Et]|exact Hi'|exact Hin].
  Qed.

  Lemma ap_native_good n s p : state_closed s -> In p (ap_native F n s) -> ap_good F p.
  Proof.
    intros Hs. unfold ap_native.
    assert (G : forall (snap : bool) (k : nat) (others : list N), (forall x, In x others -> exists j, speek s j = VObj x) ->
              In p match speek s k with
                   | VObj a =>
                       match hget (st_heap s) a with
                       | Some (OTable t) =>
                           init2 s [] (a :: others) [] ++
                           (let '(s2, out) := salloc s (OTable (mkTable [] [])) in
                            let eq2 := veq0 F (st_heap s2) in
                            if snap then
                              match titer (veq0 F (st_heap s)) t with
                              | Some l => fill_points eq2 s2 a out others (mkTable [] []) l
                              | None => []
                              end
                            else
                              match titer eq2 t with
                              | Some l => fill_points eq2 s2 a out others (mkTable [] []) (to_array_ins 0 l)
                              | None => []
                              end)
                       | _ => []
                       end
                   | _ => [] end -> ap_good F p).
    { intros snap k others Ho. destruct (speek s k) as [| | |a] eqn:Ek; try nil_case.
      destruct (hget (st_heap s) a) as [[t| | | | |]|] eqn:Eh; try nil_case.
      assert (Hall : forall x, In x (a :: others) -> exists j, speek s j = VObj x).
      { intros x [<-|Hx]; [exists k; exact Ek|apply Ho; exact Hx]. }
      intros Hin. apply in_app_or in Hin. destruct Hin as [Hin|Hin].
      - eapply Forall_init2; [exact Hin|].
        split; [exact Hs|]. split; [constructor|]. intros _ x Hx. unfold ap_roots. cbn [ap_state ap_guards ap_uses] in *.
        apply R_root. destruct (Hall x Hx) as [j Hj]. eapply speek_root; exact Hj.
      - destruct (salloc s (OTable (mkTable [] []))) as [s2 out] eqn:Ea.
        destruct (salloc_closed _ _ _ _ Ea Hs eq_refl) as [Hs2 Hout].
        destruct (closed_salloc s _ s2 out Ea Hs (flat_obj_ok _ _ (OTable (mkTable [] [])) eq_refl))
          as (_ & Hhl & _ & _ & Hst & _).
        assert (Hall2 : forall x, In x (a :: others) -> exists j, speek s2 j = VObj x).
        { intros x Hx. destruct (Hall x Hx) as [j Hj]. exists j. unfold speek in *. rewrite Hst. exact Hj. }
        assert (Ht : table_ok (hl s2) t).
        { eapply table_ok_mono; [|exact (closed_hget _ _ _ Hs Eh)]. lia. }
        cbv zeta in Hin. destruct snap.
        + destruct (titer (veq0 F (st_heap s)) t) as [l|] eqn:El; [|contradiction].
          eapply fill_points_good; [exact Hs2|exact Hout|exact Hall2|apply table_ok_empty| |exact Hin].
          eapply Forall_pair_mono; [|eapply titer_ok; [exact (closed_hget _ _ _ Hs Eh)|exact El]]. lia.
        + destruct (titer (veq0 F (st_heap s2)) t) as [l|] eqn:El; [|contradiction].
          eapply fill_points_good; [exact Hs2|exact Hout|exact Hall2|apply table_ok_empty| |exact Hin].
          apply to_array_ins_ok. eapply titer_ok; [exact Ht|exact El]. }
    destruct n; try nil_case;
      first [ apply (G false 0 []); intros x []
            | apply (G true 1 (vaddr (speek s 0))); intros x Hx; apply in_vaddr in Hx; exists 0; exact Hx ].
  Qed.

  Lemma ap_4_good ip s p : state_closed s -> In p (ap_4 F P ip s) -> ap_good F p.
  Proof.
    intros Hs. unfold ap_4. destruct (op_u32 P ip); [|intros []]. destruct (find_native _ _); [|intros []].
    apply ap_native_good. exact Hs.
  Qed.

  Lemma ap_11_good s p : state_closed s -> In p (ap_11 F s) -> ap_good F p.
  Proof.
    intros Hs. unfold ap_11. destruct (spop s) as [s1 fv] eqn:Ep. destruct (spop_c _ _ _ Ep Hs) as (Hs1 & _ & _).
    destruct fv as [| | |a]; try nil_case. destruct (hget (st_heap s1) a) as [[]|]; try nil_case.
    destruct (find_native _ _); [|intros []]. apply ap_native_good. exact Hs1.
  Qed.

  Lemma ap_45_good ip s p : state_closed s -> In p (ap_45 P ip s) -> ap_good F p.
  Proof.
    intros Hs. unfold ap_45. destruct (read_le (p_code P) ip 1) as [index|]; [|intros []].
    destruct (read_le (p_code P) (ip + 1) 1) as [is_local|]; [|intros []].
    destruct (spop s) as [s1 cv] eqn:Ep. destruct (spop_c _ _ _ Ep Hs) as (Hs1 & _ & _).
    destruct cv as [| | |ca]; try nil_case. destruct (hget (st_heap s1) ca) as [[]|]; try nil_case.
    destruct (negb (is_local =? 0)%N); [|intros []]. destruct (top_offset s1) as [off|]; [|intros []].
    destruct (scount s1 <=? off + N.to_nat index); [intros []|].
    destruct (walk_open _ _ _ _ _) as [prev cur|] eqn:Ew; [|intros []].
    match goal with |- In p (if ?b then _ else _) -> _ => destruct b end; [intros []|]. intros [<-|[]].
    split; [exact Hs1|]. split; [constructor|]. intros Ha x Hx. unfold ap_roots in *.
    cbn [ap_state ap_guards ap_uses ap_assumed] in *.
    destruct Hx as [<-|Hx]; [apply Ha; left; reflexivity|].
    destruct (walk_open_chain _ _ (fun x => In x (vm_roots s1)) _ _ _ _ _ Ew) as [Hp Hc].
    - intros y Hy. discriminate.
    - intros y Hy. apply open_chain_root. exact Hy.
    - apply R_root. apply in_app_or in Hx. destruct Hx as [Hx|Hx].
      + destruct prev; cbn in Hx; [destruct Hx as [<-|[]]; apply Hp; reflexivity|contradiction].
      + destruct cur; cbn in Hx; [destruct Hx as [<-|[]]; apply Hc; reflexivity|contradiction].
  Qed.

  Lemma ap_39_good s p : state_closed s -> In p (ap_39 F s) -> ap_good F p.
  Proof.
    intros Hs. unfold ap_39. destruct (get_table (st_heap s) (speek s 1)) as [ta t| |] eqn:Eg; try nil_case.
    destruct (get_table_inv _ _ _ _ Eg) as [Ev Eh].
    destruct (speek s 0) as [|i| |] eqn:E0; try nil_case. destruct (i <? 0)%Z eqn:Ei; [intros []|].
    set (inside := (i <? Z.of_nat (length (tkeys t)))%Z).
    set (key := if inside then tnth_key t (Z.to_nat i) else VNil).
    destruct (if inside then tget (veq0 F (st_heap s)) t key else Some None) as [r|] eqn:Er; [|intros []].
    destruct (salloc s (OTable (mkTable [] []))) as [sa row] eqn:Ea.
    destruct (salloc sa (OStr str_key)) as [sb ka] eqn:Eb.
    destruct (salloc_closed _ _ _ _ Ea Hs eq_refl) as [Hsa Hrow].
    destruct (salloc_closed _ _ _ _ Eb Hsa I) as [Hsb Hka].
    assert (Hrow' : aok (hl sb) row).
    { destruct (closed_salloc sa (OStr str_key) sb ka Eb Hsa I) as (_ & B & _). rewrite B. unfold aok in *. lia. }
    intros Hin. apply in_app_or in Hin. destruct Hin as [Hin|Hin]; [|apply in_app_or in Hin; destruct Hin as [Hin|Hin]];
      (eapply Forall_init2; [exact Hin|]).
    - split; [exact Hs|]. split; [constructor|]. unfold ap_roots. cbn [ap_state ap_guards ap_uses ap_assumed].
      intros Ha x Hx. destruct r as [v|].
      + destruct inside eqn:Ein; [|discriminate]. unfold tget in Er.
        destruct (map_find (veq0 F (st_heap s)) key (tmap t)) as [[[j v']|]|] eqn:Ef; try discriminate.
        injection Er as <-.
        assert (Hk : In key (tkeys t)).
        { subst key. unfold tnth_key. apply Z.ltb_lt in Ein. apply Z.ltb_ge in Ei.
          destruct (length (tkeys t) <=? Z.to_nat i) eqn:El; [apply Nat.leb_le in El; lia|].
          apply nth_In. apply Nat.leb_gt in El. exact El. }
        eapply R_kid; [apply R_root; eapply speek_root; exact Ev|exact Eh|].
        eapply table_entry_kids; eauto.
      + rewrite app_nil_r in Hx. apply Ha. exact Hx.
    - split; [exact Hsa|]. split; [repeat constructor; exact Hrow|]. unfold ap_roots.
      cbn [ap_state ap_guards ap_uses ap_assumed]. intros Ha x [<-|Hx]; [apply R_guard; left; reflexivity|apply Ha; exact Hx].
    - split; [exact Hsb|]. split; [repeat constructor; assumption|]. unfold ap_roots.
      cbn [ap_state ap_guards ap_uses ap_assumed].
      intros Ha x [<-|[<-|Hx]]; [apply R_guard; left; reflexivity|apply R_guard; right; left; reflexivity|apply Ha; exact Hx].
  Qed.

  (* every temporary held across an allocation point of the next instruction is rooted or guarded there *)
  Theorem alloc_point_temporaries_rooted ip0 s p :
    state_closed s -> In p (alloc_points F P ip0 s) -> ap_good F p.
  Proof.
    intros Hs. unfold alloc_points.
    destruct (nth (N.to_nat ip0) (p_code P) 255%N) as [|q]; [intros []|].
    repeat match goal with |- In p (match ?x with _ => _ end) -> _ => is_var x; destruct x end; try nil_case;
      eauto using ap_4_good, ap_8_good, ap_11_good, ap_31_good, ap_33_good, ap_37_42_good, ap_38_good, ap_39_good, ap_40_good,
                  ap_45_good.
  Qed.
End Points.

(* ------------------------------------------------------------------ *)
(* a collection at an allocation point                                 *)
(* ------------------------------------------------------------------ *)
(* the collector's heap at an allocation point: the abstraction of the VM heap (VmGcLink.vm_abs) in which the objects
   under a live ObjectGcGuard carry the marker Protected *)
Definition guard_obj (g : list N) (a : N) (o : Gc.obj) : Gc.obj :=
  if bool_decide (a ∈ g) then Gc.Obj Protected (kids o) else o.
Definition vm_abs_g (F : fops) (s : state) (g : list N) : gmap N Gc.obj :=
  map_imap (fun a o => Some (guard_obj g a o)) (vm_abs F s).

Lemma vm_abs_g_lookup F s g a : vm_abs_g F s g !! a = guard_obj g a <$> (vm_abs F s !! a).
Proof. unfold vm_abs_g. rewrite map_lookup_imap. destruct (vm_abs F s !! a); reflexivity. Qed.

Lemma vm_abs_g_shape F s g : same_shape (vm_abs F s) (vm_abs_g F s g).
Proof.
  intros a. rewrite vm_abs_g_lookup. destruct (vm_abs F s !! a) as [o|] eqn:E; cbn; [|exact I].
  split.
  - unfold guard_obj. destruct (bool_decide (a ∈ g)); reflexivity.
  - intros Hw. unfold is_white in Hw. rewrite (vm_abs_white _ _ _ _ E) in Hw. discriminate.
Qed.

Lemma vm_abs_g_no_gray F s g : no_gray (vm_abs_g F s g).
Proof.
  intros a o Ha. rewrite vm_abs_g_lookup in Ha. destruct (vm_abs F s !! a) as [o0|] eqn:E; [|discriminate].
  cbn in Ha. injection Ha as <-. unfold guard_obj. destruct (bool_decide (a ∈ g)); cbn; [discriminate|].
  rewrite (vm_abs_white _ _ _ _ E). discriminate.
Qed.

Lemma vm_abs_g_prot F s g a : In a g -> aok (hl s) a -> a ∈ protected_of (vm_abs_g F s g).
Proof.
  intros Hg Ha. apply elem_of_protected_of. apply vm_abs_dom with (F := F) in Ha. destruct Ha as [o Ho].
  exists (guard_obj g a o). split; [rewrite vm_abs_g_lookup, Ho; reflexivity|].
  unfold guard_obj. rewrite bool_decide_eq_true_2 by (apply elem_of_list_In; exact Hg). reflexivity.
Qed.

(* A collection started by an allocation at a point where the state is closed and the guards are objects of the heap
   terminates, and every object reachable from the VM roots or from a guarded object stays in place with the same
   references; the heap it leaves is closed. *)
Theorem collection_with_guards F s g : state_closed s -> Forall (aok (hl s)) g ->
  exists h', gc (vm_abs_g F s g) (vm_roots s) = Some h' /\
    (forall a, reach (vm_abs F s) (vm_roots s ++ g) a ->
       exists o o', hget (st_heap s) a = Some o /\ h' !! a = Some o' /\ kids o' = vm_kids F s o) /\
    closed h' /\ no_gray h'.
Proof.
  intros Hs Hg. pose proof (vm_abs_g_shape F s g) as Hsh.
  pose proof (closed_shape _ _ (vm_abs_closed F s Hs) Hsh) as Hcl. pose proof (vm_abs_g_no_gray F s g) as Hng.
  destruct (gc_spec (vm_abs_g F s g) (vm_roots s) Hcl Hng) as (h' & Hgc & Hdom & Hobj & Hng').
  exists h'. split; [exact Hgc|]. split; [|split; [eapply gc_closed; eauto|exact Hng']].
  intros a Hr. rewrite Forall_forall in Hg.
  assert (Hr' : reach (vm_abs_g F s g) (protected_of (vm_abs_g F s g) ++ vm_roots s) a).
  { eapply reach_mono; [|eapply reach_shape; [exact Hsh|exact Hr]].
    intros x Hx. apply elem_of_app in Hx. apply elem_of_app. destruct Hx as [Hx|Hx]; [right; exact Hx|left].
    apply vm_abs_g_prot; [apply elem_of_list_In; exact Hx|apply Hg; exact Hx]. }
  assert (Hin : is_Some (vm_abs_g F s g !! a)).
  { eapply reach_in_heap; [exact Hcl| |eapply reach_shape; [exact Hsh|exact Hr]].
    intros r Hrt. rewrite vm_abs_g_lookup. apply fmap_is_Some. apply vm_abs_dom.
    apply elem_of_app in Hrt. destruct Hrt as [Hrt|Hrt].
    - apply elem_of_list_In in Hrt. apply vm_roots_ok; assumption.
    - apply Hg. exact Hrt. }
  destruct (proj2 (Hdom a) (conj Hin Hr')) as [o' Ho'].
  destruct (Hobj a o' Ho') as (o & Ho & Hk & _).
  rewrite vm_abs_g_lookup, vm_abs_lookup in Ho. destruct (hget (st_heap s) a) as [ob|] eqn:E; [|discriminate].
  cbn in Ho. injection Ho as <-. exists ob, o'. split; [reflexivity|]. split; [exact Ho'|]. rewrite Hk.
  unfold guard_obj. destruct (bool_decide (a ∈ g)); reflexivity.
Qed.

(* ... in particular at every allocation point of the next instruction: what the rest of the instruction uses
   survives the collection unchanged *)
Theorem collection_at_alloc_point F P ip0 s p :
  state_closed s -> In p (alloc_points F P ip0 s) ->
  (forall a, In a (ap_assumed p) -> reach (vm_abs F (ap_state p)) (ap_roots p) a) ->
  exists h', gc (vm_abs_g F (ap_state p) (ap_guards p)) (vm_roots (ap_state p)) = Some h' /\
    (forall a, In a (ap_uses p) ->
       exists o o', hget (st_heap (ap_state p)) a = Some o /\ h' !! a = Some o' /\
                    kids o' = vm_kids F (ap_state p) o) /\
    closed h' /\ no_gray h'.
Proof.
  intros Hs Hp Ha. destruct (alloc_point_temporaries_rooted F P ip0 s p Hs Hp) as (Hc & Hg & Hu).
  destruct (collection_with_guards F _ _ Hc Hg) as (h' & Hgc & Hk & Hcl & Hng).
  exists h'. split; [exact Hgc|]. split; [|split; assumption].
  intros a Hin. apply Hk. apply Hu; assumption.
Qed.

(* ---- RegisterUpvalue after CopyLast (what the compiler emits): the popped closure is still in the slot below ---- *)
Lemma register_after_copylast F P ip s ca s' p :
  slast s = VObj ca -> spush s (VObj ca) = Some s' -> In p (ap_45 P ip s') ->
  forall a, In a (ap_assumed p) -> reach (vm_abs F (ap_state p)) (ap_roots p) a.
Proof.
  intros Hl Hpush. unfold ap_45. destruct (read_le (p_code P) ip 1) as [index|]; [|intros []].
  destruct (read_le (p_code P) (ip + 1) 1) as [is_local|]; [|intros []].
  destruct (spop s') as [s1 cv] eqn:Ep.
  assert (H1 : cv = VObj ca /\ slast s1 = VObj ca).
  { unfold spush, vs_push in Hpush. unfold slast, vs_last in Hl.
    destruct (S (vcount (st_stack s)) <? length (vdata (st_stack s))) eqn:Ec; [|discriminate].
    injection Hpush as <-. apply Nat.ltb_lt in Ec.
    destruct (0 <? vcount (st_stack s)) eqn:E0; [|discriminate]. apply Nat.ltb_lt in E0.
    unfold spop, vs_pop in Ep. cbn [st_stack set_stack vcount vdata] in Ep. cbn [Nat.eqb] in Ep.
    replace (S (vcount (st_stack s)) - 1) with (vcount (st_stack s)) in Ep by lia.
    injection Ep as <- <-. split.
    - apply ListUtil.nth_upd_same. lia.
    - unfold slast, vs_last. cbn [st_stack set_stack vcount vdata]. rewrite (proj2 (Nat.ltb_lt _ _) E0).
      rewrite !ListUtil.nth_upd_other by lia. exact Hl. }
  destruct H1 as [-> Hl1]. destruct (hget (st_heap s1) ca) as [[]|]; try nil_case.
  destruct (negb (is_local =? 0)%N); [|intros []]. destruct (top_offset s1) as [off|]; [|intros []].
  destruct (scount s1 <=? off + N.to_nat index); [intros []|].
  destruct (walk_open _ _ _ _ _) as [prev cur|]; [|intros []].
  match goal with |- In p (if ?b then _ else _) -> _ => destruct b end; [intros []|]. intros [<-|[]].
  unfold ap_roots. cbn [ap_state ap_guards ap_assumed]. intros a [<-|[]]. apply R_root. apply slast_root. exact Hl1.
Qed.
