(* C08: worked examples (vm_compute) for the module-level theorems: a tree whose calls go through
   function and module imports with `super`. *)
From Coq Require Import List NArith ZArith Bool Lia.
From Cao Require Import ListUtil CheckUtil Bits CardAst Bytecode Compiler CompilerGen StdlibGen ResolveSpec
  CompilerProofs CompilerWf CompilerResolve ResolveProofs ResolveTree CompilerLabels CompilerCalls.
Import ListNotations.
Local Open Scope N_scope.

(* ------------------------------------------------------------------ an example: imports through `super` *)
(* root { main = [a.b.go()]
          lib  { g = [nil] }
          a    { util { h(x, y) = [nil] }
                 b    { imports = [super.super.lib.g, super.util]
                        go = [g(); util.h(1, 2); &g] } } }
   numbering: main 0, lib.g 1, a.util.h 2, a.b.go 3, then the standard library *)
Definition w_a : str := [97].
Definition w_b : str := [98].
Definition w_g : str := [103].
Definition w_h : str := [104].
Definition w_go : str := [103; 111].
Definition w_lib : str := [108; 105; 98].
Definition dotted (l : list str) : str := join_dot l.
Definition ex_super_module : module :=
  Module
    [(w_lib, Module [] [(w_g, fn0 [CScalarNil])] []);
     (w_a, Module [(w_util, Module [] [(w_h, {| f_args := [[120]; [121]]; f_cards := [CScalarNil] |})] []);
                   (w_b, Module [] [(w_go, fn0 [CCall w_g []; CCall (dotted [w_util; w_h]) [CScalarInt 1; CScalarInt 2];
                                                CFunction w_g])]
                                [dotted [s_super; s_super; w_lib; w_g]; dotted [s_super; w_util]])]
                  [] [])]
    [(s_main, fn0 [CCall (dotted [w_a; w_b; w_go]) []])]
    [].
Definition ex_super_root : module := with_std std_module ex_super_module.
Definition ex_b_imports : list str := [dotted [s_super; s_super; w_lib; w_g]; dotted [s_super; w_util]].

Lemma ex_super_spec :
  module_names_dotfree ex_super_root = true /\
  spec_resolve ex_super_root [w_a; w_b] ex_b_imports w_g = SFound ([w_lib], w_g) /\
  spec_resolve ex_super_root [w_a; w_b] ex_b_imports (dotted [w_util; w_h]) = SFound ([w_a; w_util], w_h) /\
  fn_position ex_super_root [w_lib] w_g 0 = Some 1%nat /\
  fn_position ex_super_root [w_a; w_util] w_h 0 = Some 2%nat /\
  fn_position ex_super_root [w_a; w_b] w_go 0 = Some 3%nat.
Proof. vm_compute. repeat split; reflexivity. Qed.

(* the compiled program: main calls function 3 (a.b.go); go calls function 1 (lib.g, through the
   function import super.super.lib.g), function 2 with arity 2 (a.util.h, through the module import
   super.util), and references function 1 *)
Lemma ex_super_compiled :
  exists B is, compile ex_super_module default_options = COk B /\ p_bytecode B = encode is /\
    firstn 7 (filter is_call_instr is) =
      [IFunctionPointer (handle_from_u64 3) 0; ICallFunction;
       IFunctionPointer (handle_from_u64 1) 0; ICallFunction;
       IFunctionPointer (handle_from_u64 2) 2; ICallFunction;
       IFunctionPointer (handle_from_u64 1) 0].
Proof.
  destruct (compile ex_super_module default_options) as [B| | |] eqn:Ec; try (vm_compute in Ec; discriminate).
  destruct (compile_calls _ _ _ Ec (proj1 ex_super_spec)) as (is & mi & Hb & Hm & Hf).
  exists B, is. split; [reflexivity|]. split; [exact Hb|].
  vm_compute in Hm. injection Hm as <-.
  (* read the first seven instructions off the theorem's conclusion *)
  apply (Forall2_firstn _ 7) in Hf. clear Hb.
  remember (firstn 7 (filter is_call_instr is)) as sk eqn:Esk. clear Esk.
  match type of Hf with
  | Forall2 ?R ?its ?l => let v := eval vm_compute in its in replace its with v in Hf by (vm_compute; reflexivity)
  end.
  repeat match type of Hf with
         | Forall2 _ (_ :: _) _ =>
             let H := fresh "H" in let Hf' := fresh "Hf" in
             inversion Hf as [|? ? ? ? H Hf']; subst; clear Hf; rename Hf' into Hf;
             unfold site_item_ok in H; cbn [fst snd] in H;
             first [ destruct H as (pos & ar & Ht & ->); vm_compute in Ht; injection Ht as <- <-
                   | subst ]
         end.
  inversion Hf. reflexivity.
Qed.

(* the label theorem on the same tree: the 32-bit label keys are pairwise distinct (decided by
   computation), labels[Handle(3)] is where the code of a.b.go starts, and the instruction there is the
   FunctionPointer of go's first card (the call of function 1) *)
Lemma ex_super_label :
  label_keys_distinct_module ex_super_module 64 = true /\
  exists B before body rest p,
    compile ex_super_module default_options = COk B /\
    p_bytecode B = encode before ++ encode body ++ encode rest /\
    nm_find (handle_from_u64 3) (p_labels B) = Some p /\
    p = N.of_nat (length (encode before)) /\
    match decode (p_bytecode B) with
    | Some l => In (N.to_nat p, IFunctionPointer (handle_from_u64 1) 0) l
    | None => False
    end.
Proof.
  assert (Hd : label_keys_distinct_module ex_super_module 64 = true) by (vm_compute; reflexivity).
  split; [exact Hd|].
  destruct (compile ex_super_module default_options) as [B| | |] eqn:Ec; try (vm_compute in Ec; discriminate).
  destruct (compile_label_of_position ex_super_module default_options B 3
              {| fs_path := [w_a; w_b]; fs_name := w_go;
                 fs_fn := fn0 [CCall w_g []; CCall (dotted [w_util; w_h]) [CScalarInt 1; CScalarInt 2]; CFunction w_g];
                 fs_imports := ex_b_imports |} Ec Hd)
    as (f & before & body & rest & _ & Hb & Hl & _).
  { vm_compute. reflexivity. } { vm_compute. discriminate. }
  change (N.of_nat 3) with 3 in Hl.
  exists B, before, body, rest, (N.of_nat (length (encode before))).
  split; [reflexivity|]. split; [exact Hb|]. split; [exact Hl|]. split; [reflexivity|].
  assert (Hp : exists p, nm_find (handle_from_u64 3) (p_labels B) = Some p /\
                 match decode (p_bytecode B) with
                 | Some l => In (N.to_nat p, IFunctionPointer (handle_from_u64 1) 0) l
                 | None => False
                 end).
  { clear Hb Hl. vm_compute in Ec. injection Ec as <-. eexists. split; [vm_compute; reflexivity|].
    vm_compute. repeat (first [left; reflexivity | right]). }
  destruct Hp as (p & Hp1 & Hp2). rewrite Hp1 in Hl. injection Hl as <-. exact Hp2.
Qed.

(* N-C08-3: main = [main()] compiles; the call carries Handle(0), the handle of main (function 0), and the
   label table has no entry for it: the first function is compiled without a label *)
Definition ex_call_main_module : module := Module [] [(s_main, fn0 [CCall s_main []])] [].
Lemma ex_main_has_no_label :
  spec_resolve (with_std std_module ex_call_main_module) [] [] s_main = SFound ([], s_main) /\
  fn_position (with_std std_module ex_call_main_module) [] s_main 0 = Some 0%nat /\
  exists B, compile ex_call_main_module default_options = COk B /\
            In (IFunctionPointer (handle_from_u64 0) 0)
               (match decode (p_bytecode B) with Some l => map snd l | None => [] end) /\
            nm_find (handle_from_u64 0) (p_labels B) = None.
Proof.
  split; [vm_compute; reflexivity|]. split; [vm_compute; reflexivity|].
  destruct (compile ex_call_main_module default_options) as [B| | |] eqn:E; try (vm_compute in E; discriminate).
  exists B. split; [reflexivity|]. vm_compute in E. injection E as <-.
  split; [vm_compute; repeat (first [left; reflexivity | right]) | vm_compute; reflexivity].
Qed.
