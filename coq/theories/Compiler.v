(* Executable model of the cao-lang compiler: compiler.rs (Compiler, process_card, scopes, locals,
   upvalues, jump back-patching, variables, trace), compiler/module.rs (into_ir_stream,
   flatten_module, execute_imports, is_name_valid, ensure_invariants, std injection),
   compiler/function_ir.rs, compile_options.rs, compilation_error.rs.

   Emission is modelled at the granularity of whole instructions ([push_instr] = push_instruction +
   the write_to_vec calls that follow it; [push_raw] = the bare `bytecode.push(op as u8)` of
   scope_end, which records no trace entry).  The buffer is a reversed list of instructions plus the
   byte length; `bytecode.len()` is [cs_pc].  Back-patching (`ptr::write_unaligned` at a remembered
   index) is [patch_jump]: the placeholder operands 0 / 0xEEF are really in the buffer until patched.
   The final byte string is [encode] of the buffer; byte-for-byte agreement with the crate is
   checked by the correspondence run (C10Check).

   Hash tables: labels / variables.ids / variables.names are HandleTables, trace and jump_table are
   CaoHashMaps.  They are modelled as key-sorted association lists (slot order is not modelled;
   C12/C13 relate the concrete tables to maps).  What is kept of HandleTable:
   insert(key 0) = Err(InvalidHandle) -> `.unwrap()` panics; `entry` never grows
   ([Consts.ht_entry_grows] = false today), so a 17th distinct key in a 16-slot table probes forever.

   Outcomes: [CPanic] = unwrap/expect/debug_assert/usize underflow, [CDiverge] = non-terminating probe.
   Definitions only; proofs in CompilerProofs.v. *)
From Coq Require Import List NArith ZArith Bool.
From Cao Require Import ListUtil CheckUtil Bits CardAst Bytecode Consts CompilerGen StdlibGen.
Import ListNotations.
Local Open Scope N_scope.

(* ------------------------------------------------------------------ strings *)
Definition str_eqb : str -> str -> bool := list_eqb N.eqb.

Definition s_main : str := [109; 97; 105; 110].
Definition s_std : str := [115; 116; 100].
Definition s_super : str := [115; 117; 112; 101; 114].
Definition s_super_dot : str := [115; 117; 112; 101; 114; 46].
Definition c_dot : N := 46.

(* str::split_once(char) *)
Fixpoint split_once_c (c : N) (s : str) : option (str * str) :=
  match s with
  | [] => None
  | x :: r =>
      if x =? c then Some ([], r)
      else match split_once_c c r with
           | Some (a, b) => Some (x :: a, b)
           | None => None
           end
  end.
(* str::rsplit_once(char) *)
Definition rsplit_once_c (c : N) (s : str) : option (str * str) :=
  match split_once_c c (rev s) with
  | Some (a, b) => Some (rev b, rev a)
  | None => None
  end.
(* str::split(char): never empty *)
Fixpoint split_c (c : N) (s : str) : list str :=
  match s with
  | [] => [[]]
  | x :: r =>
      if x =? c then [] :: split_c c r
      else match split_c c r with
           | h :: t => (x :: h) :: t
           | [] => [[x]]
           end
  end.
Fixpoint strip_prefix (p s : str) : option str :=
  match p, s with
  | [], _ => Some s
  | a :: p', b :: s' => if a =? b then strip_prefix p' s' else None
  | _ :: _, [] => None
  end.
(* str::split_once(&str): first occurrence of the pattern *)
Fixpoint split_once_str (p s : str) : option (str * str) :=
  match strip_prefix p s with
  | Some rest => Some ([], rest)
  | None =>
      match s with
      | [] => None
      | x :: r =>
          match split_once_str p r with
          | Some (a, b) => Some (x :: a, b)
          | None => None
          end
      end
  end.

(* fn super_depth(import): only whole leading `super.` prefixes count; returns their number and, when
   there is at least one, the rest of the path.
   None = fuel exhausted (cannot happen with fuel = length + 1: every round drops 6 bytes). *)
Fixpoint super_depth_go (fuel : nat) (s : str) (cnt : nat) : option (nat * option str) :=
  match fuel with
  | O => None
  | S f =>
      match strip_prefix s_super_dot s with
      | Some post => super_depth_go f post (S cnt)
      | None => Some (cnt, match cnt with O => None | S _ => Some s end)
      end
  end.
Definition super_depth (s : str) := super_depth_go (S (length s)) s O.
(* super_depth before the repair of N-C08-1: every occurrence of the substring "super." counted *)
Fixpoint super_depth_legacy_go (fuel : nat) (s : str) (cnt : nat) (suffix : option str)
  : option (nat * option str) :=
  match fuel with
  | O => None
  | S f =>
      match split_once_str s_super_dot s with
      | Some (_, post) => super_depth_legacy_go f post (S cnt) (Some post)
      | None => Some (cnt, suffix)
      end
  end.
Definition super_depth_legacy (s : str) := super_depth_legacy_go (S (length s)) s O None.

Definition ascii_alnum (b : N) : bool :=
  ((48 <=? b) && (b <=? 57)) || ((65 <=? b) && (b <=? 90)) || ((97 <=? b) && (b <=? 122)).
(* is_name_valid, on ASCII names (char::is_alphanumeric is Unicode-aware; names with bytes >= 128
   are outside the modelled domain: the checker reports them as a precondition violation) *)
Definition is_name_valid (s : str) : bool :=
  forallb (fun b => ascii_alnum b || (b =? 95)) s
  && negb (match s with [] => true | _ => false end)
  && negb (str_eqb s s_super).
Definition name_in_domain (s : str) : bool := forallb (fun b => b <? 128) s.

(* namespace.iter().flat_map(|x| [x, "."]) *)
Definition ns_prefix (ns : list str) : str := flat_map (fun x => x ++ [c_dot]) ns.
(* namespace.join(".") *)
Fixpoint join_dot (l : list str) : str :=
  match l with
  | [] => []
  | [x] => x
  | x :: r => x ++ c_dot :: join_dot r
  end.

(* ------------------------------------------------------------------ maps *)
Fixpoint nm_insert {V} (k : N) (v : V) (m : list (N * V)) : list (N * V) :=
  match m with
  | [] => [(k, v)]
  | (k', v') :: r =>
      if k <? k' then (k, v) :: m
      else if k =? k' then (k, v) :: r
      else (k', v') :: nm_insert k v r
  end.
Fixpoint nm_find {V} (k : N) (m : list (N * V)) : option V :=
  match m with
  | [] => None
  | (k', v) :: r => if k =? k' then Some v else nm_find k r
  end.
Fixpoint sm_find {V} (k : str) (m : list (str * V)) : option V :=
  match m with
  | [] => None
  | (k', v) :: r => if str_eqb k k' then Some v else sm_find k r
  end.
Fixpoint sm_insert {V} (k : str) (v : V) (m : list (str * V)) : list (str * V) :=
  match m with
  | [] => [(k, v)]
  | (k', v') :: r => if str_eqb k k' then (k, v) :: r else (k', v') :: sm_insert k v r
  end.

(* ------------------------------------------------------------------ interface types *)
Record options := { o_recursion_limit : N;          (* CompileOptions.recursion_limit : u32 *)
                    o_debug : bool }.               (* overflow-checks / debug_assert compiled in *)

Definition loc : Type := (list str * card_index)%type.          (* Trace { namespace, index } *)
Definition loc_default : loc := ([], {| ci_function := 0%nat; ci_indices := [] |}).

(* CompilationErrorPayload (variants that compile() can return, with their fields) *)
Inductive cerr :=
| ENoMain
| EEmptyProgram
| ETooManyCards (n : N)
| EDuplicateName (s : str)
| EDuplicateModule (s : str)
| EInvalidJump (dst : str)
| ETooManyLocals
| EEmptyVariable
| EBadFunctionName (s : str)
| ERecursionLimitReached (n : N)
| EBadImport (s : str)
| EAmbigousImport (s : str)
| ESuperLimitReached
| ETooManyUpvalues
| EBadVariableName (s : str).

Record compiled := {
  p_bytecode : list N;
  p_data : list N;
  p_labels : list (N * N);          (* handle -> pos, sorted by handle *)
  p_ids : list (N * N);             (* variables.ids: name handle -> id, sorted by handle *)
  p_names : list (N * str);         (* variables.names: Handle::from_u32(id) -> name, sorted *)
  p_trace : list (N * loc)          (* instruction address -> Trace, sorted by address *)
}.

Inductive cresult :=
| COk (p : compiled)
| CErr (e : cerr) (l : option loc)
| CPanic
| CDiverge.

(* ------------------------------------------------------------------ IR (function_ir.rs) *)
Record function_ir := {
  fi_index : nat;                  (* function_index: position inside its module *)
  fi_name : str;
  fi_args : list str;
  fi_cards : list card;
  fi_ns : list str;
  fi_imports : list (str * str);   (* ImportsIr: imported name -> full import path *)
  fi_handle : N
}.
Definition fi_full_name (f : function_ir) : str :=
  match fi_ns f with
  | [] => fi_name f
  | ns => join_dot ns ++ c_dot :: fi_name f
  end.

(* Module::ensure_invariants: direct submodule names of every module are pairwise distinct;
   returns the first duplicate in the traversal order of the code *)
Fixpoint first_dup (seen : list str) (l : list str) : option str :=
  match l with
  | [] => None
  | x :: r => if existsb (str_eqb x) seen then Some x else first_dup (x :: seen) r
  end.
Fixpoint ensure_invariants (m : module) : option str :=
  match m with
  | Module subs _ _ =>
      match first_dup [] (map fst subs) with
      | Some d => Some d
      | None =>
          (fix go (l : list (str * module)) : option str :=
             match l with
             | [] => None
             | (_, sub) :: r =>
                 match ensure_invariants sub with
                 | Some d => Some d
                 | None => go r
                 end
             end) subs
      end
  end.

(* Module::execute_imports *)
Fixpoint execute_imports (imps : list str) (acc : list (str * str)) : cerr + list (str * str) :=
  match imps with
  | [] => inr acc
  | imp :: r =>
      match rsplit_once_c c_dot imp with
      | Some (_, name) =>
          match sm_find name acc with
          | Some _ => inl (EAmbigousImport imp)
          | None => execute_imports r (sm_insert name imp acc)
          end
      | None => inl (EBadImport imp)
      end
  end.

Fixpoint flatten_functions (fs : list (str * function)) (fid : nat) (ns : list str)
         (imports : list (str * str)) (out : list function_ir) (* reversed *) (n : N)
  : cerr + (list function_ir * N) :=
  match fs with
  | [] => inr (out, n)
  | (name, f) :: r =>
      if negb (is_name_valid name) then inl (EBadFunctionName name)
      else flatten_functions r (S fid) ns imports
             ({| fi_index := fid; fi_name := name; fi_args := f_args f; fi_cards := f_cards f;
                 fi_ns := ns; fi_imports := imports; fi_handle := handle_from_u64 n |} :: out)
             (n + 1)
  end.

(* fn flatten_module; [ns] is the module path (the code pushes the function name temporarily) *)
Fixpoint flatten_module (m : module) (limit : N) (ns : list str) (out : list function_ir) (n : N)
  : cerr + (list function_ir * N) :=
  match m with
  | Module subs funs imps =>
      if limit <=? N.of_nat (length ns) then inl (ERecursionLimitReached limit)
      else
        match execute_imports imps [] with
        | inl e => inl e
        | inr imports =>
            match flatten_functions funs 0 ns imports out n with
            | inl e => inl e
            | inr (out1, n1) =>
                (fix go (l : list (str * module)) (out : list function_ir) (n : N)
                   : cerr + (list function_ir * N) :=
                   match l with
                   | [] => inr (out, n)
                   | (name, sub) :: r =>
                       match flatten_module sub limit (ns ++ [name]) out n with
                       | inl e => inl e
                       | inr (out', n') => go r out' n'
                       end
                   end) subs out1 n1
            end
        end
  end.

Fixpoint find_index {A} (p : A -> bool) (l : list A) (i : nat) : option nat :=
  match l with
  | [] => None
  | x :: r => if p x then Some i else find_index p r (S i)
  end.

(* Vec::swap(0, i) *)
Definition swap0 {A} (l : list A) (i : nat) : list A :=
  match l with
  | [] => []
  | x0 :: _ =>
      match nth_error l i with
      | Some xi => upd (upd l 0 xi) i x0
      | None => l
      end
  end.

(* Module::into_ir_stream *)
Definition into_ir_stream (m : module) (limit : N) : cerr + list function_ir :=
  match m with
  | Module subs funs imps =>
      let m' := Module (subs ++ [(s_std, std_module)]) funs imps in
      match ensure_invariants m' with
      | Some d => inl (EDuplicateModule d)
      | None =>
          match find_index (fun nf => str_eqb (fst nf) s_main) funs 0 with
          | None => inl ENoMain
          | Some main_index =>
              match flatten_module m' limit [] [] 0 with
              | inl e => inl e
              | inr (out, _) => inr (swap0 (rev out) main_index)
              end
          end
      end
  end.

(* ------------------------------------------------------------------ compiler state *)
Record local := { l_name : str; l_depth : Z; l_captured : bool }.
Record upvalue := { u_is_local : bool; u_index : N }.
Record fmeta := { fm_handle : N; fm_arity : N }.

Record cstate := {
  cs_code : list instr;                 (* program.bytecode as instructions, newest first *)
  cs_pc : N;                            (* program.bytecode.len() *)
  cs_data : list N;                     (* program.data, reversed *)
  cs_dlen : N;
  cs_labels : list (N * N);
  cs_ids : list (N * N);
  cs_names : list (N * str);
  cs_next_var : N;
  cs_trace : list (N * loc);            (* newest first; keys strictly decreasing *)
  cs_jump : list (str * fmeta);         (* jump_table: full name -> meta *)
  cs_ns : list str;                     (* current_namespace *)
  cs_imports : list (str * str);        (* current_imports *)
  cs_locals : list (list local);        (* head = locals[function_id]; each in push order *)
  cs_upvalues : list (list upvalue);    (* head = upvalues[function_id] *)
  cs_depth : list Z;                    (* head = scope_depth.last() *)
  cs_fn : nat;                          (* current_index.function *)
  cs_idx : list N;                      (* current_index.card_index.indices, last first *)
  cs_fh : N;                            (* current_function_handle *)
  cs_debug : bool
}.

Definition locals_cap : nat := 255.      (* ArrayVec<Local, 255> *)
Definition upvalues_cap : nat := 255.    (* ArrayVec<Upvalue, 255> *)

Inductive res (A : Type) :=
| ROk (a : A) (s : cstate)
| RErr (e : cerr) (l : option loc)
| RPanic
| RDiverge.
Arguments ROk {A}. Arguments RErr {A}. Arguments RPanic {A}. Arguments RDiverge {A}.

Definition M (A : Type) := cstate -> res A.
Definition ret {A} (a : A) : M A := fun s => ROk a s.
Definition bind {A B} (m : M A) (f : A -> M B) : M B :=
  fun s => match m s with
           | ROk a s' => f a s'
           | RErr e l => RErr e l
           | RPanic => RPanic
           | RDiverge => RDiverge
           end.
Notation "'do' x <- m ;; k" := (bind m (fun x => k)) (at level 200, x pattern, m at level 99, k at level 200).
Notation "m ;; k" := (bind m (fun _ => k)) (at level 100, right associativity).

Definition get : M cstate := fun s => ROk s s.
Definition put (s : cstate) : M unit := fun _ => ROk tt s.
Definition panic {A} : M A := fun _ => RPanic.
Definition diverge {A} : M A := fun _ => RDiverge.

Definition cur_loc (s : cstate) : loc :=
  (cs_ns s, {| ci_function := cs_fn s; ci_indices := map N.to_nat (rev (cs_idx s)) |}).
(* self.error(payload) *)
Definition error {A} (e : cerr) : M A := fun s => RErr e (Some (cur_loc s)).

Definition set_code c pc (s : cstate) : cstate :=
  {| cs_code := c; cs_pc := pc; cs_data := cs_data s; cs_dlen := cs_dlen s; cs_labels := cs_labels s;
     cs_ids := cs_ids s; cs_names := cs_names s; cs_next_var := cs_next_var s; cs_trace := cs_trace s;
     cs_jump := cs_jump s; cs_ns := cs_ns s; cs_imports := cs_imports s; cs_locals := cs_locals s;
     cs_upvalues := cs_upvalues s; cs_depth := cs_depth s; cs_fn := cs_fn s; cs_idx := cs_idx s;
     cs_fh := cs_fh s; cs_debug := cs_debug s |}.
Definition set_trace t (s : cstate) : cstate :=
  {| cs_code := cs_code s; cs_pc := cs_pc s; cs_data := cs_data s; cs_dlen := cs_dlen s; cs_labels := cs_labels s;
     cs_ids := cs_ids s; cs_names := cs_names s; cs_next_var := cs_next_var s; cs_trace := t;
     cs_jump := cs_jump s; cs_ns := cs_ns s; cs_imports := cs_imports s; cs_locals := cs_locals s;
     cs_upvalues := cs_upvalues s; cs_depth := cs_depth s; cs_fn := cs_fn s; cs_idx := cs_idx s;
     cs_fh := cs_fh s; cs_debug := cs_debug s |}.
Definition set_data d n (s : cstate) : cstate :=
  {| cs_code := cs_code s; cs_pc := cs_pc s; cs_data := d; cs_dlen := n; cs_labels := cs_labels s;
     cs_ids := cs_ids s; cs_names := cs_names s; cs_next_var := cs_next_var s; cs_trace := cs_trace s;
     cs_jump := cs_jump s; cs_ns := cs_ns s; cs_imports := cs_imports s; cs_locals := cs_locals s;
     cs_upvalues := cs_upvalues s; cs_depth := cs_depth s; cs_fn := cs_fn s; cs_idx := cs_idx s;
     cs_fh := cs_fh s; cs_debug := cs_debug s |}.
Definition set_labels l (s : cstate) : cstate :=
  {| cs_code := cs_code s; cs_pc := cs_pc s; cs_data := cs_data s; cs_dlen := cs_dlen s; cs_labels := l;
     cs_ids := cs_ids s; cs_names := cs_names s; cs_next_var := cs_next_var s; cs_trace := cs_trace s;
     cs_jump := cs_jump s; cs_ns := cs_ns s; cs_imports := cs_imports s; cs_locals := cs_locals s;
     cs_upvalues := cs_upvalues s; cs_depth := cs_depth s; cs_fn := cs_fn s; cs_idx := cs_idx s;
     cs_fh := cs_fh s; cs_debug := cs_debug s |}.
Definition set_vars ids names nv (s : cstate) : cstate :=
  {| cs_code := cs_code s; cs_pc := cs_pc s; cs_data := cs_data s; cs_dlen := cs_dlen s; cs_labels := cs_labels s;
     cs_ids := ids; cs_names := names; cs_next_var := nv; cs_trace := cs_trace s;
     cs_jump := cs_jump s; cs_ns := cs_ns s; cs_imports := cs_imports s; cs_locals := cs_locals s;
     cs_upvalues := cs_upvalues s; cs_depth := cs_depth s; cs_fn := cs_fn s; cs_idx := cs_idx s;
     cs_fh := cs_fh s; cs_debug := cs_debug s |}.
Definition set_jump j (s : cstate) : cstate :=
  {| cs_code := cs_code s; cs_pc := cs_pc s; cs_data := cs_data s; cs_dlen := cs_dlen s; cs_labels := cs_labels s;
     cs_ids := cs_ids s; cs_names := cs_names s; cs_next_var := cs_next_var s; cs_trace := cs_trace s;
     cs_jump := j; cs_ns := cs_ns s; cs_imports := cs_imports s; cs_locals := cs_locals s;
     cs_upvalues := cs_upvalues s; cs_depth := cs_depth s; cs_fn := cs_fn s; cs_idx := cs_idx s;
     cs_fh := cs_fh s; cs_debug := cs_debug s |}.
Definition set_fctx ns imps (s : cstate) : cstate :=
  {| cs_code := cs_code s; cs_pc := cs_pc s; cs_data := cs_data s; cs_dlen := cs_dlen s; cs_labels := cs_labels s;
     cs_ids := cs_ids s; cs_names := cs_names s; cs_next_var := cs_next_var s; cs_trace := cs_trace s;
     cs_jump := cs_jump s; cs_ns := ns; cs_imports := imps; cs_locals := cs_locals s;
     cs_upvalues := cs_upvalues s; cs_depth := cs_depth s; cs_fn := cs_fn s; cs_idx := cs_idx s;
     cs_fh := cs_fh s; cs_debug := cs_debug s |}.
Definition set_scopes ls us ds (s : cstate) : cstate :=
  {| cs_code := cs_code s; cs_pc := cs_pc s; cs_data := cs_data s; cs_dlen := cs_dlen s; cs_labels := cs_labels s;
     cs_ids := cs_ids s; cs_names := cs_names s; cs_next_var := cs_next_var s; cs_trace := cs_trace s;
     cs_jump := cs_jump s; cs_ns := cs_ns s; cs_imports := cs_imports s; cs_locals := ls;
     cs_upvalues := us; cs_depth := ds; cs_fn := cs_fn s; cs_idx := cs_idx s;
     cs_fh := cs_fh s; cs_debug := cs_debug s |}.
Definition set_index f idx (s : cstate) : cstate :=
  {| cs_code := cs_code s; cs_pc := cs_pc s; cs_data := cs_data s; cs_dlen := cs_dlen s; cs_labels := cs_labels s;
     cs_ids := cs_ids s; cs_names := cs_names s; cs_next_var := cs_next_var s; cs_trace := cs_trace s;
     cs_jump := cs_jump s; cs_ns := cs_ns s; cs_imports := cs_imports s; cs_locals := cs_locals s;
     cs_upvalues := cs_upvalues s; cs_depth := cs_depth s; cs_fn := f; cs_idx := idx;
     cs_fh := cs_fh s; cs_debug := cs_debug s |}.

Definition set_fh h (s : cstate) : cstate :=
  {| cs_code := cs_code s; cs_pc := cs_pc s; cs_data := cs_data s; cs_dlen := cs_dlen s; cs_labels := cs_labels s;
     cs_ids := cs_ids s; cs_names := cs_names s; cs_next_var := cs_next_var s; cs_trace := cs_trace s;
     cs_jump := cs_jump s; cs_ns := cs_ns s; cs_imports := cs_imports s; cs_locals := cs_locals s;
     cs_upvalues := cs_upvalues s; cs_depth := cs_depth s; cs_fn := cs_fn s; cs_idx := cs_idx s;
     cs_fh := h; cs_debug := cs_debug s |}.

Definition init_state (debug : bool) : cstate :=
  {| cs_code := []; cs_pc := 0; cs_data := []; cs_dlen := 0; cs_labels := []; cs_ids := [];
     cs_names := []; cs_next_var := 0; cs_trace := []; cs_jump := []; cs_ns := []; cs_imports := [];
     cs_locals := [[]]; cs_upvalues := [[]]; cs_depth := [0%Z]; cs_fn := 0%nat; cs_idx := [];
     cs_fh := 0; cs_debug := debug |}.

(* ------------------------------------------------------------------ emission primitives *)
Definition get_pc : M N := fun s => ROk (cs_pc s) s.
(* `self.program.bytecode.len() as i32` *)
Definition get_pc_i32 : M Z := fun s => ROk (u32_to_i32 (cs_pc s)) s.

(* appends an instruction (no trace entry) *)
Definition push_raw (i : instr) : M unit :=
  fun s => ROk tt (set_code (i :: cs_code s) (cs_pc s + N.of_nat (instr_span i)) s).
(* push_instruction + operands: trace.insert(bytecode.len() as u32, self.trace()) *)
Definition push_instr (i : instr) : M unit :=
  fun s => push_raw i (set_trace ((cs_pc s mod two32, cur_loc s) :: cs_trace s) s).

Definition set_jump_target (i : instr) (z : Z) : option instr :=
  match i with
  | IGoto _ => Some (IGoto z)
  | IGotoIfTrue _ => Some (IGotoIfTrue z)
  | IGotoIfFalse _ => Some (IGotoIfFalse z)
  | _ => None
  end.
(* rewrite the operand of the jump instruction that starts at byte [at_pc]; [cur] = end of [code] *)
Fixpoint patch_code (code : list instr) (cur : N) (at_pc : N) (z : Z) : option (list instr) :=
  match code with
  | [] => None
  | i :: r =>
      let start := cur - N.of_nat (instr_span i) in
      if start =? at_pc then
        match set_jump_target i z with
        | Some i' => Some (i' :: r)
        | None => None
        end
      else if start <? at_pc then None
      else match patch_code r start at_pc z with
           | Some r' => Some (i :: r')
           | None => None
           end
  end.
(* ptr::write_unaligned(bytecode[idx..] as *mut i32, bytecode.len() as i32), idx = at_pc + 1 *)
Definition patch_jump_here (at_pc : N) : M unit :=
  fun s => match patch_code (cs_code s) (cs_pc s) at_pc (u32_to_i32 (cs_pc s)) with
           | Some c => ROk tt (set_code c (cs_pc s) s)
           | None => RPanic      (* not reachable: every patched index was recorded at a jump *)
           end.

Definition push_sub (i : N) : M unit := fun s => ROk tt (set_index (cs_fn s) (i :: cs_idx s) s).
Definition pop_sub : M unit := fun s => ROk tt (set_index (cs_fn s) (tl (cs_idx s)) s).
Definition with_sub (i : N) (m : M unit) : M unit := push_sub i ;; m ;; pop_sub.

(* Handle::from_bytes (its debug_assert!(hash != 0) went with 3f22e7c: the hash is made non-zero) *)
Definition handle_from_bytes_m (bs : list N) : M N :=
  fun s => ROk (handle_of_bytes bs) s.
(* Compiler::card_handle = current_function_handle + current_index.sub_handle() *)
Definition index_handle : M N :=
  do s <- get ;;
  do sub <- handle_from_bytes_m (flat_map (fun i => le_bytes 4 (i mod two32)) (rev (cs_idx s))) ;;
  ret (handle_add (cs_fh s) sub).
(* labels.0.insert(handle, Label::new(u32::try_from(bytecode.len()).expect(..))).unwrap():
   function and closure labels (overwrites; key 0 = Err(InvalidHandle) -> unwrap panics) *)
Definition label_insert_here (h : N) : M unit :=
  fun s => if (two32 <=? cs_pc s) || (h =? 0) then RPanic
           else ROk tt (set_labels (nm_insert h (cs_pc s) (cs_labels s)) s).
(* process_card: labels.0.entry(handle).or_insert_with(|| Label::new(card_byte_index)) - the first
   label of a handle stays.  The u32::try_from(..).expect(..) precedes it.  entry(0) finds an empty
   slot, sees "key equal" and hands out an Occupied entry: nothing is recorded. *)
Definition label_entry_here (h : N) : M unit :=
  fun s => if two32 <=? cs_pc s then RPanic
           else if h =? 0 then ROk tt s
           else match nm_find h (cs_labels s) with
                | Some _ => ROk tt s
                | None => ROk tt (set_labels (nm_insert h (cs_pc s) (cs_labels s)) s)
                end.

(* push_str: offset = data.len() as u32; data += len:u32 ++ bytes *)
Definition push_string (mk : N -> instr) (st : str) : M unit :=
  do s <- get ;;
  push_instr (mk (cs_dlen s mod two32)) ;;
  (fun s => let n := N.of_nat (length st) in
            if two32 <=? n then RPanic
            else ROk tt (set_data (rev_append st (rev_append (le_bytes 4 n) (cs_data s))) (cs_dlen s + 4 + n) s)).

(* ------------------------------------------------------------------ scopes, locals, upvalues *)
Definition scope_depth (s : cstate) : Z := hd 0%Z (cs_depth s).
Definition map_hd {A} (f : A -> A) (l : list A) : list A :=
  match l with [] => [] | x :: r => f x :: r end.

Definition scope_begin : M unit :=
  fun s => ROk tt (set_scopes (cs_locals s) (cs_upvalues s) (map_hd (fun d => (d + 1)%Z) (cs_depth s)) s).

(* pops the locals deeper than [d] from the end of [ls] (given reversed); returns the survivors
   (reversed) and the instructions to emit.  d723a2c: CloseUpvalue carries `locals.len() as u32`
   read AFTER the variable was popped, i.e. the slot index of the variable in its frame. *)
Fixpoint pop_locals (rls : list local) (d : Z) : list local * list instr :=
  match rls with
  | [] => ([], [])
  | l :: r =>
      if (d <? l_depth l)%Z then
        let '(r', is) := pop_locals r d in
        (r', (if l_captured l then ICloseUpvalue (N.of_nat (length r)) else IPop) :: is)
      else (rls, [])
  end.
(* each with `trace.insert(bytecode.len(), trace.clone())`, trace = self.trace() of scope_end's caller *)
Fixpoint push_raws (is : list instr) : M unit :=
  match is with
  | [] => ret tt
  | i :: r => push_instr i ;; push_raws r
  end.
Definition scope_end : M unit :=
  fun s =>
    let ds := map_hd (fun d => (d - 1)%Z) (cs_depth s) in
    let rlis := pop_locals (rev (hd [] (cs_locals s))) (hd 0%Z ds) in
    push_raws (snd rlis) (set_scopes (map_hd (fun _ => rev (fst rlis)) (cs_locals s)) (cs_upvalues s) ds s).

Definition compile_begin : M unit :=
  fun s => ROk tt (set_scopes ([] :: cs_locals s) ([] :: cs_upvalues s) (0%Z :: cs_depth s) s).
Definition compile_end : M unit :=
  fun s => ROk tt (set_scopes (tl (cs_locals s)) (tl (cs_upvalues s)) (tl (cs_depth s)) s).

Definition is_empty (st : str) : bool := match st with [] => true | _ => false end.
Definition validate_var_name (name : str) : M unit :=
  if is_empty name then error EEmptyVariable else ret tt.

Definition add_local_unchecked (name : str) : M N :=
  fun s =>
    let ls := hd [] (cs_locals s) in
    if Nat.leb locals_cap (length ls) then error ETooManyLocals s
    else ROk (N.of_nat (length ls))
             (set_scopes (map_hd (fun l => l ++ [{| l_name := name; l_depth := scope_depth s; l_captured := false |}])
                                 (cs_locals s)) (cs_upvalues s) (cs_depth s) s).
Definition add_local (name : str) : M N := validate_var_name name ;; add_local_unchecked name.

Inductive variable := VGlobal | VLocal (i : N) | VUpvalue (i : N).

(* add_upvalue on one function's list: index of an equal entry, or try_push (None = TooManyUpvalues) *)
Definition add_upvalue (ups : list upvalue) (index : N) (is_local : bool) : option (N * list upvalue) :=
  match find_index (fun u => (u_index u =? index) && Bool.eqb (u_is_local u) is_local) ups 0 with
  | Some i => Some (N.of_nat i, ups)
  | None =>
      if Nat.leb upvalues_cap (length ups) then None
      else Some (N.of_nat (length ups), ups ++ [{| u_is_local := is_local; u_index := index |}])
  end.

Definition mark_captured (ls : list local) (i : nat) : list local :=
  match nth_error ls i with
  | Some l => upd ls i {| l_name := l_name l; l_depth := l_depth l; l_captured := true |}
  | None => ls
  end.

Fixpoint rfind_index {A} (p : A -> bool) (l : list A) (i : nat) (acc : option nat) : option nat :=
  match l with
  | [] => acc
  | x :: r => rfind_index p r (S i) (if p x then Some i else acc)
  end.

(* resolve_upvalue(name, function_id) on the stacks [locs] = locals[function_id], locals[function_id-1], ...
   and [ups] likewise.  None = Err(TooManyUpvalues).  The enclosing function's locals are searched
   last to first (53336fc), like resolve_var. *)
Fixpoint resolve_upvalue (name : str) (locs : list (list local)) (ups : list (list upvalue))
  : option (variable * list (list local) * list (list upvalue)) :=
  match locs, ups with
  | cur :: ((parent :: rest) as below), ucur :: ubelow =>
      match rfind_index (fun l => str_eqb (l_name l) name) parent 0 None with   (* 53336fc: .rev() *)
      | Some i =>
          match add_upvalue ucur (N.of_nat i mod 256) true with
          | Some (k, ucur') => Some (VUpvalue k, cur :: mark_captured parent i :: rest, ucur' :: ubelow)
          | None => None
          end
      | None =>
          match resolve_upvalue name below ubelow with
          | Some (VUpvalue i, below', ubelow') =>
              match add_upvalue ucur (i mod 256) false with
              | Some (k, ucur') => Some (VUpvalue k, cur :: below', ucur' :: ubelow')
              | None => None
              end
          | Some (v, below', ubelow') => Some (v, cur :: below', ucur :: ubelow')
          | None => None
          end
      end
  | _, _ => Some (VGlobal, locs, ups)            (* function_id == 0 *)
  end.

Definition resolve_var (name : str) : M variable :=
  validate_var_name name ;;
  fun s =>
    match rfind_index (fun l => str_eqb (l_name l) name) (hd [] (cs_locals s)) 0 None with
    | Some i => ROk (VLocal (N.of_nat i)) s
    | None =>
        match resolve_upvalue name (cs_locals s) (cs_upvalues s) with
        | Some (v, ls, us) => ROk v (set_scopes ls us (cs_depth s) s)
        | None => error ETooManyUpvalues s        (* add_upvalue: try_push failed *)
        end
    end.

Definition read_local (i : N) : M unit := push_instr (IReadLocalVar i).
Definition write_local (i : N) : M unit := push_instr (ISetLocalVar i).
Definition read_upvalue (i : N) : M unit := push_instr (IReadUpvalue i).
Definition write_upvalue (i : N) : M unit := push_instr (ISetUpvalue i).

(* HandleTable::entry(key) never grows the table: with every slot occupied and the key absent the
   probe loop does not terminate (A-5).  [Consts.ht_entry_grows] is read from the source. *)
Definition ht_entry_hangs {V} (m : list (N * V)) : bool :=
  negb ht_entry_grows && (c_ht_default_cap <=? N.of_nat (length m)).

(* ce07816 (observation O-C10-1): `if name != variable { return Err(self.error(BadVariableName(variable))) }`
   on the name that `variables.names.entry(from_u32(id)).or_insert_with(..)` hands back - a second name
   with the same Handle::from_str hash would share the slot of the first.  [global_name_checked] is
   read from the source (CompilerGen).  Nothing was emitted for this card when ReadVar fails; in the
   SetGlobalVar arm the opcode byte is already in the buffer - compile fails either way. *)
Definition name_checked (nm name : str) (id : N) : M N :=
  fun s => if global_name_checked && negb (str_eqb nm name)
           then RErr (EBadVariableName name) (Some (cur_loc s))
           else ROk id s.

(* the `variables.ids.entry(h).or_insert_with(..)`, `variables.names.entry(from_u32(id)).or_insert_with(..)`
   blocks of SetGlobalVar / ReadVar *)
Definition global_id (name : str) : M N :=
  do h <- handle_from_bytes_m name ;;
  fun s =>
    let r := match nm_find h (cs_ids s) with
             | Some id => Some (id, cs_ids s, cs_next_var s)
             | None =>
                 if ht_entry_hangs (cs_ids s) then None
                 else Some (cs_next_var s, nm_insert h (cs_next_var s) (cs_ids s), (cs_next_var s + 1) mod two32)
             end in
    match r with
    | None => RDiverge
    | Some (id, ids, nv) =>
        let k := handle_from_u32 id in
        match nm_find k (cs_names s) with
        | Some nm => name_checked nm name id (set_vars ids (cs_names s) nv s)
        | None =>
            if ht_entry_hangs (cs_names s) then RDiverge
            else ROk id (set_vars ids (nm_insert k name (cs_names s)) nv s)
        end
    end.

(* ------------------------------------------------------------------ function resolution *)
Definition jt_get (name : str) : M (option fmeta) := fun s => ROk (sm_find name (cs_jump s)) s.

(* namespace.iter().take(namespace.len().checked_sub(super_depth).ok_or(SuperLimitReached)?) *)
Definition take_ns (ns : list str) (cnt : nat) (debug : bool) : option (list str) :=
  if Nat.ltb (length ns) cnt then None
  else Some (firstn (length ns - cnt) ns).

Definition resolve_function (fname : str) : M fmeta :=
  do s <- get ;;
  let jt := cs_jump s in
  let ns := cs_ns s in
  let st1 := sm_find fname jt in
  let st2 := match st1 with Some m => Some m | None => sm_find (ns_prefix ns ++ fname) jt end in
  do st3 <-
    match st2 with
    | Some m => ret (Some m)
    | None =>
        match sm_find fname (cs_imports s) with
        | None => ret None
        | Some alias =>
            match super_depth alias with
            | None => diverge
            | Some (cnt, suffix) =>
                match take_ns ns cnt (cs_debug s) with
                | None => error ESuperLimitReached
                | Some ns' =>
                    ret (sm_find (ns_prefix ns' ++ match suffix with Some x => x | None => alias end) jt)
                end
            end
        end
    end ;;
  do st4 <-
    match st3 with
    | Some m => ret (Some m)
    | None =>
        match split_once_c c_dot fname with
        | None => ret None
        | Some (prefix, suffix) =>
            match sm_find prefix (cs_imports s) with
            | None => ret None
            | Some alias =>
                match super_depth alias with
                | None => diverge
                | Some (cnt, sx) =>
                    match take_ns ns cnt (cs_debug s) with
                    | None => error ESuperLimitReached
                    | Some ns' =>
                        (* [s.unwrap_or(alias), ".", suffix] *)
                        ret (sm_find (ns_prefix ns' ++ match sx with Some x => x | None => alias end ++ c_dot :: suffix) jt)
                    end
                end
            end
        end
    end ;;
  match st4 with
  | Some m => ret m
  | None => error (EInvalidJump fname)
  end.

(* ------------------------------------------------------------------ cards *)
Definition encode_if_then (skip : Z -> instr) (body : M unit) : M unit :=
  do p <- get_pc ;;
  push_instr (skip 0%Z) ;;
  body ;;
  patch_jump_here p.

Definition card_label : M unit := do h <- index_handle ;; label_entry_here h.

Fixpoint read_props (props : list str) : M unit :=
  match props with
  | [] => ret tt
  | p :: r =>
      (if is_empty p then ret tt
       else push_string IStringLiteral p ;; push_instr IGetProperty) ;;
      read_props r
  end.

Definition read_var_card (variable : str) : M unit :=
  let '(v, props) := match split_once_c c_dot variable with
                     | Some (v, p) => (v, p)
                     | None => (variable, [])
                     end in
  do scope <- resolve_var v ;;
  match scope with
  | VLocal i => read_local i
  | VUpvalue i => read_upvalue i
  | VGlobal => do id <- global_id v ;; push_instr (IReadGlobalVar id)
  end ;;
  read_props (split_c c_dot props).

Definition simple_binop (op : binop) : instr :=
  match op with
  | BAdd => IAdd | BSub => ISub | BMul => IMul | BDiv => IDiv | BLess => ILess
  | BLessOrEq => ILessOrEq | BEquals => IEquals | BNotEquals => INotEquals | BAnd => IAnd
  | BOr => IOr | BXor => IXor | BGetProperty => IGetProperty | BGet => INthRow
  | BAppendTable => IAppendTable
  | BIfTrue | BIfFalse | BWhile => IExit   (* not used: handled separately *)
  end.
Definition unop_instr (op : unop) : instr :=
  match op with UNot => INot | UReturn => IReturn | ULen => ILen | UPopTable => IPopTable end.

Fixpoint add_locals (names : list str) : M unit :=
  match names with
  | [] => ret tt
  | n :: r => do _ <- add_local n ;; add_locals r
  end.

Fixpoint emit_upvalues (ups : list upvalue) : M unit :=
  match ups with
  | [] => ret tt
  | u :: r =>
      push_instr ICopyLast ;;
      push_instr (IRegisterUpvalue (u_index u) (if u_is_local u then 1 else 0)) ;;
      emit_upvalues r
  end.

(* the synthetic leaf cards the compiler feeds to process_card (they overwrite the label of the
   card being compiled, because current_index is unchanged) *)
Definition process_leaf (i : instr) : M unit := card_label ;; push_instr i.

Definition bind_loop_var (o : option str) (src : N) : M unit :=
  match o with
  | Some name => do x <- add_local name ;; read_local src ;; write_local x
  | None => ret tt
  end.

Definition closure_mask : N := 4025479151.   (* 0xEFEFEFEF *)
Definition placeholder : Z := 3823%Z.         (* 0xEEF *)

Fixpoint process_card (c : card) {struct c} : M unit :=
  let fix subexpr (l : list card) (i : N) {struct l} : M unit :=
      match l with
      | [] => ret tt
      | x :: r => with_sub i (process_card x) ;; subexpr r (i + 1)
      end in
  card_label ;;
  match c with
  | CComposite _ cards => subexpr cards 0
  | CForEach i k v iterable body =>
      with_sub 0 (process_card iterable) ;;
      scope_begin ;;
      do loop_var <- add_local_unchecked [] ;;
      do loop_item <- add_local_unchecked [] ;;
      do v_index <- add_local_unchecked [] ;;
      do k_index <- add_local_unchecked [] ;;
      do i_index <- add_local_unchecked [] ;;
      push_instr (IBeginForEach loop_var loop_item i_index k_index v_index) ;;
      do block_begin <- get_pc_i32 ;;
      push_instr (IForEach loop_var loop_item i_index k_index v_index) ;;
      encode_if_then IGotoIfFalse
        (scope_begin ;;
         bind_loop_var v v_index ;;
         bind_loop_var k k_index ;;
         bind_loop_var i i_index ;;
         with_sub 1 (process_card body) ;;
         scope_end ;;
         push_instr (IGoto block_begin)) ;;
      scope_end
  | CBin BWhile cond body =>
      do block_begin <- get_pc_i32 ;;
      with_sub 0 (process_card cond) ;;
      push_sub 1 ;;
      encode_if_then IGotoIfFalse (process_card body ;; push_instr (IGoto block_begin)) ;;
      pop_sub
  | CRepeat i n body =>
      with_sub 0 (process_card n) ;;       (* the count is child 0 of the card *)
      scope_begin ;;
      do loop_n <- add_local_unchecked [] ;;
      do loop_counter <- add_local_unchecked [] ;;
      write_local loop_n ;;
      process_leaf (IScalarInt 0) ;;
      write_local loop_counter ;;
      do block_begin <- get_pc_i32 ;;
      read_local loop_counter ;;
      read_local loop_n ;;
      push_instr ILess ;;
      encode_if_then IGotoIfFalse
        (scope_begin ;;
         bind_loop_var i loop_counter ;;
         with_sub 1 (process_card body) ;;
         scope_end ;;
         process_leaf (IScalarInt 1) ;;
         read_local loop_counter ;;
         push_instr IAdd ;;
         write_local loop_counter ;;
         push_instr (IGoto block_begin)) ;;
      scope_end
  | CReadVar name => read_var_card name
  | CSetVar name v =>
      with_sub 0 (process_card v) ;;
      match rsplit_once_c c_dot name with
      | Some (rprops, set_prop) =>
          read_var_card rprops ;;
          push_string IStringLiteral set_prop ;;
          push_instr ISetProperty
      | None =>
          do var <- resolve_var name ;;
          match var with
          | VLocal i => write_local i
          | VGlobal => do i <- add_local name ;; write_local i
          | VUpvalue i => write_upvalue i
          end
      end
  | CSetGlobalVar name v =>
      with_sub 0 (process_card v) ;;
      if is_empty name then error EEmptyVariable
      else (* push_instruction(SetGlobalVar) precedes the table updates: the trace entry is keyed
              by the same address either way *)
           do id <- global_id name ;; push_instr (ISetGlobalVar id)
  | CTri TIfElse cond then_c else_c =>
      with_sub 0 (process_card cond) ;;
      push_sub 1 ;;
      do p_if <- get_pc ;;
      push_instr (IGotoIfFalse 0%Z) ;;
      process_card then_c ;;
      do p_goto <- get_pc ;;
      push_instr (IGoto placeholder) ;;
      patch_jump_here p_if ;;
      pop_sub ;;
      with_sub 2 (process_card else_c) ;;
      patch_jump_here p_goto
  | CBin BIfFalse cond body =>
      with_sub 0 (process_card cond) ;;
      push_sub 1 ;;
      encode_if_then IGotoIfTrue (process_card body) ;;
      pop_sub
  | CBin BIfTrue cond body =>
      with_sub 0 (process_card cond) ;;
      push_sub 1 ;;
      encode_if_then IGotoIfFalse (process_card body) ;;
      pop_sub
  | CCall name args =>
      subexpr args 0 ;;
      do m <- resolve_function name ;;
      push_instr (IFunctionPointer (fm_handle m) (fm_arity m)) ;;
      push_instr ICallFunction
  | CStringLiteral st => push_string IStringLiteral st
  | CCallNative name args =>
      subexpr args 0 ;;
      do key <- handle_from_bytes_m name ;;
      push_instr (ICallNative key)
  | CScalarInt z => push_instr (IScalarInt z)
  | CScalarFloat bits => push_instr (IScalarFloat bits)
  | CFunction name =>
      do m <- resolve_function name ;;
      push_instr (IFunctionPointer (fm_handle m) (fm_arity m))
  | CClosure args cards =>
      do p_goto <- get_pc ;;
      push_instr (IGoto placeholder) ;;
      compile_begin ;;
      do h <- index_handle ;;
      let fh := handle_add h (handle_from_u64 closure_mask) in
      label_insert_here fh ;;
      scope_begin ;;
      add_locals (rev args) ;;
      subexpr cards 0 ;;
      scope_end ;;
      push_instr IScalarNil ;;
      push_instr IReturn ;;
      patch_jump_here p_goto ;;
      push_instr (IClosure fh (N.of_nat (length args) mod two32)) ;;
      do s <- get ;;
      emit_upvalues (hd [] (cs_upvalues s)) ;;
      compile_end
  | CNativeFunction name => push_string INativeFunctionPointer name
  | CArray cards =>
      push_instr IInitTable ;;
      do tv <- add_local_unchecked [] ;;
      write_local tv ;;
      (fix items (l : list card) (i : N) {struct l} : M unit :=
         match l with
         | [] => ret tt
         | x :: r =>
             push_instr IScalarNil ;;
             with_sub i (process_card x) ;;
             read_local tv ;;
             push_instr IAppendTable ;;
             items r (i + 1)
         end) cards 0 ;;
      read_local tv
  | CUn op a => with_sub 0 (process_card a) ;; push_instr (unop_instr op)
  | CBin op a b =>
      with_sub 0 (process_card a) ;; with_sub 1 (process_card b) ;; push_instr (simple_binop op)
  | CTri TSetProperty a b c =>
      with_sub 0 (process_card a) ;; with_sub 1 (process_card b) ;; with_sub 2 (process_card c) ;;
      push_instr ISetProperty
  | CDynamicCall f args =>
      (* children numbered like Card::get_child: the function is child 0, the arguments follow *)
      subexpr args 1 ;;
      with_sub 0 (process_card f) ;;
      push_instr ICallFunction
  | CScalarNil => push_instr IScalarNil
  | CAbort => push_instr IExit
  | CCreateTable => push_instr IInitTable
  | CComment _ => ret tt
  end.

(* ------------------------------------------------------------------ functions, stages *)
Fixpoint process_cards (cards : list card) (ic : N) : M unit :=
  match cards with
  | [] => ret tt
  | c :: r => pop_sub ;; push_sub ic ;; process_card c ;; process_cards r (ic + 1)
  end.

Definition process_function (f : function_ir) : M unit :=
  (fun s => ROk tt (set_fctx (fi_ns f) (fi_imports f) s)) ;;
  add_locals (rev (fi_args f)) ;;
  process_cards (fi_cards f) 0.

Definition add_function (f : function_ir) : M unit :=
  do s <- get ;;
  match sm_find (fi_full_name f) (cs_jump s) with
  | Some _ => error (EDuplicateName (fi_name f))
  | None =>
      put (set_jump (sm_insert (fi_full_name f)
                               {| fm_handle := fi_handle f; fm_arity := N.of_nat (length (fi_args f)) mod two32 |}
                               (cs_jump s)) s)
  end.
Fixpoint stage_1 (fs : list function_ir) : M unit :=
  match fs with
  | [] => ret tt
  | f :: r => add_function f ;; stage_1 r
  end.

Definition set_index_m (f : nat) (idx : list N) : M unit := fun s => ROk tt (set_index f idx s).

Definition set_fh_m (h : N) : M unit := fun s => ROk tt (set_fh h s).

Definition compile_main (f : function_ir) : M unit :=
  set_index_m (fi_index f) [0] ;;
  set_fh_m (fi_handle f) ;;
  scope_begin ;;
  process_function f ;;
  set_index_m (fi_index f) [N.of_nat (length (fi_cards f)) mod two32] ;;
  scope_end ;;
  process_leaf IExit.

Definition compile_other (f : function_ir) : M unit :=
  set_index_m (fi_index f) [] ;;
  set_fh_m (fi_handle f) ;;
  label_insert_here (fi_handle f) ;;
  scope_begin ;;
  process_function f ;;
  scope_end ;;
  push_instr IScalarNil ;;
  push_instr IReturn.

Fixpoint compile_others (fs : list function_ir) : M unit :=
  match fs with
  | [] => ret tt
  | f :: r => compile_other f ;; compile_others r
  end.

Definition stage_2 (fs : list function_ir) : M unit :=
  match fs with
  | [] => ret tt
  | f :: r => compile_main f ;; compile_others r
  end.

(* Compiler::compile on the IR stream *)
Definition compile_ir (fs : list function_ir) : M unit :=
  match fs with
  | [] => error EEmptyProgram
  | _ =>
      stage_1 fs ;;
      stage_2 fs ;;
      (fun s => ROk tt (set_fctx (cs_ns s) [] s)) ;;
      push_instr IExit
  end.

Definition finish (s : cstate) : compiled :=
  {| p_bytecode := encode (rev (cs_code s));
     p_data := rev (cs_data s);
     p_labels := cs_labels s;
     p_ids := cs_ids s;
     p_names := cs_names s;
     p_trace := rev (cs_trace s) |}.

(* pub fn compile(compilation_unit, compile_options) *)
Definition compile (m : module) (o : options) : cresult :=
  match into_ir_stream m (o_recursion_limit o) with
  | inl e => CErr e (Some loc_default)
  | inr fs =>
      match compile_ir fs (init_state (o_debug o)) with
      | ROk _ s => COk (finish s)
      | RErr e l => CErr e l
      | RPanic => CPanic
      | RDiverge => CDiverge
      end
  end.
