#!/bin/sh
# Build everything the checks need, offline, from files on disk.
set -e
cd "$(dirname "$0")"
export CARGO_NET_OFFLINE=true
[ -f harness/Cargo.lock ] || cp /repo/Cargo.lock harness/Cargo.lock
if [ -f tools/gen_consts.py ]; then python3 tools/gen_consts.py; fi
# a second attempt continues where a timed-out first one stopped (loaded machine)
(cd coq && coq_makefile -f _CoqProject -o Makefile >/dev/null 2>&1 && { timeout 3000 make -j16 >/dev/null 2>&1 || timeout 3000 make -j16 2>&1 | tail -30; } && timeout 600 make -j16 >/dev/null 2>&1) || { echo "setup: Coq build failed"; exit 1; }
(cd harness && cargo build --offline $(python3 ../tools/harness_features.py) 2>&1 | tail -3)
echo setup done
