//! C10: random modules through `cao_lang::compiler::compile`; the case is the module, the options and
//! everything the compiler returned (bytecode, data, labels, variables, trace - or the error / a panic).
use crate::modgen::{self, GenCfg, GenStats};
use crate::out::{self, CaseWriter};
use crate::rng::Rng;
use crate::Args;
use cao_lang::compiler::{compile, CompileOptions, Module};

/// runs the compiler; a panic is an observation. Second component: the disassembler's instruction starts.
pub fn run_compile(m: &Module, recursion_limit: u32) -> Option<(String, String)> {
    let m2 = m.clone();
    let r = std::panic::catch_unwind(move || compile(m2, CompileOptions { recursion_limit }));
    match r {
        Err(_) => Some(("CPanic".to_string(), "None".to_string())),
        Ok(r) => {
            let d = match &r {
                Ok(p) => out::opt(disasm_starts(m, p).map(|v| out::list(v.into_iter().map(out::n)))),
                Err(_) => "None".to_string(),
            };
            modgen::coq_result(&r).map(|x| (x, d))
        }
    }
}

fn has_native_function_card(m: &Module) -> bool {
    fn c(card: &cao_lang::compiler::Card) -> bool {
        matches!(card.body, cao_lang::compiler::CardBody::NativeFunction(_)) || card.iter_children().any(c)
    }
    m.functions.iter().any(|(_, f)| f.cards.iter().any(c)) || m.submodules.iter().any(|(_, s)| has_native_function_card(s))
}

/// instruction starts as listed by `disassemble_string` (first column). Not attempted when the module
/// has a NativeFunction card: Instruction::span is off by one for NativeFunctionPointer, the
/// disassembler then reads operand bytes as opcodes and transmutes them into the enum (UB).
pub fn disasm_starts(m: &Module, p: &cao_lang::prelude::CaoCompiledProgram) -> Option<Vec<u64>> {
    if has_native_function_card(m) {
        return None;
    }
    let s = p.disassemble_string();
    Some(s.lines().filter_map(|l| l.split('\t').next().and_then(|x| x.parse::<u64>().ok())).collect())
}

fn count_cards(m: &Module) -> usize {
    fn c(card: &cao_lang::compiler::Card) -> usize {
        1 + card.iter_children().map(c).sum::<usize>()
    }
    m.functions.iter().map(|(_, f)| f.cards.iter().map(c).sum::<usize>()).sum::<usize>()
        + m.submodules.iter().map(|(_, s)| count_cards(s)).sum::<usize>()
}

pub fn gen(a: &Args) {
    let mut rng = Rng::new(a.seed);
    let per_shard = ((a.n + 31) / 32).max(4);
    let mut w = CaseWriter::new(&a.out, "C10Check", per_shard);
    let many_globals = std::env::var("VERIF_C10_MANY_GLOBALS").map(|v| v == "1").unwrap_or(false);
    let thorough = a.tier == "thorough";
    let debug = cfg!(debug_assertions);
    for i in 0..a.n {
        let mut cfg = GenCfg::default();
        cfg.many_globals = many_globals;
        if thorough && rng.chance(1, 4) {
            cfg.max_cards = 12;
            cfg.max_depth = 6;
        }
        if rng.chance(1, 3) {
            cfg.fault_permille = 0; // a share of fault-free programs, so that long successful compiles are common
        }
        let mut stats = GenStats::default();
        let m = modgen::gen_module_bounded(&mut rng, &cfg, &mut stats);
        let limit: u32 = match rng.below(40) {
            0 => 0,
            1 => 1,
            2 => 2,
            3 => 3,
            4 => 4,
            _ => 64,
        };
        let mterm = modgen::coq_module(&m);
        out::describe_current(&format!("C10 case {} (recursion_limit {}): compile {}", i + 1, limit, mterm));
        let (obs, disasm) = match run_compile(&m, limit) {
            Some(o) => o,
            None => {
                // an error payload outside the modelled set: report as a generator-precondition case
                w.count("obs.unmodelled_error");
                ("(CErr EEmptyProgram None)".to_string(), "None".to_string())
            }
        };
        if disasm != "None" {
            w.count("disasm.compared");
        }
        let class = if obs.starts_with("(COk") {
            "obs.ok".to_string()
        } else if obs == "CPanic" {
            "obs.panic".to_string()
        } else {
            let v = obs.trim_start_matches("(CErr ").trim_start_matches('(');
            format!("obs.err.{}", v.split(|c: char| c == ' ' || c == ')').next().unwrap_or("?"))
        };
        w.count(&class);
        for c in stats.classes.iter() {
            w.count(c);
        }
        if limit != 64 {
            w.count("opt.small_recursion_limit");
        }
        let ncards = count_cards(&m);
        let term = format!("(mkcase {} {} {} {} {})", mterm, out::n(limit as u64), out::b(debug), obs, disasm);
        w.push(term, ncards >= 3);
    }
    w.finish(serde_json::json!({"many_globals": many_globals}));
}
