//! C10: random modules through `cao_lang::compiler::compile`; the case is the module, the options and
//! everything the compiler returned (bytecode, data, labels, variables, trace - or the error / a panic).
use crate::modgen::{self, GenCfg, GenStats};
use crate::out::{self, CaseWriter};
use crate::rng::Rng;
use crate::Args;
use cao_lang::compiler::{compile, Card, CardBody, CompileOptions, Function, Module};

/// runs the compiler; a panic is an observation. Second component: the disassembler's instruction starts.
pub fn run_compile(m: &Module, recursion_limit: u32) -> Option<(String, String)> {
    let m2 = m.clone();
    let r = std::panic::catch_unwind(move || compile(m2, CompileOptions { recursion_limit }));
    match r {
        Err(_) => Some(("CPanic".to_string(), "None".to_string())),
        Ok(r) => {
            let d = match &r {
                Ok(p) => out::opt(disasm_starts(m, p).map(|v| out::list(v.into_iter().map(out::n)))),
                Err(_) => "None".to_string(),
            };
            modgen::coq_result(&r).map(|x| (x, d))
        }
    }
}

fn has_native_function_card(m: &Module) -> bool {
    fn c(card: &cao_lang::compiler::Card) -> bool {
        matches!(card.body, cao_lang::compiler::CardBody::NativeFunction(_)) || card.iter_children().any(c)
    }
    m.functions.iter().any(|(_, f)| f.cards.iter().any(c)) || m.submodules.iter().any(|(_, s)| has_native_function_card(s))
}

/// instruction starts as listed by `disassemble_string` (first column). Not attempted when the module
/// has a NativeFunction card: Instruction::span is off by one for NativeFunctionPointer, the
/// disassembler then reads operand bytes as opcodes and transmutes them into the enum (UB).
pub fn disasm_starts(m: &Module, p: &cao_lang::prelude::CaoCompiledProgram) -> Option<Vec<u64>> {
    if has_native_function_card(m) {
        return None;
    }
    let s = p.disassemble_string();
    Some(s.lines().filter_map(|l| l.split('\t').next().and_then(|x| x.parse::<u64>().ok())).collect())
}

fn count_cards(m: &Module) -> usize {
    fn c(card: &cao_lang::compiler::Card) -> usize {
        1 + card.iter_children().map(c).sum::<usize>()
    }
    m.functions.iter().map(|(_, f)| f.cards.iter().map(c).sum::<usize>()).sum::<usize>()
        + m.submodules.iter().map(|(_, s)| count_cards(s)).sum::<usize>()
}

fn emit_case(w: &mut CaseWriter, idx: usize, m: &Module, limit: u32, classes: &[&'static str]) {
    let debug = cfg!(debug_assertions);
    let mterm = modgen::coq_module(m);
    out::describe_current(&format!("C10 case {} (recursion_limit {}): compile {}", idx, limit, mterm));
    let (obs, disasm) = match run_compile(m, limit) {
        Some(o) => o,
        None => {
            // an error payload outside the modelled set: report as a generator-precondition case
            w.count("obs.unmodelled_error");
            ("(CErr EEmptyProgram None)".to_string(), "None".to_string())
        }
    };
    if disasm != "None" {
        w.count("disasm.compared");
    }
    let class = if obs.starts_with("(COk") {
        "obs.ok".to_string()
    } else if obs == "CPanic" {
        "obs.panic".to_string()
    } else {
        let v = obs.trim_start_matches("(CErr ").trim_start_matches('(');
        format!("obs.err.{}", v.split(|c: char| c == ' ' || c == ')').next().unwrap_or("?"))
    };
    w.count(&class);
    for c in classes.iter() {
        w.count(c);
    }
    if limit != 64 {
        w.count("opt.small_recursion_limit");
    }
    let ncards = count_cards(m);
    let term = format!("(mkcase {} {} {} {} {})", mterm, out::n(limit as u64), out::b(debug), obs, disasm);
    w.push(term, ncards >= 3);
}

/// fixed cases run first on every invocation: the witnesses of the findings and one case per error path
pub fn corpus() -> Vec<(&'static str, Module, u32)> {
    let mut rng = Rng::new(1);
    let f0 = || Function::default();
    let sub = |fns: Vec<(&str, Function)>, imports: Vec<&str>| Module {
        submodules: vec![],
        functions: fns.into_iter().map(|(n, f)| (n.to_string(), f)).collect(),
        imports: imports.into_iter().map(|s| s.to_string()).collect(),
    };
    let with_sub = |name: &str, s: Module, fns: Vec<(&str, Function)>| Module {
        submodules: vec![(name.to_string(), s)],
        functions: fns.into_iter().map(|(n, f)| (n.to_string(), f)).collect(),
        imports: vec![],
    };
    let call = |n: &str| Function { arguments: vec![], cards: vec![Card::call_function(n, vec![])] };
    vec![
        ("corpus.a23", main_only(vec![Card::string_card("L".repeat(253))]), 64),
        ("corpus.a23_boundary", main_only(vec![Card::string_card("L".repeat(252))]), 64),
        (
            "corpus.a24",
            main_only(vec![
                Card::set_var("x", Card::scalar_int(1)),
                CardBody::Closure(Box::new(Function { arguments: vec![], cards: vec![Card::read_var("x")] })).into(),
            ]),
            64,
        ),
        ("corpus.a21_super_underflow", with_sub("a", sub(vec![("f", call("bar"))], vec!["super.super.bar"]), vec![("main", f0())]), 64),
        ("corpus.a20_root_and_sub", with_sub("a", sub(vec![("foo", f0())], vec![]), vec![("main", f0()), ("foo", f0())]), 64),
        ("corpus.a20_twice_in_sub", with_sub("a", sub(vec![("foo", f0()), ("foo", call("foo"))], vec![]), vec![("main", call("a.foo"))]), 64),
        ("corpus.native_fn_ptr", main_only(vec![CardBody::NativeFunction("f".into()).into(), Card::scalar_int(1)]), 64),
        ("corpus.huge_upvalues", modgen::huge_upvalues_module(&mut rng), 64),
        ("corpus.huge_locals", modgen::huge_locals_module(&mut rng), 64),
        ("corpus.globals17", main_only((0..17).map(|i| Card::set_global_var(format!("g{}", i), Card::scalar_int(i))).collect()), 64),
        // O-C10-1: "brljcd" and "uqabx" have the same Handle::from_str hash -> one variable id for two names
        ("corpus.global_name_collision", main_only(vec![
            Card::set_global_var("brljcd", Card::scalar_int(1)),
            Card::set_global_var("uqabx", Card::scalar_int(2)),
            Card::read_var("brljcd"),
        ]), 64),
        ("corpus.no_main", sub(vec![("foo", f0())], vec![]), 64),
        ("corpus.invalid_jump", main_only(vec![Card::call_function("nope", vec![])]), 64),
        ("corpus.recursion_limit", with_sub("a", sub(vec![("foo", f0())], vec![]), vec![("main", f0())]), 1),
        ("corpus.recursion_limit0", main_only(vec![]), 0),
        ("corpus.empty_variable", main_only(vec![Card::read_var("")]), 64),
        ("corpus.bad_import", with_sub("a", sub(vec![("foo", f0())], vec!["nodot"]), vec![("main", f0())]), 64),
        ("corpus.ambiguous_import", Module { submodules: vec![], functions: vec![("main".into(), f0())], imports: vec!["a.foo".into(), "b.foo".into()] }, 64),
        ("corpus.module_named_std", with_sub("std", sub(vec![], vec![]), vec![("main", f0())]), 64),
        ("corpus.bad_function_name", sub(vec![("main", f0()), ("a.b", f0())], vec![]), 64),
        ("corpus.import_super_module", with_sub("a", with_sub("b", sub(vec![("g", call("a.h"))], vec!["super.a"]), vec![("h", f0())]), vec![("main", f0())]), 64),
    ]
}

pub fn gen(a: &Args) {
    let mut rng = Rng::new(a.seed);
    let per_shard = ((a.n + 31) / 32).max(4);
    let mut w = CaseWriter::new(&a.out, "C10Check", per_shard);
    let many_globals = std::env::var("VERIF_C10_MANY_GLOBALS").map(|v| v != "0").unwrap_or(true);
    let thorough = a.tier == "thorough";
    let mut idx = 0usize;
    for (class, m, limit) in corpus() {
        if idx >= a.n {
            break;
        }
        idx += 1;
        emit_case(&mut w, idx, &m, limit, &[class]);
    }
    while idx < a.n {
        idx += 1;
        let mut cfg = GenCfg::default();
        cfg.many_globals = many_globals;
        if thorough && rng.chance(1, 4) {
            cfg.max_cards = 12;
            cfg.max_depth = 6;
        }
        if rng.chance(1, 3) {
            cfg.fault_permille = 0; // a share of fault-free programs, so that long successful compiles are common
        }
        let mut stats = GenStats::default();
        let m = modgen::gen_module_bounded(&mut rng, &cfg, &mut stats);
        let limit: u32 = match rng.below(40) {
            0 => 0,
            1 => 1,
            2 => 2,
            3 => 3,
            4 => 4,
            _ => 64,
        };
        emit_case(&mut w, idx, &m, limit, &stats.classes);
    }
    w.finish(serde_json::json!({"many_globals": many_globals}));
}

// ------------------------------------------------------------------------------------------------
// `cao-verif-harness c10-witness`: the minimal modules behind the C10 findings, run on the crate
// ------------------------------------------------------------------------------------------------

fn main_only(cards: Vec<Card>) -> Module {
    Module { submodules: vec![], functions: vec![("main".into(), Function { arguments: vec![], cards })], imports: vec![] }
}

fn show(name: &str, m: &Module) -> Option<cao_lang::prelude::CaoCompiledProgram> {
    let m2 = m.clone();
    let r = std::panic::catch_unwind(move || compile(m2, CompileOptions::new()));
    match r {
        Err(e) => {
            let msg = e.downcast_ref::<String>().cloned().or_else(|| e.downcast_ref::<&str>().map(|s| s.to_string())).unwrap_or_default();
            println!("{}: compile PANICKED: {}", name, msg);
            None
        }
        Ok(Err(e)) => {
            println!("{}: compile -> Err({}) loc={:?}", name, modgen::error_variant_name(&e.payload), e.loc.map(|l| l.to_string()));
            None
        }
        Ok(Ok(p)) => {
            println!("{}: compile -> Ok ({} bytes of bytecode, {} bytes of data)", name, p.bytecode.len(), p.data.len());
            Some(p)
        }
    }
}

pub fn witness() {
    std::panic::set_hook(Box::new(|_| {}));
    // observation O-C10-1: two global variable names with the same Handle::from_str hash (FNV-1a-32
    // of "brljcd" and of "uqabx" is 2133916524) are one variable
    let m = main_only(vec![
        Card::set_global_var("brljcd", Card::scalar_int(1)),
        Card::set_global_var("uqabx", Card::scalar_int(2)),
    ]);
    if let Some(p) = show("O-C10-1 main=[SetGlobalVar brljcd 1; SetGlobalVar uqabx 2]", &m) {
        println!("    variables.ids: {} entries; variable_id(brljcd) = {:?}, variable_id(uqabx) = {:?}",
                 p.variables.ids.len(), p.variable_id("brljcd"), p.variable_id("uqabx"));
        let mut vm = cao_lang::vm::Vm::new(()).unwrap();
        println!("    run -> {:?}", vm.run(&p).map_err(|e| e.payload));
        println!("    brljcd = {:?}, uqabx = {:?}",
                 vm.read_var_by_name("brljcd", &p.variables), vm.read_var_by_name("uqabx", &p.variables));
    }
    // A-23
    let m = main_only(vec![Card::string_card("L".repeat(253))]);
    if let Some(p) = show("A-23 main=[StringLiteral(253 x 'L')]", &m) {
        let mut vm = cao_lang::vm::Vm::new(()).unwrap();
        println!("    run -> {:?}", vm.run(&p).map_err(|e| e.payload));
    }
    let m = main_only(vec![Card::string_card("L".repeat(252))]);
    if let Some(p) = show("      main=[StringLiteral(252 x 'L')]", &m) {
        let mut vm = cao_lang::vm::Vm::new(()).unwrap();
        println!("    run -> {:?}", vm.run(&p).map_err(|e| e.payload));
    }
    // A-24
    let m = main_only(vec![
        Card::set_var("x", Card::scalar_int(1)),
        CardBody::Closure(Box::new(Function { arguments: vec![], cards: vec![Card::read_var("x")] })).into(),
    ]);
    if let Some(p) = show("A-24 main=[SetVar x 1; Closure([],[ReadVar x])]", &m) {
        // CloseUpvalue = opcode 46, Pop = 16: list one-byte instructions emitted by scope_end without trace
        let dis = p.disassemble_string();
        let mut pops = (0, 0);
        for l in dis.lines() {
            let mut it = l.split('\t');
            let pos: u32 = it.next().unwrap().parse().unwrap();
            let name = it.next().unwrap_or("");
            if name == "CloseUpvalue" {
                println!("    CloseUpvalue at {}: trace entry present = {}", pos, p.trace.get(&pos).is_some());
            }
            if name == "Pop" {
                pops.0 += 1;
                if p.trace.get(&pos).is_some() {
                    pops.1 += 1;
                }
            }
        }
        println!("    Pop instructions: {}, with a trace entry: {}", pops.0, pops.1);
    }
    // A-21
    let sub = Module {
        submodules: vec![],
        functions: vec![("f".into(), Function { arguments: vec![], cards: vec![Card::call_function("bar", vec![])] })],
        imports: vec!["super.super.bar".into()],
    };
    let m = Module {
        submodules: vec![("a".into(), sub)],
        functions: vec![("main".into(), Function::default()), ("foo".into(), Function::default())],
        imports: vec![],
    };
    show("A-21 a{imports=[super.super.bar]; f=[Call bar]}", &m);
    // A-20
    let sub = Module { submodules: vec![], functions: vec![("foo".into(), Function::default())], imports: vec![] };
    let m = Module {
        submodules: vec![("a".into(), sub)],
        functions: vec![("main".into(), Function::default()), ("foo".into(), Function::default())],
        imports: vec![],
    };
    show("A-20 root foo + a.foo", &m);
    let sub = Module {
        submodules: vec![],
        functions: vec![("foo".into(), Function::default()), ("foo".into(), Function::default())],
        imports: vec![],
    };
    let m = Module { submodules: vec![("a".into(), sub)], functions: vec![("main".into(), Function::default())], imports: vec![] };
    show("A-20 a.foo twice", &m);
    // root function named like a std function
    let m = Module {
        submodules: vec![],
        functions: vec![("main".into(), Function::default()), ("map".into(), Function::default())],
        imports: vec![],
    };
    show("A-20 root function `map` (collides with std.map)", &m);
    // N-C10-1
    let m = main_only(vec![CardBody::NativeFunction("f".into()).into(), Card::scalar_int(1)]);
    if let Some(p) = show("N-C10-1 main=[NativeFunction f; ScalarInt 1]", &m) {
        println!("    bytecode[0..16] = {:?}", &p.bytecode[..16]);
        let dis: Vec<String> = p.disassemble_string().lines().take(12).map(|l| l.replace('\t', " ")).collect();
        println!("    disassembly: {}", dis.join(" | "));
    }
    // trace indices vs Module::get_card (C15 / C16 numbering)
    let m = main_only(vec![
        CardBody::Repeat(Box::new(cao_lang::compiler::Repeat {
            i: None,
            n: Card::scalar_int(3),
            body: CardBody::ScalarNil.into(),
        }))
        .into(),
    ]);
    if let Some(p) = show("N-C15-1 main=[Repeat(n = ScalarInt 3, body = ScalarNil)]", &m) {
        let mut entries: Vec<(u32, &cao_lang::prelude::Trace)> = p.trace.iter().map(|(k, v)| (*k, v)).collect();
        entries.sort_by_key(|x| x.0);
        for (a, t) in entries {
            if t.namespace.is_empty() {
                println!("    trace[{}] = {} -> get_card: {:?}", a, t.index, m.get_card(&t.index).map(|c| c.name().to_string()));
            }
        }
    }
    // > 255 upvalues
    let mut rng = Rng::new(1);
    let mut st = GenStats::default();
    let _ = &mut st;
    let m = modgen::huge_upvalues_module(&mut rng);
    show("N-C10-2 closure capturing > 255 variables", &m);
    // 17 globals
    let cards: Vec<Card> = (0..17).map(|i| Card::set_global_var(format!("g{}", i), Card::scalar_int(i))).collect();
    out::describe_current("A-5: 17 SetGlobalVar cards in main");
    show("A-5 17 distinct globals", &main_only(cards));
}
