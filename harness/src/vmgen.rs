//! Program corpus and random generator of well-formed card programs for the VM correspondence check.
//! Everything is built with the public constructors of `cao_lang::compiler`.
use crate::rng::Rng;
use cao_lang::compiler::{
    Card, CardBody, ForEach, Function, Module, UnaryExpression,
};

// ---------- small card constructors ----------
pub fn int(i: i64) -> Card { Card::scalar_int(i) }
pub fn real(f: f64) -> Card { CardBody::ScalarFloat(f).into() }
pub fn nil() -> Card { CardBody::ScalarNil.into() }
pub fn s(x: &str) -> Card { Card::string_card(x) }
pub fn rv(x: &str) -> Card { Card::read_var(x) }
pub fn sv(x: &str, v: Card) -> Card { Card::set_var(x, v) }
pub fn sg(x: &str, v: Card) -> Card { Card::set_global_var(x, v) }
pub fn bin(k: usize, a: Card, b: Card) -> Card {
    let e = Box::new([a, b]);
    let body = match k {
        0 => CardBody::Add(e),
        1 => CardBody::Sub(e),
        2 => CardBody::Mul(e),
        3 => CardBody::Div(e),
        4 => CardBody::Less(e),
        5 => CardBody::LessOrEq(e),
        6 => CardBody::Equals(e),
        7 => CardBody::NotEquals(e),
        8 => CardBody::And(e),
        9 => CardBody::Or(e),
        _ => CardBody::Xor(e),
    };
    body.into()
}
pub fn add(a: Card, b: Card) -> Card { bin(0, a, b) }
pub fn sub(a: Card, b: Card) -> Card { bin(1, a, b) }
pub fn mul(a: Card, b: Card) -> Card { bin(2, a, b) }
pub fn less(a: Card, b: Card) -> Card { bin(4, a, b) }
pub fn eq(a: Card, b: Card) -> Card { bin(6, a, b) }
pub fn not(a: Card) -> Card { CardBody::Not(UnaryExpression::new(a)).into() }
pub fn len(a: Card) -> Card { CardBody::Len(UnaryExpression::new(a)).into() }
pub fn ret(a: Card) -> Card { Card::return_card(a) }
pub fn if_true(c: Card, t: Card) -> Card { CardBody::IfTrue(Box::new([c, t])).into() }
pub fn if_false(c: Card, t: Card) -> Card { CardBody::IfFalse(Box::new([c, t])).into() }
pub fn if_else(c: Card, t: Card, e: Card) -> Card { CardBody::IfElse(Box::new([c, t, e])).into() }
pub fn while_(c: Card, b: Card) -> Card { CardBody::While(Box::new([c, b])).into() }
pub fn block(cards: Vec<Card>) -> Card { Card::composite_card("b", cards) }
pub fn repeat(n: Card, i: Option<&str>, body: Card) -> Card { Card::repeat(n, i.map(|x| x.to_string()), body) }
pub fn foreach(i: Option<&str>, k: Option<&str>, v: Option<&str>, it: Card, body: Card) -> Card {
    CardBody::ForEach(Box::new(ForEach {
        i: i.map(|x| x.to_string()),
        k: k.map(|x| x.to_string()),
        v: v.map(|x| x.to_string()),
        iterable: Box::new(it),
        body: Box::new(body),
    }))
    .into()
}
pub fn table() -> Card { CardBody::CreateTable.into() }
pub fn array(v: Vec<Card>) -> Card { CardBody::Array(v).into() }
pub fn getp(t: Card, k: Card) -> Card { Card::get_property(t, k) }
pub fn setp(v: Card, t: Card, k: Card) -> Card { Card::set_property(v, t, k) }
pub fn nth(t: Card, i: Card) -> Card { CardBody::Get(Box::new([t, i])).into() }
pub fn append(v: Card, t: Card) -> Card { CardBody::AppendTable(Box::new([v, t])).into() }
pub fn pop_table(t: Card) -> Card { CardBody::PopTable(UnaryExpression::new(t)).into() }
pub fn call(f: &str, args: Vec<Card>) -> Card { Card::call_function(f, args) }
pub fn dyn_call(f: Card, args: Vec<Card>) -> Card { Card::dynamic_call(f, args) }
pub fn native(f: &str, args: Vec<Card>) -> Card { Card::call_native(f, args) }
pub fn fval(f: &str) -> Card { Card::function_value(f) }
pub fn nval(f: &str) -> Card { CardBody::NativeFunction(f.to_string()).into() }
pub fn closure(args: &[&str], cards: Vec<Card>) -> Card {
    CardBody::Closure(Box::new(Function { arguments: args.iter().map(|x| x.to_string()).collect(), cards })).into()
}
pub fn func(args: &[&str], cards: Vec<Card>) -> Function {
    Function { arguments: args.iter().map(|x| x.to_string()).collect(), cards }
}
pub fn module(fns: Vec<(&str, Function)>) -> Module {
    Module {
        submodules: vec![],
        functions: fns.into_iter().map(|(n, f)| (n.to_string(), f)).collect(),
        imports: vec![],
    }
}
pub fn module_std(fns: Vec<(&str, Function)>) -> Module {
    let mut m = module(fns);
    m.imports = ["min", "max", "sorted", "min_by_key", "max_by_key", "sorted_by_key", "to_array", "map", "filter", "any"]
        .iter()
        .map(|x| format!("std.{}", x))
        .collect();
    m
}
pub fn log(v: Card) -> Card { sv("_l", native("log1", vec![v])) }

/// What a corpus entry asks of the runner
pub struct Entry {
    pub name: &'static str,
    pub module: Module,
    /// explicit budgets in addition to the automatic ones
    pub budgets: Vec<u64>,
    /// run `repeat` times on one VM without clear (history mode) instead of fresh VMs
    pub history: usize,
    /// in history mode: call Vm::clear() before every run but the first
    pub clear: bool,
}
fn e(name: &'static str, m: Module) -> Entry { Entry { name, module: m, budgets: vec![], history: 0, clear: false } }

/// Hand-written programs: one per construct and one per known suspicious behaviour.
pub fn corpus() -> Vec<Entry> {
    let mut v = vec![];
    v.push(e("arith", module(vec![("main", func(&[], vec![
        sg("a", add(int(2), mul(int(3), int(4)))),
        sg("b", sub(int(1), int(10))),
        sg("c", bin(3, int(7), int(2))),
        sg("d", bin(3, int(1), int(0))),
        sg("e", bin(5, int(3), int(3))),
        sg("f", bin(7, s("x"), s("x"))),
        sg("g", add(nil(), int(5))),
        sg("h", add(s("abc"), int(5))),
        sg("i", add(nil(), nil())),
        sg("j", bin(4, nil(), nil())),
        sg("k", not(s(""))),
    ]))])));
    v.push(e("reals", module(vec![("main", func(&[], vec![
        sg("a", add(real(0.1), real(0.2))),
        sg("b", mul(real(1.5), int(3))),
        sg("c", bin(3, real(1.0), real(3.0))),
        sg("d", bin(4, real(1.0), int(2))),
        sg("e", bin(6, real(1.0), int(1))),
        sg("f", sub(real(1e308), real(-1e308))),
        sg("g", bin(3, real(0.0), real(0.0))),
        sg("h", bin(6, bin(3, real(0.0), real(0.0)), bin(3, real(0.0), real(0.0)))),
        sg("i", not(real(-0.0))),
        sg("j", bin(5, int(9007199254740993), real(9007199254740992.0))),
    ]))])));
    v.push(e("locals_if_while", module(vec![("main", func(&[], vec![
        sv("i", int(0)),
        sv("acc", int(0)),
        while_(less(rv("i"), int(5)), block(vec![
            if_else(eq(rv("i"), int(2)), sv("acc", add(rv("acc"), int(100))), sv("acc", add(rv("acc"), rv("i")))),
            sv("i", add(rv("i"), int(1))),
        ])),
        sg("acc", rv("acc")),
        if_true(rv("acc"), sg("t", int(1))),
        if_false(rv("acc"), sg("f", int(1))),
    ]))])));
    v.push(e("repeat", module(vec![("main", func(&[], vec![
        sv("acc", int(0)),
        repeat(int(4), Some("i"), sv("acc", add(rv("acc"), rv("i")))),
        repeat(int(3), None, sv("acc", add(rv("acc"), int(10)))),
        sg("acc", rv("acc")),
    ]))])));
    v.push(e("tables", module(vec![("main", func(&[], vec![
        sv("t", table()),
        setp(int(1), rv("t"), s("a")),
        setp(int(2), rv("t"), s("b")),
        setp(int(3), rv("t"), s("a")),
        append(int(7), rv("t")),
        append(s("str"), rv("t")),
        sg("t", rv("t")),
        sg("la", len(rv("t"))),
        sg("ga", getp(rv("t"), s("a"))),
        sg("gz", getp(rv("t"), s("zz"))),
        sg("row", nth(rv("t"), int(1))),
        sg("row9", nth(rv("t"), int(9))),
        sg("arr", array(vec![int(1), s("two"), nil(), array(vec![int(3)])])),
        sg("p", pop_table(rv("t"))),
        sg("lb", len(rv("t"))),
        sg("eqt", eq(array(vec![int(1), int(2)]), array(vec![int(1), int(2)]))),
        sg("ltt", less(array(vec![int(1)]), array(vec![int(1), int(2)]))),
    ]))])));
    // A-10: pop removes the key from `keys` only
    v.push(e("pop_then_get_append", module(vec![("main", func(&[], vec![
        sv("t", array(vec![int(10), int(20), int(30)])),
        sg("p", pop_table(rv("t"))),
        sg("still", getp(rv("t"), int(2))),
        append(int(40), rv("t")),
        sg("t", rv("t")),
        setp(int(99), rv("t"), int(2)),
        sg("len", len(rv("t"))),
        sg("g2", getp(rv("t"), int(2))),
        sg("g3", getp(rv("t"), int(3))),
    ]))])));
    v.push(e("foreach", module(vec![("main", func(&[], vec![
        sv("t", table()),
        setp(int(5), rv("t"), s("x")),
        setp(int(6), rv("t"), s("y")),
        setp(int(7), rv("t"), int(3)),
        sv("acc", int(0)),
        sv("ks", table()),
        foreach(Some("i"), Some("k"), Some("v"), rv("t"), block(vec![
            sv("acc", add(rv("acc"), mul(rv("v"), add(rv("i"), int(1))))),
            append(rv("k"), rv("ks")),
        ])),
        sg("acc", rv("acc")),
        sg("ks", rv("ks")),
        foreach(None, None, Some("v"), table(), sg("never", int(1))),
        foreach(None, None, None, int(3), sg("never2", int(1))),
    ]))])));
    v.push(e("calls", module(vec![
        ("main", func(&[], vec![
            sg("a", call("f3", vec![int(1), int(2), int(3)])),
            sg("b", call("fact", vec![int(5)])),
            sg("c", call("early", vec![int(7)])),
            sg("d", dyn_call(fval("f3"), vec![int(4), int(5), int(6)])),
            sv("fv", fval("noret")),
            sg("e", dyn_call(rv("fv"), vec![])),
            sg("fib", call("fib", vec![int(7)])),
        ])),
        ("f3", func(&["a", "b", "c"], vec![ret(add(mul(rv("a"), int(100)), add(mul(rv("b"), int(10)), rv("c"))))])),
        ("fact", func(&["n"], vec![
            if_true(bin(5, rv("n"), int(1)), ret(int(1))),
            ret(mul(rv("n"), call("fact", vec![sub(rv("n"), int(1))]))),
        ])),
        ("early", func(&["n"], vec![
            sv("i", int(0)),
            while_(less(rv("i"), int(100)), block(vec![
                if_true(eq(rv("i"), rv("n")), ret(mul(rv("i"), int(2)))),
                sv("i", add(rv("i"), int(1))),
            ])),
            ret(int(-1)),
        ])),
        ("noret", func(&[], vec![sg("side", int(42))])),
        ("fib", func(&["n"], vec![
            if_true(less(rv("n"), int(2)), ret(rv("n"))),
            ret(add(call("fib", vec![sub(rv("n"), int(1))]), call("fib", vec![sub(rv("n"), int(2))]))),
        ])),
    ])));
    v.push(e("missing_argument", module(vec![
        ("main", func(&[], vec![sg("a", call("two", vec![]))])),
        ("two", func(&["a", "b"], vec![ret(rv("a"))])),
    ])));
    v.push(e("infinite_recursion", module(vec![
        ("main", func(&[], vec![sg("a", call("r", vec![int(1)]))])),
        ("r", func(&["n"], vec![ret(call("r", vec![add(rv("n"), int(1))]))])),
    ])));
    v.push(e("infinite_recursion_noargs", module(vec![
        ("main", func(&[], vec![sg("a", call("r", vec![]))])),
        ("r", func(&[], vec![ret(call("r", vec![]))])),
    ])));
    v.push(e("reentry_call_stack_full", module(vec![
        ("main", func(&[], vec![sg("a", call("r", vec![int(0)]))])),
        // recursion through the re-entrant native: two frames per level, until the second one does not fit
        ("r", func(&["n"], vec![sg("depth", rv("n")), ret(native("try1", vec![fval("r"), add(rv("n"), int(1))]))])),
    ])));
    v.push(e("infinite_loop", module(vec![("main", func(&[], vec![
        sv("i", int(0)),
        while_(int(1), sv("i", add(rv("i"), int(1)))),
    ]))])));
    v.push(e("stack_overflow", module(vec![("main", func(&[], vec![
        while_(int(1), int(1)),
    ]))])));
    // A-33
    v.push(e("i64_overflow", module(vec![("main", func(&[], vec![
        sg("a", int(1)),
        sg("b", add(int(i64::MAX), int(1))),
        sg("c", int(2)),
    ]))])));
    v.push(e("i64_mul_overflow", module(vec![("main", func(&[], vec![
        sg("b", mul(int(i64::MIN), int(-1))),
    ]))])));
    // A-31 / trace
    v.push(e("unknown_native", module(vec![
        ("main", func(&[], vec![sg("x", int(1)), sv("r", call("pooh", vec![])), sg("y", int(2))])),
        ("pooh", func(&[], vec![sv("q", native("non-existent-function", vec![])), sg("z", int(3))])),
    ])));
    v.push(e("read_unset_global", module(vec![("main", func(&[], vec![
        sg("x", rv("never_set")),
    ]))])));
    v.push(e("bad_call_target", module(vec![("main", func(&[], vec![
        sg("x", dyn_call(int(3), vec![])),
    ]))])));
    v.push(e("get_on_non_table", module(vec![("main", func(&[], vec![
        sg("x", getp(int(3), int(1))),
    ]))])));
    // A-23
    v.push(e("long_string_253", module(vec![("main", func(&[], vec![
        sg("a", s(&"x".repeat(252))),
        sg("b", s(&"y".repeat(253))),
    ]))])));
    v.push(e("natives", module(vec![("main", func(&[], vec![
        log(int(1)),
        log(array(vec![int(1), s("a"), real(2.5)])),
        sg("d", native("sub2", vec![int(10), int(3)])),
        sg("d2", native("sub2", vec![real(7.9), s("four")])),
        sg("d3", native("sub2", vec![nil(), table()])),
        sg("l", native("str1", vec![s("hello")])),
        sv("_m", native("mix3", vec![int(3), real(-2.5), s("z")])),
        sv("_m", native("mix3", vec![s("ab"), nil(), fval("main")])),
        sg("nv", dyn_call(nval("sub2"), vec![int(1), int(2)])),
    ]))])));
    v.push(e("native_fail", module(vec![("main", func(&[], vec![
        sg("a", int(1)),
        sv("_x", native("fail0", vec![])),
        sg("b", int(2)),
    ]))])));
    v.push(e("native_conversion_error", module(vec![("main", func(&[], vec![
        sg("a", int(1)),
        sv("_x", native("str1", vec![int(5)])),
        sg("b", int(2)),
    ]))])));
    v.push(e("reentry", module(vec![
        ("main", func(&[], vec![
            sg("a", native("call1", vec![fval("dbl"), int(21)])),
            sg("b", native("call0", vec![fval("k7")])),
            sg("c", native("call1", vec![nval("str1"), s("four")])),
            sv("n", int(5)),
            sg("d", native("call1", vec![closure(&["x"], vec![ret(add(rv("x"), rv("n")))]), int(1)])),
            sg("e", native("call1", vec![fval("nested"), int(3)])),
        ])),
        ("dbl", func(&["x"], vec![ret(mul(rv("x"), int(2)))])),
        ("k7", func(&[], vec![ret(int(7))])),
        ("nested", func(&["x"], vec![ret(native("call1", vec![fval("dbl"), add(rv("x"), int(1))]))])),
    ])));
    // the caller's variables after a re-entrant native returned: a local of the caller that a closure has captured is
    // still ONE variable for the caller and the closure (the upvalue stays open across the nested run); want_* / got_*
    // are judged by C18Check.wants_ok
    for (name, reenter) in [
        ("reentry_keeps_open_upvalue_call0", native("call0", vec![fval("k7")])),
        ("reentry_keeps_open_upvalue_call1_closure", native("call1", vec![closure(&["x"], vec![ret(add(rv("x"), int(1)))]), int(6)])),
        ("reentry_keeps_open_upvalue_try1_failing", native("try1", vec![fval("boom"), int(1)])),
        ("reentry_keeps_open_upvalue_native_value", dyn_call(nval("call1"), vec![fval("dbl"), int(4)])),
    ] {
        let body = |reenter: Card| vec![
            sv("counter", int(10)),
            sv("inc", closure(&[], vec![sv("counter", add(rv("counter"), int(1)))])),
            sv("_r", reenter),
            sv("_a", dyn_call(rv("inc"), vec![])),
            sg("got_after_inc", rv("counter")), sg("want_after_inc", int(11)),
            sv("counter", int(100)),
            sv("_b", dyn_call(rv("inc"), vec![])),
            sg("got_after_set", rv("counter")), sg("want_after_set", int(101)),
        ];
        // once with main as the caller of the host function, once with a called function (its frame above main's locals)
        v.push(e(name, module(vec![
            ("main", func(&[], body(reenter.clone()))),
            ("k7", func(&[], vec![ret(int(7))])),
            ("dbl", func(&["x"], vec![ret(mul(rv("x"), int(2)))])),
            ("boom", func(&["x"], vec![sv("_q", native("fail0", vec![])), ret(int(1))])),
        ])));
        let nested_name: &'static str = Box::leak(format!("{}_in_callee", name).into_boxed_str());
        v.push(e(nested_name, module(vec![
            ("main", func(&[], vec![sv("pad", int(3)), sv("_z", call("work", vec![int(1)])), sg("pad_after", rv("pad"))])),
            ("work", func(&["p"], body(reenter))),
            ("k7", func(&[], vec![ret(int(7))])),
            ("dbl", func(&["x"], vec![ret(mul(rv("x"), int(2)))])),
            ("boom", func(&["x"], vec![sv("_q", native("fail0", vec![])), ret(int(1))])),
        ])));
    }
    // A-36: frames left behind by a failing callee, observed through later behaviour
    v.push(e("reentry_error_swallowed", module(vec![
        ("main", func(&[], vec![
            sv("i", int(0)),
            while_(less(rv("i"), int(3)), block(vec![
                sv("_r", native("try1", vec![fval("boom"), rv("i")])),
                sv("i", add(rv("i"), int(1))),
            ])),
            sg("i", rv("i")),
        ])),
        ("boom", func(&["x"], vec![sg("seen", rv("x")), sv("_q", native("fail0", vec![])), ret(int(1))])),
    ])));
    v.push(e("reentry_error_swallowed_overflow", module(vec![
        ("main", func(&[], vec![
            sv("i", int(0)),
            while_(less(rv("i"), int(200)), block(vec![
                sv("_r", native("try1", vec![fval("boom"), rv("i")])),
                sv("i", add(rv("i"), int(1))),
                sg("i", rv("i")),
            ])),
        ])),
        ("boom", func(&["x"], vec![sv("_q", native("fail0", vec![])), ret(int(1))])),
    ])));
    v.push(e("reentry_error_propagates", module(vec![
        ("main", func(&[], vec![
            sg("a", native("call1", vec![fval("boom"), int(1)])),
            sg("b", int(2)),
        ])),
        ("boom", func(&["x"], vec![sv("_q", native("fail0", vec![])), ret(int(1))])),
    ])));
    // A-11: every nested run gets a fresh budget
    let mut nb = e("nested_budget", module(vec![
        ("main", func(&[], vec![
            sv("_a", native("call1", vec![fval("spin"), int(12)])),
            sv("_b", native("call1", vec![fval("spin"), int(12)])),
            sv("_c", native("call1", vec![fval("spin"), int(12)])),
            sg("done", int(1)),
        ])),
        ("spin", func(&["n"], vec![
            sv("i", int(0)),
            while_(less(rv("i"), rv("n")), sv("i", add(rv("i"), int(1)))),
            ret(rv("i")),
        ])),
    ]));
    nb.budgets = vec![150, 160, 170, 200];
    v.push(nb);
    // the same through NATIVE FUNCTION VALUES (CallFunction on a native object, not CallNative): the nested runs
    // must spend the budget of the run there too (seed C03-2: the remaining budget was kept in a local of _run and
    // written back only around CallNative)
    let mut nbv = e("nested_budget_native_value", module(vec![
        ("main", func(&[], vec![
            sv("f", nval("call1")),
            sv("_a", dyn_call(rv("f"), vec![fval("spin"), int(12)])),
            sv("_b", dyn_call(nval("call1"), vec![fval("spin"), int(12)])),
            sv("_c", dyn_call(nval("try1"), vec![fval("spin"), int(12)])),
            sg("done", int(1)),
        ])),
        ("spin", func(&["n"], vec![
            sv("i", int(0)),
            while_(less(rv("i"), rv("n")), sv("i", add(rv("i"), int(1)))),
            ret(rv("i")),
        ])),
    ]));
    nbv.budgets = vec![100, 150, 160, 170, 200, 250];
    v.push(nbv);
    let mut nbm = e("nested_budget_mixed_paths", module(vec![
        ("main", func(&[], vec![
            sv("r", int(0)),
            while_(less(rv("r"), int(6)), block(vec![
                sv("_x", native("call1", vec![fval("spin"), int(2)])),
                sv("_y", dyn_call(nval("call1"), vec![fval("spin"), int(9)])),
                sv("r", add(rv("r"), int(1))),
            ])),
            sg("done", rv("r")),
        ])),
        ("spin", func(&["n"], vec![
            sv("i", int(0)),
            while_(less(rv("i"), rv("n")), sv("i", add(rv("i"), int(1)))),
            ret(rv("i")),
        ])),
    ]));
    nbm.budgets = vec![60, 120, 200, 300, 400, 500];
    v.push(nbm);
    let mut nbs = e("nested_budget_sort_value", module(vec![
        ("main", func(&[], vec![
            sv("t", array(vec![int(3), int(1), int(2), int(5)])),
            sv("r", int(0)),
            while_(less(rv("r"), int(4)), block(vec![
                sv("_a", native("__to_array", vec![rv("t")])),
                sv("_s", dyn_call(nval("__sort"), vec![rv("t"), fval("slow")])),
                sv("_m", dyn_call(nval("__max"), vec![rv("t"), fval("slow")])),
                sv("r", add(rv("r"), int(1))),
            ])),
            sg("done", rv("r")),
        ])),
        ("slow", func(&["k", "v"], vec![
            sv("i", int(0)),
            while_(less(rv("i"), int(10)), sv("i", add(rv("i"), int(1)))),
            ret(rv("v")),
        ])),
    ]));
    nbs.budgets = vec![100, 200, 400, 800, 1200];
    v.push(nbs);
    v.push(e("closures", module(vec![
        ("main", func(&[], vec![
            sv("c", call("mk", vec![])),
            sg("r1", dyn_call(rv("c"), vec![int(1)])),
            sg("r2", dyn_call(rv("c"), vec![int(2)])),
        ])),
        ("mk", func(&[], vec![
            sv("n", int(10)),
            ret(closure(&["x"], vec![sv("n", add(rv("n"), rv("x"))), ret(rv("n"))])),
        ])),
    ])));
    v.push(e("closure_same_scope", module(vec![("main", func(&[], vec![
        sv("n", int(1)),
        sv("c", closure(&[], vec![sv("n", add(rv("n"), int(1))), ret(rv("n"))])),
        sg("a", dyn_call(rv("c"), vec![])),
        sg("b", rv("n")),
        sv("n", int(50)),
        sg("c", dyn_call(rv("c"), vec![])),
    ]))])));
    // A-34: register_upvalue ignores the frame offset
    v.push(e("closure_in_function_with_args", module(vec![
        ("main", func(&[], vec![
            sv("pad1", int(111)),
            sv("pad2", int(222)),
            sv("c", call("mk", vec![int(5), int(6)])),
            sg("r", dyn_call(rv("c"), vec![])),
        ])),
        ("mk", func(&["a", "b"], vec![
            sv("n", int(10)),
            ret(closure(&[], vec![ret(rv("n"))])),
        ])),
    ])));
    // A-35: second capture drops the first from the open list
    v.push(e("two_closures_two_vars", module(vec![
        ("main", func(&[], vec![
            sv("t", call("mk", vec![])),
            sv("c1", getp(rv("t"), int(0))),
            sv("c2", getp(rv("t"), int(1))),
            sg("r1", dyn_call(rv("c1"), vec![])),
            sg("r2", dyn_call(rv("c2"), vec![])),
        ])),
        ("mk", func(&[], vec![
            sv("a", int(1)),
            sv("b", int(2)),
            sv("c1", closure(&[], vec![ret(rv("a"))])),
            sv("c2", closure(&[], vec![ret(rv("b"))])),
            ret(array(vec![rv("c1"), rv("c2")])),
        ])),
    ])));
    v.push(e("closures_shared", module(vec![
        ("main", func(&[], vec![
            sv("t", call("mk", vec![])),
            sv("inc", getp(rv("t"), int(0))),
            sv("get", getp(rv("t"), int(1))),
            sv("_x", dyn_call(rv("inc"), vec![])),
            sv("_x", dyn_call(rv("inc"), vec![])),
            sg("r", dyn_call(rv("get"), vec![])),
        ])),
        ("mk", func(&[], vec![
            sv("n", int(0)),
            sv("inc", closure(&[], vec![sv("n", add(rv("n"), int(1)))])),
            sv("get", closure(&[], vec![ret(rv("n"))])),
            ret(array(vec![rv("inc"), rv("get")])),
        ])),
    ])));
    v.push(e("closures_in_loop", module(vec![("main", func(&[], vec![
        sv("fs", table()),
        repeat(int(3), Some("i"), block(vec![
            sv("j", mul(rv("i"), int(10))),
            append(closure(&[], vec![ret(rv("j"))]), rv("fs")),
        ])),
        sg("a", dyn_call(getp(rv("fs"), int(0)), vec![])),
        sg("b", dyn_call(getp(rv("fs"), int(1)), vec![])),
        sg("c", dyn_call(getp(rv("fs"), int(2)), vec![])),
    ]))])));
    v.push(e("nested_closures", module(vec![("main", func(&[], vec![
        sv("x", int(3)),
        sv("outer", closure(&["y"], vec![
            ret(closure(&["z"], vec![ret(add(rv("x"), add(rv("y"), rv("z"))))])),
        ])),
        sv("inner", dyn_call(rv("outer"), vec![int(10)])),
        sg("r", dyn_call(rv("inner"), vec![int(100)])),
    ]))])));
    v.push(e("upvalue_outside_closure", module(vec![("main", func(&[], vec![
        sg("x", fval("main")),
        sg("y", nval("nope")),
        sg("z", dyn_call(nval("nope"), vec![])),
    ]))])));
    // A-18: the entry frame is never popped
    let mut h = e("history_260", module(vec![("main", func(&[], vec![sg("x", int(1))]))]));
    h.history = 260;
    v.push(h);
    let mut h2 = e("history_leftovers", module(vec![
        ("main", func(&[], vec![
            sg("n", add(rv_or_zero("n"), int(1))),
            sv("pad", int(5)),
            sv("_r", native("try1", vec![fval("boom"), int(1)])),
            int(77),
        ])),
        ("boom", func(&["x"], vec![sv("_q", native("fail0", vec![])), ret(int(1))])),
    ]));
    h2.history = 6;
    v.push(h2);
    let mut hc = e("history_clear", module(vec![
        ("main", func(&[], vec![
            sv("t", array(vec![int(1), s("two")])),
            sg("t", rv("t")),
            sv("c", closure(&[], vec![ret(rv("t"))])),
            sg("c", rv("c")),
            sv("_r", native("try1", vec![fval("boom"), int(1)])),
            log(rv("t")),
            int(5),
            s("left on the stack"),
        ])),
        ("boom", func(&["x"], vec![sv("_q", native("fail0", vec![])), ret(int(1))])),
    ]));
    hc.history = 5;
    hc.clear = true;
    v.push(hc);
    v.push(e("stdlib_minmax_sorted", module_std(vec![
        ("main", func(&[], vec![
            sv("t", table()),
            setp(int(5), rv("t"), s("x")),
            setp(int(-2), rv("t"), s("y")),
            setp(real(7.5), rv("t"), s("z")),
            setp(int(3), rv("t"), int(9)),
            sg("mn", call("min", vec![rv("t")])),
            sg("mx", call("max", vec![rv("t")])),
            sg("so", call("sorted", vec![rv("t")])),
            sg("mnk", call("min_by_key", vec![rv("t"), fval("neg")])),
            sg("sok", call("sorted_by_key", vec![rv("t"), fval("neg")])),
            sg("e1", call("min", vec![table()])),
            sg("e2", call("max", vec![int(4)])),
            sg("e3", call("sorted", vec![s("str")])),
            sg("arr", call("to_array", vec![rv("t")])),
            sg("mp", call("map", vec![rv("t"), fval("triple")])),
            sg("fl", call("filter", vec![rv("t"), fval("triple")])),
            sg("an", call("any", vec![rv("t"), fval("triple")])),
        ])),
        ("neg", func(&["k", "v"], vec![ret(sub(int(0), rv("v")))])),
        ("triple", func(&["i", "v", "k"], vec![ret(less(rv("v"), int(4)))])),
    ])));
    v.push(e("stdlib_sorted_mixed_keys", module_std(vec![
        ("main", func(&[], vec![
            sv("t", array(vec![int(3), real(f64::NAN), s("ab"), nil(), real(2.5), array(vec![int(1), int(2), int(3), int(4)]), int(-1), real(f64::NAN), int(9007199254740993), real(9007199254740992.0)])),
            sg("so", call("sorted", vec![rv("t")])),
            sg("mn", call("min", vec![rv("t")])),
            sg("mx", call("max", vec![rv("t")])),
        ])),
    ])));
    v.push(e("stdlib_key_function_fails", module_std(vec![
        ("main", func(&[], vec![
            sv("t", array(vec![int(3), int(1), int(2)])),
            sg("a", int(1)),
            sg("so", call("sorted_by_key", vec![rv("t"), fval("bad")])),
            sg("b", int(2)),
        ])),
        ("bad", func(&["k", "v"], vec![if_true(eq(rv("v"), int(1)), sv("_q", native("fail0", vec![]))), ret(rv("v"))])),
    ])));
    v.push(e("stdlib_key_function_loops", module_std(vec![
        ("main", func(&[], vec![
            sv("t", array(vec![int(3), int(1), int(2)])),
            sg("mx", call("max_by_key", vec![rv("t"), fval("slow")])),
        ])),
        ("slow", func(&["k", "v"], vec![
            sv("i", int(0)),
            while_(less(rv("i"), int(10)), sv("i", add(rv("i"), int(1)))),
            ret(rv("v")),
        ])),
    ])));
    v.push(e("stdlib_to_array", module(vec![("main", func(&[], vec![
        sv("t", table()),
        setp(int(5), rv("t"), s("x")),
        setp(int(6), rv("t"), s("y")),
        sg("a", native("__to_array", vec![rv("t")])),
        sg("b", native("__to_array", vec![int(3)])),
    ]))])));
    v
}

fn rv_or_zero(name: &str) -> Card {
    // a global that may be unset on the first run of a history: Len(nil)=0 trick is not available for an
    // unset global (VarNotFound), so the history programs set it first
    let _ = name;
    int(0)
}

// ---------- random generator ----------

pub struct Gen<'a> {
    pub rng: &'a mut Rng,
    pub reals: bool,
    fns: Vec<(String, usize)>,
    globals: Vec<String>,
    /// names of locals visible in the function being generated (incl. arguments)
    locals: Vec<String>,
    /// locals of enclosing functions (for closures)
    outer: Vec<String>,
    in_fn: bool,
    fresh: usize,
    pub features: Vec<&'static str>,
    /// C18: most expressions are native calls
    pub native_heavy: bool,
}

const NATIVE_MENU: &[&str] = &["log1", "sub2", "str1", "mix3", "call1", "try1", "call0", "fail0", "t4", "nil1", "tab1", "cat2", "rb1", "rb1"];

impl<'a> Gen<'a> {
    pub fn new(rng: &'a mut Rng, reals: bool) -> Self {
        Gen { rng, reals, fns: vec![], globals: vec![], locals: vec![], outer: vec![], in_fn: false, fresh: 0, features: vec![], native_heavy: false }
    }
    fn feat(&mut self, f: &'static str) {
        if !self.features.contains(&f) { self.features.push(f); }
    }
    fn small_int(&mut self) -> i64 {
        match self.rng.below(20) {
            0 => i64::MAX,
            1 => i64::MIN,
            2 => 1 << 40,
            3 => -1,
            4 | 5 => 0,
            _ => self.rng.range(-3, 12),
        }
    }
    fn a_real(&mut self) -> f64 {
        match self.rng.below(12) {
            0 => 0.0,
            1 => -0.0,
            2 => 1e308,
            3 => f64::INFINITY,
            4 => f64::NAN,
            5 => 0.1,
            6 => 9007199254740993.0,
            7 => -2.5,
            _ => (self.rng.range(-40, 40) as f64) / 4.0,
        }
    }
    fn a_string(&mut self) -> String {
        let words = ["", "a", "b", "key", "value", "hello", "zz", "four", "x y"];
        self.rng.pick(&words).to_string()
    }
    fn global(&mut self) -> String {
        let n = self.rng.below(6);
        let g = format!("g{}", n);
        if !self.globals.contains(&g) { self.globals.push(g.clone()); }
        g
    }
    fn any_var(&mut self) -> Option<String> {
        let mut pool: Vec<String> = self.locals.clone();
        pool.extend(self.outer.iter().cloned());
        if pool.is_empty() { None } else { Some(self.rng.pick(&pool).clone()) }
    }

    /// an expression card: pushes exactly one value
    pub fn expr(&mut self, depth: u32) -> Card {
        let leaf = depth == 0 || self.rng.chance(1, 4);
        if leaf {
            return match self.rng.below(10) {
                0 | 1 | 2 => { let i = self.small_int(); int(i) }
                3 => if self.reals { self.feat("real"); let r = self.a_real(); real(r) } else { int(2) },
                4 => nil(),
                5 => { self.feat("string"); let x = self.a_string(); s(&x) }
                6 => { let g = self.global(); if self.rng.chance(3, 4) && self.globals_set_hint() { rv(&g) } else { int(1) } }
                _ => match self.any_var() { Some(v) => rv(&v), None => int(3) },
            };
        }
        let d = depth - 1;
        if self.native_heavy && self.rng.chance(1, 2) {
            return if self.rng.chance(1, 5) { self.native_value_call(d) } else { self.native_expr(d) };
        }
        match self.rng.below(25) {
            0..=5 => { let k = self.rng.below(3) as usize; let a = self.expr(d); let b = self.expr(d); bin(k, a, b) }
            6 => { self.feat("div"); let a = self.expr(d); let b = self.expr(d); bin(3, a, b) }
            7..=9 => { let k = 4 + self.rng.below(4) as usize; let a = self.expr(d); let b = self.expr(d); bin(k, a, b) }
            10 => { let k = 8 + self.rng.below(3) as usize; let a = self.expr(d); let b = self.expr(d); bin(k, a, b) }
            11 => { let a = self.expr(d); not(a) }
            12 => { let a = self.expr(d); len(a) }
            13 | 14 => {
                if self.fns.is_empty() { return int(4); }
                self.feat("call");
                let (name, ar) = self.rng.pick(&self.fns).clone();
                // occasionally the wrong number of arguments
                let n = if self.rng.chance(1, 15) { self.rng.below(4) as usize } else { ar };
                let args = (0..n).map(|_| self.expr(d.min(1))).collect();
                if self.rng.chance(1, 3) { self.feat("dyn_call"); dyn_call(fval(&name), args) } else { call(&name, args) }
            }
            15 => {
                self.feat("array");
                let n = self.rng.below(4) as usize;
                array((0..n).map(|_| self.expr(d.min(1))).collect())
            }
            16 => { self.feat("get_property"); let t = self.table_expr(d); let k = self.key_expr(); getp(t, k) }
            17 => { self.feat("nth_row"); let t = self.table_expr(d); let i = self.rng.range(-1, 3); nth(t, int(i)) }
            18 => { self.feat("pop_table"); let t = self.table_expr(d); pop_table(t) }
            19 | 20 => self.native_expr(d),
            21 => {
                self.feat("closure");
                self.closure_expr(d)
            }
            23 => {
                self.feat("stdlib");
                let t = self.table_expr(d);
                match self.rng.below(8) {
                    0 => call("min", vec![t]),
                    1 => call("max", vec![t]),
                    2 => call("sorted", vec![t]),
                    3 => call("to_array", vec![t]),
                    4 => { let f = self.fn_value_expr(2, d); call("min_by_key", vec![t, f]) }
                    5 => { let f = self.fn_value_expr(2, d); call("sorted_by_key", vec![t, f]) }
                    6 => { let f = self.fn_value_expr(3, d); call("map", vec![t, f]) }
                    _ => { let f = self.fn_value_expr(3, d); call("filter", vec![t, f]) }
                }
            }
            22 => match self.any_var() {
                Some(v) => { self.feat("dyn_call_var"); let n = self.rng.below(3) as usize; dyn_call(rv(&v), (0..n).map(|_| self.expr(0)).collect()) }
                None => int(5),
            },
            _ => table(),
        }
    }
    fn globals_set_hint(&self) -> bool { true }
    fn key_expr(&mut self) -> Card {
        match self.rng.below(6) {
            0 | 1 => { let i = self.rng.range(0, 3); int(i) }
            2 | 3 => { let x = self.a_string(); s(&x) }
            4 => nil(),
            _ => if self.reals { real(1.5) } else { int(0) },
        }
    }
    fn table_expr(&mut self, d: u32) -> Card {
        // prefer variables (they may or may not hold tables)
        if self.rng.chance(2, 3) {
            if let Some(v) = self.any_var() { return rv(&v); }
        }
        if self.rng.chance(1, 2) { array((0..self.rng.below(4)).map(|_| self.expr(d.min(1))).collect()) } else { table() }
    }
    fn native_expr(&mut self, d: u32) -> Card {
        self.feat("native");
        let name = *self.rng.pick(NATIVE_MENU);
        match name {
            "log1" => { let a = self.expr(d); native("log1", vec![a]) }
            "sub2" => { let a = self.expr(d); let b = self.expr(d); native("sub2", vec![a, b]) }
            "str1" => {
                let a = if self.rng.chance(4, 5) { let x = self.a_string(); s(&x) } else { self.expr(d) };
                native("str1", vec![a])
            }
            "mix3" => { let a = self.expr(d); let b = self.expr(d); let c = self.expr(d); native("mix3", vec![a, b, c]) }
            "fail0" => if self.rng.chance(1, 4) { native("fail0", vec![]) } else { int(6) },
            "t4" => {
                self.feat("native_arity4");
                let a = self.expr(d); let b = self.expr(d); let c = self.expr(d);
                let dd = if self.rng.chance(4, 5) { let x = self.a_string(); s(&x) } else { self.expr(d) };
                native("t4", vec![a, b, c, dd])
            }
            "nil1" => { let a = if self.rng.chance(1, 3) { nil() } else { self.expr(d) }; native("nil1", vec![a]) }
            "tab1" => { let t = self.table_expr(d); native("tab1", vec![t]) }
            "cat2" => {
                let a = if self.rng.chance(3, 4) { let x = self.a_string(); s(&x) } else { self.expr(d) };
                let b = if self.rng.chance(3, 4) { let x = self.a_string(); s(&x) } else { self.expr(d) };
                native("cat2", vec![a, b])
            }
            "call0" => {
                self.feat("reentry");
                let f = self.fn_value_expr(0, d);
                native("call0", vec![f])
            }
            _ => {
                self.feat("reentry");
                let f = self.fn_value_expr(1, d);
                let x = self.expr(d.min(1));
                native(name, vec![f, x])
            }
        }
    }
    /// a native function value called through DynamicCall, sometimes with too few / too many arguments
    fn native_value_call(&mut self, d: u32) -> Card {
        self.feat("native_value_call");
        if self.rng.chance(1, 3) {
            // a re-entrant native through a native function value: the nested run starts from CallFunction
            self.feat("native_value_reentry");
            let name = *self.rng.pick(&["call1", "try1", "rb1", "call0"]);
            if name == "call0" {
                let f = self.fn_value_expr(0, d);
                return dyn_call(nval("call0"), vec![f]);
            }
            let f = self.fn_value_expr(1, d);
            let x = self.expr(d.min(1));
            return dyn_call(nval(name), vec![f, x]);
        }
        let (name, ar) = *self.rng.pick(&[("sub2", 2usize), ("str1", 1), ("mix3", 3), ("t4", 4), ("nil1", 1), ("tab1", 1), ("cat2", 2), ("fail0", 0), ("log1", 1)]);
        let n = if self.rng.chance(1, 8) { self.rng.below(5) as usize } else { ar };
        let args = (0..n).map(|_| self.expr(d.min(1))).collect();
        dyn_call(nval(name), args)
    }
    /// an expression that (usually) evaluates to a callable of the given arity
    fn fn_value_expr(&mut self, arity: usize, d: u32) -> Card {
        let cands: Vec<String> = self.fns.iter().filter(|(_, a)| *a == arity).map(|(n, _)| n.clone()).collect();
        match self.rng.below(6) {
            0 | 1 | 2 if !cands.is_empty() => { let c: String = self.rng.pick(&cands[..]).clone(); fval(&c) }
            3 => {
                self.feat("closure");
                let args: Vec<String> = (0..arity).map(|i| format!("p{}", i)).collect();
                let argrefs: Vec<&str> = args.iter().map(|x| x.as_str()).collect();
                self.closure_with_args(&argrefs, d)
            }
            4 => if arity == 1 { nval("str1") } else { nval("fail0") },
            _ => if !self.fns.is_empty() { let (n, _) = self.rng.pick(&self.fns).clone(); fval(&n) } else { self.expr(0) },
        }
    }
    fn closure_expr(&mut self, d: u32) -> Card {
        let n = self.rng.below(3) as usize;
        let args: Vec<String> = (0..n).map(|i| format!("p{}", i)).collect();
        let argrefs: Vec<&str> = args.iter().map(|x| x.as_str()).collect();
        self.closure_with_args(&argrefs, d)
    }
    fn closure_with_args(&mut self, args: &[&str], d: u32) -> Card {
        // the closure body sees the enclosing locals as upvalues
        let saved_locals = std::mem::take(&mut self.locals);
        let saved_outer = self.outer.clone();
        let saved_in_fn = self.in_fn;
        self.outer.extend(saved_locals.iter().cloned());
        self.locals = args.iter().map(|x| x.to_string()).collect();
        self.in_fn = true;
        let mut cards = vec![];
        let n = self.rng.below(3);
        for _ in 0..n {
            let c = self.stmt(d.min(1), 0);
            cards.push(c);
        }
        let r = self.expr(d.min(1));
        cards.push(ret(r));
        self.locals = saved_locals;
        self.outer = saved_outer;
        self.in_fn = saved_in_fn;
        closure(args, cards)
    }

    fn new_local(&mut self) -> String {
        self.fresh += 1;
        let n = format!("v{}", self.fresh);
        n
    }

    /// a statement card: leaves the stack as it found it (for well-behaved sub-cards)
    pub fn stmt(&mut self, depth: u32, loop_depth: u32) -> Card {
        let d = depth.saturating_sub(1);
        let simple = depth == 0;
        let k = if simple { self.rng.below(6) } else { self.rng.below(17) };
        match k {
            0 | 1 => {
                // assign an existing variable, sometimes declare a new one
                let declare = self.locals.is_empty() || self.rng.chance(1, 4);
                let e = self.expr(2);
                if declare {
                    let n = self.new_local();
                    self.locals.push(n.clone());
                    sv(&n, e)
                } else {
                    let v = self.any_var().unwrap();
                    if self.outer.contains(&v) { self.feat("set_upvalue"); }
                    sv(&v, e)
                }
            }
            2 | 3 => { let g = self.global(); let e = self.expr(2); sg(&g, e) }
            4 => { self.feat("set_property"); let v = self.expr(1); let t = self.table_expr(1); let key = self.key_expr(); setp(v, t, key) }
            5 => { self.feat("append"); let v = self.expr(1); let t = self.table_expr(1); append(v, t) }
            6 | 7 => {
                let c = self.expr(2);
                let t = self.block(d, loop_depth);
                match self.rng.below(3) {
                    0 => if_true(c, t),
                    1 => if_false(c, t),
                    _ => { let el = self.block(d, loop_depth); if_else(c, t, el) }
                }
            }
            8 => {
                if loop_depth >= 2 { return sg("g0", int(0)); }
                self.feat("while");
                let i = self.new_local();
                self.locals.push(i.clone());
                let n = self.rng.range(0, 4);
                let mut body = vec![];
                for _ in 0..self.rng.range(1, 2) { let c = self.stmt(d, loop_depth + 1); body.push(c); }
                body.push(sv(&i, add(rv(&i), int(1))));
                block(vec![sv(&i, int(0)), while_(less(rv(&i), int(n)), block(body))])
            }
            9 | 10 => {
                if loop_depth >= 2 { return sg("g1", int(0)); }
                self.feat("repeat");
                let n = if self.rng.chance(1, 8) { self.expr(1) } else { let k = self.rng.range(0, 4); int(k) };
                let named = self.rng.chance(1, 2);
                let iv = self.new_local();
                let mark = self.locals.len();
                if named { self.locals.push(iv.clone()); }
                let body = self.block(d, loop_depth + 1);
                self.locals.truncate(mark);
                repeat(n, if named { Some(iv.as_str()) } else { None }, body)
            }
            11 | 12 => {
                if loop_depth >= 2 { return sg("g2", int(0)); }
                self.feat("foreach");
                let it = self.table_expr(1);
                let (i, k, v) = (self.new_local(), self.new_local(), self.new_local());
                let (ui, uk, uv) = (self.rng.chance(1, 2), self.rng.chance(1, 2), self.rng.chance(2, 3));
                let mark = self.locals.len();
                if uv { self.locals.push(v.clone()); }
                if uk { self.locals.push(k.clone()); }
                if ui { self.locals.push(i.clone()); }
                let body = self.block(d, loop_depth + 1);
                self.locals.truncate(mark);
                foreach(if ui { Some(i.as_str()) } else { None }, if uk { Some(k.as_str()) } else { None },
                        if uv { Some(v.as_str()) } else { None }, it, body)
            }
            13 => {
                if self.in_fn { self.feat(if loop_depth > 0 { "return_in_loop" } else { "return" }); let e = self.expr(2); ret(e) }
                else { let g = self.global(); sg(&g, int(9)) }
            }
            14 => { let e = self.expr(1); log(e) }
            15 => {
                // an expression used as a statement: leaves a stray value on the stack
                self.feat("stray_value");
                self.expr(1)
            }
            _ => { let e = self.native_expr(1); let n = self.new_local(); self.locals.push(n.clone()); sv(&n, e) }
        }
    }
    fn block(&mut self, depth: u32, loop_depth: u32) -> Card {
        let n = self.rng.range(1, 3);
        let mark = self.locals.len();
        let mut cards = vec![];
        for _ in 0..n { let c = self.stmt(depth, loop_depth); cards.push(c); }
        // locals declared inside a block stay declared for the compiler (no scope); keep them visible
        let _ = mark;
        block(cards)
    }

    pub fn module(&mut self) -> Module {
        let nf = self.rng.below(4) as usize;
        let mut decls: Vec<(String, usize)> = vec![];
        for i in 0..nf { decls.push((format!("f{}", i), self.rng.below(4) as usize)); }
        self.fns = decls.clone();
        let mut fns: Vec<(String, Function)> = vec![];
        // main
        self.locals.clear(); self.outer.clear(); self.in_fn = false;
        let mut cards = vec![];
        for _ in 0..self.rng.range(2, 7) { let c = self.stmt(2, 0); cards.push(c); }
        // make every local visible at the end
        let locals = self.locals.clone();
        for (i, l) in locals.iter().enumerate().take(4) { cards.push(sg(&format!("o{}", i), rv(l))); }
        fns.push(("main".into(), Function { arguments: vec![], cards }));
        for (name, ar) in decls {
            self.locals = (0..ar).map(|i| format!("a{}", i)).collect();
            self.outer.clear();
            self.in_fn = true;
            let args: Vec<String> = self.locals.clone();
            let mut cards = vec![];
            for _ in 0..self.rng.range(1, 4) { let c = self.stmt(2, 0); cards.push(c); }
            if self.rng.chance(3, 4) { let r = self.expr(2); cards.push(ret(r)); }
            fns.push((name, Function { arguments: args, cards }));
        }
        let imports = ["min", "max", "sorted", "min_by_key", "max_by_key", "sorted_by_key", "to_array", "map", "filter", "any"]
            .iter()
            .map(|x| format!("std.{}", x))
            .collect();
        Module { submodules: vec![], functions: fns, imports }
    }
}
