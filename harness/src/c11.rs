//! C11: serialization round trips: the hand-written map (de)serializers against the model, and
//! module / compiled program / value round trips through JSON, YAML, CBOR, bincode.
use crate::out::{self, CaseWriter};
use crate::progs;
use crate::rng::Rng;
use crate::Args;
use cao_lang::collections::handle_table::{Handle, HandleTable};
use cao_lang::collections::hash_map::CaoHashMap;
use cao_lang::compiler::{CompileOptions, Module};
use cao_lang::prelude::*;

#[derive(Clone, Copy, Debug, PartialEq)]
enum Fmt { Json, Cbor, Bincode, Yaml }

fn enc<T: serde::Serialize>(f: Fmt, x: &T) -> Result<Vec<u8>, String> {
    match f {
        Fmt::Json => serde_json::to_vec(x).map_err(|e| e.to_string()),
        Fmt::Yaml => serde_yaml::to_string(x).map(|s| s.into_bytes()).map_err(|e| e.to_string()),
        Fmt::Cbor => { let mut v = vec![]; ciborium::ser::into_writer(x, &mut v).map_err(|e| e.to_string())?; Ok(v) }
        Fmt::Bincode => bincode::serde::encode_to_vec(x, bincode::config::standard()).map_err(|e| e.to_string()),
    }
}
fn dec<T: serde::de::DeserializeOwned>(f: Fmt, b: &[u8]) -> Result<T, String> {
    match f {
        Fmt::Json => serde_json::from_slice(b).map_err(|e| e.to_string()),
        Fmt::Yaml => serde_yaml::from_slice(b).map_err(|e| e.to_string()),
        Fmt::Cbor => ciborium::de::from_reader(b).map_err(|e| e.to_string()),
        Fmt::Bincode => bincode::serde::decode_from_slice(b, bincode::config::standard()).map(|x| x.0).map_err(|e| e.to_string()),
    }
}
/// the size hint the format's MapAccess reports for a map of n entries
fn hint(f: Fmt, n: usize) -> Option<usize> {
    match f { Fmt::Json | Fmt::Yaml => None, Fmt::Cbor | Fmt::Bincode => Some(n) }
}
fn handle(x: u32) -> Handle { bytemuck::cast::<u32, Handle>(x) }

fn map_cases(rng: &mut Rng, w: &mut CaseWriter, quick: bool) {
    let f = [Fmt::Json, Fmt::Cbor, Fmt::Bincode][rng.below(3) as usize];
    // sizes around powers of two and around the load thresholds
    let base = [0usize, 1, 2, 3, 4, 7, 8, 11, 12, 15, 16, 17, 22, 23, 31, 32, 33, 44, 45, 64, 89, 90, 127, 128, 129][rng.below(if quick { 17 } else { 25 }) as usize];
    let n = base + rng.below(2) as usize;
    if rng.chance(1, 2) {
        let mut m: CaoHashMap<i64, i64> = CaoHashMap::with_capacity_in(rng.below(40) as usize, Default::default()).unwrap();
        while m.len() < n { m.insert(rng.range(-500, 500), rng.range(0, 1000)).unwrap(); }
        if rng.chance(1, 3) { let ks: Vec<i64> = m.iter().map(|(k, _)| *k).take(n / 3).collect(); for k in ks { m.remove(&k); } }
        let ser: Vec<(i64, i64)> = m.iter().map(|(k, v)| (*k, *v)).collect();
        let bytes = enc(f, &m).unwrap();
        let d: CaoHashMap<i64, i64> = dec(f, &bytes).unwrap();
        let decv: Vec<(i64, i64)> = d.iter().map(|(k, v)| (*k, *v)).collect();
        let p = |l: &[(i64, i64)]| out::list(l.iter().map(|(k, v)| format!("({}, {})", out::z(*k), out::z(*v))));
        w.count(&format!("hm.{:?}", f));
        if ser.len() >= 23 { w.count("hm.grows_during_decode_or_large"); }
        w.push(format!("HmRt {} {} {} {}", out::opt(hint(f, ser.len()).map(|x| x.to_string())), p(&ser), p(&decv), d.capacity()), ser.len() > 1);
    } else {
        let mut t: HandleTable<i64> = HandleTable::with_capacity(rng.below(40) as usize, Default::default()).unwrap();
        while t.len() < n { let h = 1 + rng.below(100_000) as u32; t.insert(handle(h), rng.range(0, 1000)).unwrap(); }
        if rng.chance(1, 3) { let ks: Vec<Handle> = t.iter().map(|(k, _)| k).take(n / 3).collect(); for k in ks { t.remove(k); } }
        let ser: Vec<(u32, i64)> = t.iter().map(|(k, v)| (k.value(), *v)).collect();
        let bytes = enc(f, &t).unwrap();
        let d: HandleTable<i64> = dec(f, &bytes).unwrap();
        let decv: Vec<(u32, i64)> = d.iter().map(|(k, v)| (k.value(), *v)).collect();
        let p = |l: &[(u32, i64)]| out::list(l.iter().map(|(k, v)| format!("({}, {})", out::n(*k as u64), out::z(*v))));
        w.count(&format!("ht.{:?}", f));
        w.push(format!("HtRt {} {} {} {}", out::opt(hint(f, ser.len()).map(|x| x.to_string())), p(&ser), p(&decv), d.capacity()), ser.len() > 1);
    }
}

fn program_fields(p: &CaoCompiledProgram) -> String {
    let mut labels: Vec<(u32, u32)> = p.labels.0.iter().map(|(h, l)| (h.value(), l.pos)).collect();
    labels.sort();
    let mut ids: Vec<(u32, String)> = p.variables.ids.iter().map(|(h, v)| (h.value(), format!("{:?}", v))).collect();
    ids.sort();
    let mut names: Vec<(u32, String)> = p.variables.names.iter().map(|(h, v)| (h.value(), v.to_string())).collect();
    names.sort();
    let mut trace: Vec<(u32, String)> = p.trace.iter().map(|(k, t)| (*k, format!("{}", t))).collect();
    trace.sort();
    format!("{:?}|{:?}|{:?}|{:?}|{:?}|{:?}|{}", p.bytecode, p.data, labels, ids, names, trace, p.cao_lang_version)
}

fn run_globals(p: &CaoCompiledProgram) -> String {
    let mut vm = crate::c05::new_vm(400 * 1024, 100_000);
    let r = vm.run(p);
    let mut s = match &r { Ok(()) => "Ok".to_string(), Err(e) => format!("Err({:?})", e.payload) };
    let mut names: Vec<String> = p.variables.names.iter().map(|(_, n)| n.to_string()).collect();
    names.sort();
    for n in names {
        if let Some(v) = vm.read_var_by_name(&n, &p.variables) {
            s.push_str(&format!(";{}={:?}", n, OwnedValue::try_from(v).map(|o| format!("{:?}", o)).unwrap_or("<fn>".into())));
        }
    }
    s
}

fn rt_case(w: &mut CaseWriter, kind: u64, label: &str, ok: bool, known: u64, note: String) {
    w.count(&format!("rt.{}", label));
    let id = w.push(format!("RtCase {} {} {}", out::n(kind), out::b(ok), out::n(known)), true);
    if !ok { w.note(id, note); }
}

fn module_cases(w: &mut CaseWriter, name: &str, m: &Module) {
    module_cases_opt(w, name, m, true)
}

fn card_has_nonfinite(c: &Card) -> bool {
    match &c.body {
        CardBody::ScalarFloat(x) if !x.is_finite() => return true,
        CardBody::Closure(f) => {
            if f.cards.iter().any(card_has_nonfinite) { return true; }
        }
        _ => {}
    }
    c.iter_children().any(card_has_nonfinite)
}

fn module_has_nonfinite(m: &Module) -> bool {
    m.functions.iter().any(|(_, f)| f.cards.iter().any(card_has_nonfinite)) || m.submodules.iter().any(|(_, s)| module_has_nonfinite(s))
}

fn module_cases_opt(w: &mut CaseWriter, name: &str, m: &Module, run: bool) {
    module_cases_opt2(w, name, m, run, true)
}

fn module_cases_opt2(w: &mut CaseWriter, name: &str, m: &Module, run: bool, source: bool) {
    let base = compile(m.clone(), CompileOptions::new()).map(|p| program_fields(&p)).map_err(|e| format!("{:?}", e.payload));
    for f in [Fmt::Json, Fmt::Yaml] {
        if !source { break; }
        let r = enc(f, m).and_then(|b| dec::<Module>(f, &b));
        let (ok, note) = match r {
            Ok(m2) => {
                let m2dbg = m2.clone();
                let again = compile(m2, CompileOptions::new()).map(|p| program_fields(&p)).map_err(|e| format!("{:?}", e.payload));
                let _ = &m2dbg;
                let (d1, d2) = (format!("{:?}", base), format!("{:?}", again));
                let at = d1.bytes().zip(d2.bytes()).position(|(x, y)| x != y).unwrap_or(d1.len().min(d2.len()));
                let ctx = |d: &str| d.chars().skip(at.saturating_sub(60)).take(160).collect::<String>();
                (again == base, format!("module {} through {:?}: recompiled program differs; source differs at {}: `{}` vs `{}`", name, f, at, ctx(&d1), ctx(&d2)))
            }
            Err(e) => (false, format!("module {} through {:?}: {}", name, f, e)),
        };
        rt_case(w, 1, &format!("module.{:?}", f), ok, 0, note);
    }
    if let Ok(p) = compile(m.clone(), CompileOptions::new()) {
        let fields = program_fields(&p);
        let out0 = if run { run_globals(&p) } else { String::new() };
        for f in [Fmt::Json, Fmt::Cbor, Fmt::Bincode] {
            let r = enc(f, &p).and_then(|b| dec::<CaoCompiledProgram>(f, &b));
            let (ok, note) = match r {
                Ok(p2) => {
                    let same_fields = program_fields(&p2) == fields;
                    let same_run = !run || run_globals(&p2) == out0;
                    (same_fields && same_run, format!("compiled {} through {:?}: fields equal={} outcome equal={}", name, f, same_fields, same_run))
                }
                Err(e) => (false, format!("compiled {} through {:?}: {}", name, f, e)),
            };
            rt_case(w, 2, &format!("program.{:?}", f), ok, 0, note);
        }
    }
}

fn gen_owned(rng: &mut Rng, depth: u32, finite_only: bool) -> OwnedValue {
    match rng.below(if depth >= 3 { 4 } else { 6 }) {
        0 => OwnedValue::Nil,
        1 => OwnedValue::Integer([0, 1, -1, i64::MAX, i64::MIN, 1 << 53, 42][rng.below(7) as usize]),
        2 => {
            let pool = [0.0f64, -0.0, 1.5, -2.25, 1e300, 5e-324, f64::MAX, f64::INFINITY, f64::NEG_INFINITY, f64::NAN];
            let n = if finite_only { 7 } else { pool.len() as u64 };
            OwnedValue::Real(pool[rng.below(n) as usize])
        }
        3 => OwnedValue::String(["", "a", "key", "\u{e9}\u{4e16}", "with \"quotes\" and \\ and \n"][rng.below(5) as usize].to_string()),
        _ => {
            let n = rng.below(6) as usize;
            let mut es = vec![];
            let mut seen = std::collections::BTreeSet::new();
            for i in 0..n {
                // distinct keys: table order must survive
                let key = if rng.chance(1, 2) { OwnedValue::Integer(i as i64 * 3 - 1) } else { OwnedValue::String(format!("k{}", i)) };
                if seen.insert(format!("{:?}", key)) {
                    es.push(OwnedEntry { key, value: gen_owned(rng, depth + 1, finite_only) });
                }
            }
            OwnedValue::Table(es)
        }
    }
}
fn owned_eq(a: &OwnedValue, b: &OwnedValue) -> bool {
    match (a, b) {
        (OwnedValue::Nil, OwnedValue::Nil) => true,
        (OwnedValue::Integer(x), OwnedValue::Integer(y)) => x == y,
        (OwnedValue::Real(x), OwnedValue::Real(y)) => x.to_bits() == y.to_bits() || (x.is_nan() && y.is_nan()),
        (OwnedValue::String(x), OwnedValue::String(y)) => x == y,
        (OwnedValue::Table(x), OwnedValue::Table(y)) => x.len() == y.len() && x.iter().zip(y.iter()).all(|(p, q)| owned_eq(&p.key, &q.key) && owned_eq(&p.value, &q.value)),
        _ => false,
    }
}
fn has_nonfinite(v: &OwnedValue) -> bool {
    match v {
        OwnedValue::Real(x) => !x.is_finite(),
        OwnedValue::Table(es) => es.iter().any(|e| has_nonfinite(&e.key) || has_nonfinite(&e.value)),
        _ => false,
    }
}

/// values outside the generator above: nil / real (incl. -0.0 and NaN) / repeated keys, so that the overwrite and
/// the lost-NaN-row behaviour of `table.insert` / `iter` are compared with the model (Owned.v)
fn gen_wild(rng: &mut Rng, depth: u32) -> OwnedValue {
    // the outermost value is a table
    match if depth == 0 { 4 } else { rng.below(if depth >= 3 { 4 } else { 7 }) } {
        0 => OwnedValue::Nil,
        1 => OwnedValue::Integer([0, 1, -1, i64::MIN, 42][rng.below(5) as usize]),
        2 => OwnedValue::Real([0.0f64, -0.0, 1.5, f64::NAN, f64::INFINITY][rng.below(5) as usize]),
        3 => OwnedValue::String(["", "a", "k1"][rng.below(3) as usize].to_string()),
        _ => {
            let n = rng.below(7) as usize;
            let mut es = vec![];
            for _ in 0..n {
                let key = match rng.below(6) {
                    0 => OwnedValue::Nil,
                    1 | 2 => OwnedValue::Integer(rng.below(3) as i64),
                    3 => OwnedValue::String(format!("k{}", rng.below(3))),
                    _ => OwnedValue::Real([0.0f64, -0.0, 1.0, 1.5, f64::NAN, f64::INFINITY][rng.below(6) as usize]),
                };
                es.push(OwnedEntry { key, value: gen_wild(rng, depth + 1) });
            }
            OwnedValue::Table(es)
        }
    }
}

/// an OwnedValue as a term of C11Check.owned
fn coq_owned(v: &OwnedValue) -> String {
    match v {
        OwnedValue::Nil => "onil".into(),
        OwnedValue::Integer(i) => format!("(oint {})", out::z(*i)),
        OwnedValue::Real(x) => format!("(oreal {})", out::n(x.to_bits())),
        OwnedValue::String(s) => format!("(ostr {})", out::bytes(s.as_bytes())),
        OwnedValue::Table(es) => format!(
            "(otable {})",
            out::list(es.iter().map(|e| format!("({}, {})", coq_owned(&e.key), coq_owned(&e.value))))
        ),
    }
}

fn value_case(rng: &mut Rng, w: &mut CaseWriter) {
    let f = [Fmt::Json, Fmt::Cbor, Fmt::Bincode][rng.below(3) as usize];
    let wild = rng.chance(1, 3);
    let finite = rng.chance(3, 4);
    let v0 = if wild { gen_wild(rng, 0) } else { gen_owned(rng, 0, finite) };
    // the value as it lives in a VM, converted to its owned form
    let mut vm1 = Vm::new(()).unwrap();
    let val = vm1.insert_value(&v0).unwrap();
    let owned = OwnedValue::try_from(val).unwrap();
    let r = enc(f, &owned).and_then(|b| dec::<OwnedValue>(f, &b));
    let mut back_term = None;
    let (ok, note) = match r {
        Ok(o2) => {
            let mut vm2 = Vm::new(()).unwrap();
            let v2 = vm2.insert_value(&o2).unwrap();
            let back = OwnedValue::try_from(v2).unwrap();
            back_term = Some(coq_owned(&back));
            (owned_eq(&back, &v0) && owned_eq(&owned, &v0), format!("value {:?} through {:?} came back as {:?}", v0, f, back))
        }
        Err(e) => (false, format!("value {:?} through {:?}: {}", v0, f, e)),
    };
    // JSON has no representation of NaN / infinities (serde_json writes null): known finding A-28
    let known = if f == Fmt::Json && has_nonfinite(&owned) { 10 } else { 0 };
    if known != 0 { w.count("rt.value.json_nonfinite"); }
    if !wild {
        rt_case(w, 3, &format!("value.{:?}", f), ok, known, note.clone());
    }
    // the same run against the model of insert_value / try_from
    w.count(if wild { "ow.wild" } else { "ow.plain" });
    if let OwnedValue::Table(es) = &v0 { if es.len() > 1 { w.count("ow.table"); } }
    let id = w.push(format!("OwRt {} {} {} {}", coq_owned(&v0), coq_owned(&owned), out::opt(back_term), out::n(known)), true);
    w.note(id, note);
}

pub fn gen(a: &Args) {
    let mut rng = Rng::new(a.seed);
    let mut w = CaseWriter::new(&a.out, "C11Check", 25);
    for (name, m) in progs::all(6, 12) {
        out::describe_current(&format!("C11 module {}", name));
        module_cases(&mut w, &name, &m);
    }
    // random module trees (submodules, imports, closures, empty function bodies, faults): the module through
    // JSON / YAML and, when it compiles, the program through JSON / CBOR / bincode.  Fields only: the fixed programs
    // above are also run; a program whose every field is identical runs identically (C17).
    {
        let nmods = if a.tier == "quick" { 60 } else { 600 };
        let cfg = crate::modgen::GenCfg { allow_huge: false, long_strings: false, ..Default::default() };
        let mut stats = crate::modgen::GenStats::default();
        for i in 0..nmods {
            out::describe_current(&format!("C11 random module {}", i));
            let m = crate::modgen::gen_module_bounded(&mut rng, &cfg, &mut stats);
            if m.functions.iter().any(|(n, f)| n != "main" && f.cards.is_empty()) { w.count("module.random.empty_function"); }
            if !m.submodules.is_empty() { w.count("module.random.submodules"); }
            w.count("module.random");
            // non-finite float literals do not survive JSON (A-28, the fixed case below); such modules only take
            // part in the compiled-program round trips
            let src = !module_has_nonfinite(&m);
            if !src { w.count("module.random.nonfinite_literal"); }
            module_cases_opt2(&mut w, &format!("random{}", i), &m, false, src);
        }
    }
    // a module with non-finite float literals through JSON / YAML
    {
        let m = progs::module(vec![("main", progs::f(vec![
            Card::set_global_var("a", Card::from(CardBody::ScalarFloat(f64::INFINITY))),
            Card::set_global_var("b", Card::from(CardBody::ScalarFloat(1.5))),
        ]))]);
        let base = compile(m.clone(), CompileOptions::new()).map(|p| program_fields(&p)).ok();
        for f in [Fmt::Json, Fmt::Yaml] {
            let r = enc(f, &m).and_then(|b| dec::<Module>(f, &b));
            let ok = match r { Ok(m2) => compile(m2, CompileOptions::new()).map(|p| program_fields(&p)).ok() == base, Err(_) => false };
            let known = if f == Fmt::Json { 10 } else { 0 };
            if known != 0 { w.count("rt.module.json_nonfinite"); }
            rt_case(&mut w, 1, &format!("module_nonfinite.{:?}", f), ok, known, format!("module with an infinite float literal through {:?}", f));
        }
    }
    let target = w.len() + a.n;
    while w.len() < target {
        out::describe_current("C11 map / value round trip");
        if rng.chance(if a.tier == "quick" { 2 } else { 3 }, 5) { map_cases(&mut rng, &mut w, a.tier == "quick"); } else { value_case(&mut rng, &mut w); }
    }
    w.finish(serde_json::json!({}));
}
