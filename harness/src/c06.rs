//! C06: a generator dedicated to CLOSURES.  Well-scoped card programs in which closures are nested to
//! depth 4, created inside functions that were called with 0-4 arguments and hold extra locals, at call
//! depth 1-5, inside Repeat / ForEach / While bodies, share variables with sibling closures and with the
//! enclosing scope, are stored in tables / globals, returned, passed to script functions, to the library
//! (std.map / filter / any / min_by_key / sorted_by_key) and to the re-entrant native call1, and called
//! 0..3 times after the creating scope or frame is gone.
//!
//! Two oracles (C06Check.check1):
//!  (A) the observation of the real compiler + VM against `RefSem.eval_program`;
//!  (B) identity by the generator's own bookkeeping: every closure body starts with `log1("t<tag>")`
//!      (its own tag); wherever the generator KNOWS which closure expression created the callee, the call
//!      site logs `log1("w<site>")` immediately before the call (arguments are call-free), and the pair
//!      (site, expected tag) is printed with the case.  The checker demands that the tag entry following
//!      a marker in the OBSERVED log is the expected one.
//!
//! All values that flow are integers, tables of integers, closures and tables of closures, so programs
//! run to the end (no type errors); callables carry a RANK (a context of rank r calls only callables of
//! rank < r), so every call chain ends.
use crate::c01;
use crate::out::{self, CaseWriter};
use crate::rng::Rng;
use crate::Args;
use cao_lang::compiler::{Card, CardBody, ForEach, Function, Module, UnaryExpression};
use std::collections::BTreeMap;

// ------------------------------------------------------------------------------------------------
// card builders
// ------------------------------------------------------------------------------------------------
fn bin(f: fn(Box<[Card; 2]>) -> CardBody, a: Card, b: Card) -> Card {
    f(Box::new([a, b])).into()
}
fn un(f: fn(UnaryExpression) -> CardBody, a: Card) -> Card {
    f(UnaryExpression::new(a)).into()
}
fn int(i: i64) -> Card {
    Card::scalar_int(i)
}
fn strc(s: &str) -> Card {
    Card::string_card(s)
}
fn rd(s: &str) -> Card {
    Card::read_var(s)
}
fn block(mut cards: Vec<Card>) -> Card {
    if cards.len() == 1 {
        cards.pop().unwrap()
    } else {
        Card::composite_card("c", cards)
    }
}
fn closure_card(params: Vec<String>, cards: Vec<Card>) -> Card {
    CardBody::Closure(Box::new(Function { arguments: params, cards })).into()
}
fn for_each(i: Option<String>, k: Option<String>, v: Option<String>, it: Card, body: Card) -> Card {
    CardBody::ForEach(Box::new(ForEach { i, k, v, iterable: Box::new(it), body: Box::new(body) })).into()
}
fn log1(c: Card) -> Card {
    Card::call_native("log1", vec![c])
}

// ------------------------------------------------------------------------------------------------
// kinds
// ------------------------------------------------------------------------------------------------
/// a callable: `tag` = the closure expression that created it when the generator knows it; `ret` = the
/// kind of closure it returns (None: it returns an integer)
#[derive(Clone, Debug, PartialEq)]
struct FnK {
    arity: u8,
    rank: u8,
    tag: Option<u32>,
    ret: Option<Box<FnK>>,
}
#[derive(Clone, Debug, PartialEq)]
enum RKey {
    I(i64),
    S(String),
}
#[derive(Clone, Debug, PartialEq)]
enum K {
    Int,
    /// immutable table of integers with that many entries (keys 0..n-1)
    Tab(usize),
    Fn(FnK),
    /// table (keys 0..) of closures that all come from ONE closure expression
    TabFn(FnK),
    /// table with statically known fields holding closures
    Rec(Vec<(RKey, FnK)>),
}
/// what a closure to be generated must look like
#[derive(Clone, Debug)]
struct Shape {
    arity: u8,
    ret: Option<Box<Shape>>,
}

#[derive(Clone, Copy, Debug, PartialEq)]
enum Origin {
    Local,
    Param,
    LoopI,
    LoopK,
    LoopV,
    WhileCounter,
}

#[derive(Clone, Debug)]
struct Var {
    name: String,
    k: K,
    ro: bool,
    global: bool,
    /// 0: a local of the running function; n: a variable of the n-th enclosing function
    level: u8,
    origin: Origin,
}

#[derive(Clone, Copy, Debug, PartialEq)]
enum LoopKind {
    Repeat,
    ForEach,
    While,
}

struct Scope {
    vars: Vec<Var>,
    /// a closure created so far captured a variable declared in this scope
    cap: bool,
    /// name -> (closures that captured it, closures that write it)
    capcount: BTreeMap<String, (u32, u32)>,
}
impl Scope {
    fn new(vars: Vec<Var>) -> Self {
        Scope { vars, cap: false, capcount: BTreeMap::new() }
    }
}

struct Fx {
    module: usize,
    rank: u8,
    /// None: main; Some(None): returns an integer; Some(Some(k)): must return a closure of that kind
    ret_int: bool,
    is_main: bool,
    scopes: Vec<Scope>,
    up: Vec<Var>,
    cdepth: u8,
    loops: Vec<LoopKind>,
    /// static call depth of the enclosing function along the guaranteed chain (main = 0)
    fdepth: u8,
    /// parameters of the enclosing static function
    frame_args: u8,
    /// names taken from `up` in this body: (name, level, written)
    captured: Vec<(String, u8, bool)>,
    /// top level of main: unconditional, not in a loop
    top: bool,
}

#[derive(Clone, Debug)]
struct Sig {
    module: usize,
    name: String,
    params: Vec<(String, K)>,
    ret: K,
    rank: u8,
    fdepth: u8,
    /// globals this function assigns unconditionally
    sets: Vec<Var>,
    /// apply template: the first parameter is a callable that is called FIRST, before anything is logged
    apply: bool,
}

struct ModInfo {
    path: Vec<String>,
    imports: Vec<String>,
    names: BTreeMap<usize, Vec<String>>,
}

pub struct Gen<'a> {
    rng: &'a mut Rng,
    sigs: Vec<Sig>,
    mods: Vec<ModInfo>,
    paths: Vec<Vec<String>>,
    /// globals usable everywhere (assigned at the start of main)
    globals: Vec<Var>,
    /// closure-holding globals main may use by now
    main_globals: Vec<Var>,
    nv: usize,
    ntag: u32,
    nsite: u32,
    ngc: u32,
    budget: i32,
    pub sites: Vec<(String, String)>,
    pub feats: BTreeMap<String, u64>,
    /// loop variables / parameters that re-use the name of a variable visible where they are declared
    shadow_names: std::collections::HashSet<String>,
}

const MAX_CDEPTH: u8 = 4;

impl<'a> Gen<'a> {
    fn feat(&mut self, f: &str) {
        *self.feats.entry(f.to_string()).or_insert(0) += 1;
    }
    fn fresh(&mut self, p: &str) -> String {
        self.nv += 1;
        format!("{}{}", p, self.nv)
    }
    /// innermost first; a name hides the same name further out
    fn visible(&self, fx: &Fx) -> Vec<Var> {
        let mut seen = std::collections::HashSet::new();
        let mut out = vec![];
        for sc in fx.scopes.iter().rev() {
            for v in sc.vars.iter().rev() {
                if seen.insert(v.name.clone()) {
                    out.push(v.clone());
                }
            }
        }
        for v in fx.up.iter() {
            if seen.insert(v.name.clone()) {
                out.push(v.clone());
            }
        }
        for v in self.globals.iter() {
            if seen.insert(v.name.clone()) {
                out.push(v.clone());
            }
        }
        if fx.is_main {
            for v in self.main_globals.iter() {
                if seen.insert(v.name.clone()) {
                    out.push(v.clone());
                }
            }
        }
        out
    }
    /// a variable satisfying `pred`; inside a closure, captured variables are preferred
    fn pick_var(&mut self, fx: &mut Fx, write: bool, pred: impl Fn(&Var) -> bool) -> Option<Var> {
        let all: Vec<Var> = self.visible(fx).into_iter().filter(|v| pred(v)).collect();
        if all.is_empty() {
            return None;
        }
        let ups: Vec<Var> = all.iter().filter(|v| v.level >= 1).cloned().collect();
        let far: Vec<Var> = ups.iter().filter(|v| v.level >= 2).cloned().collect();
        let v = if !far.is_empty() && self.rng.chance(1, 3) {
            far[self.rng.below(far.len() as u64) as usize].clone()
        } else if !ups.is_empty() && self.rng.chance(1, 2) {
            ups[self.rng.below(ups.len() as u64) as usize].clone()
        } else {
            all[self.rng.below(all.len() as u64) as usize].clone()
        };
        self.note_use(fx, &v, write);
        Some(v)
    }
    fn note_use(&mut self, fx: &mut Fx, v: &Var, write: bool) {
        if v.level >= 1 {
            match fx.captured.iter_mut().find(|c| c.0 == v.name) {
                Some(c) => c.2 |= write,
                None => fx.captured.push((v.name.clone(), v.level, write)),
            }
            if write {
                self.feat("closure.writes_captured");
            }
            if v.level >= 2 {
                self.feat(&format!("upvalue.nonlocal{}", v.level.min(3)));
            }
            if v.origin != Origin::Local && self.shadow_names.contains(&v.name) {
                self.feat("capture.shadowing_variable");
            }
            match v.origin {
                Origin::Param => self.feat("capture.param"),
                Origin::LoopI => self.feat("capture.loopvar_i"),
                Origin::LoopK => self.feat("capture.loopvar_k"),
                Origin::LoopV => self.feat("capture.loopvar_v"),
                Origin::WhileCounter => self.feat("capture.while_counter"),
                Origin::Local => {}
            }
        } else if write && !v.global {
            // the enclosing scope writes a variable some closure already holds
            for sc in fx.scopes.iter().rev() {
                if sc.vars.iter().any(|x| x.name == v.name) {
                    if sc.capcount.get(&v.name).map(|c| c.0 > 0).unwrap_or(false) {
                        self.feat("enclosing_write_after_capture");
                    }
                    break;
                }
            }
        }
    }

    // ---------------------------------------------------------------- integer expressions (call-free)
    fn ileaf(&mut self, fx: &mut Fx) -> Card {
        if self.rng.chance(3, 5) {
            if let Some(v) = self.pick_var(fx, false, |v| v.k == K::Int) {
                return rd(&v.name);
            }
        }
        int(self.rng.range(-2, 9))
    }
    fn iexpr(&mut self, fx: &mut Fx, d: u32) -> Card {
        if d == 0 || self.rng.chance(1, 3) {
            return self.ileaf(fx);
        }
        let ops: [fn(Box<[Card; 2]>) -> CardBody; 3] = [CardBody::Add, CardBody::Sub, CardBody::Mul];
        let f = *self.rng.pick(&ops);
        let (a, b) = (self.iexpr(fx, d - 1), self.ileaf(fx));
        bin(f, a, b)
    }
    fn cond(&mut self, fx: &mut Fx) -> Card {
        let ops: [fn(Box<[Card; 2]>) -> CardBody; 3] = [CardBody::Less, CardBody::Equals, CardBody::LessOrEq];
        let f = *self.rng.pick(&ops);
        let (a, b) = (self.iexpr(fx, 1), self.ileaf(fx));
        bin(f, a, b)
    }

    // ---------------------------------------------------------------- names of functions
    fn call_name(&mut self, from: usize, sig: usize) -> String {
        let names = self.mods[from].names.get(&sig).cloned().unwrap_or_default();
        assert!(!names.is_empty(), "no way to name function {} from module {}", sig, from);
        names[self.rng.below(names.len() as u64) as usize].clone()
    }

    // ---------------------------------------------------------------- markers
    fn marker(&mut self, fk: &FnK) -> Option<Card> {
        let t = fk.tag?;
        self.nsite += 1;
        let w = format!("w{}", self.nsite);
        self.sites.push((w.clone(), format!("t{}", t)));
        Some(log1(strc(&w)))
    }

    // ---------------------------------------------------------------- closures
    fn shape_of(fk: &FnK) -> Shape {
        Shape { arity: fk.arity, ret: fk.ret.as_ref().map(|r| Box::new(Self::shape_of(r))) }
    }
    fn matches(fk: &FnK, sh: &Shape, maxrank: u8) -> bool {
        fk.arity == sh.arity
            && fk.rank <= maxrank
            && match (&fk.ret, &sh.ret) {
                (None, None) => true,
                (Some(a), Some(b)) => Self::matches(a, b, maxrank),
                _ => false,
            }
    }
    fn rand_shape(&mut self, fx: &Fx) -> Shape {
        let arity = self.rng.weighted(&[4, 4, 2, 1]) as u8;
        let ret = if fx.cdepth + 2 <= MAX_CDEPTH && fx.rank >= 3 && self.rng.chance(1, 4) {
            let a2 = self.rng.weighted(&[4, 3, 1]) as u8;
            Some(Box::new(Shape { arity: a2, ret: None }))
        } else {
            None
        };
        Shape { arity, ret }
    }
    /// a closure expression of the given shape and rank (rank < fx.rank is the caller's business)
    fn closure(&mut self, fx: &mut Fx, sh: &Shape, rank: u8) -> (Card, FnK) {
        self.ntag += 1;
        let tag = self.ntag;
        let mut params: Vec<String> = vec![];
        for _ in 0..sh.arity {
            let shadow = if self.rng.chance(1, 6) {
                let c: Vec<Var> = self
                    .visible(fx)
                    .into_iter()
                    .filter(|v| !v.global && v.k == K::Int && !params.contains(&v.name))
                    .collect();
                if c.is_empty() { None } else { Some(c[self.rng.below(c.len() as u64) as usize].name.clone()) }
            } else {
                None
            };
            match shadow {
                Some(n) => {
                    self.feat("shadow.param");
                    self.shadow_names.insert(n.clone());
                    params.push(n)
                }
                None => {
                    let n = self.fresh("p");
                    params.push(n)
                }
            }
        }
        // what the body may capture: the visible variables of fx, one level further out
        let mut up = vec![];
        {
            let mut seen = std::collections::HashSet::new();
            for sc in fx.scopes.iter().rev() {
                for v in sc.vars.iter().rev() {
                    if seen.insert(v.name.clone()) {
                        let mut v = v.clone();
                        v.level = 1;
                        up.push(v);
                    }
                }
            }
            for v in fx.up.iter() {
                if seen.insert(v.name.clone()) {
                    let mut v = v.clone();
                    v.level += 1;
                    up.push(v);
                }
            }
        }
        let mut cfx = Fx {
            module: fx.module,
            rank,
            ret_int: sh.ret.is_none(),
            is_main: false,
            scopes: vec![Scope::new(
                params
                    .iter()
                    .map(|p| Var { name: p.clone(), k: K::Int, ro: false, global: false, level: 0, origin: Origin::Param })
                    .collect(),
            )],
            up,
            cdepth: fx.cdepth + 1,
            loops: vec![],
            fdepth: fx.fdepth,
            frame_args: fx.frame_args,
            captured: vec![],
            top: false,
        };
        self.feat(&format!("closure.depth{}", cfx.cdepth));
        self.feat(&format!("closure.arity{}", sh.arity));
        self.feat(&format!("closure.calldepth{}", fx.fdepth.min(5)));
        self.feat(&format!("closure.frame_args{}", fx.frame_args));
        if fx.cdepth == 0 {
            let locals: usize = fx.scopes.iter().map(|s| s.vars.len()).sum::<usize>() - fx.frame_args as usize;
            self.feat(&format!("closure.locals_before{}", locals.min(4)));
        }
        match fx.loops.last() {
            Some(LoopKind::Repeat) => self.feat("closure.in_repeat"),
            Some(LoopKind::ForEach) => self.feat("closure.in_foreach"),
            Some(LoopKind::While) => self.feat("closure.in_while"),
            None => {}
        }
        if fx.loops.len() >= 2 {
            self.feat("closure.in_nested_loop");
        }
        if !self.mods[fx.module].path.is_empty() {
            self.feat("closure.in_submodule");
        }
        let mut cards = vec![log1(strc(&format!("t{}", tag)))];
        let n = self.rng.below(4) as usize;
        for _ in 0..n {
            let s = self.stmt(&mut cfx, true, 2);
            cards.extend(s);
        }
        let ret = match &sh.ret {
            None => {
                let e = self.iexpr(&mut cfx, 2);
                cards.push(Card::return_card(e));
                None
            }
            Some(inner) => {
                let r = rank.saturating_sub(1);
                let (c, fk) = self.fnv(&mut cfx, inner, r);
                self.feat("closure.returns_closure");
                cards.push(Card::return_card(c));
                Some(Box::new(fk))
            }
        };
        // bookkeeping of what was captured
        let captured = std::mem::take(&mut cfx.captured);
        for (name, level, written) in captured {
            if level == 1 {
                for sc in fx.scopes.iter_mut().rev() {
                    if sc.vars.iter().any(|x| x.name == name) {
                        sc.cap = true;
                        let e = sc.capcount.entry(name.clone()).or_insert((0, 0));
                        e.0 += 1;
                        if written {
                            e.1 += 1;
                        }
                        if e.0 >= 2 && e.1 >= 1 {
                            *self.feats.entry("siblings.shared_written_var".into()).or_insert(0) += 1;
                        }
                        break;
                    }
                }
            } else {
                match fx.captured.iter_mut().find(|c| c.0 == name) {
                    Some(c) => c.2 |= written,
                    None => fx.captured.push((name, level - 1, written)),
                }
            }
        }
        (closure_card(params, cards), FnK { arity: sh.arity, rank, tag: Some(tag), ret })
    }
    /// a callable value of the given shape and rank <= maxrank: a variable, a record field or a new closure
    fn fnv(&mut self, fx: &mut Fx, sh: &Shape, maxrank: u8) -> (Card, FnK) {
        let vars: Vec<Var> =
            self.visible(fx).into_iter().filter(|v| matches!(&v.k, K::Fn(fk) if Self::matches(fk, sh, maxrank))).collect();
        if !vars.is_empty() && (fx.cdepth >= MAX_CDEPTH || self.budget <= 0 || self.rng.chance(2, 5)) {
            let v = vars[self.rng.below(vars.len() as u64) as usize].clone();
            self.note_use(fx, &v, false);
            let K::Fn(fk) = v.k.clone() else { unreachable!() };
            self.feat("value.fn_variable");
            return (rd(&v.name), fk);
        }
        if fx.cdepth >= MAX_CDEPTH {
            // no deeper nesting: a closure-free stand-in is impossible, so nest anyway only through a
            // trivial body (the budget is exhausted, statements are leaves)
            self.budget = self.budget.min(0);
        }
        self.closure(fx, sh, maxrank)
    }

    // ---------------------------------------------------------------- calls
    fn args_for_arity(&mut self, fx: &mut Fx, arity: u8, surplus_ok: bool) -> Vec<Card> {
        let mut args: Vec<Card> = (0..arity).map(|_| self.iexpr(fx, 1)).collect();
        if surplus_ok && self.rng.chance(1, 8) {
            args.insert(0, int(77));
            self.feat("dyncall.surplus_argument");
        }
        args
    }
    /// what to do with the result of `call` (a card yielding one value of kind int / closure `ret`)
    fn use_value(&mut self, fx: &mut Fx, decl: bool, call: Card, ret: &Option<Box<FnK>>) -> Vec<Card> {
        match ret {
            None => match self.rng.weighted(&[5, 3, if decl { 3 } else { 0 }, 3, 2]) {
                0 => vec![log1(call)],
                1 => match self.pick_var(fx, true, |v| v.k == K::Int && !v.ro && !v.global) {
                    Some(v) => vec![Card::set_var(v.name, call)],
                    None => vec![log1(call)],
                },
                2 => {
                    let n = self.declare(fx, K::Int);
                    vec![Card::set_var(n, call)]
                }
                3 => {
                    self.statement_value(fx);
                    vec![call]
                }
                _ => {
                    let g = format!("g{}", self.rng.below(4));
                    vec![Card::set_global_var(g, call)]
                }
            },
            Some(r) => {
                if decl {
                    let n = self.declare(fx, K::Fn((**r).clone()));
                    self.feat("closure.returned_by_closure_kept");
                    vec![Card::set_var(n, call)]
                } else {
                    self.statement_value(fx);
                    vec![call]
                }
            }
        }
    }
    /// a value is left on the stack at statement level
    fn statement_value(&mut self, fx: &mut Fx) {
        self.feat("statement_level_value");
        if fx.scopes.last().map(|s| s.cap).unwrap_or(false) {
            self.feat("junk_above_captured");
            if fx.scopes.len() > 1 {
                self.feat("junk_above_captured_in_loop_body");
            }
        }
    }
    /// call one of the callables in sight (with a marker when its creating expression is known)
    fn call_callable(&mut self, fx: &mut Fx, decl: bool) -> Option<Vec<Card>> {
        let rank = fx.rank;
        // candidates: variables and record fields
        let mut cands: Vec<(Card, FnK, Var)> = vec![];
        for v in self.visible(fx) {
            match &v.k {
                K::Fn(fk) if fk.rank < rank => cands.push((rd(&v.name), fk.clone(), v.clone())),
                K::Rec(fields) => {
                    for (key, fk) in fields {
                        if fk.rank < rank {
                            let c = match key {
                                RKey::S(s) if self.rng.chance(1, 2) => rd(&format!("{}.{}", v.name, s)),
                                RKey::S(s) => Card::get_property(rd(&v.name), strc(s)),
                                RKey::I(i) => Card::get_property(rd(&v.name), int(*i)),
                            };
                            cands.push((c, fk.clone(), v.clone()));
                        }
                    }
                }
                _ => {}
            }
        }
        if cands.is_empty() {
            return None;
        }
        let (callee, fk, v) = cands[self.rng.below(cands.len() as u64) as usize].clone();
        self.note_use(fx, &v, false);
        if v.global {
            self.feat("call.closure_in_global");
        }
        if matches!(v.k, K::Rec(_)) {
            self.feat("call.closure_in_record");
        }
        if fk.tag.is_none() {
            self.feat("call.closure_parameter");
        }
        let mut out = vec![];
        let how = self.rng.weighted(&[8, if fk.arity == 1 && fk.ret.is_none() { 2 } else { 0 }, 2]);
        match how {
            1 => {
                // through the re-entrant native
                let x = self.iexpr(fx, 1);
                if let Some(m) = self.marker(&fk) {
                    out.push(m);
                }
                self.feat("native.call1");
                let call = Card::call_native("call1", vec![callee, x]);
                out.extend(self.use_value(fx, decl, call, &None));
            }
            2 if self.apply_sig(fx, &fk).is_some() => {
                let si = self.apply_sig(fx, &fk).unwrap();
                let sig = self.sigs[si].clone();
                // arguments in CALL order: the first argument binds the last parameter
                let mut args: Vec<Card> = sig.params.iter().skip(1).map(|_| self.iexpr(fx, 1)).collect();
                args.push(callee); // binds the FIRST parameter
                if let Some(m) = self.marker(&fk) {
                    out.push(m);
                }
                self.feat("call.closure_argument_of_function");
                let name = self.call_name(fx.module, si);
                let call = Card::call_function(name, args);
                out.extend(self.use_value(fx, decl, call, &fk.ret));
            }
            _ => {
                let args = self.args_for_arity(fx, fk.arity, true);
                if let Some(m) = self.marker(&fk) {
                    out.push(m);
                }
                self.feat("dyncall");
                let call = Card::dynamic_call(callee, args);
                out.extend(self.use_value(fx, decl, call, &fk.ret));
            }
        }
        Some(out)
    }
    /// an apply template that can take this callable from this context
    fn apply_sig(&self, fx: &Fx, fk: &FnK) -> Option<usize> {
        (0..self.sigs.len()).find(|i| {
            let s = &self.sigs[*i];
            s.apply && s.rank < fx.rank && matches!(&s.params[0].1, K::Fn(p) if p.arity == fk.arity && fk.rank <= p.rank)
        })
    }
    /// std.map / filter / any / min_by_key / sorted_by_key with a closure as callback
    fn std_call(&mut self, fx: &mut Fx) -> Option<Vec<Card>> {
        if fx.rank < 2 {
            return None;
        }
        let t = self.pick_var(fx, false, |v| matches!(v.k, K::Tab(_)))?;
        let K::Tab(len) = t.k else { unreachable!() };
        let which = *self.rng.pick(&["map", "filter", "any", "min_by_key", "sorted_by_key"]);
        let arity = match which {
            "map" | "filter" | "any" => self.rng.below(4) as u8,
            _ => self.rng.below(3) as u8,
        };
        let sh = Shape { arity, ret: None };
        let (cb, fk) = self.fnv(fx, &sh, fx.rank - 1);
        let mut out = vec![];
        if len > 0 {
            if let Some(m) = self.marker(&fk) {
                out.push(m);
            }
        }
        self.feat(&format!("std.{}", which));
        out.push(log1(Card::call_function(format!("std.{}", which), vec![cb, rd(&t.name)])));
        Some(out)
    }
    fn static_call(&mut self, fx: &mut Fx, decl: bool, want: Option<usize>) -> Option<Vec<Card>> {
        let c: Vec<usize> = match want {
            Some(i) => vec![i],
            None => (0..self.sigs.len())
                .filter(|i| self.sigs[*i].rank < fx.rank && !self.sigs[*i].apply && (fx.is_main || self.sigs[*i].name != "twin"))
                .filter(|i| fx.loops.len() < 2 || self.sigs[*i].rank <= 10)
                .collect(),
        };
        if c.is_empty() {
            return None;
        }
        let i = c[self.rng.below(c.len() as u64) as usize];
        let sig = self.sigs[i].clone();
        let mut args: Vec<Card> = vec![];
        for (_, k) in sig.params.iter() {
            match k {
                K::Int => args.push(self.iexpr(fx, 1)),
                K::Fn(p) => {
                    let sh = Self::shape_of(p);
                    let (c, _) = self.fnv(fx, &sh, p.rank);
                    self.feat("call.closure_argument_of_function");
                    args.push(c)
                }
                _ => unreachable!(),
            }
        }
        args.reverse();
        let name = self.call_name(fx.module, i);
        if !name.contains('.') && sig.module != fx.module {
            self.feat("call.via_import");
        }
        let call = Card::call_function(name, args);
        if fx.top {
            for g in sig.sets.iter() {
                if !self.main_globals.iter().any(|x| x.name == g.name) {
                    self.main_globals.push(g.clone());
                }
            }
        }
        Some(match &sig.ret {
            K::Int => self.use_value(fx, decl, call, &None),
            K::Fn(fk) if decl => {
                let n = self.declare(fx, K::Fn(fk.clone()));
                self.feat("closure.returned_from_function");
                vec![Card::set_var(n, call)]
            }
            k @ (K::TabFn(_) | K::Rec(_)) if decl => {
                let n = self.declare(fx, k.clone());
                self.feat("closure.table_returned_from_function");
                vec![Card::set_var(n, call)]
            }
            _ => {
                self.statement_value(fx);
                vec![call]
            }
        })
    }

    // ---------------------------------------------------------------- statements
    fn declare(&mut self, fx: &mut Fx, k: K) -> String {
        let p = match k {
            K::Int => "v",
            K::Fn(_) => "f",
            _ => "tf",
        };
        let name = self.fresh(p);
        let ro = !matches!(k, K::Int);
        fx.scopes.last_mut().unwrap().vars.push(Var { name: name.clone(), k, ro, global: false, level: 0, origin: Origin::Local });
        name
    }
    fn loop_var(&mut self, fx: &Fx, p: &str) -> String {
        if self.rng.chance(1, 5) {
            let c: Vec<Var> = self.visible(fx).into_iter().filter(|v| !v.global && v.k == K::Int).collect();
            if !c.is_empty() {
                self.feat("shadow.loop_variable");
                let n = c[self.rng.below(c.len() as u64) as usize].name.clone();
                self.shadow_names.insert(n.clone());
                return n;
            }
        }
        self.fresh(p)
    }
    fn body(&mut self, fx: &mut Fx, decl: bool, d: u32) -> Card {
        let n = 1 + self.rng.below(3) as usize;
        let mut cards = vec![];
        for _ in 0..n {
            cards.extend(self.stmt(fx, decl, d));
        }
        block(cards)
    }
    fn stmt(&mut self, fx: &mut Fx, decl: bool, d: u32) -> Vec<Card> {
        self.budget -= 1;
        let small = d == 0 || self.budget <= 0;
        let d1 = d.saturating_sub(1);
        let can_close = fx.rank >= 1 && fx.cdepth < MAX_CDEPTH && self.budget > 0;
        let nl = fx.loops.len();
        let w: [u32; 14] = [
            if decl { 5 } else { 0 },                            // 0 declare an integer
            6,                                                   // 1 assign an integer variable
            3,                                                   // 2 log an integer
            1,                                                   // 3 set a global integer
            if decl && can_close { 8 } else { 0 },               // 4 declare a closure variable
            9,                                                   // 5 call a callable in sight
            if small || nl >= 2 { 0 } else { 5 },                // 6 repeat
            if small || nl >= 2 { 0 } else { 4 },                // 7 for each
            if small || nl >= 2 || !decl { 0 } else { 3 },       // 8 while
            if small { 0 } else { 3 },                           // 9 if
            3,                                                   // 10 call a function
            if can_close { 3 } else { 0 },                       // 11 library call with a callback
            if decl && can_close && !small { 8 } else { 0 },     // 12 idioms
            if fx.ret_int && !fx.is_main { 1 } else { 0 },       // 13 early return
        ];
        match self.rng.weighted(&w) {
            0 => {
                let e = self.iexpr(fx, 2);
                let n = self.declare(fx, K::Int);
                vec![Card::set_var(n, e)]
            }
            1 => match self.pick_var(fx, true, |v| v.k == K::Int && !v.ro && !v.global) {
                Some(v) => {
                    // mostly an update that depends on the old value
                    let e = if self.rng.chance(2, 3) {
                        let ops: [fn(Box<[Card; 2]>) -> CardBody; 2] = [CardBody::Add, CardBody::Mul];
                        let f = *self.rng.pick(&ops);
                        bin(f, rd(&v.name), self.ileaf(fx))
                    } else {
                        self.iexpr(fx, 2)
                    };
                    vec![Card::set_var(v.name, e)]
                }
                None => vec![log1(self.iexpr(fx, 2))],
            },
            2 => vec![log1(self.iexpr(fx, 2))],
            3 => {
                let g = format!("g{}", self.rng.below(4));
                let e = self.iexpr(fx, 2);
                vec![Card::set_global_var(g, e)]
            }
            4 => {
                let sh = self.rand_shape(fx);
                // sometimes a low rank, so that the closure fits the callable parameters of functions
                let r = if self.rng.chance(1, 3) { (fx.rank - 1).min(3) } else { fx.rank - 1 };
                let (c, fk) = self.closure(fx, &sh, r);
                if fx.is_main && fx.top && self.rng.chance(1, 4) {
                    self.ngc += 1;
                    let name = format!("gc{}", self.ngc);
                    self.main_globals.push(Var { name: name.clone(), k: K::Fn(fk), ro: true, global: true, level: 0, origin: Origin::Local });
                    self.feat("closure.stored_in_global");
                    vec![Card::set_global_var(name, c)]
                } else {
                    let n = self.declare(fx, K::Fn(fk));
                    vec![Card::set_var(n, c)]
                }
            }
            5 => match self.call_callable(fx, decl) {
                Some(c) => c,
                None => vec![log1(self.iexpr(fx, 2))],
            },
            6 => {
                let n = if self.rng.chance(1, 8) { int(0) } else { int(self.rng.range(1, 3)) };
                let i = if self.rng.chance(3, 4) { Some(self.loop_var(fx, "i")) } else { None };
                fx.scopes.push(Scope::new(
                    i.iter().map(|n| Var { name: n.clone(), k: K::Int, ro: true, global: false, level: 0, origin: Origin::LoopI }).collect(),
                ));
                fx.loops.push(LoopKind::Repeat);
                let top = std::mem::replace(&mut fx.top, false);
                let b = self.body(fx, true, d1);
                fx.top = top;
                fx.loops.pop();
                fx.scopes.pop();
                self.feat("repeat");
                vec![Card::repeat(n, i, b)]
            }
            7 => self.for_each_stmt(fx, d1),
            8 => {
                let wv = self.fresh("w");
                fx.scopes.last_mut().unwrap().vars.push(Var {
                    name: wv.clone(),
                    k: K::Int,
                    ro: true,
                    global: false,
                    level: 0,
                    origin: Origin::WhileCounter,
                });
                let n = self.rng.range(1, 3);
                fx.loops.push(LoopKind::While);
                let top = std::mem::replace(&mut fx.top, false);
                let nb = 1 + self.rng.below(2) as usize;
                let mut cards = vec![];
                for _ in 0..nb {
                    cards.extend(self.stmt(fx, false, d1));
                }
                fx.top = top;
                fx.loops.pop();
                cards.push(Card::set_var(wv.clone(), bin(CardBody::Add, rd(&wv), int(1))));
                self.feat("while");
                vec![Card::set_var(wv.clone(), int(0)), bin(CardBody::While, bin(CardBody::Less, rd(&wv), int(n)), block(cards))]
            }
            9 => {
                let c = self.cond(fx);
                let top = std::mem::replace(&mut fx.top, false);
                let r = match self.rng.below(3) {
                    0 => bin(CardBody::IfTrue, c, self.body(fx, false, d1)),
                    1 => bin(CardBody::IfFalse, c, self.body(fx, false, d1)),
                    _ => {
                        let (a, b) = (self.body(fx, false, d1), self.body(fx, false, d1));
                        CardBody::IfElse(Box::new([c, a, b])).into()
                    }
                };
                fx.top = top;
                vec![r]
            }
            10 => match self.static_call(fx, decl, None) {
                Some(c) => c,
                None => vec![log1(self.iexpr(fx, 2))],
            },
            11 => match self.std_call(fx) {
                Some(c) => c,
                None => vec![log1(self.iexpr(fx, 2))],
            },
            12 => self.idiom(fx),
            _ => {
                let c = self.cond(fx);
                let e = self.iexpr(fx, 1);
                if !fx.loops.is_empty() {
                    self.feat("return_in_loop");
                }
                vec![bin(CardBody::IfTrue, c, Card::return_card(e))]
            }
        }
    }
    fn for_each_stmt(&mut self, fx: &mut Fx, d1: u32) -> Vec<Card> {
        // over a table of closures (calling them) or over a table of integers
        let rank = fx.rank;
        let tf = if self.rng.chance(3, 4) {
            self.pick_var(fx, false, |v| matches!(&v.k, K::TabFn(fk) if fk.rank < rank))
        } else {
            None
        };
        let (it, vk) = match tf {
            Some(v) => {
                let K::TabFn(fk) = v.k.clone() else { unreachable!() };
                if v.global {
                    self.feat("call.closure_in_global");
                }
                (v, K::Fn(fk))
            }
            None => match self.pick_var(fx, false, |v| matches!(v.k, K::Tab(_))) {
                Some(v) => (v, K::Int),
                None => return vec![log1(self.iexpr(fx, 1))],
            },
        };
        let is_fn = matches!(vk, K::Fn(_));
        let vv = if is_fn || self.rng.chance(3, 4) {
            Some(if is_fn { self.fresh("e") } else { self.loop_var(fx, "e") })
        } else {
            None
        };
        let kv = if self.rng.chance(1, 2) { Some(self.fresh("k")) } else { None };
        let iv = if self.rng.chance(1, 2) { Some(self.fresh("i")) } else { None };
        let mut sc = vec![];
        if let Some(n) = &vv {
            sc.push(Var { name: n.clone(), k: vk.clone(), ro: true, global: false, level: 0, origin: Origin::LoopV });
        }
        if let Some(n) = &kv {
            sc.push(Var { name: n.clone(), k: K::Int, ro: true, global: false, level: 0, origin: Origin::LoopK });
        }
        if let Some(n) = &iv {
            sc.push(Var { name: n.clone(), k: K::Int, ro: true, global: false, level: 0, origin: Origin::LoopI });
        }
        fx.scopes.push(Scope::new(sc));
        fx.loops.push(LoopKind::ForEach);
        let top = std::mem::replace(&mut fx.top, false);
        let mut cards = vec![];
        if let (K::Fn(fk), Some(e)) = (&vk, &vv) {
            // call every stored closure (each iteration of the creating loop made its own)
            let args = self.args_for_arity(fx, fk.arity, false);
            if let Some(m) = self.marker(fk) {
                cards.push(m);
            }
            self.feat("call.closure_in_table");
            let call = Card::dynamic_call(rd(e), args);
            cards.extend(self.use_value(fx, true, call, &fk.ret));
        }
        let n = self.rng.below(3) as usize + if is_fn { 0 } else { 1 };
        for _ in 0..n {
            cards.extend(self.stmt(fx, true, d1));
        }
        fx.top = top;
        fx.loops.pop();
        fx.scopes.pop();
        self.feat("for_each");
        vec![for_each(iv, kv, vv, rd(&it.name), block(cards))]
    }

    // ---------------------------------------------------------------- idioms (guaranteed density)
    fn idiom(&mut self, fx: &mut Fx) -> Vec<Card> {
        let r = fx.rank - 1;
        match self.rng.below(5) {
            0 => {
                // closures made in a loop, stored in a table, called after the loop is over
                let (mut cards, tf) = self.loop_table(fx);
                if self.rng.chance(3, 4) {
                    cards.extend(self.call_all(fx, &tf));
                }
                cards
            }
            1 => {
                // sibling closures over one variable: writers and readers, interleaved with the scope
                let x = self.declare(fx, K::Int);
                let mut out = vec![Card::set_var(x.clone(), int(self.rng.range(0, 5)))];
                let nw = 1 + self.rng.below(2) as usize;
                let mut names: Vec<(String, FnK)> = vec![];
                for j in 0..nw + 1 {
                    self.ntag += 1;
                    let tag = self.ntag;
                    let body = if j < nw {
                        let ops: [fn(Box<[Card; 2]>) -> CardBody; 2] = [CardBody::Add, CardBody::Mul];
                        let f = *self.rng.pick(&ops);
                        vec![
                            log1(strc(&format!("t{}", tag))),
                            Card::set_var(x.clone(), bin(f, rd(&x), int(self.rng.range(2, 4)))),
                            Card::return_card(rd(&x)),
                        ]
                    } else {
                        vec![log1(strc(&format!("t{}", tag))), Card::return_card(rd(&x))]
                    };
                    let fk = FnK { arity: 0, rank: r, tag: Some(tag), ret: None };
                    let n = self.declare(fx, K::Fn(fk.clone()));
                    out.push(Card::set_var(n.clone(), closure_card(vec![], body)));
                    names.push((n, fk));
                    self.feat(&format!("closure.depth{}", fx.cdepth + 1));
                }
                if let Some(sc) = fx.scopes.last_mut() {
                    sc.cap = true;
                    sc.capcount.insert(x.clone(), (nw as u32 + 1, nw as u32));
                }
                self.feat("siblings.idiom");
                self.feat("siblings.shared_written_var");
                let steps = 3 + self.rng.below(6);
                for _ in 0..steps {
                    match self.rng.below(4) {
                        0 => {
                            self.feat("enclosing_write_after_capture");
                            out.push(Card::set_var(x.clone(), bin(CardBody::Add, rd(&x), int(self.rng.range(1, 9)))))
                        }
                        1 => out.push(log1(rd(&x))),
                        _ => {
                            let (n, fk) = names[self.rng.below(names.len() as u64) as usize].clone();
                            if let Some(m) = self.marker(&fk) {
                                out.push(m);
                            }
                            let call = Card::dynamic_call(rd(&n), vec![]);
                            if self.rng.chance(1, 4) {
                                self.statement_value(fx);
                                out.push(call);
                            } else {
                                out.push(log1(call));
                            }
                        }
                    }
                }
                out
            }
            2 => {
                // many captured variables in one scope
                let m = 2 + self.rng.below(7) as usize;
                let mut out = vec![];
                let mut names = vec![];
                for j in 0..m {
                    let e0 = self.ileaf(fx);
                    let n = self.declare(fx, K::Int);
                    out.push(Card::set_var(n.clone(), bin(CardBody::Add, e0, int(j as i64 + 1))));
                    names.push(n);
                }
                self.ntag += 1;
                let tag = self.ntag;
                let mut sum = rd(&names[0]);
                for (j, n) in names.iter().enumerate().skip(1) {
                    sum = bin(CardBody::Add, sum, bin(CardBody::Mul, rd(n), int(j as i64 + 2)));
                }
                let w = names[self.rng.below(m as u64) as usize].clone();
                let body = vec![
                    log1(strc(&format!("t{}", tag))),
                    Card::set_var(w.clone(), bin(CardBody::Add, rd(&w), int(100))),
                    Card::return_card(sum),
                ];
                let fk = FnK { arity: 0, rank: r, tag: Some(tag), ret: None };
                let f = self.declare(fx, K::Fn(fk.clone()));
                out.push(Card::set_var(f.clone(), closure_card(vec![], body)));
                if let Some(sc) = fx.scopes.last_mut() {
                    sc.cap = true;
                    for n in names.iter() {
                        sc.capcount.insert(n.clone(), (1, 0));
                    }
                }
                self.feat(&format!("capture.many{}", m));
                self.feat("capture.many");
                self.feat(&format!("closure.depth{}", fx.cdepth + 1));
                if let Some(mk) = self.marker(&fk) {
                    out.push(mk);
                }
                out.push(log1(Card::dynamic_call(rd(&f), vec![])));
                out.push(log1(rd(&w)));
                out
            }
            3 => {
                // an object: a table whose fields are closures over shared state
                let (cards, _) = self.record(fx);
                cards
            }
            _ => {
                // a closure called on the spot
                let sh = self.rand_shape(fx);
                let (c, fk) = self.closure(fx, &sh, r);
                let args = self.args_for_arity(fx, fk.arity, false);
                let mut out = vec![];
                if let Some(m) = self.marker(&fk) {
                    out.push(m);
                }
                self.feat("closure.called_on_the_spot");
                let call = Card::dynamic_call(c, args);
                out.extend(self.use_value(fx, true, call, &fk.ret));
                out
            }
        }
    }
    /// foreach e in tf { w<site>; e(args) }: every closure of the table is called, the loop that made them is over
    fn call_all(&mut self, fx: &mut Fx, tf: &str) -> Vec<Card> {
        let Some(v) = self.visible(fx).into_iter().find(|v| v.name == tf) else { return vec![] };
        let K::TabFn(fk) = v.k.clone() else { return vec![] };
        if fk.rank >= fx.rank {
            return vec![];
        }
        self.note_use(fx, &v, false);
        let e = self.fresh("e");
        let kv = if self.rng.chance(1, 3) { Some(self.fresh("k")) } else { None };
        let mut sc = vec![Var { name: e.clone(), k: K::Fn(fk.clone()), ro: true, global: false, level: 0, origin: Origin::LoopV }];
        if let Some(k) = &kv {
            sc.push(Var { name: k.clone(), k: K::Int, ro: true, global: false, level: 0, origin: Origin::LoopK });
        }
        fx.scopes.push(Scope::new(sc));
        fx.loops.push(LoopKind::ForEach);
        let top = std::mem::replace(&mut fx.top, false);
        let args = self.args_for_arity(fx, fk.arity, false);
        let mut cards = vec![];
        if let Some(m) = self.marker(&fk) {
            cards.push(m);
        }
        self.feat("call.closure_in_table");
        self.feat("call.all_of_table_after_loop");
        let call = Card::dynamic_call(rd(&e), args);
        cards.extend(self.use_value(fx, true, call, &fk.ret));
        fx.top = top;
        fx.loops.pop();
        fx.scopes.pop();
        vec![for_each(None, kv, Some(e), rd(tf), block(cards))]
    }
    /// tf := {}; <loop> { locals; AppendTable(closure, tf); more }  - returns the cards and the variable
    fn loop_table(&mut self, fx: &mut Fx) -> (Vec<Card>, String) {
        let r = fx.rank - 1;
        let tf = self.fresh("tf");
        let mut out = vec![Card::set_var(tf.clone(), Card::from(CardBody::CreateTable))];
        // the table is visible (read-only) while the loop is generated, but not yet as a table of closures
        fx.scopes.last_mut().unwrap().vars.push(Var { name: tf.clone(), k: K::Tab(0), ro: true, global: false, level: 0, origin: Origin::Local });
        let idx = fx.scopes.last().unwrap().vars.len() - 1;
        let si = fx.scopes.len() - 1;
        // Tab(0) must not be used as an iterable / library operand meanwhile: hide it
        fx.scopes[si].vars[idx].k = K::Rec(vec![]);
        let kind = self.rng.weighted(&[4, 3, 2]);
        let sh = Shape { arity: self.rng.weighted(&[5, 3, 1]) as u8, ret: None };
        let top = std::mem::replace(&mut fx.top, false);
        let fk;
        match kind {
            0 => {
                let i = Some(self.loop_var(fx, "i"));
                fx.scopes.push(Scope::new(
                    i.iter().map(|n| Var { name: n.clone(), k: K::Int, ro: true, global: false, level: 0, origin: Origin::LoopI }).collect(),
                ));
                fx.loops.push(LoopKind::Repeat);
                let (cards, k) = self.loop_table_body(fx, &tf, &sh, r, true);
                fk = k;
                fx.loops.pop();
                fx.scopes.pop();
                out.push(Card::repeat(int(self.rng.range(1, 3)), i, block(cards)));
            }
            1 => {
                let t = self.pick_var(fx, false, |v| matches!(v.k, K::Tab(n) if n > 0)).expect("a global table of integers");
                let vv = Some(self.loop_var(fx, "e"));
                let kv = if self.rng.chance(2, 3) { Some(self.fresh("k")) } else { None };
                let iv = if self.rng.chance(2, 3) { Some(self.fresh("i")) } else { None };
                let mut sc = vec![];
                for (n, o) in [(&vv, Origin::LoopV), (&kv, Origin::LoopK), (&iv, Origin::LoopI)] {
                    if let Some(n) = n {
                        sc.push(Var { name: n.clone(), k: K::Int, ro: true, global: false, level: 0, origin: o });
                    }
                }
                fx.scopes.push(Scope::new(sc));
                fx.loops.push(LoopKind::ForEach);
                let (cards, k) = self.loop_table_body(fx, &tf, &sh, r, true);
                fk = k;
                fx.loops.pop();
                fx.scopes.pop();
                out.push(for_each(iv, kv, vv, rd(&t.name), block(cards)));
            }
            _ => {
                let wv = self.fresh("w");
                fx.scopes.last_mut().unwrap().vars.push(Var {
                    name: wv.clone(),
                    k: K::Int,
                    ro: true,
                    global: false,
                    level: 0,
                    origin: Origin::WhileCounter,
                });
                fx.loops.push(LoopKind::While);
                let (mut cards, k) = self.loop_table_body(fx, &tf, &sh, r, false);
                fk = k;
                fx.loops.pop();
                cards.push(Card::set_var(wv.clone(), bin(CardBody::Add, rd(&wv), int(1))));
                out.push(Card::set_var(wv.clone(), int(0)));
                out.push(bin(CardBody::While, bin(CardBody::Less, rd(&wv), int(self.rng.range(1, 3))), block(cards)));
            }
        }
        fx.top = top;
        fx.scopes[si].vars[idx].k = K::TabFn(fk);
        self.feat("closure.loop_table");
        (out, tf)
    }
    fn loop_table_body(&mut self, fx: &mut Fx, tf: &str, sh: &Shape, r: u8, decl: bool) -> (Vec<Card>, FnK) {
        let mut cards = vec![];
        let nb = self.rng.below(3) as usize;
        for _ in 0..nb {
            if decl && self.rng.chance(2, 3) {
                // a body local that depends on the iteration
                let e = bin(CardBody::Add, bin(CardBody::Mul, self.ileaf(fx), int(10)), self.ileaf(fx));
                let n = self.declare(fx, K::Int);
                cards.push(Card::set_var(n, e));
            } else {
                cards.extend(self.stmt(fx, decl, 1));
            }
        }
        let (c, fk) = self.closure(fx, sh, r);
        cards.push(bin(CardBody::AppendTable, c, rd(tf)));
        self.feat("closure.appended_to_table");
        let na = self.rng.below(3) as usize;
        for _ in 0..na {
            cards.extend(self.stmt(fx, decl, 1));
        }
        (cards, fk)
    }
    /// o := {}; o.a := closure; ... (or an array literal of closures)
    fn record(&mut self, fx: &mut Fx) -> (Vec<Card>, String) {
        let r = fx.rank - 1;
        let o = self.fresh("tf");
        let mut out = vec![];
        let mut fields = vec![];
        let n = 2 + self.rng.below(2) as usize;
        // shared state declared first, so that the closures are siblings over it
        let e0 = self.iexpr(fx, 1);
        let st = self.declare(fx, K::Int);
        out.push(Card::set_var(st.clone(), e0));
        if self.rng.chance(1, 2) {
            let mut items = vec![];
            for j in 0..n {
                let sh = Shape { arity: self.rng.below(2) as u8, ret: None };
                let (c, fk) = self.closure(fx, &sh, r);
                items.push(c);
                fields.push((RKey::I(j as i64), fk));
            }
            self.feat("closure.in_array");
            out.push(Card::set_var(o.clone(), Card::from(CardBody::Array(items))));
        } else {
            out.push(Card::set_var(o.clone(), Card::from(CardBody::CreateTable)));
            // visible while the fields are generated, without fields yet
            for j in 0..n {
                let sh = Shape { arity: self.rng.below(2) as u8, ret: None };
                let (c, fk) = self.closure(fx, &sh, r);
                let key = ["inc", "get", "add"][j % 3].to_string();
                if self.rng.chance(1, 2) {
                    out.push(Card::set_var(format!("{}.{}", o, key), c));
                } else {
                    out.push(Card::set_property(c, rd(&o), strc(&key)));
                }
                fields.push((RKey::S(key), fk));
            }
            self.feat("closure.in_record");
        }
        fx.scopes.last_mut().unwrap().vars.push(Var { name: o.clone(), k: K::Rec(fields), ro: true, global: false, level: 0, origin: Origin::Local });
        (out, o)
    }

    // ---------------------------------------------------------------- functions
    fn function_body(&mut self, si: usize, chain: Option<usize>) -> Function {
        let sig = self.sigs[si].clone();
        // a function that publishes a closure in a global does so on every path: no early return
        let will_set = sig.name != "twin" && self.rng.chance(1, 3);
        let mut fx = Fx {
            module: sig.module,
            rank: sig.rank,
            ret_int: sig.ret == K::Int && !will_set,
            is_main: false,
            scopes: vec![Scope::new(
                sig.params
                    .iter()
                    .map(|(n, k)| Var { name: n.clone(), k: k.clone(), ro: !matches!(k, K::Int), global: false, level: 0, origin: Origin::Param })
                    .collect(),
            )],
            up: vec![],
            cdepth: 0,
            loops: vec![],
            fdepth: sig.fdepth,
            frame_args: sig.params.len() as u8,
            captured: vec![],
            top: false,
        };
        let n = 1 + self.rng.below(4) as usize;
        let chain_at = self.rng.below(n as u64 + 1) as usize;
        let mut cards = vec![];
        for j in 0..n + 1 {
            if j == chain_at {
                if let Some(c) = chain {
                    cards.extend(self.static_call(&mut fx, true, Some(c)).unwrap());
                }
            }
            if j < n {
                cards.extend(self.stmt(&mut fx, true, 3));
            }
        }
        // a global that keeps a closure of this frame alive
        if will_set {
            let sh = Shape { arity: self.rng.below(2) as u8, ret: None };
            let r = fx.rank - 1;
            let (c, fk) = self.closure(&mut fx, &sh, r);
            self.ngc += 1;
            let name = format!("gc{}", self.ngc);
            self.sigs[si].sets.push(Var { name: name.clone(), k: K::Fn(fk), ro: true, global: true, level: 0, origin: Origin::Local });
            self.feat("closure.stored_in_global");
            cards.push(Card::set_global_var(name, c));
        }
        let shape = sig.ret.clone();
        match shape {
            K::Int => {
                let e = self.iexpr(&mut fx, 2);
                cards.push(Card::return_card(e));
            }
            K::Fn(want) => {
                let sh = Self::shape_of(&want);
                let (c, fk) = self.fnv(&mut fx, &sh, sig.rank - 1);
                self.feat("closure.returned");
                self.sigs[si].ret = K::Fn(fk);
                cards.push(Card::return_card(c));
            }
            K::TabFn(_) => {
                let (c, tf) = self.loop_table(&mut fx);
                cards.extend(c);
                let k = fx.scopes[0].vars.iter().find(|v| v.name == tf).unwrap().k.clone();
                self.feat("closure.table_returned");
                self.sigs[si].ret = k;
                cards.push(Card::return_card(rd(&tf)));
            }
            K::Rec(_) => {
                let (c, o) = self.record(&mut fx);
                cards.extend(c);
                let k = fx.scopes[0].vars.iter().find(|v| v.name == o).unwrap().k.clone();
                self.feat("closure.record_returned");
                self.sigs[si].ret = k;
                cards.push(Card::return_card(rd(&o)));
            }
            K::Tab(_) => unreachable!(),
        }
        Function { arguments: sig.params.iter().map(|p| p.0.clone()).collect(), cards }
    }
}

fn relative(from: &[String], to: &[String], name: &str) -> String {
    let mut c = 0;
    while c < from.len() && c < to.len() && from[c] == to[c] {
        c += 1;
    }
    let mut s = String::new();
    for _ in c..from.len() {
        s.push_str("super.");
    }
    let mut parts: Vec<&str> = to[c..].iter().map(|x| x.as_str()).collect();
    parts.push(name);
    s.push_str(&parts.join("."));
    s
}

/// One random closure program, the (site, expected tag) pairs and the features it contains.
pub fn gen_program(rng: &mut Rng, feats: &mut BTreeMap<String, u64>) -> (Module, Vec<(String, String)>) {
    let mut paths: Vec<Vec<String>> = vec![vec![]];
    if rng.chance(3, 4) {
        paths.push(vec!["ma".into()]);
        if rng.chance(1, 2) {
            paths.push(vec!["ma".into(), "mb".into()]);
        }
        if rng.chance(1, 2) {
            paths.push(vec!["mc".into()]);
        }
    }
    let mut nv = 0usize;
    let mut sigs: Vec<Sig> = vec![];
    // apply templates: apply<a>(f, x1..xa, pad..): extra locals, then `return f(x1..xa)`
    for a in 0..3u8 {
        let module = rng.below(paths.len() as u64) as usize;
        let pad = rng.below(3) as usize;
        let mut params = vec![];
        nv += 1;
        params.push((format!("p{}", nv), K::Fn(FnK { arity: a, rank: 3, tag: None, ret: None })));
        for _ in 0..a as usize + pad {
            nv += 1;
            params.push((format!("p{}", nv), K::Int));
        }
        sigs.push(Sig { module, name: format!("apply{}", a), params, ret: K::Int, rank: 4, fdepth: 1, sets: vec![], apply: true });
    }
    // the chain: fun0 (deepest) .. fun{n-1} (called by main); rank 5 * (i + 1)
    let nf = 1 + rng.below(5) as usize;
    for i in 0..nf {
        let module = rng.below(paths.len() as u64) as usize;
        let rank = 5 * (i as u8 + 1);
        let a = rng.below(5) as usize;
        let mut params = vec![];
        for j in 0..a {
            nv += 1;
            let k = if j == 0 && rng.chance(1, 4) {
                K::Fn(FnK { arity: rng.below(3) as u8, rank: rank - 2, tag: None, ret: None })
            } else {
                K::Int
            };
            params.push((format!("p{}", nv), k));
        }
        let dummy = FnK { arity: 0, rank: 0, tag: None, ret: None };
        let ret = match rng.weighted(&[4, 5, 2, 2]) {
            0 => K::Int,
            1 => {
                let inner = if rng.chance(1, 3) { Some(Box::new(FnK { arity: rng.below(2) as u8, ..dummy.clone() })) } else { None };
                K::Fn(FnK { arity: rng.below(3) as u8, rank: 0, tag: None, ret: inner })
            }
            2 => K::TabFn(dummy.clone()),
            _ => K::Rec(vec![]),
        };
        sigs.push(Sig { module, name: format!("fun{}", i), params, ret, rank, fdepth: (nf - i) as u8, sets: vec![], apply: false });
    }
    // twins: the same body shape at the same card positions in two different modules
    let twins = paths.len() >= 2 && rng.chance(2, 3);
    if twins {
        let m1 = rng.below(paths.len() as u64) as usize;
        let mut m2 = rng.below(paths.len() as u64) as usize;
        if m2 == m1 {
            m2 = (m1 + 1) % paths.len();
        }
        for m in [m1, m2] {
            let dummy = FnK { arity: 0, rank: 0, tag: None, ret: None };
            sigs.push(Sig { module: m, name: "twin".into(), params: vec![], ret: K::Fn(dummy), rank: 4, fdepth: 1, sets: vec![], apply: false });
        }
    }
    // names and imports
    let mut mods: Vec<ModInfo> = paths.iter().map(|p| ModInfo { path: p.clone(), imports: vec![], names: BTreeMap::new() }).collect();
    for (mi, m) in mods.iter_mut().enumerate() {
        for (si, s) in sigs.iter().enumerate() {
            let target = &paths[s.module];
            let mut names = vec![];
            let mut abs: Vec<&str> = target.iter().map(|x| x.as_str()).collect();
            abs.push(&s.name);
            names.push(abs.join("."));
            if s.module == mi {
                names.push(s.name.clone());
            } else if s.name != "twin" && rng.chance(1, 2) {
                let alias = relative(&m.path, target, &s.name);
                if alias.contains('.') {
                    m.imports.push(alias);
                    names.push(s.name.clone());
                }
            }
            m.names.insert(si, names);
        }
    }
    let mut globals: Vec<Var> =
        (0..4).map(|i| Var { name: format!("g{}", i), k: K::Int, ro: false, global: true, level: 0, origin: Origin::Local }).collect();
    let tabs: Vec<(String, Vec<i64>)> = vec![("ta".into(), vec![3, 1, 2]), ("tb".into(), vec![5]), ("te".into(), vec![])];
    for (n, items) in tabs.iter() {
        globals.push(Var { name: n.clone(), k: K::Tab(items.len()), ro: true, global: true, level: 0, origin: Origin::Local });
    }
    let budget = 40 + rng.below(120) as i32;
    let mut g = Gen {
        rng,
        sigs,
        mods,
        paths: paths.clone(),
        globals,
        main_globals: vec![],
        nv,
        ntag: 0,
        nsite: 0,
        ngc: 0,
        budget,
        sites: vec![],
        feats: BTreeMap::new(),
        shadow_names: Default::default(),
    };
    let total = g.budget;
    let mut functions: Vec<Vec<(String, Function)>> = paths.iter().map(|_| vec![]).collect();
    let mut prev_chain: Option<usize> = None;
    let mut twin_rng: Option<Rng> = None;
    for si in 0..g.sigs.len() {
        let sig = g.sigs[si].clone();
        let f = if sig.apply {
            // pad locals first (frame offset), then the call of the parameter: nothing is logged before it
            let a = match &sig.params[0].1 {
                K::Fn(p) => p.arity as usize,
                _ => unreachable!(),
            };
            let mut cards = vec![];
            for (j, (p, _)) in sig.params.iter().enumerate().skip(1 + a) {
                cards.push(Card::set_var(format!("l{}", j), bin(CardBody::Add, rd(p), int(1))));
            }
            let args: Vec<Card> = sig.params.iter().skip(1).take(a).map(|(p, _)| rd(p)).collect();
            cards.push(Card::return_card(Card::dynamic_call(rd(&sig.params[0].0), args)));
            Function { arguments: sig.params.iter().map(|p| p.0.clone()).collect(), cards }
        } else if sig.name == "twin" {
            // both twins are generated from the same random stream: same shape, same card positions
            match twin_rng.clone() {
                None => twin_rng = Some(g.rng.clone()),
                Some(r) => *g.rng = r,
            }
            g.budget = 25;
            g.feat("identity.same_position_twins");
            g.function_body(si, None)
        } else {
            g.budget = total / 2;
            let f = g.function_body(si, prev_chain);
            prev_chain = Some(si);
            f
        };
        functions[g.sigs[si].module].push((g.sigs[si].name.clone(), f));
    }
    // main
    g.budget = total;
    let top = 5 * (nf as u8 + 2);
    let mut fx = Fx {
        module: 0,
        rank: top,
        ret_int: false,
        is_main: true,
        scopes: vec![Scope::new(vec![])],
        up: vec![],
        cdepth: 0,
        loops: vec![],
        fdepth: 0,
        frame_args: 0,
        captured: vec![],
        top: true,
    };
    let mut cards = vec![];
    for i in 0..4 {
        cards.push(Card::set_global_var(format!("g{}", i), int(i as i64 * 7)));
    }
    for (n, items) in tabs.iter() {
        cards.push(Card::set_global_var(n.clone(), Card::from(CardBody::Array(items.iter().map(|x| int(*x)).collect()))));
    }
    // the chain and the twins are always reached
    let chain_top = prev_chain.unwrap();
    let twin_ix: Vec<usize> = (0..g.sigs.len()).filter(|i| g.sigs[*i].name == "twin").collect();
    let n = 3 + g.rng.below(7) as usize;
    let chain_at = g.rng.below(n as u64) as usize;
    let twin_at = g.rng.below(n as u64) as usize;
    for j in 0..n {
        if j == chain_at {
            cards.extend(g.static_call(&mut fx, true, Some(chain_top)).unwrap());
        }
        if j == twin_at {
            for t in twin_ix.iter() {
                cards.extend(g.static_call(&mut fx, true, Some(*t)).unwrap());
            }
        }
        cards.extend(g.stmt(&mut fx, true, 3));
    }
    // whatever closures main still holds are called at the end, in random order, 0..3 times each
    let mut late = vec![];
    for _ in 0..(2 + g.rng.below(5)) {
        if let Some(c) = g.call_callable(&mut fx, true) {
            g.feat("call.late");
            late.extend(c);
        }
    }
    cards.extend(late);
    let tabs_of_main: Vec<String> = g.visible(&fx).into_iter().filter(|v| matches!(v.k, K::TabFn(_))).map(|v| v.name).collect();
    for tf in tabs_of_main {
        if g.rng.chance(2, 3) {
            let c = g.call_all(&mut fx, &tf);
            cards.extend(c);
        }
    }
    let pos = g.rng.below(functions[0].len() as u64 + 1) as usize;
    functions[0].insert(pos, ("main".into(), Function { arguments: vec![], cards }));
    for (k, v) in g.feats.iter() {
        *feats.entry(k.clone()).or_insert(0) += *v;
    }
    fn build(paths: &[Vec<String>], mods: &[ModInfo], functions: &mut Vec<Vec<(String, Function)>>, at: &[String]) -> Module {
        let mi = paths.iter().position(|p| p == at).unwrap();
        let mut m = Module { submodules: vec![], functions: std::mem::take(&mut functions[mi]), imports: mods[mi].imports.clone() };
        for p in paths.iter() {
            if p.len() == at.len() + 1 && p[..at.len()] == *at {
                m.submodules.push((p.last().unwrap().clone(), build(paths, mods, functions, p)));
            }
        }
        m
    }
    let sites = std::mem::take(&mut g.sites);
    let m = build(&paths, &g.mods, &mut functions, &[]);
    (m, sites)
}

fn case_term(m: &Module, host: &[&str], obs: &str, sites: &[(String, String)]) -> String {
    format!(
        "closcase {} {} {} {}",
        crate::c16::module(m),
        out::list(host.iter().map(|h| out::bytes(h.as_bytes()))),
        obs,
        out::list(sites.iter().map(|(w, t)| format!("({}, {})", out::bytes(w.as_bytes()), out::bytes(t.as_bytes()))))
    )
}

/// hand-finalised witnesses of findings/C06 (they fail on a tree that still has R-2 / R-4), run first
const CORPUS: [(&str, &str, &str); 3] = [
    (
        "S-1",
        include_str!("../../findings/C06/S-1_per_iteration_closures_below_a_statement_value.json"),
        include_str!("../../findings/C06/S-1_per_iteration_closures_below_a_statement_value.sites.json"),
    ),
    (
        "S-2",
        include_str!("../../findings/C06/S-2_closure_names_shadowing_loop_variable.json"),
        include_str!("../../findings/C06/S-2_closure_names_shadowing_loop_variable.sites.json"),
    ),
    (
        "S-3",
        include_str!("../../findings/C06/S-3_loop_variable_shadows_parameter_in_submodule.json"),
        include_str!("../../findings/C06/S-3_loop_variable_shadows_parameter_in_submodule.sites.json"),
    ),
];

/// instruction budget of a run: longer runs are skipped as resource errors (they would also be long for
/// the evaluation of the reference semantics inside Coq)
const MAX_ITER: &str = "60000";

pub fn gen(a: &Args) {
    let mut rng = Rng::new(a.seed);
    let mut w = CaseWriter::new(&a.out, "C06Check", 10);
    let host: Vec<&str> = c01::MENU.to_vec();
    let mut corpus: Vec<(&str, Module, Vec<(String, String)>)> = CORPUS
        .iter()
        .map(|(n, m, s)| (*n, serde_json::from_str::<Module>(m).expect("corpus module"), serde_json::from_str(s).expect("corpus sites")))
        .collect();
    corpus.reverse();
    while w.len() < a.n {
        let mut feats = BTreeMap::new();
        let (m, sites) = match corpus.pop() {
            Some((name, m, s)) => {
                feats.insert(format!("corpus.{}", name), 1);
                (m, s)
            }
            None => gen_program(&mut rng, &mut feats),
        };
        out::describe_current(&format!("C06 program #{} (seed {})", w.len() + 1, a.seed));
        let cur = a.out.join("current.json");
        std::fs::write(&cur, serde_json::to_string(&m).unwrap()).unwrap();
        let child = std::process::Command::new(std::env::current_exe().unwrap())
            .arg("c01-obs")
            .arg(&cur)
            .arg(host.join(","))
            .env("VERIF_MAX_ITER", MAX_ITER)
            .output()
            .expect("spawn");
        let text = String::from_utf8_lossy(&child.stdout).to_string();
        let (obs, class) = match (child.status.success(), text.split_once('\n')) {
            (true, Some((class, obs))) => (obs.trim().to_string(), class.to_string()),
            _ => {
                let keep = a.out.join(format!("crash_{}.json", w.len() + 1));
                let _ = std::fs::copy(&cur, &keep);
                ("obspanic".to_string(), "crash".to_string())
            }
        };
        w.count(&class.split(':').next().unwrap().to_string());
        if class == "resource" {
            w.count("skipped.resource_error");
        }
        if !sites.is_empty() {
            w.count("identity.sites");
        }
        // how much the identity oracle sees: markers in the text, markers met by the run
        w.count_n("identity.sites_in_text", sites.len() as u64);
        w.count_n("identity.markers_in_observed_log", obs.matches("(trstr [119%N").count() as u64);
        for (k, _) in feats.iter() {
            w.count(k);
        }
        let term = case_term(&m, &host, &obs, &sites);
        let id = w.push(term, (feats.len() >= 12 || feats.keys().any(|k| k.starts_with("corpus."))) && class != "resource");
        if std::env::var("C06_KEEP").is_ok() {
            let _ = std::fs::copy(&cur, a.out.join(format!("prog_{}.json", id)));
            let _ = std::fs::write(a.out.join(format!("sites_{}.json", id)), serde_json::to_string(&sites).unwrap());
        }
        if class.starts_with("compile_error") {
            w.note(id, class);
        }
    }
    w.finish(serde_json::json!({}));
}

/// `cao-verif-harness c06-case <module.json> [sites.json]`: runs one module and prints a complete Coq file
/// that checks it and shows what the reference semantics predicts
pub fn replay(path: &str, sites: Option<&str>) {
    let m: Module = serde_json::from_str(&std::fs::read_to_string(path).unwrap()).unwrap();
    let env_sites = std::env::var("C06_SITES").ok();
    let sites: Vec<(String, String)> = match sites.or(env_sites.as_deref()) {
        Some(p) => serde_json::from_str(&std::fs::read_to_string(p).unwrap()).unwrap(),
        None => vec![],
    };
    let host = c01::MENU.to_vec();
    let (obs, _) = c01::observe(&m, &host);
    if std::env::var("C06_ERRMSG").is_ok() {
        if let Ok(p) = cao_lang::prelude::compile(m.clone(), cao_lang::compiler::CompileOptions::new()) {
            let mut vm = c01::new_vm(&host);
            eprintln!("run: {:?}", vm.run(&p));
        }
    }
    println!("From Cao Require Import C06Check.");
    println!("Definition c := {}.", case_term(&m, &host, &obs, &sites));
    println!("Eval vm_compute in (check_all [(1%N, c)]).");
    println!("Eval vm_compute in (which c).");
    println!("Eval vm_compute in (diagnose c).");
    println!("Eval vm_compute in (predict c).");
}
