//! Hand-written programs run under forced collections with quarantine + heap audit.
use cao_lang::compiler::{CompileOptions, Module};
use cao_lang::prelude::*;
use cao_lang::verif_hooks as vh;

pub struct GcRun {
    pub outcome: String,
    pub audit_failures: Vec<String>,
    pub final_audit: Result<(), String>,
    pub allocations: u64,
    pub collections: u64,
}

/// schedule: None = no forcing; Some(None) = collect at every allocation; Some(Some(v)) = at these indices
pub fn run_with_schedule(m: Module, schedule: Option<Option<Vec<u64>>>, max_iter: u64) -> GcRun {
    let program = compile(m, CompileOptions::new()).expect("compile");
    vh::quarantine(true);
    vh::audit_on_gc(true);
    let gc0 = vh::gc_count();
    let mut vm = Vm::new(()).unwrap().with_max_iter(max_iter);
    fn alloc_then_return(vm: &mut Vm<()>, v: Value) -> Result<Value, ExecutionErrorPayload> {
        let _s = vm.init_string("the native allocates while it holds its argument")?;
        Ok(v)
    }
    vm.register_native_function("alloc_then_return", into_f1(alloc_then_return)).unwrap();
    vh::force_gc_at(Some(schedule.clone().unwrap_or(Some(vec![]))));
    let r = vm.run(&program);
    let allocations = vh::allocation_index();
    vh::force_gc_at(None);
    let outcome = match &r {
        Ok(()) => "Ok".to_string(),
        Err(e) => format!("Err({:?})", e.payload),
    };
    let final_audit = vh::heap_audit(&vm.runtime_data).map(|_| ());
    let audit_failures = vh::take_audit_failures();
    vh::audit_on_gc(false);
    let collections = vh::gc_count() - gc0;
    GcRun { outcome, audit_failures, final_audit, allocations, collections }
}

fn f(cards: Vec<Card>) -> Function {
    Function::default().with_cards(cards)
}

/// `(closure)()` : the callee closure is referenced only by its call frame while it runs
pub fn prog_inline_closure_call() -> Module {
    Module {
        imports: vec![],
        submodules: vec![],
        functions: vec![(
            "main".into(),
            f(vec![
                Card::set_var("x", Card::scalar_int(5)),
                Card::dynamic_call(
                    Card::from(CardBody::Closure(Box::new(f(vec![
                        Card::set_var("s", Card::string_card("allocate inside the closure")),
                        Card::set_global_var("g", Card::read_var("x")),
                    ])))),
                    vec![],
                ),
            ]),
        )],
    }
}

/// a closure that captured a local is dropped before the scope ends: its open upvalue stays in the
/// open-upvalue list
pub fn prog_dropped_closure_open_upvalue() -> Module {
    Module {
        imports: vec![],
        submodules: vec![],
        functions: vec![(
            "main".into(),
            f(vec![
                Card::set_var("x", Card::scalar_int(5)),
                // statement-level closure: created, its value discarded
                Card::from(CardBody::Closure(Box::new(f(vec![Card::set_global_var("g", Card::read_var("x"))])))),
                Card::set_var("s", Card::string_card("allocate after the closure is gone")),
                Card::set_var("t", Card::string_card("and once more")),
                Card::set_global_var("done", Card::scalar_int(1)),
            ]),
        )],
    }
}

/// fill a table with fresh strings through SetProperty / AppendTable
pub fn prog_table_fill(append: bool) -> Module {
    let body = if append {
        Card::from(CardBody::AppendTable(Box::new([Card::string_card("a fresh value"), Card::read_var("t")])))
    } else {
        Card::set_property(Card::string_card("a fresh value"), Card::read_var("t"), Card::read_var("i"))
    };
    Module {
        imports: vec![],
        submodules: vec![],
        functions: vec![(
            "main".into(),
            f(vec![
                Card::set_var("t", Card::from(CardBody::CreateTable)),
                Card::repeat(Card::scalar_int(24), Some("i".to_string()), body),
                Card::set_global_var("g", Card::read_var("t")),
            ]),
        )],
    }
}

/// NthRow on a table that only the operand slot refers to
pub fn prog_nth_row_of_temporary() -> Module {
    Module {
        imports: vec![],
        submodules: vec![],
        functions: vec![
            (
                "mk".into(),
                f(vec![
                    Card::set_var("t", Card::from(CardBody::CreateTable)),
                    Card::from(CardBody::AppendTable(Box::new([Card::string_card("only element"), Card::read_var("t")]))),
                    Card::return_card(Card::read_var("t")),
                ]),
            ),
            (
                "main".into(),
                f(vec![Card::set_global_var(
                    "g",
                    Card::from(CardBody::Get(Box::new([Card::call_function("mk", vec![]), Card::scalar_int(0)]))),
                )]),
            ),
        ],
    }
}

/// a native function receives a temporary table, allocates, and hands the table back
pub fn prog_native_temporary_argument() -> Module {
    let mut m = prog_nth_row_of_temporary();
    m.functions[1] = (
        "main".into(),
        f(vec![Card::set_global_var("g", Card::call_native("alloc_then_return", vec![Card::call_function("mk", vec![])]))]),
    );
    m
}

pub fn run(which: &str) {
    let m = match which {
        "native-temporary-argument" => prog_native_temporary_argument(),
        "set-property-fill" => prog_table_fill(false),
        "append-fill" => prog_table_fill(true),
        "nth-row-temporary" => prog_nth_row_of_temporary(),
        "inline-closure-call" => prog_inline_closure_call(),
        "dropped-closure-open-upvalue" => prog_dropped_closure_open_upvalue(),
        _ => { eprintln!("unknown gc probe"); return; }
    };
    let base = run_with_schedule(m.clone(), None, 10_000);
    println!("no forced collection: outcome={} allocations={} collections={}", base.outcome, base.allocations, base.collections);
    let all = run_with_schedule(m, Some(None), 10_000);
    println!("collection at every allocation: outcome={} collections={}", all.outcome, all.collections);
    for a in &all.audit_failures { println!("  AUDIT FAILED {}", a); }
    println!("  final audit: {:?}", all.final_audit);
}
