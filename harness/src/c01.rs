//! C01 (with C06, C09): generated WELL-SCOPED card programs composing all features of the language,
//! compiled and run by the real crate; the module (as a CardAst term), the registered natives and the
//! observation (success / error kind, final globals by name as trees, log of the native calls) are
//! printed for `C01Check.check1`, which evaluates the reference semantics `RefSem.eval_program`.
//!
//! The generator is kind-directed so that most programs run to the end: every variable has a kind
//! (any value / table / callable of arity a / table of callables), callables carry a RANK and a
//! function or closure of rank r only calls callables of rank < r, so every call chain ends; loops
//! are bounded by construction (small counts, counters that the body cannot assign).
use crate::out::{self, CaseWriter};
use crate::rng::Rng;
use crate::Args;
use cao_lang::compiler::{Card, CardBody, CompileOptions, ForEach, Function, Module, UnaryExpression};
use cao_lang::prelude::*;
use cao_lang::vm::runtime::RuntimeData;
use std::collections::BTreeMap;
use std::panic::{catch_unwind, AssertUnwindSafe};

const TREE_DEPTH: u32 = 6;
const NAN_BITS: u64 = 0x7ff8_0000_0000_0000;

// ------------------------------------------------------------------------------------------------
// observation
// ------------------------------------------------------------------------------------------------
pub fn tree(v: Value, depth: u32) -> String {
    match v {
        Value::Nil => "trnil".into(),
        Value::Integer(i) => format!("(trint {})", out::z(i)),
        Value::Real(r) => format!("(trreal {})", out::n(if r.is_nan() { NAN_BITS } else { r.to_bits() })),
        Value::Object(_) => unsafe {
            if let Some(s) = v.as_str() {
                format!("(trstr {})", out::bytes(s.as_bytes()))
            } else if let Some(t) = v.as_table() {
                if depth == 0 {
                    "trcut".into()
                } else {
                    format!(
                        "(trtable {})",
                        out::list(t.iter().map(|(k, x)| format!("({}, {})", tree(*k, depth - 1), tree(*x, depth - 1))))
                    )
                }
            } else {
                "trfn".into()
            }
        },
    }
}

#[derive(Default)]
pub struct Aux {
    pub log: Vec<(String, Vec<String>)>,
    /// bytes logged so far: a run that logs more than LOG_LIMIT is cut off with a resource error
    pub bytes: usize,
}
const LOG_LIMIT: usize = 1_500_000;
fn record(vm: &mut Vm<Aux>, name: &str, args: Vec<String>) -> Result<(), ExecutionErrorPayload> {
    let aux = vm.get_aux_mut();
    aux.bytes += args.iter().map(|a| a.len()).sum::<usize>() + 16;
    if aux.bytes > LOG_LIMIT {
        return Err(ExecutionErrorPayload::OutOfMemory);
    }
    aux.log.push((name.to_string(), args));
    Ok(())
}

fn n_log1(vm: &mut Vm<Aux>, v: Value) -> Result<Value, ExecutionErrorPayload> {
    let t = tree(v, TREE_DEPTH);
    record(vm, "log1", vec![t])?;
    Ok(Value::Nil)
}
fn n_add2(vm: &mut Vm<Aux>, a: i64, b: i64) -> Result<Value, ExecutionErrorPayload> {
    record(vm, "add2", vec![format!("(trint {})", out::z(a)), format!("(trint {})", out::z(b))])?;
    Ok(Value::Integer(a.wrapping_add(b)))
}
fn n_fail0(vm: &mut Vm<Aux>) -> Result<Value, ExecutionErrorPayload> {
    record(vm, "fail0", vec![])?;
    Err(ExecutionErrorPayload::invalid_argument("fail0 always fails"))
}
/// re-entrant: calls the function value f with the one argument x
fn n_call1(vm: &mut Vm<Aux>, f: Value, x: Value) -> Result<Value, ExecutionErrorPayload> {
    let t = vec![tree(f, TREE_DEPTH), tree(x, TREE_DEPTH)];
    record(vm, "call1", t)?;
    vm.stack_push(x)?;
    vm.run_function(f)
}

pub const MENU: [&str; 4] = ["log1", "add2", "fail0", "call1"];

/// hand-written witnesses, run before the random programs
const CORPUS: [(&str, &str); 8] = [
    // known finding N-C01-1: runs on a VM with the DEFAULT value stack (256 slots), see `gen`
    ("N-C01-1", include_str!("../../findings/C01/N-C01-1_call_statement_in_loop_leaks_stack.json")),
    ("R-1a", include_str!("../../findings/C01/R-1a_min_by_key_key_function_appends_segfault.json")),
    ("R-1b", include_str!("../../findings/C01/R-1b_min_by_key_key_function_grows_table.json")),
    ("R-2a", include_str!("../../findings/C01/R-2a_captured_local_below_a_statement_value.json")),
    ("R-2b", include_str!("../../findings/C01/R-2b_two_captured_locals_in_one_loop_body.json")),
    ("R-3", include_str!("../../findings/C01/R-3_get_past_end_nil_key.json")),
    ("R-4", include_str!("../../findings/C01/R-4_closure_captures_shadowed_outer_variable.json")),
    ("R-5", include_str!("../../findings/C01/R-5_unset_global_reads_nil.json")),
];

pub fn new_vm(host: &[&str]) -> Vm<'static, Aux> {
    // VERIF_MAX_ITER: a smaller instruction budget (C06 skips long runs early)
    let max_iter = std::env::var("VERIF_MAX_ITER").ok().and_then(|s| s.parse().ok()).unwrap_or(400_000);
    let mut vm = Vm::new(Aux::default()).unwrap().with_max_iter(max_iter);
    // VERIF_STACK: value-stack size (the witness of N-C01-1 runs with the default 256)
    let stack = std::env::var("VERIF_STACK").ok().and_then(|s| s.parse().ok()).unwrap_or(16 * 1024);
    vm.runtime_data = RuntimeData::new(256 * 1024 * 1024, stack, 400).unwrap();
    for h in host {
        match *h {
            "log1" => vm.register_native_function("log1", into_f1(n_log1)).unwrap(),
            "add2" => vm.register_native_function("add2", into_f2(n_add2)).unwrap(),
            "fail0" => vm.register_native_function("fail0", n_fail0).unwrap(),
            "call1" => vm.register_native_function("call1", into_f2(n_call1)).unwrap(),
            _ => panic!("native outside the menu"),
        }
    }
    vm
}

fn resource(e: &ExecutionErrorPayload) -> Option<u64> {
    match e {
        ExecutionErrorPayload::Timeout => Some(1),
        ExecutionErrorPayload::Stackoverflow => Some(2),
        ExecutionErrorPayload::CallStackOverflow => Some(3),
        ExecutionErrorPayload::OutOfMemory => Some(4),
        ExecutionErrorPayload::TaskFailure { error, .. } => resource(error),
        _ => None,
    }
}
fn kind(e: &ExecutionErrorPayload) -> String {
    match e {
        ExecutionErrorPayload::InvalidArgument { .. } => "einvalid".into(),
        ExecutionErrorPayload::VarNotFound(_) => "evarnotfound".into(),
        ExecutionErrorPayload::ProcedureNotFound(_) => "eprocnotfound".into(),
        ExecutionErrorPayload::TaskFailure { .. } => "etaskfailure".into(),
        ExecutionErrorPayload::MissingArgument => "(eother 1%N)".into(),
        ExecutionErrorPayload::BadReturn { .. } => "(eother 2%N)".into(),
        ExecutionErrorPayload::AssertionError(_) => "(eother 3%N)".into(),
        ExecutionErrorPayload::InvalidUpvalue => "(eother 4%N)".into(),
        ExecutionErrorPayload::NotClosure => "(eother 5%N)".into(),
        ExecutionErrorPayload::UnexpectedEndOfInput => "(eother 6%N)".into(),
        _ => "(eother 9%N)".into(),
    }
}

/// (observation term, class label)
pub fn observe(m: &Module, host: &[&str]) -> (String, String) {
    let program = match compile(m.clone(), CompileOptions::new()) {
        Ok(p) => p,
        Err(e) => return ("obscompile".into(), format!("compile_error:{:?}", e.payload)),
    };
    let r = catch_unwind(AssertUnwindSafe(|| {
        let mut vm = new_vm(host);
        let res = vm.run(&program);
        if let Err(e) = &res {
            if let Some(w) = resource(&e.payload) {
                return (format!("(obsres {})", out::n(w)), "resource".to_string());
            }
        }
        let (k, class) = match &res {
            Ok(()) => ("kok".to_string(), "ok".to_string()),
            Err(e) => (format!("(kerr {})", kind(&e.payload)), format!("err.{}", kind(&e.payload))),
        };
        let mut names: Vec<String> = program.variables.names.iter().map(|(_, n)| n.to_string()).collect();
        names.sort();
        let mut globals = vec![];
        for name in names {
            if let Some(v) = vm.read_var_by_name(&name, &program.variables) {
                globals.push(format!("({}, {})", out::bytes(name.as_bytes()), tree(v, TREE_DEPTH)));
            }
        }
        let log = out::list(
            vm.get_aux().log.iter().map(|(n, a)| format!("({}, {})", out::bytes(n.as_bytes()), out::list(a.iter().cloned()))),
        );
        (format!("(obsrun {} {} {})", k, out::list(globals), log), class)
    }));
    match r {
        Ok(x) => x,
        Err(_) => ("obspanic".into(), "panic".into()),
    }
}

pub fn case_term(m: &Module, host: &[&str], obs: &str) -> String {
    format!(
        "progcase {} {} {}",
        crate::c16::module(m),
        out::list(host.iter().map(|h| out::bytes(h.as_bytes()))),
        obs
    )
}

// ------------------------------------------------------------------------------------------------
// card builders
// ------------------------------------------------------------------------------------------------
fn bin(f: fn(Box<[Card; 2]>) -> CardBody, a: Card, b: Card) -> Card {
    f(Box::new([a, b])).into()
}
fn un(f: fn(UnaryExpression) -> CardBody, a: Card) -> Card {
    f(UnaryExpression::new(a)).into()
}
fn int(i: i64) -> Card {
    Card::scalar_int(i)
}
fn strc(s: &str) -> Card {
    Card::string_card(s)
}
fn rd(s: &str) -> Card {
    Card::read_var(s)
}
fn comp(cards: Vec<Card>) -> Card {
    Card::composite_card("c", cards)
}
fn closure(params: Vec<String>, cards: Vec<Card>) -> Card {
    CardBody::Closure(Box::new(Function { arguments: params, cards })).into()
}
fn for_each(i: Option<String>, k: Option<String>, v: Option<String>, it: Card, body: Card) -> Card {
    CardBody::ForEach(Box::new(ForEach { i, k, v, iterable: Box::new(it), body: Box::new(body) })).into()
}
fn get_value(t: Card, i: Card) -> Card {
    Card::get_property(bin(CardBody::Get, t, i), strc("value"))
}

// ------------------------------------------------------------------------------------------------
// generator
// ------------------------------------------------------------------------------------------------
#[derive(Clone, Copy, PartialEq, Eq, Debug)]
enum K {
    Any,
    /// an integer or a string: usable as a table key
    Key,
    Tab,
    /// callable with `arity` arguments (all of kind Any, result Any) of rank <= `rank`
    Fn(u8, u8),
    TabFn(u8, u8),
}

#[derive(Clone, Debug)]
struct Var {
    name: String,
    k: K,
    /// not assignable (loop counters, tables being iterated)
    ro: bool,
    global: bool,
}

#[derive(Clone, Debug)]
struct Sig {
    module: usize,
    name: String,
    params: Vec<(String, K)>,
    ret: K,
    rank: u8,
}
impl Sig {
    fn simple(&self) -> bool {
        self.ret == K::Any && self.params.iter().all(|p| p.1 == K::Any)
    }
}

struct ModInfo {
    path: Vec<String>,
    imports: Vec<String>,
    /// sig index -> names under which this module can call it
    names: BTreeMap<usize, Vec<String>>,
}

struct Fx {
    module: usize,
    rank: u8,
    ret: Option<K>,
    scopes: Vec<Vec<Var>>,
    up: Vec<Var>,
    cdepth: u8,
    ldepth: u8,
    /// nesting of closures counted from the enclosing static function, for the statistics
    in_loop_closure: bool,
}

pub struct Gen<'a> {
    rng: &'a mut Rng,
    sigs: Vec<Sig>,
    mods: Vec<ModInfo>,
    globals: Vec<Var>,
    budget: i32,
    nv: usize,
    reals: bool,
    shadow: bool,
    pub feats: BTreeMap<String, u64>,
}

const STRS: [&str; 7] = ["", "a", "bb", "key", "value", "h\u{e9}llo", "k1"];
const IDKEYS: [&str; 5] = ["a", "bb", "k1", "in", "x"];

impl<'a> Gen<'a> {
    fn feat(&mut self, f: &str) {
        *self.feats.entry(f.to_string()).or_insert(0) += 1;
    }
    fn fresh(&mut self, p: &str) -> String {
        self.nv += 1;
        format!("{}{}", p, self.nv)
    }
    fn visible(&self, fx: &Fx) -> Vec<Var> {
        let mut seen = std::collections::HashSet::new();
        let mut out = vec![];
        for sc in fx.scopes.iter().rev() {
            for v in sc.iter().rev() {
                if seen.insert(v.name.clone()) {
                    out.push(v.clone());
                }
            }
        }
        for v in fx.up.iter() {
            if seen.insert(v.name.clone()) {
                out.push(v.clone());
            }
        }
        for v in self.globals.iter() {
            if seen.insert(v.name.clone()) {
                out.push(v.clone());
            }
        }
        out
    }
    fn pick_var(&mut self, fx: &Fx, pred: impl Fn(&Var) -> bool) -> Option<Var> {
        let c: Vec<Var> = self.visible(fx).into_iter().filter(|v| pred(v)).collect();
        if c.is_empty() {
            None
        } else {
            Some(c[self.rng.below(c.len() as u64) as usize].clone())
        }
    }

    // ---------------------------------------------------------------- leaves
    fn int_lit(&mut self) -> Card {
        if self.rng.chance(1, 12) {
            let big = [i64::MAX, i64::MIN, (1 << 53) + 1, 1 << 62, -(1 << 31), 4294967296, i64::MAX - 1];
            int(*self.rng.pick(&big))
        } else {
            int(self.rng.range(-3, 9))
        }
    }
    fn real_lit(&mut self) -> Card {
        // half of the literals are non-integral reals next to the small integers of int_lit (-3..8), negative ones
        // included: comparison and arithmetic coercions between an integer and the real whose truncation it is
        if self.rng.chance(1, 2) {
            let near = [-0.5f64, -2.5, -1.5, -0.25, -1.75, -2.999, 0.5, 1.5, 2.5, 7.5, -3.5];
            self.feat("real.near_small_int");
            return CardBody::ScalarFloat(*self.rng.pick(&near)).into();
        }
        let xs = [0.5f64, 2.0, -1.5, 0.1, 1e300, -0.0, 3.0, 9007199254740993.0, 1e-310, 1.7e308];
        CardBody::ScalarFloat(*self.rng.pick(&xs)).into()
    }
    fn str_lit(&mut self) -> Card {
        if self.rng.chance(1, 40) {
            let n = 250 + self.rng.below(20) as usize;
            strc(&"x".repeat(n))
        } else {
            strc(*self.rng.pick(&STRS[..]))
        }
    }
    fn key(&mut self, fx: &Fx) -> Card {
        if self.rng.chance(1, 4) {
            if let Some(v) = self.pick_var(fx, |v| v.k == K::Key) {
                return rd(&v.name);
            }
        }
        if self.rng.chance(1, 2) {
            int(self.rng.range(0, 4))
        } else if self.rng.chance(1, 12) {
            Card::from(CardBody::ScalarNil)
        } else {
            strc(*self.rng.pick(&IDKEYS[..]))
        }
    }
    fn any_leaf(&mut self, fx: &Fx) -> Card {
        match self.rng.weighted(&[5, 2, 1, 6, if self.reals { 2 } else { 0 }]) {
            0 => self.int_lit(),
            1 => self.str_lit(),
            2 => CardBody::ScalarNil.into(),
            3 => match self.pick_var(fx, |v| matches!(v.k, K::Any | K::Key)) {
                Some(v) => rd(&v.name),
                None => self.int_lit(),
            },
            _ => self.real_lit(),
        }
    }

    // ---------------------------------------------------------------- calls
    fn call_name(&mut self, from: usize, sig: usize) -> String {
        let names = self.mods[from].names.get(&sig).cloned().unwrap_or_default();
        assert!(!names.is_empty(), "no way to name function {} from module {}", sig, from);
        names[self.rng.below(names.len() as u64) as usize].clone()
    }
    /// argument cards for parameters of the given kinds, in CALL order (the first argument binds the
    /// last declared parameter)
    fn args_for(&mut self, fx: &mut Fx, params: &[K], d: u32) -> Vec<Card> {
        let mut v: Vec<Card> = params.iter().map(|k| self.expr(fx, *k, d)).collect();
        v.reverse();
        v
    }
    fn static_call(&mut self, fx: &mut Fx, want: impl Fn(K) -> bool, d: u32) -> Option<Card> {
        let c: Vec<usize> =
            (0..self.sigs.len()).filter(|i| self.sigs[*i].rank < fx.rank && want(self.sigs[*i].ret)).collect();
        if c.is_empty() {
            return None;
        }
        let i = c[self.rng.below(c.len() as u64) as usize];
        let sig = self.sigs[i].clone();
        // kinds of callables handed over are capped by the callee's own declaration
        let kinds: Vec<K> = sig.params.iter().map(|p| p.1).collect();
        let args = self.args_for(fx, &kinds, d);
        if kinds.iter().any(|k| matches!(k, K::Fn(..))) {
            self.feat("call.fn_argument");
        }
        let name = self.call_name(fx.module, i);
        if name.contains("super") {
            self.feat("call.via_super_import");
        } else if !name.contains('.') && sig.module != fx.module {
            self.feat("call.via_import");
        }
        Some(Card::call_function(name, args))
    }
    fn dyn_call(&mut self, fx: &mut Fx, d: u32, statement: bool) -> Option<Card> {
        let rank = fx.rank;
        let v = self.pick_var(fx, |v| matches!(v.k, K::Fn(_, r) if r < rank))?;
        let K::Fn(a, _) = v.k else { return None };
        let mut args: Vec<Card> = (0..a).map(|_| self.expr(fx, K::Any, d)).collect();
        if statement && self.rng.chance(1, 6) {
            // surplus leading arguments: the callee sees the last ones
            args.insert(0, self.any_leaf(fx));
            self.feat("dyncall.surplus_argument");
        }
        self.feat("dyncall.variable");
        Some(Card::dynamic_call(rd(&v.name), args))
    }
    fn std_call(&mut self, fx: &mut Fx, want_tab: bool, d: u32) -> Option<Card> {
        let t = self.expr(fx, K::Tab, d);
        let absolute = |n: &str| format!("std.{}", n);
        let cb_ok = fx.rank > 0;
        let which = if want_tab {
            *self.rng.pick(&["map", "filter", "sorted", "to_array", "sorted_by_key"])
        } else {
            *self.rng.pick(&["any", "min", "max", "min_by_key", "max_by_key"])
        };
        let card = match which {
            "map" | "filter" | "any" if cb_ok => {
                let a = self.rng.below(4) as u8;
                let cb = self.expr(fx, K::Fn(a, fx.rank - 1), d);
                self.feat("std.callback");
                Card::call_function(absolute(which), vec![cb, t])
            }
            "sorted_by_key" | "min_by_key" | "max_by_key" if cb_ok => {
                let a = self.rng.below(3) as u8;
                let cb = self.expr(fx, K::Fn(a, fx.rank - 1), d);
                self.feat("std.key_function");
                Card::call_function(absolute(which), vec![cb, t])
            }
            "map" | "filter" | "sorted_by_key" => Card::call_function(absolute("sorted"), vec![t]),
            "any" | "min_by_key" | "max_by_key" => Card::call_function(absolute("min"), vec![t]),
            w => Card::call_function(absolute(w), vec![t]),
        };
        self.feat(&format!("std.{}", which));
        Some(card)
    }

    // ---------------------------------------------------------------- expressions
    fn expr(&mut self, fx: &mut Fx, k: K, d: u32) -> Card {
        match k {
            K::Any | K::Key => self.any(fx, d),
            K::Tab => self.tab(fx, d),
            K::Fn(a, r) => self.fnv(fx, a, r, d),
            K::TabFn(a, r) => match self.pick_var(fx, |v| matches!(v.k, K::TabFn(a2, r2) if a2 == a && r2 <= r)) {
                Some(v) => rd(&v.name),
                None => CardBody::CreateTable.into(),
            },
        }
    }
    fn any(&mut self, fx: &mut Fx, d: u32) -> Card {
        self.budget -= 1;
        if d == 0 || self.budget <= 0 {
            return self.any_leaf(fx);
        }
        let d1 = d - 1;
        match self.rng.weighted(&[6, 6, 3, 2, 2, 4, 3, 2, 2, 2]) {
            0 => self.any_leaf(fx),
            1 => {
                let ops: [fn(Box<[Card; 2]>) -> CardBody; 3] = [CardBody::Add, CardBody::Sub, CardBody::Mul];
                let f: fn(Box<[Card; 2]>) -> CardBody = if self.reals && self.rng.chance(1, 4) { CardBody::Div } else { *self.rng.pick(&ops) };
                let (a, b) = (self.any_or_tab(fx, d1), self.any_or_tab(fx, d1));
                bin(f, a, b)
            }
            2 => {
                let ops: [fn(Box<[Card; 2]>) -> CardBody; 4] =
                    [CardBody::Less, CardBody::LessOrEq, CardBody::Equals, CardBody::NotEquals];
                let f = *self.rng.pick(&ops);
                if self.reals && self.rng.chance(1, 3) {
                    // an integer (or nil = 0) against a real within one of it, either side, either sign
                    let k = self.rng.range(-3, 4);
                    let r = k as f64 + *self.rng.pick(&[-0.75f64, -0.5, -0.25, 0.0, 0.25, 0.5, 0.75][..]);
                    let i = if k == 0 && self.rng.chance(1, 3) { CardBody::ScalarNil.into() } else { int(k) };
                    self.feat("compare.int_vs_near_real");
                    let rc: Card = CardBody::ScalarFloat(r).into();
                    return if self.rng.chance(1, 2) { bin(f, i, rc) } else { bin(f, rc, i) };
                }
                let (a, b) = (self.any_or_tab(fx, d1), self.any_or_tab(fx, d1));
                bin(f, a, b)
            }
            3 => {
                if self.rng.chance(1, 3) {
                    let a = self.any_or_tab(fx, d1);
                    un(CardBody::Not, a)
                } else {
                    let ops: [fn(Box<[Card; 2]>) -> CardBody; 3] = [CardBody::And, CardBody::Or, CardBody::Xor];
                    let f = *self.rng.pick(&ops);
                    let (a, b) = (self.any_or_tab(fx, d1), self.any(fx, d1));
                    bin(f, a, b)
                }
            }
            4 => {
                if self.rng.chance(1, 3) {
                    // callables as operands: equality is by function / by closure object, Len is 0
                    let v1 = self.pick_var(fx, |v| matches!(v.k, K::Fn(..)));
                    let v2 = self.pick_var(fx, |v| matches!(v.k, K::Fn(..)));
                    if let (Some(a), Some(b)) = (v1, v2) {
                        self.feat("callable_operand");
                        let ops: [fn(Box<[Card; 2]>) -> CardBody; 4] =
                            [CardBody::Equals, CardBody::NotEquals, CardBody::Less, CardBody::Add];
                        let f = *self.rng.pick(&ops);
                        return bin(f, rd(&a.name), rd(&b.name));
                    }
                }
                let a = self.any_or_tab(fx, d1);
                un(CardBody::Len, a)
            }
            5 => self.table_read(fx, d1),
            6 => match self.static_call(fx, |k| k == K::Any, d1) {
                Some(c) => c,
                None => self.any_leaf(fx),
            },
            7 => match self.dyn_call(fx, d1, false) {
                Some(c) => c,
                None => self.any_leaf(fx),
            },
            8 => {
                if self.rng.chance(1, 2) {
                    let (a, b) = (self.any(fx, d1), self.any(fx, d1));
                    self.feat("native.add2");
                    Card::call_native("add2", vec![a, b])
                } else if fx.rank > 0 {
                    let f = self.fnv(fx, 1, fx.rank - 1, d1);
                    let x = self.any(fx, d1);
                    self.feat("native.call1");
                    Card::call_native("call1", vec![f, x])
                } else {
                    self.any_leaf(fx)
                }
            }
            _ => match self.std_call(fx, false, d1) {
                Some(c) => c,
                None => self.any_leaf(fx),
            },
        }
    }
    fn any_or_tab(&mut self, fx: &mut Fx, d: u32) -> Card {
        if self.rng.chance(1, 8) {
            self.tab(fx, d)
        } else {
            self.any(fx, d)
        }
    }
    fn table_read(&mut self, fx: &mut Fx, d: u32) -> Card {
        match self.rng.below(5) {
            0 => {
                if let Some(v) = self.pick_var(fx, |v| v.k == K::Tab) {
                    let k = *self.rng.pick(&IDKEYS);
                    self.feat("table.read_shorthand");
                    if self.rng.chance(1, 6) {
                        // a longer path: an error unless the intermediate value is a table
                        let k2 = *self.rng.pick(&IDKEYS);
                        return rd(&format!("{}.{}.{}", v.name, k, k2));
                    }
                    return rd(&format!("{}.{}", v.name, k));
                }
                self.any_leaf(fx)
            }
            1 => {
                let t = self.tab(fx, d);
                let i = int(self.rng.range(0, 3));
                let f = *self.rng.pick(&["key", "value"]);
                Card::get_property(bin(CardBody::Get, t, i), strc(f))
            }
            2 => {
                let t = self.tab(fx, d);
                un(CardBody::PopTable, t)
            }
            _ => {
                let t = self.tab(fx, d);
                let k = self.key(fx);
                Card::get_property(t, k)
            }
        }
    }
    fn tab(&mut self, fx: &mut Fx, d: u32) -> Card {
        self.budget -= 1;
        let leaf = d == 0 || self.budget <= 0;
        match self.rng.weighted(&[8, 2, if leaf { 0 } else { 2 }, if leaf { 0 } else { 2 }, if leaf { 0 } else { 1 }]) {
            0 => match self.pick_var(fx, |v| v.k == K::Tab) {
                Some(v) => rd(&v.name),
                None => CardBody::CreateTable.into(),
            },
            1 => CardBody::CreateTable.into(),
            2 => match self.static_call(fx, |k| k == K::Tab, d - 1) {
                Some(c) => c,
                None => CardBody::CreateTable.into(),
            },
            3 => self.std_call(fx, true, d - 1).unwrap(),
            _ => {
                let t = self.tab(fx, d - 1);
                let i = int(self.rng.range(0, 2));
                bin(CardBody::Get, t, i)
            }
        }
    }
    /// a callable of arity a and rank <= r
    fn fnv(&mut self, fx: &mut Fx, a: u8, r: u8, d: u32) -> Card {
        self.budget -= 1;
        let mut opts: Vec<u32> = vec![0, 0, 0, 0, 0];
        let vars: Vec<Var> =
            self.visible(fx).into_iter().filter(|v| matches!(v.k, K::Fn(a2, r2) if a2 == a && r2 <= r)).collect();
        if !vars.is_empty() {
            opts[0] = 4;
        }
        let fns: Vec<usize> = (0..self.sigs.len())
            .filter(|i| self.sigs[*i].simple() && self.sigs[*i].rank <= r && self.sigs[*i].params.len() == a as usize)
            .collect();
        if !fns.is_empty() {
            opts[1] = 3;
        }
        if fx.cdepth < 3 && self.budget > 0 {
            opts[2] = 6;
        }
        if a == 1 || a == 2 {
            opts[3] = 1;
        }
        let callee: Vec<usize> = (0..self.sigs.len())
            .filter(|i| self.sigs[*i].rank < fx.rank && matches!(self.sigs[*i].ret, K::Fn(a2, r2) if a2 == a && r2 <= r))
            .collect();
        if !callee.is_empty() && d > 0 && self.budget > 0 {
            opts[4] = 3;
        }
        if opts.iter().all(|x| *x == 0) {
            opts[2] = 1; // a closure is always possible
        }
        match self.rng.weighted(&opts) {
            0 => rd(&vars[self.rng.below(vars.len() as u64) as usize].name),
            1 => {
                let i = fns[self.rng.below(fns.len() as u64) as usize];
                let name = self.call_name(fx.module, i);
                self.feat("value.function");
                Card::function_value(name)
            }
            2 => self.closure(fx, a, r),
            3 => {
                self.feat("value.native_function");
                CardBody::NativeFunction(if a == 1 { "log1".into() } else { "add2".into() }).into()
            }
            _ => {
                let i = callee[self.rng.below(callee.len() as u64) as usize];
                let sig = self.sigs[i].clone();
                let kinds: Vec<K> = sig.params.iter().map(|p| p.1).collect();
                let args = self.args_for(fx, &kinds, d - 1);
                let name = self.call_name(fx.module, i);
                self.feat("closure.returned_from_call");
                Card::call_function(name, args)
            }
        }
    }
    fn closure(&mut self, fx: &mut Fx, a: u8, r: u8) -> Card {
        let rank = if r > 0 && self.rng.chance(1, 3) { self.rng.below(r as u64 + 1) as u8 } else { r };
        let params: Vec<String> = (0..a).map(|_| self.fresh("p")).collect();
        let mut up = vec![];
        {
            let mut seen = std::collections::HashSet::new();
            for sc in fx.scopes.iter().rev() {
                for v in sc.iter().rev() {
                    if seen.insert(v.name.clone()) {
                        up.push(v.clone());
                    }
                }
            }
            for v in fx.up.iter() {
                if seen.insert(v.name.clone()) {
                    up.push(v.clone());
                }
            }
        }
        let mut cfx = Fx {
            module: fx.module,
            rank,
            ret: Some(K::Any),
            scopes: vec![params.iter().map(|p| Var { name: p.clone(), k: K::Any, ro: false, global: false }).collect()],
            up,
            cdepth: fx.cdepth + 1,
            ldepth: 0,
            in_loop_closure: fx.ldepth > 0,
        };
        self.feat(&format!("closure.depth{}", cfx.cdepth));
        self.feat(&format!("closure.arity{}", a));
        if fx.ldepth > 0 {
            self.feat("closure.in_loop");
        }
        if !self.mods[fx.module].path.is_empty() {
            self.feat("closure.in_submodule");
        }
        let n = 1 + self.rng.below(3) as usize;
        let mut cards = self.stmts(&mut cfx, n, true, 2);
        let r = self.any(&mut cfx, 2);
        cards.push(Card::return_card(r));
        closure(params, cards)
    }

    // ---------------------------------------------------------------- statements
    fn stmts(&mut self, fx: &mut Fx, n: usize, decl: bool, d: u32) -> Vec<Card> {
        (0..n).map(|_| self.stmt(fx, decl, d)).collect()
    }
    fn declare(&mut self, fx: &mut Fx, k: K) -> String {
        // mostly fresh names; sometimes (shadow mode) the name of a variable that is visible already
        let name = self.fresh("v");
        fx.scopes.last_mut().unwrap().push(Var { name: name.clone(), k, ro: false, global: false });
        name
    }
    fn loop_var(&mut self, fx: &Fx, p: &str) -> String {
        if self.shadow && self.rng.chance(1, 2) {
            if let Some(v) = self.pick_var(fx, |v| !v.global && matches!(v.k, K::Any)) {
                self.feat("shadowing_loop_variable");
                return v.name;
            }
        }
        self.fresh(p)
    }
    fn value_for_new(&mut self, fx: &mut Fx, k: K, decl: bool, d: u32) -> Card {
        // Array only as the whole value of a SetVar / SetGlobalVar / Return in a declaring position
        match k {
            K::Tab if decl && self.rng.chance(1, 3) => {
                let n = self.rng.below(4) as usize;
                let items: Vec<Card> = (0..n).map(|_| self.any(fx, d.min(1))).collect();
                self.feat("array");
                CardBody::Array(items).into()
            }
            K::TabFn(a, r) if decl && self.rng.chance(2, 3) => {
                let n = 1 + self.rng.below(3) as usize;
                let items: Vec<Card> = (0..n).map(|_| self.fnv(fx, a, r, 1)).collect();
                self.feat("closure.in_array");
                CardBody::Array(items).into()
            }
            _ => self.expr(fx, k, d),
        }
    }
    fn rand_kind(&mut self, fx: &Fx) -> K {
        let r = fx.rank;
        match self.rng.weighted(&[8, 4, if r > 0 { 4 } else { 0 }, if r > 0 { 1 } else { 0 }]) {
            0 => K::Any,
            1 => K::Tab,
            2 => K::Fn(self.rng.below(4) as u8, self.rng.below(r as u64) as u8),
            _ => K::TabFn(self.rng.below(3) as u8, self.rng.below(r as u64) as u8),
        }
    }
    fn assign(&mut self, fx: &mut Fx, v: &Var, d: u32) -> Card {
        let e = self.expr(fx, if v.k == K::Key { K::Any } else { v.k }, d);
        if v.global {
            Card::set_global_var(v.name.clone(), e)
        } else {
            Card::set_var(v.name.clone(), e)
        }
    }
    fn cond(&mut self, fx: &mut Fx, d: u32) -> Card {
        let ops: [fn(Box<[Card; 2]>) -> CardBody; 3] = [CardBody::Less, CardBody::Equals, CardBody::LessOrEq];
        if self.rng.chance(1, 2) {
            let f = *self.rng.pick(&ops);
            let (a, b) = (self.any(fx, d), self.any_leaf(fx));
            bin(f, a, b)
        } else {
            self.any_or_tab(fx, d)
        }
    }
    fn body(&mut self, fx: &mut Fx, decl: bool, d: u32) -> Card {
        let n = 1 + self.rng.below(3) as usize;
        let cards = self.stmts(fx, n, decl, d);
        if cards.len() == 1 && self.rng.chance(1, 2) {
            cards.into_iter().next().unwrap()
        } else {
            comp(cards)
        }
    }
    fn stmt(&mut self, fx: &mut Fx, decl: bool, d: u32) -> Card {
        self.budget -= 1;
        let small = d == 0 || self.budget <= 0;
        let d1 = d.saturating_sub(1);
        let w: [u32; 16] = [
            if decl { 8 } else { 0 },  // 0 declare
            6,                         // 1 assign
            4,                         // 2 set global
            5,                         // 3 log
            if small { 0 } else { 5 }, // 4 if
            if small || !decl || fx.ldepth >= 2 { 0 } else { 2 }, // 5 while
            if small || fx.ldepth >= 2 { 0 } else { 4 }, // 6 repeat
            if small || fx.ldepth >= 2 { 0 } else { 4 }, // 7 for each
            6,                         // 8 table mutation
            3,                         // 9 statement-level call
            if fx.ret.is_some() { 2 } else { 0 }, // 10 return
            if small { 0 } else { 1 }, // 11 composite
            1,                         // 12 comment / rare cards
            if decl { 2 } else { 0 },  // 13 idioms
            2,                         // 14 append a callable to a table of callables
            1,                         // 15 natives in statement position
        ];
        match self.rng.weighted(&w) {
            0 => {
                let k = self.rand_kind(fx);
                let e = self.value_for_new(fx, k, decl, 2);
                let name = self.declare(fx, k);
                Card::set_var(name, e)
            }
            1 => match self.pick_var(fx, |v| !v.ro && !v.global && !matches!(v.k, K::Key)) {
                Some(v) => {
                    if fx.up.iter().any(|u| u.name == v.name) && !fx.scopes.iter().any(|s| s.iter().any(|x| x.name == v.name)) {
                        self.feat("closure.writes_captured");
                    }
                    self.assign(fx, &v, 2)
                }
                None => self.log(fx),
            },
            2 => match self.pick_var(fx, |v| v.global && !v.ro) {
                Some(v) => {
                    let e = if v.k == K::Tab && decl { self.value_for_new(fx, K::Tab, decl, 2) } else { self.expr(fx, v.k, 2) };
                    Card::set_global_var(v.name, e)
                }
                None => self.log(fx),
            },
            3 => self.log(fx),
            4 => {
                let c = self.cond(fx, 2);
                match self.rng.below(3) {
                    0 => {
                        let b = self.body(fx, false, d1);
                        bin(CardBody::IfTrue, c, b)
                    }
                    1 => {
                        let b = self.body(fx, false, d1);
                        bin(CardBody::IfFalse, c, b)
                    }
                    _ => {
                        let (a, b) = (self.body(fx, false, d1), self.body(fx, false, d1));
                        CardBody::IfElse(Box::new([c, a, b])).into()
                    }
                }
            }
            5 => {
                // w := 0; while w < n { body; w := w + 1 }, the body cannot assign w
                let w = self.fresh("w");
                fx.scopes.last_mut().unwrap().push(Var { name: w.clone(), k: K::Key, ro: true, global: false });
                let n = self.rng.range(0, 4);
                fx.ldepth += 1;
                let nb = 1 + self.rng.below(2) as usize;
                let mut cards = self.stmts(fx, nb, false, d1);
                fx.ldepth -= 1;
                cards.push(Card::set_var(w.clone(), bin(CardBody::Add, rd(&w), int(1))));
                self.feat("while");
                comp(vec![
                    Card::set_var(w.clone(), int(0)),
                    bin(CardBody::While, bin(CardBody::Less, rd(&w), int(n)), comp(cards)),
                ])
            }
            6 => {
                let n = if self.rng.chance(1, 4) {
                    let t = self.tab(fx, 1);
                    un(CardBody::Len, t)
                } else if self.reals && self.rng.chance(1, 6) {
                    CardBody::ScalarFloat(2.5).into()
                } else if self.rng.chance(1, 10) {
                    // nil counts as 0, a string as its length
                    self.feat("repeat.count_not_a_number");
                    if self.rng.chance(1, 2) { strc("bb") } else { CardBody::ScalarNil.into() }
                } else {
                    int(self.rng.range(0, 4))
                };
                let i = if self.rng.chance(2, 3) { Some(self.loop_var(fx, "i")) } else { None };
                fx.scopes.push(i.iter().map(|n| Var { name: n.clone(), k: K::Key, ro: true, global: false }).collect());
                fx.ldepth += 1;
                if fx.ldepth == 2 {
                    self.feat("nested_loops");
                }
                let b = self.body(fx, true, d1);
                fx.ldepth -= 1;
                fx.scopes.pop();
                self.feat("repeat");
                Card::repeat(n, i, b)
            }
            7 => {
                // over a table of values or a table of callables
                let fnt = self.pick_var(fx, |v| matches!(v.k, K::TabFn(..)));
                let (it, vk, itname) = match fnt {
                    Some(v) if self.rng.chance(1, 2) => {
                        let K::TabFn(a, r) = v.k else { unreachable!() };
                        (rd(&v.name), K::Fn(a, r), Some(v.name))
                    }
                    _ => match self.pick_var(fx, |v| v.k == K::Tab) {
                        Some(v) if self.rng.chance(3, 4) => (rd(&v.name), K::Any, Some(v.name)),
                        _ => (self.tab(fx, 1), K::Any, None),
                    },
                };
                let mut sc = vec![];
                let vv = if self.rng.chance(3, 4) { Some(self.loop_var(fx, "e")) } else { None };
                let kv = if self.rng.chance(1, 2) { Some(self.fresh("k")) } else { None };
                let iv = if self.rng.chance(1, 3) { Some(self.fresh("i")) } else { None };
                if let Some(n) = &vv {
                    sc.push(Var { name: n.clone(), k: vk, ro: true, global: false });
                }
                if let Some(n) = &kv {
                    sc.push(Var { name: n.clone(), k: K::Key, ro: true, global: false });
                }
                if let Some(n) = &iv {
                    sc.push(Var { name: n.clone(), k: K::Key, ro: true, global: false });
                }
                // the iterated table is not grown from inside the loop (aliases aside)
                let mut frozen = vec![];
                if let Some(n) = &itname {
                    for s in fx.scopes.iter_mut() {
                        for v in s.iter_mut() {
                            if &v.name == n && !v.ro {
                                v.ro = true;
                                frozen.push(n.clone());
                            }
                        }
                    }
                }
                fx.scopes.push(sc);
                fx.ldepth += 1;
                if fx.ldepth == 2 {
                    self.feat("nested_loops");
                }
                let b = self.body(fx, true, d1);
                fx.ldepth -= 1;
                fx.scopes.pop();
                for n in frozen {
                    for s in fx.scopes.iter_mut() {
                        for v in s.iter_mut() {
                            if v.name == n {
                                v.ro = false;
                            }
                        }
                    }
                }
                self.feat("for_each");
                for_each(iv, kv, vv, it, b)
            }
            8 => {
                let tv = self.pick_var(fx, |v| v.k == K::Tab && !v.ro);
                match (tv, self.rng.below(5)) {
                    (Some(v), 0) => {
                        let k = *self.rng.pick(&IDKEYS);
                        let e = self.any(fx, 2);
                        self.feat("table.set_shorthand");
                        Card::set_var(format!("{}.{}", v.name, k), e)
                    }
                    (Some(v), 1) => {
                        let e = self.any(fx, 2);
                        bin(CardBody::AppendTable, e, rd(&v.name))
                    }
                    (Some(v), 2) => un(CardBody::PopTable, rd(&v.name)),
                    (Some(v), _) => {
                        let e = self.any(fx, 2);
                        let k = self.key(fx);
                        Card::set_property(e, rd(&v.name), k)
                    }
                    (None, _) => self.log(fx),
                }
            }
            9 => {
                if self.rng.chance(1, 2) {
                    if let Some(c) = self.dyn_call(fx, 2, true) {
                        return c;
                    }
                }
                match self.static_call(fx, |_| true, 2) {
                    Some(c) => c,
                    None => self.log(fx),
                }
            }
            10 => {
                let k = fx.ret.unwrap();
                let e = self.value_for_new(fx, k, decl, 2);
                if fx.ldepth > 0 {
                    self.feat("return_in_loop");
                }
                Card::return_card(e)
            }
            11 => {
                let n = 1 + self.rng.below(3) as usize;
                comp(self.stmts(fx, n, decl, d1))
            }
            12 => match self.rng.below(12) {
                0 if fx.ret.is_none() && fx.cdepth == 0 => {
                    self.feat("abort");
                    bin(CardBody::IfTrue, self.cond(fx, 1), CardBody::Abort.into())
                }
                1 => {
                    self.feat("native.fail0");
                    bin(CardBody::IfTrue, self.cond(fx, 1), Card::call_native("fail0", vec![]))
                }
                2 => {
                    self.feat("read_unset_global");
                    Card::call_native("log1", vec![rd("never_set")])
                }
                3 => {
                    // type errors: table operations on a number, a call of a number, a bad row index
                    self.feat("type_error");
                    let bad: Card = match self.rng.below(6) {
                        0 => Card::get_property(int(3), strc("a")),
                        1 => for_each(None, None, Some(self.fresh("e")), int(3), CardBody::Comment("x".into()).into()),
                        2 => Card::dynamic_call(int(3), vec![]),
                        3 => bin(CardBody::AppendTable, int(1), strc("a")),
                        4 => bin(CardBody::Get, rd("t1"), int(-1)),
                        _ => bin(CardBody::Get, rd("t1"), strc("a")),
                    };
                    bin(CardBody::IfTrue, self.cond(fx, 1), bad)
                }
                _ => CardBody::Comment("note".into()).into(),
            },
            13 => self.idiom(fx),
            14 => {
                let rank = fx.rank;
                match self.pick_var(fx, |v| matches!(v.k, K::TabFn(_, r) if r < rank) && !v.ro) {
                    Some(v) => {
                        let K::TabFn(a, r) = v.k else { unreachable!() };
                        let f = self.fnv(fx, a, r, 1);
                        self.feat("closure.appended_to_table");
                        bin(CardBody::AppendTable, f, rd(&v.name))
                    }
                    None => self.log(fx),
                }
            }
            _ => {
                if fx.rank > 0 && self.rng.chance(1, 2) {
                    let f = self.fnv(fx, 1, fx.rank - 1, 1);
                    let x = self.any(fx, 1);
                    self.feat("native.call1");
                    Card::call_native("call1", vec![f, x])
                } else {
                    let x = self.any(fx, 1);
                    self.feat("value.native_function");
                    Card::dynamic_call(Card::from(CardBody::NativeFunction("log1".into())), vec![x])
                }
            }
        }
    }
    fn log(&mut self, fx: &mut Fx) -> Card {
        let e = self.any_or_tab(fx, 2);
        Card::call_native("log1", vec![e])
    }
    /// small fixed shapes that the random composition reaches too rarely
    fn idiom(&mut self, fx: &mut Fx) -> Card {
        match self.rng.below(4) {
            0 => {
                // nested tables through the property shorthand, an alias, a read through the alias
                let t = self.declare(fx, K::Tab);
                let a = self.declare(fx, K::Tab);
                fx.scopes.last_mut().unwrap().last_mut().unwrap().ro = true;
                let e = self.any(fx, 1);
                self.feat("table.alias");
                comp(vec![
                    Card::set_var(t.clone(), Card::from(CardBody::CreateTable)),
                    Card::set_var(format!("{}.in", t), Card::from(CardBody::CreateTable)),
                    Card::set_var(a.clone(), rd(&format!("{}.in", t))),
                    Card::set_var(format!("{}.in.x", t), e),
                    Card::call_native("log1", vec![rd(&format!("{}.x", a))]),
                    bin(CardBody::AppendTable, rd(&a), rd(&t)),
                ])
            }
            1 if fx.rank > 0 && fx.cdepth < 3 => {
                // closures made in a loop, each capturing its own iteration's variables, called later
                let fs = self.declare(fx, K::TabFn(0, fx.rank - 1));
                let i = self.fresh("i");
                let x = self.fresh("v");
                fx.scopes.push(vec![
                    Var { name: i.clone(), k: K::Key, ro: true, global: false },
                    Var { name: x.clone(), k: K::Any, ro: false, global: false },
                ]);
                fx.ldepth += 1;
                let c = self.closure(fx, 0, fx.rank - 1);
                fx.ldepth -= 1;
                fx.scopes.pop();
                let e = self.fresh("e");
                self.feat("closure.loop_idiom");
                comp(vec![
                    Card::set_var(fs.clone(), Card::from(CardBody::CreateTable)),
                    Card::repeat(
                        int(self.rng.range(1, 3)),
                        Some(i.clone()),
                        comp(vec![
                            Card::set_var(x.clone(), bin(CardBody::Mul, rd(&i), int(10))),
                            bin(CardBody::AppendTable, c, rd(&fs)),
                        ]),
                    ),
                    for_each(None, None, Some(e.clone()), rd(&fs), Card::call_native("log1", vec![Card::dynamic_call(rd(&e), vec![])])),
                ])
            }
            2 if fx.rank > 0 && fx.cdepth < 3 => {
                // two sibling closures over one variable: one writes, the other reads, the scope too
                let x = self.declare(fx, K::Any);
                let inc = self.declare(fx, K::Fn(0, fx.rank - 1));
                let get = self.declare(fx, K::Fn(0, fx.rank - 1));
                self.feat("closure.siblings");
                comp(vec![
                    Card::set_var(x.clone(), int(self.rng.range(0, 5))),
                    Card::set_var(
                        inc.clone(),
                        closure(vec![], vec![Card::set_var(x.clone(), bin(CardBody::Add, rd(&x), int(1))), Card::return_card(rd(&x))]),
                    ),
                    Card::set_var(get.clone(), closure(vec![], vec![Card::return_card(rd(&x))])),
                    Card::dynamic_call(rd(&inc), vec![]),
                    Card::call_native("log1", vec![Card::dynamic_call(rd(&get), vec![])]),
                    Card::set_var(x.clone(), bin(CardBody::Mul, rd(&x), int(2))),
                    Card::call_native("log1", vec![Card::dynamic_call(rd(&inc), vec![])]),
                    Card::call_native("log1", vec![rd(&x)]),
                ])
            }
            _ => {
                let n = self.rng.below(5) as usize;
                let items: Vec<Card> = (0..n).map(|_| self.any(fx, 1)).collect();
                let t = self.declare(fx, K::Tab);
                self.feat("array");
                Card::set_var(t, Card::from(CardBody::Array(items)))
            }
        }
    }

    // ---------------------------------------------------------------- whole program
    fn function_body(&mut self, si: usize) -> Function {
        let sig = self.sigs[si].clone();
        let mut fx = Fx {
            module: sig.module,
            rank: sig.rank,
            ret: Some(sig.ret),
            scopes: vec![sig.params.iter().map(|(n, k)| Var { name: n.clone(), k: *k, ro: false, global: false }).collect()],
            up: vec![],
            cdepth: 0,
            ldepth: 0,
            in_loop_closure: false,
        };
        let n = 1 + self.rng.below(5) as usize;
        let mut cards = self.stmts(&mut fx, n, true, 3);
        let r = self.value_for_new(&mut fx, sig.ret, true, 2);
        if matches!(sig.ret, K::Fn(..)) {
            self.feat("closure.returned");
        }
        cards.push(Card::return_card(r));
        Function { arguments: sig.params.iter().map(|p| p.0.clone()).collect(), cards }
    }
}

fn relative(from: &[String], to: &[String], name: Option<&str>) -> String {
    let mut c = 0;
    while c < from.len() && c < to.len() && from[c] == to[c] {
        c += 1;
    }
    let mut s = String::new();
    for _ in c..from.len() {
        s.push_str("super.");
    }
    let mut parts: Vec<&str> = to[c..].iter().map(|x| x.as_str()).collect();
    if let Some(n) = name {
        parts.push(n);
    }
    s.push_str(&parts.join("."));
    s
}

/// One random program; `feats` receives the features it contains.
pub fn gen_program(rng: &mut Rng, feats: &mut BTreeMap<String, u64>, allow_shadow: bool) -> Module {
    // modules
    let mut paths: Vec<Vec<String>> = vec![vec![]];
    if rng.chance(3, 4) {
        paths.push(vec!["ma".into()]);
        if rng.chance(1, 2) {
            paths.push(vec!["ma".into(), "mb".into()]);
        }
        if rng.chance(1, 3) {
            paths.push(vec!["mc".into()]);
        }
    }
    // functions: leaves of every arity first (rank 0), then ranks 1..n
    let nf = 1 + rng.below(5) as usize;
    let mut sigs: Vec<Sig> = vec![];
    let mut nv = 0usize;
    for a in 0..4u8 {
        let module = rng.below(paths.len() as u64) as usize;
        let params = (0..a).map(|_| { nv += 1; (format!("p{}", nv), K::Any) }).collect();
        sigs.push(Sig { module, name: format!("leaf{}", a), params, ret: K::Any, rank: 0 });
    }
    for i in 0..nf {
        let rank = (i + 1) as u8;
        let module = rng.below(paths.len() as u64) as usize;
        let a = rng.below(4) as usize;
        let mut params = vec![];
        for _ in 0..a {
            nv += 1;
            let k = match rng.weighted(&[6, 2, 3]) {
                0 => K::Any,
                1 => K::Tab,
                _ => K::Fn(rng.below(3) as u8, rng.below(rank as u64) as u8),
            };
            params.push((format!("p{}", nv), k));
        }
        let ret = match rng.weighted(&[6, 2, 3, 1]) {
            0 => K::Any,
            1 => K::Tab,
            2 => K::Fn(rng.below(3) as u8, rng.below(rank as u64) as u8),
            _ => K::TabFn(rng.below(2) as u8, rng.below(rank as u64) as u8),
        };
        sigs.push(Sig { module, name: format!("fun{}", i), params, ret, rank });
    }
    // names and imports
    let mut mods: Vec<ModInfo> = paths.iter().map(|p| ModInfo { path: p.clone(), imports: vec![], names: BTreeMap::new() }).collect();
    for (mi, m) in mods.iter_mut().enumerate() {
        let mut mod_imports: Vec<usize> = vec![];
        for (si, s) in sigs.iter().enumerate() {
            let target = &paths[s.module];
            let mut names = vec![];
            let mut abs: Vec<&str> = target.iter().map(|x| x.as_str()).collect();
            abs.push(&s.name);
            names.push(abs.join("."));
            if s.module == mi {
                names.push(s.name.clone());
            } else if rng.chance(1, 2) {
                // import the function
                let alias = relative(&m.path, target, Some(&s.name));
                if alias.contains('.') {
                    m.imports.push(alias);
                    names.push(s.name.clone());
                }
            } else if rng.chance(1, 2) && !target.is_empty() {
                // import its module (only without super: `super.m` does not resolve as a module import)
                let alias = relative(&m.path, target, None);
                if alias.contains('.') && !alias.contains("super") {
                    if !mod_imports.contains(&s.module) {
                        mod_imports.push(s.module);
                        m.imports.push(alias);
                    }
                    names.push(format!("{}.{}", target.last().unwrap(), s.name));
                }
            }
            m.names.insert(si, names);
        }
    }
    let nglobals = if rng.chance(1, 2) { 17 + rng.below(8) as usize } else { 2 + rng.below(8) as usize };
    let mut globals: Vec<Var> = (0..nglobals).map(|i| Var { name: format!("g{}", i), k: K::Any, ro: false, global: true }).collect();
    globals.push(Var { name: "t0".into(), k: K::Tab, ro: false, global: true });
    globals.push(Var { name: "t1".into(), k: K::Tab, ro: false, global: true });
    globals.push(Var { name: "gf".into(), k: K::Fn(1, 0), ro: false, global: true });
    let reals = rng.chance(1, 3);
    let shadow = allow_shadow && rng.chance(1, 3);
    let budget = 60 + rng.below(200) as i32;
    let mut g = Gen { rng, sigs, mods, globals, budget, nv, reals, shadow, feats: BTreeMap::new() };
    if nglobals > 16 {
        g.feat("globals>16");
    }
    if reals {
        g.feat("reals");
    }
    // bodies (each function gets a share of the budget)
    let total = g.budget;
    let mut functions: Vec<Vec<(String, Function)>> = paths.iter().map(|_| vec![]).collect();
    for si in 0..g.sigs.len() {
        g.budget = if g.sigs[si].rank == 0 { 8 } else { total / 3 };
        let f = g.function_body(si);
        functions[g.sigs[si].module].push((g.sigs[si].name.clone(), f));
    }
    // main
    g.budget = total;
    let top = g.sigs.iter().map(|s| s.rank).max().unwrap() + 1;
    let mut fx = Fx { module: 0, rank: top, ret: None, scopes: vec![vec![]], up: vec![], cdepth: 0, ldepth: 0, in_loop_closure: false };
    let mut cards = vec![];
    for i in 0..nglobals {
        let e = if g.rng.chance(1, 4) { g.str_lit() } else { g.int_lit() };
        cards.push(Card::set_global_var(format!("g{}", i), if i % 3 == 0 { int(i as i64) } else { e }));
    }
    cards.push(Card::set_global_var("gf", Card::function_value(g.call_name(0, 1))));
    cards.push(Card::set_global_var("t0", Card::from(CardBody::CreateTable)));
    // the table the library functions mostly work on: 0-8 entries with duplicates, ties under the
    // ordering of the language (strings by length, nil as 0), sometimes reals
    let nt = if g.rng.chance(1, 3) { 3 } else { g.rng.below(9) as usize };
    let items: Vec<Card> = (0..nt)
        .map(|i| match g.rng.weighted(&[6, 2, 1, if g.reals { 2 } else { 0 }]) {
            0 => int([3, 1, 2, 1, 0, 2, -1, 3][(i + g.rng.below(3) as usize) % 8]),
            1 => strc(*g.rng.pick(&["", "a", "b", "bb", "cc"][..])),
            2 => CardBody::ScalarNil.into(),
            _ => CardBody::ScalarFloat(*g.rng.pick(&[1.5f64, 2.0, -0.5, 1.0][..])).into(),
        })
        .collect();
    cards.push(Card::set_global_var("t1", Card::from(CardBody::Array(items))));
    if std::env::var("C01_UNSET").is_ok() && g.rng.chance(1, 3) {
        // `low` gets the first global slot at compile time and is never assigned
        cards.insert(0, bin(CardBody::IfTrue, int(0), Card::call_native("log1", vec![rd("low")])));
        cards.push(Card::call_native("log1", vec![rd("low")]));
        g.feat("read_unset_global_low_slot");
    }
    let n = 3 + g.rng.below(8) as usize;
    cards.extend(g.stmts(&mut fx, n, true, 3));
    // order inside a module: random position of main among the functions of the root
    let pos = g.rng.below(functions[0].len() as u64 + 1) as usize;
    functions[0].insert(pos, ("main".into(), Function { arguments: vec![], cards }));
    for (k, v) in g.feats.iter() {
        *feats.entry(k.clone()).or_insert(0) += *v;
    }
    // assemble
    fn build(paths: &[Vec<String>], mods: &[ModInfo], functions: &mut Vec<Vec<(String, Function)>>, at: &[String]) -> Module {
        let mi = paths.iter().position(|p| p == at).unwrap();
        let mut m = Module { submodules: vec![], functions: std::mem::take(&mut functions[mi]), imports: mods[mi].imports.clone() };
        for p in paths.iter() {
            if p.len() == at.len() + 1 && p[..at.len()] == *at {
                m.submodules.push((p.last().unwrap().clone(), build(paths, mods, functions, p)));
            }
        }
        m
    }
    build(&paths, &g.mods, &mut functions, &[])
}

pub fn gen(a: &Args) {
    let mut rng = Rng::new(a.seed);
    let mut w = CaseWriter::new(&a.out, "C01Check", 12);
    // shadowing was a known class (R-4) and is an ordinary part of the stream since its repair
    let allow_shadow = std::env::var("C01_NO_SHADOW").is_err();
    // fixed corpus first: the witnesses of the findings of this check (findings/C01/index.json)
    let mut corpus: Vec<(&str, Module)> = CORPUS
        .iter()
        .map(|(name, text)| (*name, serde_json::from_str::<Module>(text).expect("corpus module")))
        .collect();
    corpus.reverse();
    while w.len() < a.n {
        let mut feats = BTreeMap::new();
        let mut stack_arg: Option<&str> = None;
        let m = match corpus.pop() {
            Some((name, m)) => {
                feats.insert(format!("corpus.{}", name), 1);
                if name == "N-C01-1" { stack_arg = Some("256"); }
                m
            }
            None => gen_program(&mut rng, &mut feats, allow_shadow),
        };
        let host: Vec<&str> = if rng.chance(1, 10) {
            let drop = rng.below(MENU.len() as u64) as usize;
            MENU.iter().enumerate().filter(|(i, _)| *i != drop).map(|(_, n)| *n).collect()
        } else {
            MENU.to_vec()
        };
        out::describe_current(&format!("C01 program #{} (seed {})", w.len() + 1, a.seed));
        // every program runs in a child process: a crash of the implementation (signal, abort, native
        // stack overflow) becomes the observation `obspanic` instead of ending the whole run
        let cur = a.out.join("current.json");
        std::fs::write(&cur, serde_json::to_string(&m).unwrap()).unwrap();
        let mut cmd = std::process::Command::new(std::env::current_exe().unwrap());
        cmd.arg("c01-obs").arg(&cur).arg(host.join(","));
        if let Some(sz) = stack_arg { cmd.env("VERIF_STACK", sz); }
        let child = cmd.output().expect("spawn");
        let text = String::from_utf8_lossy(&child.stdout).to_string();
        let (obs, class) = match (child.status.success(), text.split_once('\n')) {
            (true, Some((class, obs))) => (obs.trim().to_string(), class.to_string()),
            _ => {
                let keep = a.out.join(format!("crash_{}.json", w.len() + 1));
                let _ = std::fs::copy(&cur, &keep);
                ("obspanic".to_string(), "crash".to_string())
            }
        };
        w.count(&class.split(':').next().unwrap().to_string());
        if class == "resource" {
            w.count("skipped.resource_error");
        }
        for (k, _) in feats.iter() {
            w.count(k);
        }
        let term = case_term(&m, &host, &obs);
        let id = w.push(term, feats.len() >= 6 || feats.keys().any(|k| k.starts_with("corpus.")));
        if std::env::var("C01_KEEP").is_ok() {
            let _ = std::fs::copy(&cur, a.out.join(format!("prog_{}.json", id)));
        }
        if class.starts_with("compile_error") {
            w.note(id, class);
        }
    }
    w.finish(serde_json::json!({}));
}

/// `cao-verif-harness c01-case <module.json>`: runs one module (all natives registered) and prints a
/// complete Coq file that checks it and shows the prediction of the reference semantics
pub fn replay(path: &str) {
    let m: Module = serde_json::from_str(&std::fs::read_to_string(path).unwrap()).unwrap();
    let host = MENU.to_vec();
    let (obs, _) = observe(&m, &host);
    println!("From Cao Require Import C01Check.");
    println!("Definition c := {}.", case_term(&m, &host, &obs));
    println!("Eval vm_compute in (check_all [(1%N, c)]).");
    println!("Eval vm_compute in (predict c).");
}

/// `cao-verif-harness c01-obs <module.json> <host,names>`: class and observation of one run, for `gen`
pub fn obs_child(path: &str, host: &str) {
    let m: Module = serde_json::from_str(&std::fs::read_to_string(path).unwrap()).unwrap();
    let host: Vec<&str> = host.split(',').filter(|h| !h.is_empty()).collect();
    let (obs, class) = observe(&m, &host);
    println!("{}\n{}", class.replace('\n', " "), obs);
}
