//! Reusable library: random cao-lang `Module` generator and printers of modules, compiled programs
//! and compilation errors as Coq terms over `Cao.CardAst` / `Cao.Compiler`.
//!
//! Printing conventions: strings are UTF-8 byte lists (`out::bytes`), f64 by `to_bits`, i64 by `out::z`,
//! hash tables as lists sorted by key.
use crate::out;
use crate::rng::Rng;
use cao_lang::compiler::{
    CallNode, Card, CardBody, CompositeCard, DynamicJump, ForEach, Function, Module, Repeat, SetVar, StaticJump,
    UnaryExpression,
};
use cao_lang::prelude::{CaoCompiledProgram, CompilationError, CompilationErrorPayload, Trace};

// ------------------------------------------------------------------------------------------------
// printers
// ------------------------------------------------------------------------------------------------

pub fn coq_str(s: &str) -> String {
    out::bytes(s.as_bytes())
}

fn opt_str(o: &Option<String>) -> String {
    out::opt(o.as_ref().map(|s| coq_str(s)))
}

fn cards(cs: &[Card]) -> String {
    out::list(cs.iter().map(coq_card))
}

fn bin(tag: &str, e: &[Card; 2]) -> String {
    format!("(CBin {} {} {})", tag, coq_card(&e[0]), coq_card(&e[1]))
}

fn un(tag: &str, e: &UnaryExpression) -> String {
    format!("(CUn {} {})", tag, coq_card(&e.card))
}

/// `Cao.CardAst.card` term
pub fn coq_card(c: &Card) -> String {
    match &c.body {
        CardBody::Add(e) => bin("BAdd", e),
        CardBody::Sub(e) => bin("BSub", e),
        CardBody::Mul(e) => bin("BMul", e),
        CardBody::Div(e) => bin("BDiv", e),
        CardBody::Less(e) => bin("BLess", e),
        CardBody::LessOrEq(e) => bin("BLessOrEq", e),
        CardBody::Equals(e) => bin("BEquals", e),
        CardBody::NotEquals(e) => bin("BNotEquals", e),
        CardBody::And(e) => bin("BAnd", e),
        CardBody::Or(e) => bin("BOr", e),
        CardBody::Xor(e) => bin("BXor", e),
        CardBody::GetProperty(e) => bin("BGetProperty", e),
        CardBody::IfTrue(e) => bin("BIfTrue", e),
        CardBody::IfFalse(e) => bin("BIfFalse", e),
        CardBody::While(e) => bin("BWhile", e),
        CardBody::Get(e) => bin("BGet", e),
        CardBody::AppendTable(e) => bin("BAppendTable", e),
        CardBody::Not(e) => un("UNot", e),
        CardBody::Return(e) => un("UReturn", e),
        CardBody::Len(e) => un("ULen", e),
        CardBody::PopTable(e) => un("UPopTable", e),
        CardBody::IfElse(e) => format!("(CTri TIfElse {} {} {})", coq_card(&e[0]), coq_card(&e[1]), coq_card(&e[2])),
        CardBody::SetProperty(e) => {
            format!("(CTri TSetProperty {} {} {})", coq_card(&e[0]), coq_card(&e[1]), coq_card(&e[2]))
        }
        CardBody::ScalarNil => "CScalarNil".into(),
        CardBody::CreateTable => "CCreateTable".into(),
        CardBody::Abort => "CAbort".into(),
        CardBody::ScalarInt(i) => format!("(CScalarInt {})", out::z(*i)),
        CardBody::ScalarFloat(f) => format!("(CScalarFloat {})", out::n(f.to_bits())),
        CardBody::StringLiteral(s) => format!("(CStringLiteral {})", coq_str(s)),
        CardBody::Comment(s) => format!("(CComment {})", coq_str(s)),
        CardBody::Function(s) => format!("(CFunction {})", coq_str(s)),
        CardBody::NativeFunction(s) => format!("(CNativeFunction {})", coq_str(s)),
        CardBody::ReadVar(s) => format!("(CReadVar {})", coq_str(s)),
        CardBody::CallNative(c) => format!("(CCallNative {} {})", coq_str(&c.name), cards(&c.args.0)),
        CardBody::Call(c) => format!("(CCall {} {})", coq_str(&c.function_name), cards(&c.args.0)),
        CardBody::DynamicCall(c) => format!("(CDynamicCall {} {})", coq_card(&c.function), cards(&c.args.0)),
        CardBody::SetGlobalVar(v) => format!("(CSetGlobalVar {} {})", coq_str(&v.name), coq_card(&v.value)),
        CardBody::SetVar(v) => format!("(CSetVar {} {})", coq_str(&v.name), coq_card(&v.value)),
        CardBody::Repeat(r) => format!("(CRepeat {} {} {})", opt_str(&r.i), coq_card(&r.n), coq_card(&r.body)),
        CardBody::ForEach(f) => format!(
            "(CForEach {} {} {} {} {})",
            opt_str(&f.i),
            opt_str(&f.k),
            opt_str(&f.v),
            coq_card(&f.iterable),
            coq_card(&f.body)
        ),
        CardBody::CompositeCard(c) => format!("(CComposite {} {})", coq_str(&c.ty), cards(&c.cards)),
        CardBody::Array(a) => format!("(CArray {})", cards(a)),
        CardBody::Closure(f) => {
            format!("(CClosure {} {})", out::list(f.arguments.iter().map(|s| coq_str(s))), cards(&f.cards))
        }
    }
}

/// `Cao.CardAst.function` term
pub fn coq_function(f: &Function) -> String {
    format!("(Build_function {} {})", out::list(f.arguments.iter().map(|s| coq_str(s))), cards(&f.cards))
}

/// `Cao.CardAst.module` term
pub fn coq_module(m: &Module) -> String {
    format!(
        "(Module {} {} {})",
        out::list(m.submodules.iter().map(|(n, s)| format!("({}, {})", coq_str(n), coq_module(s)))),
        out::list(m.functions.iter().map(|(n, f)| format!("({}, {})", coq_str(n), coq_function(f)))),
        out::list(m.imports.iter().map(|s| coq_str(s)))
    )
}

/// `(namespace, card_index)` = `Cao.Compiler.loc`
pub fn coq_trace(t: &Trace) -> String {
    format!(
        "({}, Build_card_index {} {})",
        out::list(t.namespace.iter().map(|s| coq_str(s))),
        out::nat(t.index.function),
        out::list(t.index.card_index.indices.iter().map(|i| out::nat(*i as usize)))
    )
}

fn variable_id_value(v: &cao_lang::VariableId) -> u32 {
    // VariableId is `#[repr(C)] struct VariableId(u32)` with a private field
    unsafe { std::mem::transmute_copy::<cao_lang::VariableId, u32>(v) }
}

/// `Cao.Compiler.compiled` term: bytecode, data, labels / variables / trace as key-sorted lists
pub fn coq_program(p: &CaoCompiledProgram) -> String {
    let mut labels: Vec<(u32, u32)> = p.labels.0.iter().map(|(h, l)| (h.value(), l.pos)).collect();
    labels.sort();
    let mut ids: Vec<(u32, u32)> = p.variables.ids.iter().map(|(h, v)| (h.value(), variable_id_value(v))).collect();
    ids.sort();
    let mut names: Vec<(u32, String)> = p.variables.names.iter().map(|(h, v)| (h.value(), v.clone())).collect();
    names.sort();
    let mut trace: Vec<(u32, &Trace)> = p.trace.iter().map(|(k, v)| (*k, v)).collect();
    trace.sort_by_key(|x| x.0);
    format!(
        "(Build_compiled {} {} {} {} {} {})",
        out::bytes(&p.bytecode),
        out::bytes(&p.data),
        out::list(labels.iter().map(|(h, p)| format!("({}, {})", out::n(*h as u64), out::n(*p as u64)))),
        out::list(ids.iter().map(|(h, p)| format!("({}, {})", out::n(*h as u64), out::n(*p as u64)))),
        out::list(names.iter().map(|(h, s)| format!("({}, {})", out::n(*h as u64), coq_str(s)))),
        out::list(trace.iter().map(|(k, t)| format!("({}, {})", out::n(*k as u64), coq_trace(t))))
    )
}

/// `Cao.Compiler.cerr` term (variant + the fields the properties mention); None for variants compile() never builds
pub fn coq_error_payload(e: &CompilationErrorPayload) -> Option<String> {
    Some(match e {
        CompilationErrorPayload::NoMain => "ENoMain".into(),
        CompilationErrorPayload::EmptyProgram => "EEmptyProgram".into(),
        CompilationErrorPayload::TooManyCards(n) => format!("(ETooManyCards {})", out::n(*n as u64)),
        CompilationErrorPayload::DuplicateName(s) => format!("(EDuplicateName {})", coq_str(s)),
        CompilationErrorPayload::DuplicateModule(s) => format!("(EDuplicateModule {})", coq_str(s)),
        CompilationErrorPayload::InvalidJump { dst, .. } => format!("(EInvalidJump {})", coq_str(dst)),
        CompilationErrorPayload::TooManyLocals => "ETooManyLocals".into(),
        CompilationErrorPayload::EmptyVariable => "EEmptyVariable".into(),
        CompilationErrorPayload::BadFunctionName(s) => format!("(EBadFunctionName {})", coq_str(s)),
        CompilationErrorPayload::RecursionLimitReached(n) => format!("(ERecursionLimitReached {})", out::n(*n as u64)),
        CompilationErrorPayload::BadImport(s) => format!("(EBadImport {})", coq_str(s)),
        CompilationErrorPayload::AmbigousImport(s) => format!("(EAmbigousImport {})", coq_str(s)),
        CompilationErrorPayload::SuperLimitReached => "ESuperLimitReached".into(),
        CompilationErrorPayload::TooManyUpvalues => "ETooManyUpvalues".into(),
        CompilationErrorPayload::BadVariableName(s) => format!("(EBadVariableName {})", coq_str(s)),
        _ => return None,
    })
}

pub fn error_variant_name(e: &CompilationErrorPayload) -> &'static str {
    match e {
        CompilationErrorPayload::Unimplemented(_) => "Unimplemented",
        CompilationErrorPayload::NoMain => "NoMain",
        CompilationErrorPayload::EmptyProgram => "EmptyProgram",
        CompilationErrorPayload::TooManyCards(_) => "TooManyCards",
        CompilationErrorPayload::DuplicateName(_) => "DuplicateName",
        CompilationErrorPayload::DuplicateModule(_) => "DuplicateModule",
        CompilationErrorPayload::MissingSubProgram(_) => "MissingSubProgram",
        CompilationErrorPayload::InvalidJump { .. } => "InvalidJump",
        CompilationErrorPayload::InternalError => "InternalError",
        CompilationErrorPayload::TooManyLocals => "TooManyLocals",
        CompilationErrorPayload::TooManyUpvalues => "TooManyUpvalues",
        CompilationErrorPayload::BadVariableName(_) => "BadVariableName",
        CompilationErrorPayload::EmptyVariable => "EmptyVariable",
        CompilationErrorPayload::BadFunctionName(_) => "BadFunctionName",
        CompilationErrorPayload::RecursionLimitReached(_) => "RecursionLimitReached",
        CompilationErrorPayload::BadImport(_) => "BadImport",
        CompilationErrorPayload::AmbigousImport(_) => "AmbigousImport",
        CompilationErrorPayload::SuperLimitReached => "SuperLimitReached",
    }
}

/// `Cao.Compiler.cresult` term of a compilation error; None when the payload is outside the modelled set
pub fn coq_error(e: &CompilationError) -> Option<String> {
    let pl = coq_error_payload(&e.payload)?;
    Some(format!("(CErr {} {})", pl, out::opt(e.loc.as_ref().map(coq_trace))))
}

/// `Cao.Compiler.cresult` term of what `compile` returned
pub fn coq_result(r: &Result<CaoCompiledProgram, CompilationError>) -> Option<String> {
    match r {
        Ok(p) => Some(format!("(COk {})", coq_program(p))),
        Err(e) => coq_error(e),
    }
}

// ------------------------------------------------------------------------------------------------
// generator
// ------------------------------------------------------------------------------------------------

#[derive(Clone, Debug)]
pub struct GenCfg {
    /// allow more than 16 distinct global variable names (HandleTable::entry hang, A-5)
    pub many_globals: bool,
    /// upper bound on cards per function body (top level); nested cards are bounded by `max_depth`
    pub max_cards: usize,
    pub max_depth: usize,
    /// probability (in 1/1000) of planting an erroneous construct at a choice point
    pub fault_permille: u64,
    /// allow the rare very large modules (255-local limit, 255-upvalue limit)
    pub allow_huge: bool,
    /// allow string literals longer than read_str's window (A-23)
    pub long_strings: bool,
}

impl Default for GenCfg {
    fn default() -> Self {
        GenCfg { many_globals: false, max_cards: 6, max_depth: 4, fault_permille: 12, allow_huge: true, long_strings: true }
    }
}

/// what the generator produced, for the distribution counters
#[derive(Default, Debug, Clone)]
pub struct GenStats {
    pub classes: Vec<&'static str>,
}

struct FnInfo {
    path: Vec<String>, // module path
    name: String,
    arity: usize,
}

struct Ctx<'a> {
    cfg: &'a GenCfg,
    var_pool: Vec<String>,
    /// names usable in Call / Function cards from the module being generated
    callables: Vec<(String, usize)>,
    natives: Vec<&'static str>,
    stats: &'a mut GenStats,
    /// names of locals that are certainly in scope (arguments, loop variables) to bias reads
    scope: Vec<String>,
    in_closure: usize,
}

const VAR_NAMES: [&str; 14] = ["a", "b", "c", "x", "y", "z", "foo", "bar", "res", "tmp", "i", "k", "v", "g_total"];
const EXTRA_VARS: [&str; 12] = ["g0", "g1", "g2", "g3", "g4", "g5", "g6", "g7", "g8", "g9", "g10", "g11"];
const FN_NAMES: [&str; 10] = ["foo", "bar", "baz", "f1", "f2", "helper", "run", "calc", "pooh", "tiggers_42"];
const MOD_NAMES: [&str; 7] = ["alpha", "beta", "gamma", "util", "m1", "m2", "winnie"];
const STD_FNS: [(&str, usize); 11] = [
    ("to_array", 1),
    ("filter", 2),
    ("any", 2),
    ("map", 2),
    ("min", 1),
    ("max", 1),
    ("min_by_key", 2),
    ("max_by_key", 2),
    ("sorted_by_key", 2),
    ("sorted", 1),
    ("row_to_value", 2),
];

fn card(b: CardBody) -> Card {
    b.into()
}

fn unary(c: Card) -> UnaryExpression {
    UnaryExpression { card: Box::new(c) }
}

fn rand_string(rng: &mut Rng, cfg: &GenCfg, stats: &mut GenStats) -> String {
    let k = rng.below(100);
    if k < 50 {
        let words = ["", "a", "key", "value", "hello world", "winnie", "x.y", "super.", "poggers"];
        rng.pick(&words).to_string()
    } else if k < 70 {
        let n = rng.below(12) as usize;
        (0..n).map(|_| (b'a' + rng.below(26) as u8) as char).collect()
    } else if k < 82 {
        stats.classes.push("str.unicode");
        let pool = ["é", "ß", "日本", "🐻", "\u{0}", "\u{7f}", "ñandú", "\u{10FFFF}", "tab\there"];
        let n = 1 + rng.below(3) as usize;
        (0..n).map(|_| rng.pick(&pool).to_string()).collect::<Vec<_>>().join("")
    } else if k < 92 || !cfg.long_strings {
        // near the read_str window from below: 4 + len <= 256
        let n = 240 + rng.below(13) as usize; // 240..=252
        stats.classes.push("str.len<=252");
        "s".repeat(n)
    } else {
        let n = *rng.pick(&[253usize, 254, 256, 257, 300, 1000]);
        stats.classes.push("str.len>252");
        "L".repeat(n)
    }
}

impl<'a> Ctx<'a> {
    fn fault(&mut self, rng: &mut Rng) -> bool {
        rng.below(1000) < self.cfg.fault_permille
    }

    fn var_name(&mut self, rng: &mut Rng) -> String {
        if self.fault(rng) {
            self.stats.classes.push("fault.empty_var");
            return String::new();
        }
        if !self.scope.is_empty() && rng.chance(1, 2) {
            return rng.pick(&self.scope).clone();
        }
        rng.pick(&self.var_pool).clone()
    }

    /// variable name possibly with property path
    fn var_path(&mut self, rng: &mut Rng) -> String {
        let base = self.var_name(rng);
        match rng.below(12) {
            0 => format!("{}.x", base),
            1 => format!("{}.x.y", base),
            2 => format!("{}..x.", base),
            3 if self.fault(rng) => format!(".{}", base),
            _ => base,
        }
    }

    fn callable(&mut self, rng: &mut Rng) -> (String, usize) {
        if self.callables.is_empty() || self.fault(rng) {
            self.stats.classes.push("fault.bad_call");
            let bad = ["nope", "alpha.nope", "std.nope", "super.foo", "", ".", "main.x"];
            return (rng.pick(&bad).to_string(), rng.below(3) as usize);
        }
        rng.pick(&self.callables).clone()
    }

    fn leaf(&mut self, rng: &mut Rng) -> Card {
        match rng.weighted(&[14, 6, 5, 10, 4, 16, 3, 2, 3, 1]) {
            0 => card(CardBody::ScalarInt(match rng.below(6) {
                0 => 0,
                1 => -1,
                2 => i64::MAX,
                3 => i64::MIN,
                _ => rng.range(-1000, 1000),
            })),
            1 => card(CardBody::ScalarFloat(match rng.below(8) {
                0 => f64::NAN,
                1 => f64::INFINITY,
                2 => -0.0,
                3 => f64::from_bits(rng.next()),
                _ => (rng.range(-1000, 1000) as f64) / 8.0,
            })),
            2 => card(CardBody::ScalarNil),
            3 => {
                let s = rand_string(rng, self.cfg, self.stats);
                card(CardBody::StringLiteral(s))
            }
            4 => card(CardBody::CreateTable),
            5 => {
                let v = self.var_path(rng);
                card(CardBody::ReadVar(v))
            }
            6 => {
                let (n, _) = self.callable(rng);
                card(CardBody::Function(n))
            }
            7 => {
                let n = if rng.chance(1, 6) { rand_string(rng, self.cfg, self.stats) } else { rng.pick(&self.natives).to_string() };
                card(CardBody::NativeFunction(n))
            }
            8 => card(CardBody::Comment(rand_string(rng, self.cfg, self.stats))),
            _ => card(CardBody::Abort),
        }
    }

    fn args(&mut self, rng: &mut Rng, n: usize, depth: usize) -> Vec<Card> {
        (0..n).map(|_| self.expr(rng, depth)).collect()
    }

    fn two(&mut self, rng: &mut Rng, depth: usize) -> Box<[Card; 2]> {
        Box::new([self.expr(rng, depth), self.expr(rng, depth)])
    }

    fn block(&mut self, rng: &mut Rng, depth: usize) -> Card {
        if rng.chance(1, 2) {
            let n = rng.below(4) as usize;
            let cards = (0..n).map(|_| self.stmt(rng, depth)).collect();
            let ty = if rng.chance(1, 4) { String::new() } else { "block".into() };
            card(CardBody::CompositeCard(Box::new(CompositeCard { ty, cards })))
        } else {
            self.stmt(rng, depth)
        }
    }

    /// an expression-like card
    fn expr(&mut self, rng: &mut Rng, depth: usize) -> Card {
        if depth == 0 || rng.chance(2, 5) {
            return self.leaf(rng);
        }
        let d = depth - 1;
        match rng.weighted(&[20, 6, 8, 6, 6, 4, 5, 4, 4, 3, 5]) {
            0 => {
                let e = self.two(rng, d);
                card(match rng.below(15) {
                    0 => CardBody::Add(e),
                    1 => CardBody::Sub(e),
                    2 => CardBody::Mul(e),
                    3 => CardBody::Div(e),
                    4 => CardBody::Less(e),
                    5 => CardBody::LessOrEq(e),
                    6 => CardBody::Equals(e),
                    7 => CardBody::NotEquals(e),
                    8 => CardBody::And(e),
                    9 => CardBody::Or(e),
                    10 => CardBody::Xor(e),
                    11 => CardBody::GetProperty(e),
                    12 => CardBody::Get(e),
                    13 => CardBody::AppendTable(e),
                    _ => CardBody::Add(e),
                })
            }
            1 => {
                let e = unary(self.expr(rng, d));
                card(match rng.below(3) {
                    0 => CardBody::Not(e),
                    1 => CardBody::Len(e),
                    _ => CardBody::PopTable(e),
                })
            }
            2 => {
                let (name, arity) = self.callable(rng);
                let n = if rng.chance(1, 8) { rng.below(4) as usize } else { arity };
                let args = self.args(rng, n, d);
                card(CardBody::Call(Box::new(StaticJump { args: args.into(), function_name: name })))
            }
            3 => {
                let n = rng.below(3) as usize;
                let args = self.args(rng, n, d);
                let name = rng.pick(&self.natives).to_string();
                card(CardBody::CallNative(Box::new(CallNode { name, args: args.into() })))
            }
            4 => {
                let n = rng.below(3) as usize;
                let args = self.args(rng, n, d);
                let function = self.expr(rng, d);
                card(CardBody::DynamicCall(Box::new(DynamicJump { args: args.into(), function })))
            }
            5 => {
                let n = rng.below(4) as usize;
                let a = self.args(rng, n, d);
                self.stats.classes.push("card.array");
                card(CardBody::Array(a))
            }
            6 => self.closure(rng, d),
            7 => {
                let e = Box::new([self.expr(rng, d), self.block(rng, d), self.block(rng, d)]);
                card(CardBody::IfElse(e))
            }
            8 => {
                let e = Box::new([self.expr(rng, d), self.expr(rng, d), self.expr(rng, d)]);
                card(CardBody::SetProperty(e))
            }
            9 => {
                let n = rng.below(3) as usize;
                let cards = self.args(rng, n, d);
                card(CardBody::CompositeCard(Box::new(CompositeCard { ty: "expr".into(), cards })))
            }
            _ => self.leaf(rng),
        }
    }

    fn closure(&mut self, rng: &mut Rng, depth: usize) -> Card {
        self.stats.classes.push("card.closure");
        let nargs = rng.below(3) as usize;
        let mut arguments = vec![];
        for _ in 0..nargs {
            arguments.push(self.var_name(rng));
        }
        let saved = self.scope.clone();
        self.scope.extend(arguments.iter().cloned());
        self.in_closure += 1;
        if self.in_closure >= 2 {
            self.stats.classes.push("card.closure.nested");
        }
        let n = 1 + rng.below(3) as usize;
        let cards = (0..n).map(|_| self.stmt(rng, depth)).collect();
        self.in_closure -= 1;
        self.scope = saved;
        card(CardBody::Closure(Box::new(Function { arguments, cards })))
    }

    /// a statement-like card
    fn stmt(&mut self, rng: &mut Rng, depth: usize) -> Card {
        if depth == 0 {
            return self.leaf(rng);
        }
        let d = depth - 1;
        match rng.weighted(&[16, 8, 12, 5, 5, 5, 4, 5, 5, 4, 3]) {
            0 => {
                let name = self.var_path(rng);
                let value = self.expr(rng, d);
                if !name.contains('.') && !name.is_empty() {
                    self.scope.push(name.clone());
                }
                card(CardBody::SetVar(Box::new(SetVar { name, value })))
            }
            1 => {
                let name = if rng.chance(1, 10) { self.var_path(rng) } else { self.var_name(rng) };
                let value = self.expr(rng, d);
                self.stats.classes.push("card.setglobal");
                card(CardBody::SetGlobalVar(Box::new(SetVar { name, value })))
            }
            2 => self.expr(rng, depth),
            3 => {
                let e = Box::new([self.expr(rng, d), self.block(rng, d)]);
                card(if rng.chance(1, 2) { CardBody::IfTrue(e) } else { CardBody::IfFalse(e) })
            }
            4 => {
                let e = Box::new([self.expr(rng, d), self.block(rng, d), self.block(rng, d)]);
                card(CardBody::IfElse(e))
            }
            5 => {
                let e = Box::new([self.expr(rng, d), self.block(rng, d)]);
                self.stats.classes.push("card.while");
                card(CardBody::While(e))
            }
            6 => {
                let i = if rng.chance(1, 2) { Some(self.var_name(rng)) } else { None };
                let n = self.expr(rng, d);
                let saved = self.scope.len();
                if let Some(i) = &i {
                    self.scope.push(i.clone());
                }
                let body = self.block(rng, d);
                self.scope.truncate(saved);
                self.stats.classes.push("card.repeat");
                card(CardBody::Repeat(Box::new(Repeat { i, n, body })))
            }
            7 => {
                let o = |me: &mut Self, rng: &mut Rng| if rng.chance(1, 2) { Some(me.var_name(rng)) } else { None };
                let (i, k, v) = (o(self, rng), o(self, rng), o(self, rng));
                let iterable = Box::new(self.expr(rng, d));
                let saved = self.scope.len();
                for x in [&i, &k, &v].into_iter().flatten() {
                    self.scope.push(x.clone());
                }
                let body = Box::new(self.block(rng, d));
                self.scope.truncate(saved);
                self.stats.classes.push("card.foreach");
                card(CardBody::ForEach(Box::new(ForEach { i, k, v, iterable, body })))
            }
            8 => {
                let e = unary(self.expr(rng, d));
                card(CardBody::Return(e))
            }
            9 => self.closure(rng, d),
            _ => self.block(rng, d),
        }
    }
}

fn gen_function(rng: &mut Rng, ctx: &mut Ctx, arity: usize) -> Function {
    let mut arguments = vec![];
    for _ in 0..arity {
        arguments.push(ctx.var_name(rng));
    }
    ctx.scope = arguments.clone();
    let n = rng.below(ctx.cfg.max_cards as u64 + 1) as usize;
    let depth = 1 + rng.below(ctx.cfg.max_depth as u64) as usize;
    let cards = (0..n).map(|_| ctx.stmt(rng, depth)).collect();
    Function { arguments, cards }
}

/// relative import path from module `from` to the item `to_path ++ [name]`
fn relative_import(from: &[String], to_path: &[String], name: &str) -> String {
    let mut common = 0;
    while common < from.len() && common < to_path.len() && from[common] == to_path[common] {
        common += 1;
    }
    let mut s = String::new();
    for _ in common..from.len() {
        s.push_str("super.");
    }
    for seg in &to_path[common..] {
        s.push_str(seg);
        s.push('.');
    }
    s.push_str(name);
    s
}

struct Skeleton {
    path: Vec<String>,
    fns: Vec<(String, usize)>,
    subs: Vec<Skeleton>,
}

fn gen_skeleton(rng: &mut Rng, cfg: &GenCfg, path: Vec<String>, depth: usize, stats: &mut GenStats) -> Skeleton {
    let nf = if path.is_empty() { rng.below(4) as usize } else { rng.below(4) as usize };
    let mut fns: Vec<(String, usize)> = vec![];
    for _ in 0..nf {
        let mut name = rng.pick(&FN_NAMES).to_string();
        if rng.below(1000) < cfg.fault_permille {
            stats.classes.push("fault.bad_fn_name");
            name = rng.pick(&["", "super", "a.b", "with space", "min-us", "x!"]).to_string();
        } else if rng.below(1000) < cfg.fault_permille {
            stats.classes.push("fault.std_fn_name");
            name = rng.pick(&["map", "filter", "sorted"]).to_string();
        }
        // duplicates inside a module are allowed to happen (A-20) but kept infrequent
        if fns.iter().any(|(n, _)| *n == name) && !rng.chance(1, 6) {
            continue;
        }
        fns.push((name, rng.below(3) as usize));
    }
    let ns = if depth == 0 { 0 } else { rng.weighted(&[5, 4, 2, 1]) };
    let mut subs = vec![];
    for _ in 0..ns {
        let mut name = rng.pick(&MOD_NAMES).to_string();
        if rng.below(1000) < cfg.fault_permille {
            stats.classes.push("fault.std_module_name");
            name = "std".into();
        }
        if subs.iter().any(|s: &Skeleton| s.path.last() == Some(&name)) && !rng.chance(1, 8) {
            continue;
        }
        let mut p = path.clone();
        p.push(name);
        subs.push(gen_skeleton(rng, cfg, p, depth - 1, stats));
    }
    Skeleton { path, fns, subs }
}

fn collect_fns(s: &Skeleton, out: &mut Vec<FnInfo>) {
    for (n, a) in &s.fns {
        out.push(FnInfo { path: s.path.clone(), name: n.clone(), arity: *a });
    }
    for sub in &s.subs {
        collect_fns(sub, out);
    }
}

fn fill_module(rng: &mut Rng, cfg: &GenCfg, sk: &Skeleton, all: &[FnInfo], var_pool: &[String], stats: &mut GenStats) -> Module {
    // imports: functions (relative path) and modules
    let mut imports: Vec<String> = vec![];
    let mut callables: Vec<(String, usize)> = vec![];
    // own functions by bare name, everyone by absolute name
    for (n, a) in &sk.fns {
        callables.push((n.clone(), *a));
    }
    for f in all {
        let mut full = f.path.join(".");
        if !full.is_empty() {
            full.push('.');
        }
        full.push_str(&f.name);
        if rng.chance(1, 2) {
            callables.push((full, f.arity));
        }
    }
    for (n, a) in STD_FNS.iter() {
        if rng.chance(1, 4) {
            callables.push((format!("std.{}", n), *a));
        }
    }
    let ni = rng.weighted(&[5, 3, 2, 1]);
    for _ in 0..ni {
        match rng.below(10) {
            0..=4 if !all.is_empty() => {
                let f = rng.pick(all);
                let imp = relative_import(&sk.path, &f.path, &f.name);
                if imp.contains('.') {
                    stats.classes.push(if imp.starts_with("super.") { "import.super" } else { "import.fn" });
                    callables.push((f.name.clone(), f.arity));
                    imports.push(imp);
                }
            }
            5 | 6 => {
                // std function through an import: from the root `std.map`, deeper `super.std.map`
                let (n, a) = rng.pick(&STD_FNS);
                let imp = relative_import(&sk.path, &["std".to_string()], n);
                stats.classes.push("import.std");
                callables.push((n.to_string(), *a));
                imports.push(imp);
            }
            7 if !all.is_empty() => {
                // module import: `x.Q` then call `Q.f`
                let f = rng.pick(all);
                if f.path.len() >= 1 {
                    let (modname, parent) = f.path.split_last().unwrap();
                    let imp = relative_import(&sk.path, parent, modname);
                    if imp.contains('.') {
                        stats.classes.push("import.module");
                        callables.push((format!("{}.{}", modname, f.name), f.arity));
                        imports.push(imp);
                    }
                }
            }
            8 => {
                stats.classes.push("import.too_many_super");
                let k = sk.path.len() + 1 + rng.below(2) as usize;
                let imp = format!("{}foo", "super.".repeat(k));
                callables.push(("foo".into(), 0));
                imports.push(imp);
            }
            _ => {
                if rng.below(1000) < cfg.fault_permille * 4 {
                    stats.classes.push("fault.bad_import");
                    imports.push(rng.pick(&["nodot", "", "a.b.", ".x"]).to_string());
                }
            }
        }
    }
    let mut functions = vec![];
    for (name, arity) in &sk.fns {
        let mut ctx = Ctx {
            cfg,
            var_pool: var_pool.to_vec(),
            callables: callables.clone(),
            natives: vec!["__min", "__max", "__sort", "__to_array", "log", "my_native"],
            stats: &mut *stats,
            scope: vec![],
            in_closure: 0,
        };
        let f = gen_function(rng, &mut ctx, *arity);
        functions.push((name.clone(), f));
    }
    let submodules = sk
        .subs
        .iter()
        .map(|s| (s.path.last().unwrap().clone(), fill_module(rng, cfg, s, all, var_pool, stats)))
        .collect();
    Module { submodules, functions, imports }
}

fn set_nil(name: String) -> Card {
    card(CardBody::SetVar(Box::new(SetVar { name, value: card(CardBody::ScalarNil) })))
}

/// > 255 locals in one function: TooManyLocals
fn huge_locals(rng: &mut Rng) -> Module {
    let n = 250 + rng.below(10) as usize;
    let mut cards: Vec<Card> = (0..n).map(|i| set_nil(format!("v{}", i))).collect();
    // unnamed locals of Array / Repeat / ForEach count as well
    cards.push(card(CardBody::Array(vec![card(CardBody::Array(vec![card(CardBody::ScalarInt(1))]))])));
    cards.push(card(CardBody::Repeat(Box::new(Repeat {
        i: Some("i".into()),
        n: card(CardBody::ScalarInt(2)),
        body: card(CardBody::ReadVar("v1".into())),
    }))));
    Module { submodules: vec![], functions: vec![("main".into(), Function { arguments: vec![], cards })], imports: vec![] }
}

/// a closure capturing more than 255 variables: ArrayVec::push panics in add_upvalue
fn huge_upvalues(rng: &mut Rng) -> Module {
    let outer = 180 + rng.below(40) as usize;
    let inner = 60 + rng.below(40) as usize;
    let mut cards: Vec<Card> = (0..outer).map(|i| set_nil(format!("o{}", i))).collect();
    let mut a_cards: Vec<Card> = (0..inner).map(|i| set_nil(format!("w{}", i))).collect();
    let mut b_cards: Vec<Card> = vec![];
    for i in 0..outer {
        b_cards.push(card(CardBody::ReadVar(format!("o{}", i))));
    }
    for i in 0..inner {
        b_cards.push(card(CardBody::ReadVar(format!("w{}", i))));
    }
    a_cards.push(card(CardBody::Closure(Box::new(Function { arguments: vec![], cards: b_cards }))));
    cards.push(card(CardBody::Closure(Box::new(Function { arguments: vec![], cards: a_cards }))));
    Module { submodules: vec![], functions: vec![("main".into(), Function { arguments: vec![], cards })], imports: vec![] }
}

pub fn huge_upvalues_module(rng: &mut Rng) -> Module {
    huge_upvalues(rng)
}

pub fn huge_locals_module(rng: &mut Rng) -> Module {
    huge_locals(rng)
}

/// Random module. Mostly valid programs with a `main`; faults are planted with small probability.
pub fn gen_module(rng: &mut Rng, cfg: &GenCfg, stats: &mut GenStats) -> Module {
    if cfg.allow_huge && rng.chance(1, 60) {
        stats.classes.push("huge.locals");
        return huge_locals(rng);
    }
    if cfg.allow_huge && rng.chance(1, 80) {
        stats.classes.push("huge.upvalues");
        return huge_upvalues(rng);
    }
    let depth = rng.weighted(&[3, 4, 2, 1]);
    let mut sk = gen_skeleton(rng, cfg, vec![], depth, stats);
    // main: present in almost every module, at a random position among the root functions
    if !rng.chance(1, 60) {
        sk.fns.retain(|(n, _)| n != "main");
        let pos = rng.below(sk.fns.len() as u64 + 1) as usize;
        let arity = if rng.chance(1, 8) { 1 + rng.below(2) as usize } else { 0 };
        sk.fns.insert(pos, ("main".into(), arity));
        if pos > 0 {
            stats.classes.push("main.not_first");
        }
    } else {
        stats.classes.push("fault.no_main");
    }
    let mut all = vec![];
    collect_fns(&sk, &mut all);
    // the pool of variable names bounds the number of distinct globals (every unresolved read is a global)
    let mut var_pool: Vec<String> = VAR_NAMES.iter().map(|s| s.to_string()).collect();
    if cfg.many_globals {
        stats.classes.push("globals.pool>16");
        var_pool.extend(EXTRA_VARS.iter().map(|s| s.to_string()));
    }
    let k = 3 + rng.below(var_pool.len() as u64 - 2) as usize;
    var_pool.truncate(k);
    if !sk.subs.is_empty() {
        stats.classes.push("module.submodules");
    }
    let mut m = fill_module(rng, cfg, &sk, &all, &var_pool, stats);
    if cfg.many_globals && rng.chance(1, 12) {
        // 17..24 distinct globals in one function: the 17th HandleTable::entry never returns (A-5)
        stats.classes.push("globals.17+");
        let n = 17 + rng.below(8) as usize;
        if let Some((_, f)) = m.functions.iter_mut().find(|(n, _)| n == "main") {
            for i in 0..n {
                let c = if rng.chance(1, 2) {
                    card(CardBody::SetGlobalVar(Box::new(SetVar { name: format!("many{}", i), value: card(CardBody::ScalarInt(i as i64)) })))
                } else {
                    card(CardBody::ReadVar(format!("many{}", i)))
                };
                f.cards.push(c);
            }
        }
    }
    m
}

fn walk_names(c: &Card, out: &mut std::collections::BTreeSet<String>) {
    match &c.body {
        CardBody::ReadVar(v) => {
            out.insert(v.split('.').next().unwrap_or("").to_string());
        }
        CardBody::SetGlobalVar(v) => {
            out.insert(v.name.clone());
        }
        CardBody::SetVar(v) => {
            if let Some((p, _)) = v.name.rsplit_once('.') {
                out.insert(p.split('.').next().unwrap_or("").to_string());
            }
        }
        CardBody::Closure(f) => {
            for c in &f.cards {
                walk_names(c, out);
            }
        }
        _ => {}
    }
    for ch in c.iter_children() {
        walk_names(ch, out);
    }
}

/// upper bound on the number of distinct global variables the module can make the compiler declare
pub fn potential_globals(m: &Module) -> usize {
    fn go(m: &Module, out: &mut std::collections::BTreeSet<String>) {
        for (_, f) in &m.functions {
            for c in &f.cards {
                walk_names(c, out);
            }
        }
        for (_, s) in &m.submodules {
            go(s, out);
        }
    }
    let mut out = Default::default();
    go(m, &mut out);
    out.len()
}

/// like `gen_module`, but without `many_globals` never returns a module that could declare more than
/// 16 globals (HandleTable::entry does not terminate on the 17th, A-5)
pub fn gen_module_bounded(rng: &mut Rng, cfg: &GenCfg, stats: &mut GenStats) -> Module {
    loop {
        let mark = stats.classes.len();
        let m = gen_module(rng, cfg, stats);
        let huge = stats.classes[mark..].iter().any(|c| c.starts_with("huge."));
        if cfg.many_globals || huge || potential_globals(&m) <= 16 {
            return m;
        }
        stats.classes.truncate(mark);
    }
}

/// prints `cao_lang::stdlib::standard_library()` as the Coq file `StdlibGen.v`
pub fn dump_stdlib() -> String {
    let m = cao_lang::stdlib::standard_library();
    format!(
        "(* GENERATED by `cao-verif-harness dump-stdlib` from cao_lang::stdlib::standard_library() on every run - do not edit. *)\n\
         From Coq Require Import List NArith ZArith.\nFrom Cao Require Import CardAst.\nImport ListNotations.\n\n\
         Definition std_module : module :=\n  {}.\n",
        coq_module(&m)
    )
}
