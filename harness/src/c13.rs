//! C13: operation histories over HandleTable with drop-logging values, a fault-injecting
//! allocator, colliding handle sets and arbitrary initial capacities.
use crate::out::{self, CaseWriter};
use crate::probes::FailAlloc;
use crate::rng::Rng;
use crate::Args;
use cao_lang::collections::handle_table::{Handle, HandleTable, MapError};
use std::cell::RefCell;
use std::panic::{catch_unwind, AssertUnwindSafe};

thread_local! {
    static VDROPS: RefCell<Vec<u64>> = RefCell::new(vec![]);
}
pub const CLONE_OFF: u64 = 1_000_000;
pub struct TVal {
    pub id: u64,
}
impl Clone for TVal {
    fn clone(&self) -> Self {
        TVal { id: self.id + CLONE_OFF }
    }
}
impl Drop for TVal {
    fn drop(&mut self) {
        VDROPS.with(|d| d.borrow_mut().push(self.id));
    }
}
fn take_drops() -> String {
    let v: Vec<u64> = VDROPS.with(|d| d.borrow_mut().drain(..).collect());
    out::list(v.into_iter().map(out::n))
}
fn handle(x: u32) -> Handle {
    bytemuck::cast::<u32, Handle>(x)
}
type Table = HandleTable<TVal, FailAlloc>;
fn iter_str(t: &Table) -> String {
    out::list(t.iter().map(|(k, v)| format!("({}, {})", out::n(k.value() as u64), out::n(v.id))))
}
/// inverse of the fibonacci multiplier modulo 2^32
fn fib_inv() -> u32 {
    let a: u32 = 2654435769;
    let mut x: u32 = a; // correct to 3 bits for odd a
    for _ in 0..6 {
        x = x.wrapping_mul(2u32.wrapping_sub(a.wrapping_mul(x)));
    }
    assert_eq!(a.wrapping_mul(x), 1);
    x
}

fn case(rng: &mut Rng, w: &mut CaseWriter, len: usize) {
    let cap0 = match rng.below(6) {
        0 => rng.below(3) as usize,
        1 => [3usize, 5, 6, 7, 9, 15, 17, 31, 33][rng.below(9) as usize],
        2 => 1usize << rng.below(7),
        _ => rng.below(41) as usize,
    };
    let alloc = FailAlloc::new();
    let mut t = std::mem::ManuallyDrop::new(Table::with_capacity(cap0, alloc.clone()).unwrap());
    // handle universe
    let inv = fib_inv();
    let nkeys = 3 + rng.below(40) as usize;
    let base = rng.below(64) as u32;
    let stride_bits = [2u32, 3, 4, 6][rng.below(4) as usize];
    let mode = rng.below(3);
    let keys: Vec<u32> = (0..nkeys)
        .map(|j| {
            let h = match mode {
                // same home bucket under every mask up to 2^stride_bits, incl. buckets near the end
                0 => inv.wrapping_mul(base.wrapping_add((j as u32) << stride_bits)),
                1 => 1 + rng.below(50) as u32,
                _ => rng.next() as u32,
            };
            if h == 0 { 1 } else { h }
        })
        .collect();
    w.count(match mode { 0 => "ht.keys=colliding", 1 => "ht.keys=small", _ => "ht.keys=random" });
    let mut next_id = 0u64;
    let mut ops: Vec<String> = vec![];
    let mut obs: Vec<String> = vec![];
    let mut kinds = std::collections::BTreeSet::new();
    let (mut grew, mut removed_present, mut failed, mut entry_new, mut idx_panic) = (0u32, 0u32, 0u32, 0u32, 0u32);
    VDROPS.with(|d| d.borrow_mut().clear());
    let body = catch_unwind(AssertUnwindSafe(|| {
        for step in 0..len {
            out::describe_current(&format!("C13 history on HandleTable (cap0={}) after ops {:?}", cap0, ops));
            let grow_phase = (step / 30) % 2 == 0;
            let wts: [u32; 14] = if grow_phase { [14, 14, 2, 5, 6, 3, 3, 2, 1, 1, 1, 2, 2, 3] } else { [4, 4, 2, 28, 6, 3, 3, 2, 1, 1, 1, 2, 2, 3] };
            let kind = rng.weighted(&wts);
            kinds.insert(kind);
            let h = if kind == 0 && rng.chance(1, 40) { 0 } else { *rng.pick(&keys) };
            let hs = out::n(h as u64);
            let ok = !rng.chance(1, 8);
            let cap_before = t.capacity();
            match kind {
                0 => {
                    next_id += 1;
                    let vid = next_id;
                    ops.push(format!("tins {} {} {}", hs, out::n(vid), out::b(ok)));
                    if !ok { alloc.fail_after(rng.below(2) as i64); }
                    let r = t.insert(handle(h), TVal { id: vid }).map(|_| ());
                    alloc.fail_after(-1);
                    let o = match r { Ok(()) => "tounit", Err(MapError::AllocError(_)) => { failed += 1; "toerralloc" } Err(MapError::InvalidHandle) => "toerrinvalid" };
                    obs.push(format!("({}, {})", o, take_drops()));
                }
                1 => {
                    next_id += 1;
                    let vid = next_id;
                    ops.push(format!("tent {} {} {}", hs, out::n(vid), out::b(ok)));
                    if !ok { alloc.fail_after(rng.below(2) as i64); }
                    let len_before = t.len();
                    let r = catch_unwind(AssertUnwindSafe(|| t.entry(handle(h)).or_insert_with(|| TVal { id: vid }).id));
                    alloc.fail_after(-1);
                    let o = match r { Ok(id) => { if t.len() > len_before { entry_new += 1; } format!("tooptv (Some {})", out::n(id)) } Err(_) => { failed += 1; "topanic".into() } };
                    obs.push(format!("({}, {})", o, take_drops()));
                }
                2 => {
                    ops.push(format!("tentd {} {}", hs, out::b(ok)));
                    if !ok { alloc.fail_after(rng.below(2) as i64); }
                    let r = catch_unwind(AssertUnwindSafe(|| { let e = t.entry(handle(h)); drop(e); }));
                    alloc.fail_after(-1);
                    let o = match r { Ok(()) => "tounit", Err(_) => { failed += 1; "topanic" } };
                    obs.push(format!("({}, {})", o, take_drops()));
                }
                3 => {
                    ops.push(format!("trem {}", hs));
                    let o = match t.remove(handle(h)) {
                        Some(v) => { removed_present += 1; let id = v.id; std::mem::forget(v); format!("tooptv (Some {})", out::n(id)) }
                        None => "tooptv None".into(),
                    };
                    obs.push(format!("({}, {})", o, take_drops()));
                }
                4 => {
                    ops.push(format!("tget {}", hs));
                    let o = match t.get(handle(h)) { Some(v) => format!("tooptv (Some {})", out::n(v.id)), None => "tooptv None".into() };
                    obs.push(format!("({}, {})", o, take_drops()));
                }
                5 => {
                    ops.push(format!("tcon {}", hs));
                    obs.push(format!("(tobool {}, {})", out::b(t.contains(handle(h))), take_drops()));
                }
                6 => {
                    next_id += 1;
                    let vid = next_id;
                    ops.push(format!("tgms {} {}", hs, out::n(vid)));
                    let found = match t.get_mut(handle(h)) { Some(r) => { *r = TVal { id: vid }; true } None => false };
                    obs.push(format!("(tobool {}, {})", out::b(found), take_drops()));
                }
                7 => {
                    ops.push(format!("tidx {}", hs));
                    // HandleTable<T, A>: Index is only implemented for the default allocator; use get + the same assert
                    let r = catch_unwind(AssertUnwindSafe(|| { let v = t.get(handle(h)); assert!(v.is_some()); v.unwrap().id }));
                    let o = match r { Ok(id) => format!("tooptv (Some {})", out::n(id)), Err(_) => { idx_panic += 1; "topanic".into() } };
                    obs.push(format!("({}, {})", o, take_drops()));
                }
                8 => {
                    let add = rng.below(30) as usize;
                    ops.push(format!("tres {} {}", add, out::b(ok)));
                    if !ok { alloc.fail_after(rng.below(2) as i64); }
                    let r = t.reserve(add);
                    alloc.fail_after(-1);
                    if r.is_err() { failed += 1; }
                    obs.push(format!("({}, {})", if r.is_ok() { "tounit" } else { "toerralloc" }, take_drops()));
                }
                9 => {
                    ops.push("tclear".into());
                    t.clear();
                    obs.push(format!("(tounit, {})", take_drops()));
                }
                10 => {
                    ops.push("tclone".into());
                    let c: Table = Table::clone(&t);
                    let o = format!("toclone {} {}", c.capacity(), iter_str(&c));
                    drop(c);
                    obs.push(format!("({}, {})", o, take_drops()));
                }
                11 => {
                    ops.push("tlen".into());
                    assert_eq!(t.is_empty(), t.len() == 0);
                    obs.push(format!("(tonat {}, {})", t.len(), take_drops()));
                }
                12 => {
                    ops.push("tcapq".into());
                    obs.push(format!("(tonat {}, {})", t.capacity(), take_drops()));
                }
                _ => {
                    ops.push("titer".into());
                    obs.push(format!("(tolist {}, {})", iter_str(&t), take_drops()));
                }
            }
            if t.capacity() > cap_before { grew += 1; }
        }
        ops.push("tclear".into());
        unsafe { std::mem::ManuallyDrop::drop(&mut t) };
        obs.push(format!("(tounit, {})", take_drops()));
        if alloc.live.get() != 0 {
            obs.push("(topanic, [])".to_string());
            ops.push("tlen".into());
        }
    }));
    if body.is_err() {
        w.count("ht.PANIC");
        let _ = take_drops();
        while obs.len() < ops.len() { obs.push("(topanic, [])".to_string()); }
    }
    if grew > 0 { w.count("ht.grew"); }
    if grew > 1 { w.count("ht.grew>1"); }
    if removed_present > 0 { w.count("ht.removed_present"); }
    if failed > 0 { w.count("ht.alloc_failed"); }
    if entry_new > 16 { w.count("ht.entry_new>16"); }
    if idx_panic > 0 { w.count("ht.index_absent"); }
    if !cap0.is_power_of_two() || cap0 < 2 { w.count("ht.cap0_not_pow2"); }
    w.push(
        format!("HtCase {} {} {}", cap0, out::list(ops.into_iter().map(|o| format!("({})", o))), out::list(obs)),
        kinds.len() >= 4 && grew > 0,
    );
}

pub fn gen(a: &Args) {
    let mut rng = Rng::new(a.seed);
    let mut w = CaseWriter::new(&a.out, "C13Check", 20);
    for i in 0..a.n {
        let len = if i % 10 == 0 { 300 } else { 20 + rng.below(120) as usize };
        case(&mut rng, &mut w, len);
    }
    w.finish(serde_json::json!({}));
}
