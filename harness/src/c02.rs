//! C02: programs under forced-collection schedules (quarantine + heap audit after every
//! collection + outcome compared with the run without forced collections), and collection cases
//! that tie the collector model to the code.
use crate::c05::{gc_case, new_vm, GC_CASES};
use crate::out::{self, CaseWriter};
use crate::progs;
use crate::rng::Rng;
use crate::Args;
use cao_lang::compiler::{CompileOptions, Module};
use cao_lang::prelude::*;
use cao_lang::verif_hooks as vh;

fn show(v: Value, depth: u32, out: &mut String) {
    use std::fmt::Write;
    match v {
        Value::Nil => out.push_str("nil"),
        Value::Integer(i) => { write!(out, "{}", i).unwrap(); }
        Value::Real(r) => { write!(out, "r{:x}", r.to_bits()).unwrap(); }
        Value::Object(_) => unsafe {
            if let Some(s) = v.as_str() {
                write!(out, "{:?}", s).unwrap();
            } else if let Some(t) = v.as_table() {
                out.push('{');
                if depth > 6 { out.push_str("..."); } else {
                    for (k, x) in t.iter() { show(*k, depth + 1, out); out.push(':'); show(*x, depth + 1, out); out.push(','); }
                }
                out.push('}');
            } else {
                out.push_str("<fn>");
            }
        },
    }
}

pub struct Obs {
    pub outcome: String,
    pub globals: String,
    pub allocations: u64,
    pub audit: Vec<String>,
    pub final_audit: Result<(), String>,
    pub gc_cases: Vec<String>,
}

pub fn run_sched(program: &CaoCompiledProgram, sched: Option<Option<Vec<u64>>>, final_case: bool) -> Obs {
    vh::quarantine(true);
    vh::audit_on_gc(true);
    GC_CASES.with(|c| c.borrow_mut().clear());
    let mut vm = new_vm(400 * 1024, 200_000);
    vh::force_gc_at(Some(sched.unwrap_or(Some(vec![]))));
    let r = vm.run(program);
    let allocations = vh::allocation_index();
    vh::force_gc_at(None);
    let outcome = match &r { Ok(()) => "Ok".to_string(), Err(e) => format!("Err({:?})", e.payload) };
    let final_audit = vh::heap_audit(&vm.runtime_data).map(|_| ());
    let mut globals = String::new();
    if final_audit.is_ok() {
        let mut names: Vec<String> = program.variables.names.iter().map(|(_, n)| n.to_string()).collect();
        names.sort();
        for name in names {
            if let Some(v) = vm.read_var_by_name(&name, &program.variables) { globals.push_str(&name); globals.push('='); show(v, 0, &mut globals); globals.push(';'); }
        }
    }
    let audit = vh::take_audit_failures();
    vh::audit_on_gc(false);
    let mut gc_cases: Vec<String> = GC_CASES.with(|c| c.borrow_mut().drain(..).collect());
    if final_case && final_audit.is_ok() {
        gc_cases.push(gc_case(&mut vm.runtime_data));
    }
    // the VM is leaked on purpose when an audit failed: dropping it would touch freed objects
    if final_audit.is_err() || !audit.is_empty() { std::mem::forget(vm); }
    Obs { outcome, globals, allocations, audit, final_audit, gc_cases }
}

fn sched_cases(rng: &mut Rng, w: &mut CaseWriter, pid: u64, name: &str, m: Module, thorough: bool) {
    let program = compile(m, CompileOptions::new()).expect("compile");
    let base = run_sched(&program, None, true);
    let k = base.allocations;
    w.count(&format!("prog={}", name));
    if !(base.audit.is_empty() && base.final_audit.is_ok()) {
        // already the run without forced collections (the program's own gc_probe calls collect) fails its audit
        let id = w.push(format!("SchedCase {} {} (Some []) true {} {}", out::n(pid), out::n(k), out::b(base.audit.is_empty()), out::b(base.final_audit.is_ok())), true);
        let mut note = format!("program {} without forced collections: ", name);
        for a in base.audit.iter().take(3) { note.push_str(a); note.push_str("; "); }
        if let Err(e) = &base.final_audit { note.push_str(e); }
        w.note(id, note);
        return;
    }
    for c in base.gc_cases.iter().take(2) { if c.len() < 60_000 { w.count("gc_case"); w.push(c.clone(), true); } }
    let mut scheds: Vec<(String, Option<Vec<u64>>)> = vec![("every".into(), None)];
    let singles: Vec<u64> = if thorough || k <= 16 { (0..k).collect() } else { (0..16).map(|_| rng.below(k)).collect() };
    for i in singles { scheds.push((format!("single {}", i), Some(vec![i]))); }
    for _ in 0..(if thorough { 12 } else { 4 }) {
        let p = 1 + rng.below(4);
        let v: Vec<u64> = (0..k).filter(|_| rng.below(5) < p).collect();
        scheds.push(("random subset".into(), Some(v)));
    }
    for (label, sched) in scheds {
        out::describe_current(&format!("C02 program {} under schedule {}", name, label));
        let o = run_sched(&program, Some(sched.clone()), false);
        let same = o.outcome == base.outcome && o.globals == base.globals;
        let audits_ok = o.audit.is_empty();
        let final_ok = o.final_audit.is_ok();
        w.count(match &sched { None => "sched=every", Some(v) if v.len() == 1 => "sched=single", _ => "sched=subset" });
        let forced = match &sched { None => "None".to_string(), Some(v) => format!("(Some {})", out::list(v.iter().map(|x| out::n(*x)))) };
        let id = w.push(format!("SchedCase {} {} {} {} {} {}", out::n(pid), out::n(k), forced, out::b(same), out::b(audits_ok), out::b(final_ok)), k > 0);
        if !(same && audits_ok && final_ok) {
            let mut note = format!("program {} schedule {}: ", name, label);
            if !same { note.push_str(&format!("outcome/globals differ: {} {} vs baseline {} {}; ", o.outcome, o.globals, base.outcome, base.globals)); }
            for a in o.audit.iter().take(3) { note.push_str(a); note.push_str("; "); }
            if let Err(e) = &o.final_audit { note.push_str(e); }
            w.note(id, note);
        }
        for c in o.gc_cases.iter().take(1) { if c.len() < 60_000 { w.count("gc_case"); w.push(c.clone(), true); } }
    }
}

// ---------------------------------------------------------------------------------------------
// allocation-point segments: ties VmAllocPoints.alloc_points to the crate (see coq/theories/C02Check.v)

thread_local! {
    /// the allocation calls (kind, size) seen between two marks
    static SEGMENTS: std::cell::RefCell<Vec<Vec<(u64, u64)>>> = const { std::cell::RefCell::new(vec![]) };
}

/// the calls of CaoLangAllocator::alloc since the last mark, classified from their layout alone:
/// 0 = AObject (an object header), 1 = ASecond (a character buffer: Layout::array::<char>, alignment 4; or a hash part of capacity 8,
/// which only init_table creates), 2 = AGrow (a hash part of a larger capacity)
fn close_segment() {
    let [(hs, ha), (vs, _)] = vh::layouts();
    let cap8 = 8 * (8 + 2 * vs);
    let mut seg = vec![];
    for e in vh::take_events() {
        if let vh::AllocEvent::AllocBegin { size, align } = e {
            let kind = if size == hs && align == ha { 0 } else if align == std::mem::align_of::<char>() || size == cap8 { 1 } else { 2 };
            seg.push((kind, size as u64));
        }
    }
    SEGMENTS.with(|s| s.borrow_mut().push(seg));
}

/// the mark: the menu native `log1` of Vm.v (one argument, returns nil, allocates nothing)
fn mark_native(_vm: &mut Vm<()>, _v: Value) -> Result<Value, ExecutionErrorPayload> {
    close_segment();
    Ok(Value::Nil)
}

fn mk(k: i64) -> Card {
    Card::call_native("log1", vec![Card::scalar_int(k)])
}

/// (name, module, one-new-key-per-segment?): small straight-line programs, a mark between the instructions of interest
fn segment_programs() -> Vec<(&'static str, Module, bool)> {
    use progs::{append, closure, f, fa, module, table};
    let rd = |n: &str| Card::read_var(n);
    let int = Card::scalar_int;
    let st = |s: &str| Card::string_card(s);
    let mut v: Vec<(&'static str, Module, bool)> = vec![];
    // StringLiteral, InitTable, SetProperty with a fresh and with an existing (equal, other object) key
    v.push(("strings_tables", module(vec![("main", f(vec![
        mk(0), Card::set_var("s", st("abc")),
        mk(1), Card::set_var("e", st("")),
        mk(2), Card::set_var("t", table()),
        mk(3), Card::set_property(int(1), rd("t"), st("k1")),
        mk(4), Card::set_property(int(2), rd("t"), st("k1")),
        mk(5), Card::set_property(st("value"), rd("t"), int(7)),
        mk(6), Card::set_property(rd("s"), rd("t"), rd("s")),
        mk(7), Card::set_global_var("g", rd("t")),
    ]))]), false));
    // SetProperty with 14 fresh integer keys: the hash part grows at the 6th, 9th, 13th entry
    let mut cards = vec![Card::set_var("t", table()), mk(0)];
    for i in 1..=14 { cards.push(Card::set_property(int(i * 10), rd("t"), int(i))); cards.push(mk(i)); }
    cards.push(Card::set_global_var("g", rd("t")));
    v.push(("grow_set_property", module(vec![("main", f(cards))]), true));
    // the same keys again: nothing grows, nothing is allocated
    let mut cards = vec![Card::set_var("t", table()), mk(0)];
    for i in 1..=7 { cards.push(Card::set_property(int(i), rd("t"), int(i))); cards.push(mk(i)); }
    for i in 1..=7 { cards.push(Card::set_property(int(-i), rd("t"), int(i))); cards.push(mk(10 + i)); }
    v.push(("overwrite_existing", module(vec![("main", f(cards))]), false));
    // AppendTable 14 times
    let mut cards = vec![Card::set_var("t", table()), mk(0)];
    for i in 1..=14 { cards.push(append(int(i), rd("t"))); cards.push(mk(i)); }
    v.push(("grow_append", module(vec![("main", f(cards))]), true));
    // string keys: every SetProperty is preceded by the StringLiteral of its key
    let mut cards = vec![Card::set_var("t", table()), mk(0)];
    for i in 1..=10 { cards.push(Card::set_property(int(i), rd("t"), st(&format!("key{}", i)))); cards.push(mk(i)); }
    v.push(("grow_string_keys", module(vec![("main", f(cards))]), false));
    // NthRow (Get) inside and past the end, and ForEach over a table (the mark is called in the body)
    v.push(("nth_row_for_each", module(vec![("main", f(vec![
        Card::set_var("t", table()),
        append(st("a"), rd("t")), append(int(2), rd("t")), append(table(), rd("t")),
        mk(0), Card::set_var("r0", Card::from(CardBody::Get(Box::new([rd("t"), int(0)])))),
        mk(1), Card::set_var("r2", Card::from(CardBody::Get(Box::new([rd("t"), int(2)])))),
        mk(2), Card::set_var("r9", Card::from(CardBody::Get(Box::new([rd("t"), int(9)])))),
        mk(3),
        Card::from(progs::ForEachCard::new(rd("t"), Some("k"), Some("x"), Card::composite_card("fe", vec![mk(10), Card::set_var("tmp", st("in the loop"))]))),
        mk(4),
    ]))]), false));
    // Closure + RegisterUpvalue: first capture of a local (closure + upvalue), second capture of the same local
    // (closure only), two locals, no capture; FunctionPointer, NativeFunctionPointer
    v.push(("closures_function_values", module(vec![
        ("foo", fa(&["a"], vec![Card::return_card(rd("a"))])),
        ("main", f(vec![
            Card::set_var("x", int(5)), Card::set_var("y", st("why")),
            mk(0), Card::set_var("c1", closure(vec![Card::set_global_var("g1", rd("x"))])),
            mk(1), Card::set_var("c2", closure(vec![Card::set_global_var("g2", rd("x"))])),
            mk(2), Card::set_var("c3", closure(vec![Card::set_global_var("g3", rd("x")), Card::set_global_var("g4", rd("y"))])),
            mk(3), Card::set_var("c4", closure(vec![Card::set_global_var("g5", int(1))])),
            mk(4), Card::set_var("fp", Card::function_value("foo")),
            mk(5), Card::set_var("np", Card::from(CardBody::NativeFunction("log1".to_string()))),
            mk(6), Card::set_var("np2", Card::from(CardBody::NativeFunction("__to_array".to_string()))),
            mk(7),
        ])),
    ]), false));
    // __to_array: as a native call and through a native function value; 7 entries (one growth of the copy), 3, 0
    let mut cards = vec![Card::set_var("t", table()), Card::set_var("u", table()), Card::set_var("e", table())];
    for i in 1..=7 { cards.push(Card::set_property(int(i), rd("t"), st(&format!("k{}", i)))); }
    for i in 1..=3 { cards.push(append(int(i), rd("u"))); }
    cards.extend(vec![
        mk(0), Card::set_var("a1", Card::call_native("__to_array", vec![rd("t")])),
        mk(1), Card::set_var("a2", Card::call_native("__to_array", vec![rd("u")])),
        mk(2), Card::set_var("a3", Card::call_native("__to_array", vec![rd("e")])),
        mk(3), Card::set_var("a4", Card::dynamic_call(Card::from(CardBody::NativeFunction("__to_array".to_string())), vec![rd("t")])),
        mk(4), Card::set_global_var("g", rd("a1")),
    ]);
    v.push(("to_array", module(vec![("main", f(cards))]), false));
    v
}

/// one AllocSegCase per program (plus a GrowCase where every segment inserts one new key into one table)
fn alloc_segments(w: &mut CaseWriter) {
    for (name, m, one_key) in segment_programs() {
        out::describe_current(&format!("C02 allocation segments of program {}", name));
        let program = compile(m, CompileOptions::new()).unwrap_or_else(|e| panic!("segment program {} does not compile: {:?}", name, e));
        vh::quarantine(false);
        vh::audit_on_gc(false);
        vh::force_gc_at(None);
        let budget = 4000u64;
        let mut vm = Vm::new(()).unwrap().with_max_iter(budget);
        vm.runtime_data.set_memory_limit(1 << 26);
        vm.register_native_function("log1", cao_lang::prelude::into_f1(mark_native)).unwrap();
        SEGMENTS.with(|s| s.borrow_mut().clear());
        vh::record_events(true);
        let _ = vh::take_events();
        let r = vm.run(&program);
        close_segment();
        vh::record_events(false);
        let segs: Vec<Vec<(u64, u64)>> = SEGMENTS.with(|s| s.borrow_mut().drain(..).collect());
        if let Err(e) = &r { panic!("segment program {} fails: {:?}", name, e.payload); }
        let seg_term = |s: &Vec<(u64, u64)>| out::list(s.iter().map(|(k, sz)| format!("({}, {})", out::n(*k), out::n(*sz))));
        let total: usize = segs.iter().map(|s| s.len()).sum();
        w.count("alloc_points.segments");
        w.count(&format!("alloc_points.prog={}", name));
        for s in &segs { for (k, _) in s { w.count(["alloc_points.observed.AObject", "alloc_points.observed.ASecond", "alloc_points.observed.AGrow"][*k as usize]); } }
        let id = w.push(format!("AllocSegCase {} {} {}", crate::vmrun::program_term(&program).term.replacen("(mkProgram", "(approg", 1), out::n(budget), out::list(segs.iter().map(seg_term))), total > 0);
        w.note(id, format!("allocation segments of program {}: {:?}", name, segs));
        if one_key {
            // segment 0 = before the first mark (InitTable), the last segment = after the last mark
            let entries = &segs[1..segs.len() - 1];
            w.count("alloc_points.grow");
            w.push(format!("GrowCase {}", out::list(entries.iter().map(seg_term))), true);
        }
    }
}

pub fn gen(a: &Args) {
    let mut rng = Rng::new(a.seed);
    let mut w = CaseWriter::new(&a.out, "C02Check", 30);
    let thorough = a.tier == "thorough";
    let mut pid = 0u64;
    'outer: for round in 0..1000 {
        let n = [3i64, 12, 40][round % 3];
        let len = [4usize, 40][round % 2];
        // first the host API (Vm::insert_value through the native host_table), then the script programs
        let mut list = if round == 0 { progs::host_api() } else { vec![] };
        list.extend(progs::all(n, len));
        for (name, m) in list {
            pid += 1;
            sched_cases(&mut rng, &mut w, pid, &name, m, thorough);
            if w.len() >= a.n { break 'outer; }
        }
    }
    // after the schedule cases (their ids and contents do not depend on this stream)
    alloc_segments(&mut w);
    w.finish(serde_json::json!({}));
}
