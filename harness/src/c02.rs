//! C02: programs under forced-collection schedules (quarantine + heap audit after every
//! collection + outcome compared with the run without forced collections), and collection cases
//! that tie the collector model to the code.
use crate::c05::{gc_case, new_vm, GC_CASES};
use crate::out::{self, CaseWriter};
use crate::progs;
use crate::rng::Rng;
use crate::Args;
use cao_lang::compiler::{CompileOptions, Module};
use cao_lang::prelude::*;
use cao_lang::verif_hooks as vh;

fn show(v: Value, depth: u32, out: &mut String) {
    use std::fmt::Write;
    match v {
        Value::Nil => out.push_str("nil"),
        Value::Integer(i) => { write!(out, "{}", i).unwrap(); }
        Value::Real(r) => { write!(out, "r{:x}", r.to_bits()).unwrap(); }
        Value::Object(_) => unsafe {
            if let Some(s) = v.as_str() {
                write!(out, "{:?}", s).unwrap();
            } else if let Some(t) = v.as_table() {
                out.push('{');
                if depth > 6 { out.push_str("..."); } else {
                    for (k, x) in t.iter() { show(*k, depth + 1, out); out.push(':'); show(*x, depth + 1, out); out.push(','); }
                }
                out.push('}');
            } else {
                out.push_str("<fn>");
            }
        },
    }
}

pub struct Obs {
    pub outcome: String,
    pub globals: String,
    pub allocations: u64,
    pub audit: Vec<String>,
    pub final_audit: Result<(), String>,
    pub gc_cases: Vec<String>,
}

pub fn run_sched(program: &CaoCompiledProgram, sched: Option<Option<Vec<u64>>>, final_case: bool) -> Obs {
    vh::quarantine(true);
    vh::audit_on_gc(true);
    GC_CASES.with(|c| c.borrow_mut().clear());
    let mut vm = new_vm(400 * 1024, 200_000);
    vh::force_gc_at(Some(sched.unwrap_or(Some(vec![]))));
    let r = vm.run(program);
    let allocations = vh::allocation_index();
    vh::force_gc_at(None);
    let outcome = match &r { Ok(()) => "Ok".to_string(), Err(e) => format!("Err({:?})", e.payload) };
    let final_audit = vh::heap_audit(&vm.runtime_data).map(|_| ());
    let mut globals = String::new();
    if final_audit.is_ok() {
        let mut names: Vec<String> = program.variables.names.iter().map(|(_, n)| n.to_string()).collect();
        names.sort();
        for name in names {
            if let Some(v) = vm.read_var_by_name(&name, &program.variables) { globals.push_str(&name); globals.push('='); show(v, 0, &mut globals); globals.push(';'); }
        }
    }
    let audit = vh::take_audit_failures();
    vh::audit_on_gc(false);
    let mut gc_cases: Vec<String> = GC_CASES.with(|c| c.borrow_mut().drain(..).collect());
    if final_case && final_audit.is_ok() {
        gc_cases.push(gc_case(&mut vm.runtime_data));
    }
    // the VM is leaked on purpose when an audit failed: dropping it would touch freed objects
    if final_audit.is_err() || !audit.is_empty() { std::mem::forget(vm); }
    Obs { outcome, globals, allocations, audit, final_audit, gc_cases }
}

fn sched_cases(rng: &mut Rng, w: &mut CaseWriter, pid: u64, name: &str, m: Module, thorough: bool) {
    let program = compile(m, CompileOptions::new()).expect("compile");
    let base = run_sched(&program, None, true);
    let k = base.allocations;
    w.count(&format!("prog={}", name));
    if !(base.audit.is_empty() && base.final_audit.is_ok()) {
        // already the run without forced collections (the program's own gc_probe calls collect) fails its audit
        let id = w.push(format!("SchedCase {} {} (Some []) true {} {}", out::n(pid), out::n(k), out::b(base.audit.is_empty()), out::b(base.final_audit.is_ok())), true);
        let mut note = format!("program {} without forced collections: ", name);
        for a in base.audit.iter().take(3) { note.push_str(a); note.push_str("; "); }
        if let Err(e) = &base.final_audit { note.push_str(e); }
        w.note(id, note);
        return;
    }
    for c in base.gc_cases.iter().take(2) { if c.len() < 60_000 { w.count("gc_case"); w.push(c.clone(), true); } }
    let mut scheds: Vec<(String, Option<Vec<u64>>)> = vec![("every".into(), None)];
    let singles: Vec<u64> = if thorough || k <= 16 { (0..k).collect() } else { (0..16).map(|_| rng.below(k)).collect() };
    for i in singles { scheds.push((format!("single {}", i), Some(vec![i]))); }
    for _ in 0..(if thorough { 12 } else { 4 }) {
        let p = 1 + rng.below(4);
        let v: Vec<u64> = (0..k).filter(|_| rng.below(5) < p).collect();
        scheds.push(("random subset".into(), Some(v)));
    }
    for (label, sched) in scheds {
        out::describe_current(&format!("C02 program {} under schedule {}", name, label));
        let o = run_sched(&program, Some(sched.clone()), false);
        let same = o.outcome == base.outcome && o.globals == base.globals;
        let audits_ok = o.audit.is_empty();
        let final_ok = o.final_audit.is_ok();
        w.count(match &sched { None => "sched=every", Some(v) if v.len() == 1 => "sched=single", _ => "sched=subset" });
        let forced = match &sched { None => "None".to_string(), Some(v) => format!("(Some {})", out::list(v.iter().map(|x| out::n(*x)))) };
        let id = w.push(format!("SchedCase {} {} {} {} {} {}", out::n(pid), out::n(k), forced, out::b(same), out::b(audits_ok), out::b(final_ok)), k > 0);
        if !(same && audits_ok && final_ok) {
            let mut note = format!("program {} schedule {}: ", name, label);
            if !same { note.push_str(&format!("outcome/globals differ: {} {} vs baseline {} {}; ", o.outcome, o.globals, base.outcome, base.globals)); }
            for a in o.audit.iter().take(3) { note.push_str(a); note.push_str("; "); }
            if let Err(e) = &o.final_audit { note.push_str(e); }
            w.note(id, note);
        }
        for c in o.gc_cases.iter().take(1) { if c.len() < 60_000 { w.count("gc_case"); w.push(c.clone(), true); } }
    }
}

pub fn gen(a: &Args) {
    let mut rng = Rng::new(a.seed);
    let mut w = CaseWriter::new(&a.out, "C02Check", 30);
    let thorough = a.tier == "thorough";
    let mut pid = 0u64;
    'outer: for round in 0..1000 {
        let n = [3i64, 12, 40][round % 3];
        let len = [4usize, 40][round % 2];
        // first the host API (Vm::insert_value through the native host_table), then the script programs
        let mut list = if round == 0 { progs::host_api() } else { vec![] };
        list.extend(progs::all(n, len));
        for (name, m) in list {
            pid += 1;
            sched_cases(&mut rng, &mut w, pid, &name, m, thorough);
            if w.len() >= a.n { break 'outer; }
        }
    }
    w.finish(serde_json::json!({}));
}
