//! C08: module trees with one call site each; the program is compiled by the crate and run on the real
//! Vm. Every generated function stores its position in the compiler's function order into the global
//! `ran`, its parameters into `p0`.., and returns 9000 + position when that is even; the call site
//! (function `zzsite` of the caller module) stores the call's value into `ret` and its own local `keep`
//! (set to 77 before the call; the callee sets a local of the same name) into `keep_after`.  Half of the bodies also
//! leave a temporary on the stack (a value card in statement position) before they end.
use crate::modgen;
use crate::out::{self, CaseWriter};
use crate::rng::Rng;
use crate::Args;
use cao_lang::compiler::{compile, Card, CardBody, CompileOptions, DynamicJump, Function, Module, UnaryExpression};
use cao_lang::prelude::Value;

const FN_NAMES: [(&str, usize); 6] = [("f", 0), ("g", 1), ("h", 2), ("foo", 1), ("bar", 0), ("calc", 3)];
const MOD_NAMES: [&str; 6] = ["a", "b", "c", "util", "xsuper", "m1"];
pub const SITE: &str = "zzsite";

fn arity_of(name: &str) -> usize {
    let last = name.rsplit('.').next().unwrap_or("");
    FN_NAMES.iter().find(|(n, _)| *n == last).map(|(_, a)| *a).unwrap_or(0)
}

#[derive(Clone)]
struct Tree {
    path: Vec<String>,
    fns: Vec<String>,
    imports: Vec<String>,
    subs: Vec<Tree>,
}

fn gen_tree(rng: &mut Rng, path: Vec<String>, depth: usize) -> Tree {
    let mut fns: Vec<String> = vec![];
    for _ in 0..rng.below(4) {
        let n = rng.pick(&FN_NAMES).0.to_string();
        if !fns.contains(&n) {
            fns.push(n);
        }
    }
    let mut subs = vec![];
    if depth > 0 {
        for _ in 0..rng.weighted(&[3, 4, 3, 1]) {
            let n = rng.pick(&MOD_NAMES).to_string();
            if subs.iter().any(|s: &Tree| s.path.last() == Some(&n)) {
                continue;
            }
            let mut p = path.clone();
            p.push(n);
            subs.push(gen_tree(rng, p, depth - 1));
        }
    }
    Tree { path, fns, imports: vec![], subs }
}

fn all_fns(t: &Tree, out: &mut Vec<(Vec<String>, String)>) {
    for f in &t.fns {
        out.push((t.path.clone(), f.clone()));
    }
    for s in &t.subs {
        all_fns(s, out);
    }
}

fn all_paths(t: &Tree, out: &mut Vec<Vec<String>>) {
    out.push(t.path.clone());
    for s in &t.subs {
        all_paths(s, out);
    }
}

fn node_mut<'a>(t: &'a mut Tree, path: &[String]) -> &'a mut Tree {
    if path.is_empty() {
        return t;
    }
    let i = t.subs.iter().position(|s| s.path.last() == Some(&path[0])).unwrap();
    node_mut(&mut t.subs[i], &path[1..])
}

fn relative(from: &[String], to: &[String]) -> String {
    let mut common = 0;
    while common < from.len() && common < to.len() && from[common] == to[common] {
        common += 1;
    }
    let mut segs: Vec<String> = vec![];
    for _ in common..from.len() {
        segs.push("super".into());
    }
    segs.extend(to[common..].iter().cloned());
    segs.join(".")
}

fn add_imports(rng: &mut Rng, t: &mut Tree, fns: &[(Vec<String>, String)], paths: &[Vec<String>], w: &mut CaseWriter) {
    let mut keys: Vec<String> = vec![];
    for _ in 0..rng.weighted(&[1, 3, 4, 3]) {
        let imp = match rng.below(10) {
            0..=4 if !fns.is_empty() => {
                // function import, relative to this module
                let (p, n) = rng.pick(fns);
                let mut full = p.clone();
                full.push(n.clone());
                relative(&t.path, &full)
            }
            5..=7 if paths.len() > 1 => {
                // module import (a direct child cannot be imported: its relative path has no dot)
                let mut r = String::new();
                for _ in 0..6 {
                    let p = rng.pick(paths);
                    if p.is_empty() {
                        continue;
                    }
                    r = relative(&t.path, p);
                    if r.contains('.') && (!r.starts_with("super.") || rng.chance(1, 3)) {
                        break;
                    }
                }
                r
            }
            8 => {
                w.count("import.too_many_super");
                format!("{}f", "super.".repeat(t.path.len() + 1 + rng.below(2) as usize))
            }
            _ => continue,
        };
        if !imp.contains('.') {
            continue; // not expressible as an import (BadImport): planted separately
        }
        let key = imp.rsplit('.').next().unwrap().to_string();
        if keys.contains(&key) {
            continue; // ambiguous: planted separately
        }
        if imp.starts_with("super.") {
            w.count("import.super");
        }
        keys.push(key);
        t.imports.push(imp);
    }
    for s in t.subs.iter_mut() {
        add_imports(rng, s, fns, paths, w);
    }
}


fn node(path: &[&str], fns: &[&str], imports: &[&str], subs: Vec<Tree>) -> Tree {
    Tree {
        path: path.iter().map(|s| s.to_string()).collect(),
        fns: fns.iter().map(|s| s.to_string()).collect(),
        imports: imports.iter().map(|s| s.to_string()).collect(),
        subs,
    }
}

/// planted corner cases of the resolution rules: (class, tree, caller path, called name)
fn corner(k: usize) -> Option<(&'static str, Tree, Vec<String>, String, Option<bool>)> {
    let p = |v: &[&str]| v.iter().map(|s| s.to_string()).collect::<Vec<String>>();
    let (class, tree, caller, name) = match k {
        // an import made of `super` segments only: its last segment is the imported NAME, not a step
        0 => ("corner.super_only_import_fn", node(&[], &["f"], &[], vec![node(&["a"], &[], &["super.super"], vec![])]), p(&["a"]), "super".into()),
        1 => (
            "corner.super_only_import_module",
            node(&[], &["f"], &[], vec![node(&["a"], &[], &[], vec![node(&["a", "b"], &[], &["super.super"], vec![])])]),
            p(&["a", "b"]),
            "super.f".into(),
        ),
        2 => (
            "corner.super_only_import_limit",
            node(&[], &["f"], &[], vec![node(&["a"], &[], &["super.super.super"], vec![])]),
            p(&["a"]),
            "super".into(),
        ),
        // the import's key equals the called name but its target does not exist
        3 => ("corner.import_target_missing", node(&[], &[], &[], vec![node(&["a"], &[], &["b.f"], vec![])]), p(&["a"]), "f".into()),
        4 => (
            "corner.module_import_target_missing",
            node(&[], &[], &[], vec![node(&["a"], &[], &["super.util"], vec![]), node(&["util"], &["g"], &[], vec![])]),
            p(&["a"]),
            "util.f".into(),
        ),
        // priority: absolute path, then the caller's module, then the import
        5 => (
            "corner.priority_absolute",
            node(&[], &["f"], &[], vec![node(&["a"], &["f"], &["super.util.f"], vec![]), node(&["util"], &["f"], &[], vec![])]),
            p(&["a"]),
            "f".into(),
        ),
        6 => (
            "corner.priority_own_module",
            node(&[], &[], &[], vec![node(&["a"], &["f"], &["super.util.f"], vec![]), node(&["util"], &["f"], &[], vec![])]),
            p(&["a"]),
            "f".into(),
        ),
        7 => (
            "corner.priority_import",
            node(&[], &[], &[], vec![node(&["a"], &[], &["super.util.f"], vec![]), node(&["util"], &["f"], &[], vec![])]),
            p(&["a"]),
            "f".into(),
        ),
        // relative dotted path (rule 2) beats a module import of the same first segment (rule 4)
        8 => (
            "corner.priority_relative_over_module_import",
            node(
                &[],
                &[],
                &[],
                vec![node(&["a"], &[], &["super.m1.util"], vec![node(&["a", "util"], &["f"], &[], vec![])]), node(&["m1"], &[], &[], vec![node(&["m1", "util"], &["f"], &[], vec![])])],
            ),
            p(&["a"]),
            "util.f".into(),
        ),
        // N-C08-3: a static call / function value of the entry function `main` (it has no label)
        9 | 10 => ("corner.call_main", node(&[], &["f"], &[], vec![]), p(&[]), "main".into()),
        11 | 12 => ("corner.call_main", node(&[], &["f"], &[], vec![node(&["a"], &["g"], &[], vec![])]), p(&["a"]), "main".into()),
        13 => (
            "corner.call_main",
            node(&[], &[], &[], vec![node(&["a"], &[], &[], vec![node(&["a", "b"], &["f"], &["super.super.main"], vec![])])]),
            p(&["a", "b"]),
            "main".into(),
        ),
        _ => return None,
    };
    // cases 10, 12: Function value + DynamicCall; 9, 11, 13: static Call
    let by_value = match k {
        9 | 11 | 13 => Some(false),
        10 | 12 => Some(true),
        _ => None,
    };
    Some((class, tree, caller, name, by_value))
}

fn int(i: i64) -> Card {
    Card::scalar_int(i)
}

fn callee_body(name: &str, tag: i64) -> Function {
    let k = arity_of(name);
    let arguments: Vec<String> = (0..k).map(|j| format!("q{}", j)).collect();
    let mut cards = vec![Card::set_global_var("ran", int(tag))];
    for j in 0..k {
        cards.push(Card::set_global_var(format!("p{}", j), Card::read_var(format!("q{}", j))));
    }
    cards.push(Card::set_var("keep", int(5)));
    if tag % 4 == 1 || tag % 4 == 2 {
        // a value card in statement position (like a call whose result is not used): its value stays on the callee's
        // part of the stack as a temporary above the locals until the function returns - a callee that does not
        // return a value must still hand back nil
        cards.push(int(31000 + tag));
    }
    if tag % 2 == 0 {
        cards.push(CardBody::Return(UnaryExpression { card: Box::new(int(9000 + tag)) }).into());
    }
    Function { arguments, cards }
}

/// builds the cao-lang module; `next` numbers the functions in the compiler's order
fn build(t: &Tree, next: &mut i64, site: &(Vec<String>, Function), main_pos: usize) -> Module {
    let mut functions = vec![];
    let mut names: Vec<String> = t.fns.clone();
    if t.path.is_empty() && main_pos != usize::MAX {
        names.insert(main_pos.min(names.len()), "main".into());
    }
    if t.path == site.0 {
        names.push(SITE.into());
    }
    for n in names {
        let f = if n == "main" {
            let mut p = site.0.clone();
            p.push(SITE.into());
            Function { arguments: vec![], cards: vec![Card::call_function(p.join("."), vec![])] }
        } else if n == SITE {
            site.1.clone()
        } else {
            callee_body(&n, *next)
        };
        *next += 1;
        functions.push((n, f));
    }
    let submodules = t.subs.iter().map(|s| (s.path.last().unwrap().clone(), build(s, next, site, main_pos))).collect();
    Module { submodules, functions, imports: t.imports.clone() }
}

fn read(vm: &cao_lang::vm::Vm<()>, p: &cao_lang::prelude::CaoCompiledProgram, name: &str) -> String {
    match vm.read_var_by_name(name, &p.variables) {
        Some(Value::Integer(i)) => format!("(Some {})", out::z(i)),
        _ => "None".into(),
    }
}

pub fn gen(a: &Args) {
    let mut rng = Rng::new(a.seed);
    let per_shard = ((a.n + 31) / 32).max(4);
    let mut w = CaseWriter::new(&a.out, "C08Check", per_shard);
    let debug = cfg!(debug_assertions);
    for idx in 0..a.n {
        let depth = rng.weighted(&[1, 3, 4, 3]);
        let mut tree = gen_tree(&mut rng, vec![], depth);
        let mut fns = vec![];
        all_fns(&tree, &mut fns);
        let mut paths = vec![];
        all_paths(&tree, &mut paths);
        add_imports(&mut rng, &mut tree, &fns, &paths, &mut w);
        // the call site
        let mut caller = rng.pick(&paths).clone();
        for _ in 0..3 {
            if !node_mut(&mut tree, &caller).imports.is_empty() {
                break;
            }
            caller = rng.pick(&paths).clone();
        }
        let caller_imports = node_mut(&mut tree, &caller).imports.clone();
        let caller_fns = node_mut(&mut tree, &caller).fns.clone();
        let planted = if a.n >= 40 { corner(idx) } else { None };
        let mut name: String = match rng.below(12) {
            0..=2 if !fns.is_empty() => {
                w.count("name.absolute");
                let (p, n) = rng.pick(&fns);
                let mut full = p.clone();
                full.push(n.clone());
                full.join(".")
            }
            3 | 4 => {
                w.count("name.bare");
                // mostly a function of the caller's own module (shadowed by a root function of that name)
                if !caller_fns.is_empty() && rng.chance(3, 4) { rng.pick(&caller_fns).clone() } else { rng.pick(&FN_NAMES).0.to_string() }
            }
            5 | 6 | 7 if !caller_imports.is_empty() => {
                // through an import: its key, or key.f for module imports (f a function of that module when it has one)
                let prefer_module = rng.chance(1, 2);
                let mods: Vec<&String> = caller_imports
                    .iter()
                    .filter(|i| !FN_NAMES.iter().any(|(n, _)| Some(*n) == i.rsplit('.').next()))
                    .collect();
                let imp: &String = if prefer_module && !mods.is_empty() { *rng.pick(&mods) } else { rng.pick(&caller_imports) };
                let key = imp.rsplit('.').next().unwrap().to_string();
                if FN_NAMES.iter().any(|(n, _)| *n == key) {
                    w.count("name.import_fn");
                    key
                } else {
                    w.count("name.import_module");
                    if imp.starts_with("super.") {
                        w.count("name.import_module_super");
                    }
                    // a function that some module called `key` has, if any
                    let cands: Vec<&String> = fns.iter().filter(|(p, _)| p.last() == Some(&key)).map(|(_, n)| n).collect();
                    let f = if !cands.is_empty() && rng.chance(4, 5) { (*rng.pick(&cands)).clone() } else { rng.pick(&FN_NAMES).0.to_string() };
                    format!("{}.{}", key, f)
                }
            }
            8 | 9 if !fns.is_empty() => {
                // relative dotted path below the caller, when there is one
                let (p, n) = rng.pick(&fns);
                if p.len() > caller.len() && p[..caller.len()] == caller[..] {
                    w.count("name.relative");
                    let mut rel = p[caller.len()..].to_vec();
                    rel.push(n.clone());
                    rel.join(".")
                } else {
                    w.count("name.bare");
                    n.clone()
                }
            }
            10 => {
                w.count("name.garbage");
                rng.pick(&["nope", "a.nope", "super.f", "f.g", "zz.f"]).to_string()
            }
            _ => {
                w.count("name.bare");
                rng.pick(&FN_NAMES).0.to_string()
            }
        };
        let is_planted = planted.is_some();
        let mut force_by_value = None;
        if let Some((class, t, c, n, bv)) = planted {
            force_by_value = bv;
            w.count(class);
            w.count("corner.planted");
            tree = t;
            caller = c;
            name = n;
            fns.clear();
            all_fns(&tree, &mut fns);
            paths.clear();
            all_paths(&tree, &mut paths);
        }
        let nargs = arity_of(&name);
        let args: Vec<Card> = (0..nargs).map(|j| int(100 + j as i64)).collect();
        let by_value = { let r = rng.chance(1, 3); force_by_value.unwrap_or(r) };
        let call: Card = if by_value {
            w.count("site.function_value");
            CardBody::DynamicCall(Box::new(DynamicJump { args: args.into(), function: Card::function_value(name.clone()) })).into()
        } else {
            w.count("site.static_call");
            Card::call_function(name.clone(), args)
        };
        let site_fn = Function {
            arguments: vec![],
            cards: vec![
                Card::set_var("keep", int(77)),
                Card::set_global_var("ret", call),
                Card::set_global_var("keep_after", Card::read_var("keep")),
            ],
        };
        // planted static faults
        let mut limit: u32 = 64;
        let mut main_pos = rng.below(tree.fns.len() as u64 + 1) as usize;
        if rng.chance(1, 7) && !is_planted {
            match rng.below(8) {
                0 => {
                    w.count("fault.no_main");
                    main_pos = usize::MAX;
                }
                1 => {
                    w.count("fault.module_named_std");
                    tree.subs.push(Tree { path: vec!["std".into()], fns: vec![], imports: vec![], subs: vec![] });
                }
                2 if !tree.subs.is_empty() => {
                    w.count("fault.duplicate_module");
                    let d = tree.subs[0].clone();
                    let p = rng.pick(&paths).clone();
                    let n = node_mut(&mut tree, &p);
                    if let Some(first) = n.subs.first().cloned() {
                        n.subs.push(first);
                    } else {
                        tree.subs.push(d);
                    }
                }
                3 => {
                    w.count("fault.bad_import");
                    let p = rng.pick(&paths).clone();
                    node_mut(&mut tree, &p).imports.push("nodot".into());
                }
                4 => {
                    w.count("fault.ambiguous_import");
                    let p = rng.pick(&paths).clone();
                    let n = node_mut(&mut tree, &p);
                    n.imports.push("a.dup".into());
                    n.imports.push("b.c.dup".into());
                }
                5 => {
                    w.count("fault.bad_fn_name");
                    let p = rng.pick(&paths).clone();
                    let bad = rng.pick(&["", "super", "x-y", "a b", "q!"]).to_string();
                    node_mut(&mut tree, &p).fns.push(bad);
                }
                6 => {
                    w.count("fault.duplicate_fn");
                    let p = rng.pick(&paths).clone();
                    let n = node_mut(&mut tree, &p);
                    let d = n.fns.first().cloned().unwrap_or_else(|| "f".into());
                    n.fns.push(d.clone());
                    if n.fns.len() == 1 {
                        n.fns.push(d);
                    }
                }
                _ => {
                    w.count("fault.recursion_limit");
                    limit = rng.below(4) as u32;
                }
            }
        }
        let mut next = 0i64;
        let m = build(&tree, &mut next, &(caller.clone(), site_fn), main_pos);
        let mterm = modgen::coq_module(&m);
        out::describe_current(&format!("C08 case {}: {}", idx + 1, mterm));
        let m2 = m.clone();
        let r = std::panic::catch_unwind(move || compile(m2, CompileOptions { recursion_limit: limit }));
        let (cobs, robs) = match r {
            Err(_) => {
                w.count("obs.compile_panic");
                ("CPanic".to_string(), "RNotRun".to_string())
            }
            Ok(Err(e)) => {
                w.count(&format!("obs.err.{}", modgen::error_variant_name(&e.payload)));
                (modgen::coq_error(&e).unwrap_or_else(|| "(CErr EEmptyProgram None)".into()), "RNotRun".to_string())
            }
            Ok(Ok(p)) => {
                let cobs = format!("(COk {})", modgen::coq_program(&p));
                let run = std::panic::catch_unwind(std::panic::AssertUnwindSafe(|| {
                    let mut vm = cao_lang::vm::Vm::new(()).unwrap().with_max_iter(100_000);
                    match vm.run(&p) {
                        Ok(()) => {
                            let params: Vec<String> = (0..nargs).map(|j| read(&vm, &p, &format!("p{}", j))).collect();
                            format!(
                                "(RRan {} {} {} {})",
                                read(&vm, &p, "ran"),
                                out::list(params),
                                read(&vm, &p, "ret"),
                                read(&vm, &p, "keep_after")
                            )
                        }
                        Err(e) => match e.payload {
                            cao_lang::procedures::ExecutionErrorPayload::ProcedureNotFound(h) => format!("(RNoProc {})", out::n(h.value() as u64)),
                            _ => "RRunErr".to_string(),
                        },
                    }
                }));
                let robs = run.unwrap_or_else(|_| "RRunErr".to_string());
                w.count(if robs == "RRunErr" {
                    "obs.run_error"
                } else if robs.starts_with("(RNoProc") {
                    "obs.procedure_not_found"
                } else {
                    "obs.ran"
                });
                (cobs, robs)
            }
        };
        w.count(&format!("caller.depth{}", caller.len()));
        let term = format!(
            "(mk08 {} {} {} {} {} {} {} {})",
            mterm,
            out::n(limit as u64),
            out::b(debug),
            cobs,
            out::list(caller.iter().map(|s| modgen::coq_str(s))),
            modgen::coq_str(&name),
            out::nat(nargs),
            robs
        );
        w.push(term, fns.len() >= 2);
    }
    w.finish(serde_json::json!({}));
}
