//! Hand-written card programs used by the GC / memory / determinism checks.
use cao_lang::compiler::Module;
use cao_lang::prelude::*;

pub fn f(cards: Vec<Card>) -> Function {
    Function::default().with_cards(cards)
}
pub fn fa(args: &[&str], cards: Vec<Card>) -> Function {
    let mut fun = Function::default();
    for a in args {
        fun = fun.with_arg(a);
    }
    fun.with_cards(cards)
}
pub fn module(functions: Vec<(&str, Function)>) -> Module {
    Module { imports: vec![], submodules: vec![], functions: functions.into_iter().map(|(n, f)| (n.to_string(), f)).collect() }
}
fn s(len: usize, tag: usize) -> Card {
    // len 0: the empty string (a zero-sized character buffer: its own allocator path)
    if len == 0 { return Card::string_card(""); }
    let mut x = format!("s{}-", tag);
    while x.len() < len { x.push('x'); }
    Card::string_card(x)
}
pub fn append(v: Card, t: Card) -> Card {
    Card::from(CardBody::AppendTable(Box::new([v, t])))
}
pub fn table() -> Card {
    Card::from(CardBody::CreateTable)
}
pub fn closure(cards: Vec<Card>) -> Card {
    Card::from(CardBody::Closure(Box::new(f(cards))))
}
pub fn probe() -> Card {
    Card::call_native("gc_probe", vec![])
}

/// (name, module). `n` scales the amount of work, `len` the string sizes.
pub fn all(n: i64, len: usize) -> Vec<(String, Module)> {
    let mut v: Vec<(String, Module)> = vec![];
    // 1. pure garbage: one live string at any moment
    v.push(("string_churn".into(), module(vec![("main", f(vec![
        Card::repeat(Card::scalar_int(n), None, Card::set_var("s", s(len, 1))),
        Card::set_global_var("g", Card::read_var("s")),
    ]))])));
    // 2. garbage tables with contents
    v.push(("table_churn".into(), module(vec![("main", f(vec![
        Card::repeat(Card::scalar_int(n), Some("i".into()), Card::composite_card("body", vec![
            Card::set_var("t", table()),
            append(s(len, 2), Card::read_var("t")),
            Card::set_property(Card::read_var("i"), Card::read_var("t"), s(8, 3)),
        ])),
        Card::set_global_var("g", Card::read_var("t")),
        probe(),
    ]))])));
    // 3. live data grows
    v.push(("growing_table".into(), module(vec![("main", f(vec![
        Card::set_global_var("g", table()),
        Card::repeat(Card::scalar_int(n), None, append(s(len, 4), Card::read_var("g"))),
        probe(),
    ]))])));
    // 4. closures capturing locals, called later; upvalues closed at scope exit
    v.push(("closures".into(), module(vec![
        ("mk", fa(&["a"], vec![
            Card::set_var("x", s(len, 5)),
            probe(),
            Card::return_card(closure(vec![
                Card::set_var("tmp", s(len, 6)),
                Card::set_global_var("g", Card::read_var("x")),
                probe(),
                Card::return_card(Card::read_var("a")),
            ])),
        ])),
        ("main", f(vec![
            Card::set_var("fs", table()),
            Card::repeat(Card::scalar_int(n.min(40)), Some("i".into()),
                append(Card::call_function("mk", vec![Card::read_var("i")]), Card::read_var("fs"))),
            Card::set_global_var("h", Card::dynamic_call(
                Card::from(CardBody::Get(Box::new([Card::read_var("fs"), Card::scalar_int(0)]))).get_value(), vec![])),
            probe(),
        ])),
    ])));
    // 5. nested tables, shared sub-table, for-each
    v.push(("nested_tables".into(), module(vec![("main", f(vec![
        Card::set_var("inner", table()),
        append(s(len, 7), Card::read_var("inner")),
        Card::set_global_var("g", table()),
        Card::repeat(Card::scalar_int(n.min(60)), Some("i".into()), Card::composite_card("b", vec![
            Card::set_var("row", table()),
            Card::set_property(Card::read_var("inner"), Card::read_var("row"), s(6, 8)),
            Card::set_property(s(len, 9), Card::read_var("row"), Card::read_var("i")),
            append(Card::read_var("row"), Card::read_var("g")),
        ])),
        Card::from(ForEachCard::new(Card::read_var("g"), Some("k"), Some("v"), Card::composite_card("fe", vec![
            Card::set_var("tmp", s(len, 10)),
        ]))),
        probe(),
    ]))])));
    // 6. inline closure call + dropped closure (regressions of the rooting findings)
    v.push(("inline_closure".into(), module(vec![("main", f(vec![
        Card::set_var("x", Card::scalar_int(5)),
        Card::dynamic_call(closure(vec![
            Card::set_var("s", s(len, 11)),
            probe(),
            Card::set_global_var("g", Card::read_var("x")),
        ]), vec![]),
        closure(vec![Card::set_global_var("g2", Card::read_var("x"))]),
        Card::set_var("t", s(len, 12)),
        probe(),
    ]))])));
    // 7. stdlib: sorted / min / max / map / filter with allocating callbacks
    v.push(("stdlib".into(), module(vec![
        ("key", fa(&["k", "v"], vec![Card::set_var("junk", s(len, 13)), Card::return_card(Card::read_var("v"))])),
        ("main", f(vec![
            Card::set_var("t", table()),
            Card::repeat(Card::scalar_int(n.min(30)), Some("i".into()),
                append(Card::from(CardBody::Sub(Box::new([Card::scalar_int(100), Card::read_var("i")]))), Card::read_var("t"))),
            Card::set_global_var("sorted", Card::call_function("std.sorted_by_key", vec![Card::function_value("key"), Card::read_var("t")])),
            Card::set_global_var("mn", Card::call_function("std.min_by_key", vec![Card::function_value("key"), Card::read_var("t")])),
            Card::set_global_var("mp", Card::call_function("std.map", vec![Card::read_var("t"), Card::function_value("key")])),
            probe(),
        ])),
    ])));
    // 8. key functions that return fresh objects (strings): min/max/sorted hold them while they call again
    v.push(("stdlib_object_keys".into(), module(vec![
        ("key", fa(&["k", "v"], vec![Card::return_card(s(len + 3, 14))])),
        ("main", f(vec![
            Card::set_var("t", table()),
            Card::repeat(Card::scalar_int(n.min(20)), Some("i".into()), append(Card::read_var("i"), Card::read_var("t"))),
            Card::set_global_var("sorted", Card::call_function("std.sorted_by_key", vec![Card::function_value("key"), Card::read_var("t")])),
            Card::set_global_var("mn", Card::call_function("std.min_by_key", vec![Card::function_value("key"), Card::read_var("t")])),
            Card::set_global_var("mx", Card::call_function("std.max_by_key", vec![Card::function_value("key"), Card::read_var("t")])),
        ])),
    ])));
    // 9. overwriting an entry through a different but equal key object (two string literals,
    //    property shorthand, keys built at run time), then allocating, then reading again
    v.push(("overwrite_equal_keys".into(), module(vec![("main", f(vec![
        Card::set_global_var("t", table()),
        Card::set_var("t.foo", Card::scalar_int(1)),
        Card::set_var("t.foo", Card::scalar_int(2)),
        Card::set_var("junk", s(len, 15)),
        Card::repeat(Card::scalar_int(n.min(25)), Some("i".into()), Card::composite_card("b", vec![
            Card::set_property(Card::read_var("i"), Card::read_var("t"), s(6, 16)),
            Card::set_property(s(len, 17), Card::read_var("t"), s(6, 16)),
            Card::set_var("junk2", s(len, 18)),
        ])),
        probe(),
        Card::set_global_var("r1", Card::read_var("t.foo")),
        Card::set_global_var("r2", Card::get_property(Card::read_var("t"), s(6, 16))),
    ]))])));
    v
}

/// programs that use the host API of the harness' Vm (native `host_table`, see c05::new_vm): only for
/// harnesses that register it (C02)
pub fn host_api() -> Vec<(String, Module)> {
    let mut v: Vec<(String, Module)> = vec![];
    for k in [6i64, 13, 29] {
        // the host inserts a table of k entries; the script keeps it, allocates, probes and reads it back
        v.push((format!("host_table_{}", k), module(vec![("main", f(vec![
            Card::set_global_var("t", Card::call_native("host_table", vec![Card::scalar_int(k)])),
            Card::set_var("junk", s(24, 21)),
            probe(),
            Card::set_global_var("n", Card::from(CardBody::Len(cao_lang::compiler::UnaryExpression::new(Card::read_var("t"))))),
            Card::set_global_var("first", Card::get_property(Card::read_var("t"), Card::string_card("key0"))),
            Card::set_global_var("last", Card::get_property(Card::read_var("t"), Card::string_card(format!("key{}", k - 1)))),
            Card::set_global_var("u", Card::call_native("host_table", vec![Card::scalar_int(k / 2)])),
            probe(),
        ]))])));
    }
    v
}

// small helpers so the builders above read naturally
trait GetValue { fn get_value(self) -> Card; }
impl GetValue for Card {
    /// `Get` yields a row table {key, value}: take its "value"
    fn get_value(self) -> Card { Card::get_property(self, Card::string_card("value")) }
}
pub struct ForEachCard;
impl ForEachCard {
    pub fn new(iterable: Card, k: Option<&str>, v: Option<&str>, body: Card) -> Card {
        CardBody::ForEach(Box::new(cao_lang::compiler::ForEach {
            i: None,
            k: k.map(|x| x.to_string()),
            v: v.map(|x| x.to_string()),
            iterable: Box::new(iterable),
            body: Box::new(body),
        })).into()
    }
}
