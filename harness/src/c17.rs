//! C17: histories of (program, budget, maybe clear, run) on one Vm; every step is also run on a fresh Vm.
//! Two kinds of history: `Hist` (1 GiB limit, no collection runs: the model Vm.v follows every step) and
//! `HistMem` (a small memory limit, 300 bytes .. 64 KiB, chosen so that runs end in OutOfMemory at every kind
//! of allocation site; only the fresh-Vm oracle and the allocator-counter oracle apply, see C17Check.v).
use crate::out::{self, CaseWriter};
use crate::rng::Rng;
use crate::vmgen;
use crate::vmrun::{self, Kind};
use crate::Args;
use cao_lang::prelude::*;
use cao_lang::verif_hooks as hooks;
use std::panic::{catch_unwind, AssertUnwindSafe};

const GENEROUS: u64 = 20_000;

fn counters(vm: &Vm<'static, vmrun::Host>) -> Vec<u64> {
    let (allocated, next_gc, _limit) = hooks::alloc_counters(&vm.runtime_data);
    let (h, d) = hooks::stack_heights(&vm.runtime_data);
    vec![
        allocated as u64,
        next_gc as u64,
        h as u64,
        d as u64,
        hooks::object_count(&vm.runtime_data) as u64,
        hooks::global_count(&vm.runtime_data) as u64,
    ]
}

fn nlist(v: &[u64]) -> String {
    out::list(v.iter().map(|x| out::n(*x)))
}

pub fn gen(a: &Args) {
    let mut rng = Rng::new(a.seed);
    let mut w = CaseWriter::new(&a.out, "C17Check", 2);
    let corpus: Vec<vmgen::Entry> = vmgen::corpus().into_iter().filter(|e| e.history == 0).collect();
    let fresh_counters = counters(&vmrun::new_vm(1));
    let mut attempts = 0usize;
    let plan = mem_plan();
    let mut mem_histories = 0usize;
    let mut plain_histories = 0usize;
    while w.len() < a.n && attempts < a.n * 4 {
        attempts += 1;
        out::describe_current(&format!("C17 history #{}", attempts));
        if attempts % 3 == 0 {
            mem_history(&mut w, &mut rng, &plan, &corpus, mem_histories);
            mem_histories += 1;
            continue;
        }
        plain_histories += 1;
        // 1-4 programs per history: corpus entries and random modules
        let np = 1 + rng.below(4) as usize;
        let mut progs = vec![];
        let mut printed = vec![];
        for pk in 0..np {
            // the first program of the k-th modelled history is corpus entry k (round robin), so that every
            // error path of the corpus occurs whatever the seed
            let m = if pk == 0 || rng.chance(1, 2) {
                let e = if pk == 0 { &corpus[plain_histories % corpus.len()] } else { &corpus[rng.below(corpus.len() as u64) as usize] };
                w.count(&format!("prog.corpus.{}", e.name));
                e.module.clone()
            } else {
                w.count("prog.random");
                let reals = rng.chance(1, 2);
                let mut sub = Rng::new(rng.next());
                vmgen::Gen::new(&mut sub, reals).module()
            };
            match catch_unwind(AssertUnwindSafe(|| compile(m, None))) {
                Ok(Ok(p)) => {
                    printed.push(vmrun::program_term(&p));
                    progs.push(p);
                }
                _ => w.count("compile.failed"),
            }
        }
        if progs.is_empty() {
            continue;
        }
        let long = rng.chance(1, 10);
        let nsteps = if long { 300 } else { 4 + rng.below(24) as usize };
        if long {
            // long histories use the first program only, to keep the case small
            progs.truncate(1);
            printed.truncate(1);
            w.count("history.300_steps");
        }
        let mut vm = vmrun::new_vm(GENEROUS);
        let mut steps = vec![];
        let mut poisoned = false;
        let mut kinds = std::collections::BTreeSet::new();
        for k in 0..nsteps {
            let pi = rng.below(progs.len() as u64) as usize;
            let budget = match rng.below(6) {
                0 => 1 + rng.below(60),
                1 => 1 + rng.below(400),
                _ => GENEROUS,
            };
            let clear = k > 0 && rng.chance(1, 2);
            let after_clear = if clear {
                vm.clear();
                w.count("step.clear");
                out::opt(Some(nlist(&counters(&vm))))
            } else {
                w.count("step.no_clear");
                "None".to_string()
            };
            vm.get_aux_mut().log.clear();
            vm.max_instr = budget;
            let o = vmrun::observe(&mut vm, &progs[pi], &printed[pi]);
            let mut fresh = vmrun::new_vm(budget);
            let of = vmrun::observe(&mut fresh, &progs[pi], &printed[pi]);
            if of.kind == Kind::Panic { std::mem::forget(fresh); }
            match &o.kind {
                Kind::Ok => { kinds.insert("Ok".to_string()); w.count("outcome.Ok") }
                Kind::Panic => { kinds.insert("Panic".to_string()); w.count("outcome.Panic") }
                Kind::Err(e) => {
                    let short = e.trim_start_matches('(').split(' ').next().unwrap_or("").to_string();
                    kinds.insert(short.clone());
                    w.count(&format!("outcome.{}", short));
                }
            }
            steps.push(format!(
                "(mkStep {} {} {} {} {} {})",
                out::nat(pi), out::n(budget), out::b(clear), after_clear, o.term, of.term
            ));
            if o.kind == Kind::Panic {
                poisoned = true;
                break;
            }
        }
        if poisoned { std::mem::forget(vm); }
        let term = format!(
            "(Hist {} {} {} {})",
            out::b(cfg!(debug_assertions)),
            nlist(&fresh_counters),
            out::list(printed.iter().map(|p| p.term.clone())),
            out::list(steps)
        );
        w.push(term, kinds.len() >= 2 || nsteps >= 10);
    }
    w.finish(serde_json::json!({"profile": if cfg!(debug_assertions) { "debug" } else { "release" }}));
}

// ---------------------------------------------------------------------------------------------
// histories under a small memory limit

use crate::vmgen::{add, append, closure, fval, int, module, func, nval, repeat, ret, rv, s, sv, table};
use cao_lang::compiler::Module;

/// Programs whose allocations are of known kinds, in a known order (no natives, no calls)
const T_STRINGS: usize = 0;
const T_TABLES: usize = 1;
const T_GROWTH: usize = 2;
const T_FUNCTIONS: usize = 3;
const T_NATIVES: usize = 4;
const T_CLOSURES: usize = 5;
const T_UPVALUES: usize = 6;
const T_BIG_STRINGS: usize = 7;
const T_BIG_GROWTH: usize = 8;

fn mem_templates() -> Vec<(&'static str, Module)> {
    let many = |n: usize, pre: &str, mk: &dyn Fn(usize) -> Card| -> Vec<Card> {
        (0..n).map(|i| sv(&format!("{}{}", pre, i), mk(i))).collect()
    };
    let lens = [1usize, 3, 17, 40, 9, 120, 2, 60];
    let mut caps: Vec<Card> = many(90, "a", &|i| int(i as i64));
    // one closure that captures all 90 locals: closure header, then 90 upvalue objects
    let mut sum = int(0);
    for i in 0..90 {
        sum = add(rv(&format!("a{}", i)), sum);
    }
    caps.push(sv("c", closure(&[], vec![ret(sum)])));
    vec![
        // string header + string characters, kept alive as locals
        ("mem_strings", module(vec![("main", func(&[], many(110, "s", &|i| s(&"s".repeat(lens[i % lens.len()])))))])),
        // table header + initial storage
        ("mem_tables", module(vec![("main", func(&[], many(110, "t", &|_| table())))])),
        // one table that grows
        ("mem_table_growth", module(vec![("main", func(&[], vec![
            sv("t", table()),
            repeat(int(500), Some("i"), append(rv("i"), rv("t"))),
        ]))])),
        ("mem_functions", module(vec![
            ("main", func(&[], many(110, "f", &|_| fval("g")))),
            ("g", func(&[], vec![ret(int(1))])),
        ])),
        ("mem_natives", module(vec![("main", func(&[], many(110, "n", &|_| nval("log1"))))])),
        ("mem_closures", module(vec![("main", func(&[], many(110, "c", &|_| closure(&[], vec![ret(int(1))]))))])),
        ("mem_upvalues", module(vec![("main", func(&[], caps))])),
        // the same two shapes with more bytes, for the upper end of the limit range
        ("mem_big_strings", module(vec![("main", func(&[], many(110, "s", &|i| s(&"b".repeat(100 + 19 * (i % 8))))))])),
        ("mem_big_table_growth", module(vec![("main", func(&[], vec![
            sv("t", table()),
            repeat(int(3000), Some("i"), append(rv("i"), rv("t"))),
        ]))])),
    ]
}

/// the allocation that was refused in the recorded events: (index among the allocations, size)
fn refused(evs: &[hooks::AllocEvent]) -> Option<(usize, usize)> {
    let mut idx = 0usize;
    let mut cur = (0usize, 0usize);
    let mut last = None;
    for e in evs {
        match e {
            hooks::AllocEvent::AllocBegin { size, .. } => {
                cur = (idx, *size);
                idx += 1;
            }
            hooks::AllocEvent::AllocEnd { ok: false, .. } => last = Some(cur),
            _ => {}
        }
    }
    last
}

/// kind of allocation site at which a template program was refused
fn site_of(template: usize, idx: usize, size: usize) -> &'static str {
    let header = hooks::layouts()[0].0;
    let is_header = size == header;
    match template {
        T_STRINGS | T_BIG_STRINGS => if is_header { "string_header" } else { "string_chars" },
        T_TABLES => if is_header { "table_header" } else { "table_storage_initial" },
        T_GROWTH | T_BIG_GROWTH => match idx { 0 => "table_header", 1 => "table_storage_initial", _ => "table_storage_growth" },
        T_FUNCTIONS => "function_object",
        T_NATIVES => "native_function_object",
        T_CLOSURES => "closure",
        T_UPVALUES => if idx == 0 { "closure" } else { "upvalue" },
        _ => "other",
    }
}

pub const SITES: &[&str] = &[
    "string_header", "string_chars", "table_header", "table_storage_initial", "table_storage_growth", "closure",
    "upvalue", "function_object", "native_function_object",
];

pub struct MemPlan {
    names: Vec<&'static str>,
    progs: Vec<CaoCompiledProgram>,
    printed: Vec<vmrun::Printed>,
    /// site -> (template, limit) at which a fresh Vm is refused at that site
    at: std::collections::BTreeMap<&'static str, Vec<(usize, usize)>>,
}

fn limited_vm(budget: u64, limit: usize) -> Vm<'static, vmrun::Host> {
    let mut vm = vmrun::new_vm(budget);
    vm.runtime_data.set_memory_limit(limit);
    vm
}

fn is_oom(o: &vmrun::Obs) -> bool {
    matches!(&o.kind, Kind::Err(e) if e == "EOutOfMemory")
}

/// run every template under a ladder of limits and note where each one is refused
fn mem_plan() -> MemPlan {
    let mut names = vec![];
    let mut progs = vec![];
    let mut printed = vec![];
    for (name, m) in mem_templates() {
        let p = compile(m, None).unwrap_or_else(|e| panic!("template {} does not compile: {:?}", name, e));
        printed.push(vmrun::program_term(&p));
        progs.push(p);
        names.push(name);
    }
    let mut at: std::collections::BTreeMap<&'static str, Vec<(usize, usize)>> = Default::default();
    let mut limit = 300usize;
    while limit <= 65536 {
        for t in 0..progs.len() {
            out::describe_current(&format!("C17 plan: template {} limit {}", names[t], limit));
            let mut vm = limited_vm(GENEROUS, limit);
            hooks::record_events(true);
            let o = vmrun::observe(&mut vm, &progs[t], &printed[t]);
            let evs = hooks::take_events();
            hooks::record_events(false);
            if o.kind == Kind::Panic { std::mem::forget(vm); continue; }
            if is_oom(&o) {
                if let Some((idx, size)) = refused(&evs) {
                    at.entry(site_of(t, idx, size)).or_default().push((t, limit));
                }
            }
        }
        limit += (limit / 7).max(24);
    }
    MemPlan { names, progs, printed, at }
}

fn counters_mem(vm: &Vm<'static, vmrun::Host>) -> Vec<u64> {
    let (allocated, next_gc, limit) = hooks::alloc_counters(&vm.runtime_data);
    let (h, d) = hooks::stack_heights(&vm.runtime_data);
    vec![
        allocated as u64,
        next_gc as u64,
        limit as u64,
        h as u64,
        d as u64,
        hooks::object_count(&vm.runtime_data) as u64,
        hooks::global_count(&vm.runtime_data) as u64,
    ]
}

/// 0 = not even the empty string fits; L + 1 = the longest string that a cleared Vm can hold has L bytes.
/// The Vm is cleared after every probe.
fn sweep(vm: &mut Vm<'static, vmrun::Host>, limit: usize) -> u64 {
    let mut fits = |len: usize| -> bool {
        let text = "x".repeat(len);
        let ok = vm.init_string(&text).is_ok();
        vm.clear();
        ok
    };
    if !fits(0) {
        return 0;
    }
    // invariant: lo fits, hi does not
    let (mut lo, mut hi) = (0usize, limit / 4 + 2);
    while lo + 1 < hi {
        let mid = (lo + hi) / 2;
        if fits(mid) { lo = mid } else { hi = mid }
    }
    lo as u64 + 1
}

fn owned(rng: &mut Rng) -> (OwnedValue, &'static str) {
    if rng.chance(1, 2) {
        let len = [0usize, 5, 60, 700, 5000][rng.below(5) as usize] + rng.below(40) as usize;
        (OwnedValue::String("o".repeat(len)), "string")
    } else {
        // integer keys and values only: nothing but the table itself is allocated while it is filled
        let n = [0usize, 5, 9, 40, 300, 1500][rng.below(6) as usize];
        let entries = (0..n).map(|i| OwnedEntry { key: OwnedValue::Integer(i as i64), value: OwnedValue::Real(i as f64) }).collect();
        (OwnedValue::Table(entries), "table")
    }
}

/// [1 if Ok else 0 (OutOfMemory) / 2 (another error); allocated; objects]
fn insert_obs(vm: &mut Vm<'static, vmrun::Host>, v: &OwnedValue) -> (Vec<u64>, bool) {
    let r = vm.insert_value(v);
    let code = match &r {
        Ok(_) => 1,
        Err(ExecutionErrorPayload::OutOfMemory) => 0,
        Err(_) => 2,
    };
    let (allocated, _, _) = hooks::alloc_counters(&vm.runtime_data);
    (vec![code, allocated as u64, hooks::object_count(&vm.runtime_data) as u64], code == 0)
}

fn mem_history(w: &mut CaseWriter, rng: &mut Rng, plan: &MemPlan, corpus: &[vmgen::Entry], k: usize) {
    w.count("history.limited_memory");
    // the site this history aims at, and a (template, limit) that is refused there on a fresh Vm
    let target = SITES[k % SITES.len()];
    let (tt, tlimit) = match plan.at.get(target) {
        Some(v) if !v.is_empty() => v[rng.below(v.len() as u64) as usize],
        _ => (rng.below(plan.progs.len() as u64) as usize, 300 + rng.below(65_000) as usize),
    };
    // the first round uses the planned limit as it is, later rounds move it a little
    let limit = if k < SITES.len() { tlimit } else { tlimit + rng.below(48) as usize };
    // programs: the targeted template, one or two other templates, error-path programs of the corpus, maybe a random one
    let mut progs: Vec<CaoCompiledProgram> = vec![];
    let mut printed: Vec<vmrun::Printed> = vec![];
    let mut template_of: Vec<Option<usize>> = vec![];
    let add_template = |t: usize, progs: &mut Vec<CaoCompiledProgram>, printed: &mut Vec<vmrun::Printed>, template_of: &mut Vec<Option<usize>>| {
        progs.push(plan.progs[t].clone());
        printed.push(vmrun::program_term(&plan.progs[t]));
        template_of.push(Some(t));
    };
    add_template(tt, &mut progs, &mut printed, &mut template_of);
    for _ in 0..1 + rng.below(2) {
        let t = rng.below(plan.progs.len() as u64) as usize;
        add_template(t, &mut progs, &mut printed, &mut template_of);
    }
    const ERROR_PATHS: &[&str] = &[
        "infinite_loop", "stack_overflow", "infinite_recursion", "native_fail", "native_conversion_error",
        "reentry_error_propagates", "reentry_call_stack_full", "closures_in_loop", "tables", "natives",
    ];
    for _ in 0..1 + rng.below(3) {
        let m = if rng.chance(3, 4) {
            let name = ERROR_PATHS[rng.below(ERROR_PATHS.len() as u64) as usize];
            match corpus.iter().find(|e| e.name == name) {
                Some(e) => { w.count(&format!("mem.prog.corpus.{}", name)); e.module.clone() }
                None => continue,
            }
        } else {
            w.count("mem.prog.random");
            let reals = rng.chance(1, 2);
            let mut sub = Rng::new(rng.next());
            vmgen::Gen::new(&mut sub, reals).module()
        };
        if let Ok(Ok(p)) = catch_unwind(AssertUnwindSafe(|| compile(m, None))) {
            printed.push(vmrun::program_term(&p));
            progs.push(p);
            template_of.push(None);
        }
    }
    let fresh_counters = counters_mem(&limited_vm(1, limit));
    let fit_fresh = sweep(&mut limited_vm(1, limit), limit);
    let mut vm = limited_vm(GENEROUS, limit);
    let nsteps = 5 + rng.below(14) as usize;
    let mut steps: Vec<String> = vec![];
    let mut kinds = std::collections::BTreeSet::new();
    let mut poisoned = false;
    let mut oom_pending = false; // an OutOfMemory happened and no clear since
    for j in 0..nsteps {
        out::describe_current(&format!("C17 limited history #{} (limit {}) step {}", k, limit, j));
        let clear = j > 0 && rng.chance(1, 2);
        let cleared_counters = if clear {
            vm.clear();
            w.count("mem.step.clear");
            if oom_pending { w.count("mem.clear_after_OutOfMemory"); oom_pending = false; }
            Some(nlist(&counters_mem(&vm)))
        } else {
            None
        };
        let after_clear = out::opt(cleared_counters.clone());
        match rng.below(10) {
            0 | 1 => {
                // OwnedValue insertion from the host
                let (v, what) = owned(rng);
                let (r, oom) = insert_obs(&mut vm, &v);
                let mut fresh = limited_vm(1, limit);
                let (rf, _) = insert_obs(&mut fresh, &v);
                w.count("mem.step.insert_value");
                if oom { w.count(&format!("oom.owned_value_{}", what)); oom_pending = true; kinds.insert("EOutOfMemory".to_string()); }
                steps.push(format!("(MInsert {} {} {} {})", out::b(clear), after_clear, nlist(&r), nlist(&rf)));
            }
            2 if clear => {
                let fit = sweep(&mut vm, limit);
                w.count("mem.step.sweep");
                steps.push(format!("(MSweep {} {} {} {})", cleared_counters.clone().unwrap(), nlist(&counters_mem(&vm)), out::n(fit), out::n(fit_fresh)));
            }
            _ => {
                // the first step runs the targeted template on the new Vm
                let pi = if j == 0 { 0 } else { rng.below(progs.len() as u64) as usize };
                let budget = match rng.below(6) {
                    0 => 1 + rng.below(60),
                    1 => 1 + rng.below(400),
                    _ => GENEROUS,
                };
                let budget = if j == 0 { GENEROUS } else { budget };
                vm.get_aux_mut().log.clear();
                vm.max_instr = budget;
                hooks::record_events(true);
                let o = vmrun::observe(&mut vm, &progs[pi], &printed[pi]);
                let evs = hooks::take_events();
                hooks::record_events(false);
                let mut fresh = limited_vm(budget, limit);
                let of = vmrun::observe(&mut fresh, &progs[pi], &printed[pi]);
                if of.kind == Kind::Panic { std::mem::forget(fresh); }
                w.count("mem.step.run");
                match &o.kind {
                    Kind::Ok => { kinds.insert("Ok".to_string()); w.count("mem.outcome.Ok") }
                    Kind::Panic => { kinds.insert("Panic".to_string()); w.count("mem.outcome.Panic") }
                    Kind::Err(e) => {
                        let short = e.trim_start_matches('(').split(' ').next().unwrap_or("").to_string();
                        kinds.insert(short.clone());
                        w.count(&format!("mem.outcome.{}", short));
                        if e.contains("EOutOfMemory") {
                            oom_pending = true;
                            let site = match (template_of[pi], refused(&evs)) {
                                (Some(t), Some((idx, size))) if is_oom(&o) => site_of(t, idx, size),
                                _ => "other",
                            };
                            w.count(&format!("oom.{}", site));
                        }
                    }
                }
                steps.push(format!(
                    "(MRun {} {} {} {} {} {})",
                    out::nat(pi), out::n(budget), out::b(clear), after_clear, o.term, of.term
                ));
                if o.kind == Kind::Panic {
                    poisoned = true;
                    break;
                }
            }
        }
    }
    if !poisoned {
        // every history ends with clear + counters + sweep
        vm.clear();
        if oom_pending { w.count("mem.clear_after_OutOfMemory"); }
        let c0 = counters_mem(&vm);
        let fit = sweep(&mut vm, limit);
        w.count("mem.step.sweep");
        steps.push(format!("(MSweep {} {} {} {})", nlist(&c0), nlist(&counters_mem(&vm)), out::n(fit), out::n(fit_fresh)));
    } else {
        std::mem::forget(vm);
    }
    let term = format!(
        "(HistMem {} {} {} {} {})",
        out::b(cfg!(debug_assertions)),
        out::n(limit as u64),
        nlist(&fresh_counters),
        out::list(printed.iter().map(|p| p.term.clone())),
        out::list(steps)
    );
    w.push(term, kinds.len() >= 2);
}
