//! C17: histories of (program, budget, maybe clear, run) on one Vm; every step is also run on a fresh Vm.
use crate::out::{self, CaseWriter};
use crate::rng::Rng;
use crate::vmgen;
use crate::vmrun::{self, Kind};
use crate::Args;
use cao_lang::prelude::*;
use cao_lang::verif_hooks as hooks;
use std::panic::{catch_unwind, AssertUnwindSafe};

const GENEROUS: u64 = 20_000;

fn counters(vm: &Vm<'static, vmrun::Host>) -> Vec<u64> {
    let (allocated, next_gc, _limit) = hooks::alloc_counters(&vm.runtime_data);
    let (h, d) = hooks::stack_heights(&vm.runtime_data);
    vec![
        allocated as u64,
        next_gc as u64,
        h as u64,
        d as u64,
        hooks::object_count(&vm.runtime_data) as u64,
        hooks::global_count(&vm.runtime_data) as u64,
    ]
}

fn nlist(v: &[u64]) -> String {
    out::list(v.iter().map(|x| out::n(*x)))
}

pub fn gen(a: &Args) {
    let mut rng = Rng::new(a.seed);
    let mut w = CaseWriter::new(&a.out, "C17Check", 2);
    let corpus: Vec<vmgen::Entry> = vmgen::corpus().into_iter().filter(|e| e.history == 0).collect();
    let fresh_counters = counters(&vmrun::new_vm(1));
    let mut attempts = 0usize;
    while w.len() < a.n && attempts < a.n * 4 {
        attempts += 1;
        out::describe_current(&format!("C17 history #{}", attempts));
        // 1-4 programs per history: corpus entries and random modules
        let np = 1 + rng.below(4) as usize;
        let mut progs = vec![];
        let mut printed = vec![];
        for _ in 0..np {
            let m = if rng.chance(1, 2) {
                let e = &corpus[rng.below(corpus.len() as u64) as usize];
                w.count(&format!("prog.corpus.{}", e.name));
                e.module.clone()
            } else {
                w.count("prog.random");
                let reals = rng.chance(1, 2);
                let mut sub = Rng::new(rng.next());
                vmgen::Gen::new(&mut sub, reals).module()
            };
            match catch_unwind(AssertUnwindSafe(|| compile(m, None))) {
                Ok(Ok(p)) => {
                    printed.push(vmrun::program_term(&p));
                    progs.push(p);
                }
                _ => w.count("compile.failed"),
            }
        }
        if progs.is_empty() {
            continue;
        }
        let long = rng.chance(1, 10);
        let nsteps = if long { 300 } else { 4 + rng.below(24) as usize };
        if long {
            // long histories use the first program only, to keep the case small
            progs.truncate(1);
            printed.truncate(1);
            w.count("history.300_steps");
        }
        let mut vm = vmrun::new_vm(GENEROUS);
        let mut steps = vec![];
        let mut poisoned = false;
        let mut kinds = std::collections::BTreeSet::new();
        for k in 0..nsteps {
            let pi = rng.below(progs.len() as u64) as usize;
            let budget = match rng.below(6) {
                0 => 1 + rng.below(60),
                1 => 1 + rng.below(400),
                _ => GENEROUS,
            };
            let clear = k > 0 && rng.chance(1, 2);
            let after_clear = if clear {
                vm.clear();
                w.count("step.clear");
                out::opt(Some(nlist(&counters(&vm))))
            } else {
                w.count("step.no_clear");
                "None".to_string()
            };
            vm.get_aux_mut().log.clear();
            vm.max_instr = budget;
            let o = vmrun::observe(&mut vm, &progs[pi], &printed[pi]);
            let mut fresh = vmrun::new_vm(budget);
            let of = vmrun::observe(&mut fresh, &progs[pi], &printed[pi]);
            if of.kind == Kind::Panic { std::mem::forget(fresh); }
            match &o.kind {
                Kind::Ok => { kinds.insert("Ok".to_string()); w.count("outcome.Ok") }
                Kind::Panic => { kinds.insert("Panic".to_string()); w.count("outcome.Panic") }
                Kind::Err(e) => {
                    let short = e.trim_start_matches('(').split(' ').next().unwrap_or("").to_string();
                    kinds.insert(short.clone());
                    w.count(&format!("outcome.{}", short));
                }
            }
            steps.push(format!(
                "(mkStep {} {} {} {} {} {})",
                out::nat(pi), out::n(budget), out::b(clear), after_clear, o.term, of.term
            ));
            if o.kind == Kind::Panic {
                poisoned = true;
                break;
            }
        }
        if poisoned { std::mem::forget(vm); }
        let term = format!(
            "(Hist {} {} {} {})",
            out::b(cfg!(debug_assertions)),
            nlist(&fresh_counters),
            out::list(printed.iter().map(|p| p.term.clone())),
            out::list(steps)
        );
        w.push(term, kinds.len() >= 2 || nsteps >= 10);
    }
    w.finish(serde_json::json!({"profile": if cfg!(debug_assertions) { "debug" } else { "release" }}));
}
