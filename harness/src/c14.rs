//! C14: operation histories over ValueStack and BoundedStack.
use crate::out::{self, CaseWriter};
use crate::rng::Rng;
use crate::Args;
use cao_lang::collections::bounded_stack::BoundedStack;
use cao_lang::collections::value_stack::{StackError, ValueStack};
use cao_lang::prelude::Value;
use std::cell::RefCell;

fn val(v: Value) -> String {
    match v {
        Value::Nil => "None".into(),
        Value::Integer(i) => format!("(Some {})", out::z(i)),
        _ => "(Some (-999)%Z)".into(),
    }
}

fn pop_n(s: &mut ValueStack, n: usize) -> Vec<Value> {
    match n {
        0 => s.pop_n::<0>().to_vec(),
        1 => s.pop_n::<1>().to_vec(),
        2 => s.pop_n::<2>().to_vec(),
        3 => s.pop_n::<3>().to_vec(),
        4 => s.pop_n::<4>().to_vec(),
        5 => s.pop_n::<5>().to_vec(),
        6 => s.pop_n::<6>().to_vec(),
        7 => s.pop_n::<7>().to_vec(),
        _ => s.pop_n::<8>().to_vec(),
    }
}

fn vs_case(rng: &mut Rng, w: &mut CaseWriter, cap: usize, len: usize) {
    let mut s = ValueStack::new(cap);
    let mut ops = vec![];
    let mut obs = vec![];
    let mut next = 1i64;
    let mut full_seen = false;
    let mut empty_pop = false;
    let mut kinds = std::collections::BTreeSet::new();
    // phase bias: fill / drain
    for _ in 0..len {
        let fill = rng.chance(1, 2);
        let weights: [u32; 13] = if fill {
            [30, 6, 3, 2, 6, 5, 3, 3, 1, 3, 2, 3, 2]
        } else {
            [8, 20, 8, 4, 6, 5, 3, 3, 2, 8, 2, 3, 2]
        };
        let k = rng.weighted(&weights);
        kinds.insert(k);
        let count = s.len();
        // a Rust panic of the implementation (an index past the slot array after a corrupted height, ...) is an
        // observation that no specification output equals (`vpanicked`), and ends the history
        let step = std::panic::catch_unwind(std::panic::AssertUnwindSafe(|| {
        match k {
            0 => {
                let v = if rng.chance(1, 10) { Value::Nil } else { next += 1; Value::Integer(next) };
                ops.push(format!("vpush {}", val(v)));
                match s.push(v) {
                    Ok(()) => obs.push("vunit".to_string()),
                    Err(StackError::Full) => { full_seen = true; obs.push("vfull".into()) }
                    Err(StackError::OutOfBounds { capacity, index }) => obs.push(format!("voob {} {}", capacity, index)),
                }
            }
            1 => {
                if count == 0 { empty_pop = true; }
                ops.push("vpop".into());
                obs.push(format!("vval {}", val(s.pop())));
            }
            2 => {
                let n = rng.below(9) as usize;
                ops.push(format!("vpopn {}", n));
                let r = pop_n(&mut s, n);
                obs.push(format!("vvals {}", out::list(r.into_iter().map(val))));
            }
            3 => {
                let off = rng.below(count as u64 + 2) as usize;
                ops.push(format!("vpopoff {}", off));
                obs.push(format!("vval {}", val(s.pop_w_offset(off))));
            }
            4 => {
                let i = rng.below(count as u64 + 3) as usize;
                next += 1;
                let v = Value::Integer(next);
                ops.push(format!("vset {} {}", i, val(v)));
                match s.set(i, v) {
                    Ok(old) => obs.push(format!("vval {}", val(old))),
                    Err(StackError::Full) => { full_seen = true; obs.push("vfull".into()) }
                    Err(StackError::OutOfBounds { capacity, index }) => obs.push(format!("voob {} {}", capacity, index)),
                }
            }
            5 => {
                let i = rng.below(count as u64 + 3) as usize;
                ops.push(format!("vget {}", i));
                obs.push(format!("vval {}", val(s.get(i))));
            }
            6 => {
                ops.push("vlast".into());
                obs.push(format!("vval {}", val(s.last())));
            }
            7 => {
                let n = rng.below(count as u64 + 2) as usize;
                ops.push(format!("vpeek {}", n));
                obs.push(format!("vval {}", val(s.peek_last(n))));
            }
            8 => {
                ops.push("vclear".into());
                s.clear();
                obs.push("vunit".into());
            }
            9 => {
                // precondition of the property: truncate to a height at or below the current one
                let h = if rng.chance(1, 3) { 0 } else { rng.below(count as u64 + 1) as usize };
                ops.push(format!("vclearuntil {}", h));
                obs.push(format!("vval {}", val(s.clear_until(h))));
            }
            10 => {
                ops.push("vlen".into());
                obs.push(format!("vnat {}", s.len()));
                assert_eq!(s.is_empty(), s.len() == 0);
            }
            11 => {
                ops.push("viter".into());
                let a: Vec<Value> = s.iter().collect();
                let b: Vec<Value> = s.as_slice().to_vec();
                assert_eq!(a.len(), b.len());
                obs.push(format!("vvals {}", out::list(a.into_iter().map(val))));
            }
            _ => {
                ops.push("vtop".into());
                let p = s.top_location();
                if p.is_null() {
                    obs.push("vtopo None".into());
                } else {
                    let base = s.as_slice().as_ptr();
                    let off = (p as usize - base as usize) / std::mem::size_of::<Value>();
                    obs.push(format!("vtopo (Some {})", off));
                }
            }
        }
        }));
        if step.is_err() {
            if ops.len() == obs.len() { ops.push("vlen".into()); }
            obs.truncate(ops.len() - 1);
            obs.push("vpanicked".into());
            w.count("vs.impl_panic");
            break;
        }
    }
    w.count(&format!("vs.cap={}", if cap <= 8 { cap.to_string() } else { "big".into() }));
    if full_seen { w.count("vs.saw_full"); }
    if empty_pop { w.count("vs.pop_on_empty"); }
    let nontrivial = kinds.len() >= 4;
    w.push(
        format!("VsCase {} {} {}", cap, out::list(ops.into_iter().map(|o| format!("({})", o))), out::list(obs.into_iter().map(|o| format!("({})", o)))),
        nontrivial,
    );
}

thread_local! {
    static DROPS: RefCell<Vec<u64>> = RefCell::new(vec![]);
}
struct Tracked(u64);
impl Drop for Tracked {
    fn drop(&mut self) {
        DROPS.with(|d| d.borrow_mut().push(self.0));
    }
}
fn take_drops() -> String {
    DROPS.with(|d| {
        let v: Vec<u64> = d.borrow_mut().drain(..).collect();
        out::list(v.into_iter().map(out::n))
    })
}

fn bs_case(rng: &mut Rng, w: &mut CaseWriter, cap: usize, len: usize) {
    let mut s: BoundedStack<Tracked> = BoundedStack::new(cap);
    let mut ops = vec![];
    let mut obs = vec![];
    let mut next = 0u64;
    let mut kinds = std::collections::BTreeSet::new();
    let mut full = false;
    take_drops();
    for _ in 0..len {
        let k = rng.weighted(&[30, 15, 5, 2, 3, 4, 3]);
        kinds.insert(k);
        match k {
            0 => {
                next += 1;
                ops.push(format!("bpush {}", out::n(next)));
                let r = s.push(Tracked(next));
                let o = if r.is_ok() { "bok" } else { full = true; "bfull" };
                obs.push(format!("({}, {})", o, take_drops()));
            }
            1 => {
                ops.push("bpop".into());
                let o = match s.pop() {
                    Some(t) => { let id = t.0; std::mem::forget(t); format!("bsome {}", out::n(id)) }
                    None => "bnone".into(),
                };
                obs.push(format!("({}, {})", o, take_drops()));
            }
            2 => {
                ops.push("blast".into());
                let o = match s.last() { Some(t) => format!("bsome {}", out::n(t.0)), None => "bnone".into() };
                obs.push(format!("({}, {})", o, take_drops()));
            }
            3 => {
                ops.push("bclear".into());
                s.clear();
                obs.push(format!("(bok, {})", take_drops()));
            }
            4 => {
                ops.push("blen".into());
                assert_eq!(s.capacity(), cap);
                assert_eq!(s.is_empty(), s.len() == 0);
                obs.push(format!("(bnat {}, {})", s.len(), take_drops()));
            }
            5 => {
                ops.push("biter".into());
                let l = out::list(s.iter().map(|t| out::n(t.0)));
                obs.push(format!("(blist {}, {})", l, take_drops()));
            }
            _ => {
                ops.push("biterback".into());
                let l = out::list(s.iter_backwards().map(|t| out::n(t.0)));
                obs.push(format!("(blist {}, {})", l, take_drops()));
            }
        }
    }
    // Drop of the stack itself = clear
    ops.push("bclear".into());
    drop(s);
    obs.push(format!("(bok, {})", take_drops()));
    if full { w.count("bs.saw_full"); }
    w.count(&format!("bs.cap={}", if cap <= 8 { cap.to_string() } else { "big".into() }));
    w.push(
        format!("BsCase {} {} {}", cap, out::list(ops.into_iter().map(|o| format!("({})", o))), out::list(obs)),
        kinds.len() >= 3,
    );
}

pub fn gen(a: &Args) {
    let mut rng = Rng::new(a.seed);
    let mut w = CaseWriter::new(&a.out, "C14Check", 250);
    for i in 0..a.n {
        let cap = match rng.below(10) { 0..=6 => 1 + rng.below(8) as usize, 7 | 8 => 9 + rng.below(24) as usize, _ => 256 };
        let len = if cap == 256 && i % 7 == 0 { 600 } else { 10 + rng.below(60) as usize };
        if rng.chance(2, 3) {
            vs_case(&mut rng, &mut w, cap, len);
        } else {
            let cap = if rng.chance(1, 12) { 0 } else { cap.min(40) };
            bs_case(&mut rng, &mut w, cap, len);
        }
    }
    w.finish(serde_json::json!({}));
}
