//! C19: ==, hash, partial_cmp, <, <=, as_bool and the numeric casts on pairs and triples of
//! values built through the host API of a Vm (init_string / init_table / insert / init_function ..).
//! Values are described by a tree `T`, built bottom-up (a table is never changed after it was
//! used as a key, never contains itself), then read back from the real objects into a Coq term.
use crate::out::{self, CaseWriter};
use crate::rng::Rng;
use crate::Args;
use cao_lang::collections::hash_map::CaoHashMap;
use cao_lang::prelude::{Handle, Value, Vm};
use cao_lang::vm::runtime::cao_lang_object::{CaoLangObject, CaoLangObjectBody, ObjectGcGuard};
use std::cmp::Ordering;
use std::collections::HashMap;
use std::convert::TryFrom;
use std::ptr::NonNull;

#[derive(Clone, Debug, PartialEq)]
enum T {
    Nil,
    Int(i64),
    Real(u64),
    Str(String),
    Table(Vec<(T, T)>),
    Fn(u32, u32),
    Native(u32),
    /// (object tag, handle seed, arity): the same tag/handle/arity within a case = the very same object
    Closure(u32, u32, u32),
}

const P53: i64 = 1 << 53;
const INTS: &[i64] = &[
    0, 1, -1, 2, 3, 4, -2, 255, 256, P53 - 1, P53, P53 + 1, P53 + 2, P53 + 3, -P53, -P53 - 1, -P53 + 1,
    i64::MIN, i64::MIN + 1, i64::MAX, i64::MAX - 1, i64::MAX - 512, 1 << 62, (1 << 62) + 1,
    3416215008, 3291555020, // FNV-1a-32 of the 8 LE bytes is 0 -> remapped to 1
    1 << 32, -(1 << 31),
];
const STRS: &[&str] = &["", "a", "b", "ab", "ba", "abc", "abd", "\u{e9}", "a\u{e9}", "abcd", "\u{1F600}", "0", "1"];

fn real_pool() -> Vec<u64> {
    let mut v: Vec<u64> = vec![
        0.0f64, -0.0, 1.0, -1.0, 2.0, 3.0, 4.0, 0.5, 1.5, -2.5, f64::INFINITY, f64::NEG_INFINITY,
        f64::MAX, f64::MIN, f64::MIN_POSITIVE, f64::EPSILON, 9007199254740992.0, 9007199254740994.0,
        9007199254740991.0, -9007199254740992.0, -9007199254740994.0, 9223372036854775808.0,
        -9223372036854775808.0, 9223372036854774784.0, 18446744073709551616.0, 255.0, 256.0, 3416215008.0, 1e300, -1e300,
    ]
    .into_iter()
    .map(f64::to_bits)
    .collect();
    v.extend_from_slice(&[
        0x7ff8_0000_0000_0000, // NaN
        0xfff8_0000_0000_0000, // -NaN
        0x7ff0_0000_0000_0001, // signalling NaN, another payload
        0x0000_0000_0000_0001, // smallest subnormal
        0x800f_ffff_ffff_ffff, // -largest subnormal
        0x000f_ffff_ffff_ffff,
    ]);
    v
}

fn gen_int(r: &mut Rng) -> i64 {
    match r.below(10) {
        0..=5 => *r.pick(INTS),
        6 | 7 => r.range(-3, 6),
        8 => {
            // around 2^53..2^63: where i64 -> f64 rounds
            let sh = 53 + r.below(10);
            let base = 1i64 << sh;
            let d = r.range(-3, 3);
            let x = base.wrapping_add(d);
            if r.chance(1, 2) { x } else { x.wrapping_neg() }
        }
        _ => r.next() as i64,
    }
}

fn gen_real(r: &mut Rng, pool: &[u64]) -> u64 {
    match r.below(10) {
        0..=5 => *r.pick(pool),
        6 => (r.range(-3, 6) as f64).to_bits(),
        7 => {
            // neighbour of a pool value
            let b = *r.pick(pool);
            if r.chance(1, 2) { b.wrapping_add(1) } else { b.wrapping_sub(1) }
        }
        8 => (gen_int(r) as f64).to_bits(),
        _ => r.next(),
    }
}

fn gen_str(r: &mut Rng) -> String {
    if r.chance(3, 4) {
        r.pick(STRS).to_string()
    } else {
        let n = r.below(5) as usize;
        (0..n).map(|_| (b'a' + r.below(3) as u8) as char).collect()
    }
}

fn gen_fn(r: &mut Rng) -> T {
    let h = r.below(3) as u32 + 1;
    let a = r.below(2) as u32;
    match r.below(3) {
        0 => T::Fn(h, a),
        1 => T::Native(h),
        _ => T::Closure(r.below(2) as u32, h, a),
    }
}

fn gen_leaf(r: &mut Rng, pool: &[u64]) -> T {
    match r.weighted(&[6, 30, 30, 22, 4]) {
        0 => T::Nil,
        1 => T::Int(gen_int(r)),
        2 => T::Real(gen_real(r, pool)),
        3 => T::Str(gen_str(r)),
        _ => gen_fn(r),
    }
}

/// keys: mostly small ints and strings, so that tables collide in content; sometimes anything
fn gen_key(r: &mut Rng, pool: &[u64], depth: u32) -> T {
    match r.weighted(&[40, 30, 8, 8, 4, 4, 3, 3]) {
        0 => T::Int(r.range(0, 4)),
        1 => T::Str(gen_str(r)),
        2 => T::Int(gen_int(r)),
        3 => T::Real(gen_real(r, pool)),
        4 => if depth > 0 { gen_table(r, pool, depth - 1) } else { T::Nil },
        5 => T::Nil,
        6 => T::Real(0x7ff8_0000_0000_0000),
        _ => gen_fn(r),
    }
}

fn gen_table(r: &mut Rng, pool: &[u64], depth: u32) -> T {
    let n = match r.below(8) { 0 => 0, 1 | 2 => 1, 3 | 4 => 2, 5 => 3, 6 => 4, _ => 6 } as usize;
    let mut es = vec![];
    for _ in 0..n {
        let k = gen_key(r, pool, depth);
        let v = gen_value(r, pool, depth);
        es.push((k, v));
    }
    T::Table(es)
}

fn gen_value(r: &mut Rng, pool: &[u64], depth: u32) -> T {
    if depth > 0 && r.chance(3, 10) { gen_table(r, pool, depth - 1) } else { gen_leaf(r, pool) }
}

fn gen_top(r: &mut Rng, pool: &[u64]) -> T {
    if r.chance(35, 100) { let d = r.below(3) as u32; gen_table(r, pool, d) } else { gen_leaf(r, pool) }
}

fn depth(t: &T) -> u32 {
    match t {
        T::Table(es) => 1 + es.iter().map(|(k, v)| depth(k).max(depth(v))).max().unwrap_or(0),
        _ => 0,
    }
}

fn tlen(t: &T) -> i64 {
    match t {
        T::Str(s) => s.len() as i64,
        T::Table(es) => es.len() as i64, // approximate (duplicate keys merge); only steers generation
        _ => 0,
    }
}

/// a value related to `t`: the same content in another object, the same entries in another order,
/// one leaf changed, the numeric twin under the coercions, the other zero ...
fn variant(r: &mut Rng, pool: &[u64], t: &T) -> T {
    match t {
        T::Nil => match r.below(3) { 0 => T::Nil, 1 => T::Int(0), _ => T::Real(if r.chance(1, 2) { 0 } else { 1u64 << 63 }) },
        T::Int(i) => match r.below(6) {
            0 => T::Int(*i),
            1 => T::Real((*i as f64).to_bits()),
            2 => T::Int(i.wrapping_add(1)),
            3 => T::Int(i.wrapping_sub(1)),
            4 => { let b = (*i as f64).to_bits(); T::Real(if r.chance(1, 2) { b.wrapping_add(1) } else { b.wrapping_sub(1) }) }
            _ => if (0..6).contains(i) { T::Str("abcdef"[..*i as usize].to_string()) } else { T::Int(*i) },
        },
        T::Real(b) => match r.below(6) {
            0 => T::Real(*b),
            1 => T::Real(*b ^ (1u64 << 63)),
            2 => T::Int(f64::from_bits(*b) as i64),
            3 => T::Real(b.wrapping_add(1)),
            4 => T::Int((f64::from_bits(*b) as i64).wrapping_add(1)),
            _ => T::Real(b.wrapping_sub(1)),
        },
        T::Str(s) => match r.below(5) {
            0 | 1 => T::Str(s.clone()),
            2 => T::Int(s.len() as i64),
            3 => T::Real((s.len() as f64).to_bits()),
            _ => { // same length, other content
                let mut bs: Vec<char> = s.chars().collect();
                if let Some(c) = bs.last_mut() { *c = if *c == 'z' { 'y' } else { 'z' }; }
                T::Str(bs.into_iter().collect())
            }
        },
        T::Table(es) => match r.below(8) {
            0 | 1 => T::Table(es.clone()),
            2 => { // other insertion order
                let mut e2 = es.clone();
                for i in (1..e2.len()).rev() { let j = r.below(i as u64 + 1) as usize; e2.swap(i, j); }
                T::Table(e2)
            }
            3 => T::Int(tlen(t)),
            4 => T::Real((tlen(t) as f64).to_bits()),
            5 if !es.is_empty() => { // one value replaced by a variant
                let mut e2 = es.clone();
                let i = r.below(e2.len() as u64) as usize;
                e2[i].1 = variant(r, pool, &e2[i].1.clone());
                T::Table(e2)
            }
            6 if !es.is_empty() => { // one key replaced by a variant
                let mut e2 = es.clone();
                let i = r.below(e2.len() as u64) as usize;
                e2[i].0 = variant(r, pool, &e2[i].0.clone());
                T::Table(e2)
            }
            _ => { // one entry more
                let mut e2 = es.clone();
                e2.push((gen_key(r, pool, 0), gen_leaf(r, pool)));
                T::Table(e2)
            }
        },
        T::Fn(h, a) => match r.below(4) { 0 => T::Fn(*h, *a), 1 => T::Closure(0, *h, *a), 2 => T::Fn(*h, 1 - *a), _ => T::Int(0) },
        T::Native(h) => match r.below(3) { 0 => T::Native(*h), 1 => T::Native(*h + 1), _ => T::Fn(*h, 0) },
        // the same object, another object for the same function, the plain function
        T::Closure(c, h, a) => match r.below(3) { 0 => T::Closure(*c, *h, *a), 1 => T::Closure(*c + 1, *h, *a), _ => T::Fn(*h, *a) },
    }
}

fn ptr(g: &mut ObjectGcGuard) -> NonNull<CaoLangObject> {
    NonNull::from(&mut **g)
}

thread_local! {
    static GROWN_HISTORY: std::cell::Cell<bool> = const { std::cell::Cell::new(false) };
    static PAIR_NO: std::cell::Cell<u64> = const { std::cell::Cell::new(0) };
}

/// Builds the value; the guards keep every object protected from the collector for the case.
fn build<'a>(vm: &mut Vm<'a, ()>, t: &T, guards: &mut Guards) -> Value {
    let mut g = match t {
        T::Nil => return Value::Nil,
        T::Int(i) => return Value::Integer(*i),
        T::Real(b) => return Value::Real(f64::from_bits(*b)),
        T::Str(s) => vm.init_string(s).unwrap(),
        T::Table(es) => {
            // children first: nothing is mutated after it became a key
            let kv: Vec<(Value, Value)> = es.iter().map(|(k, v)| (build(vm, k, guards), build(vm, v, guards))).collect();
            let mut g = vm.init_table().unwrap();
            let table = g.as_table_mut().unwrap();
            // GROWN_HISTORY: the table first holds 40 other keys that are removed again, so its bucket array has
            // another capacity (and its entries another bucket order) than the same table built directly; contents
            // and insertion order are the same, so equality, hash and order must not notice
            if GROWN_HISTORY.with(|c| c.get()) {
                for i in 0..40 { table.insert(Value::Integer(7_000_000 + i), Value::Nil).unwrap(); }
                for i in 0..40 { table.remove(Value::Integer(7_000_000 + i)).unwrap(); }
            }
            for (k, v) in kv {
                table.insert(k, v).unwrap();
            }
            g
        }
        T::Fn(h, a) => vm.init_function(Handle::from_u32(*h), *a).unwrap(),
        T::Native(h) => vm.init_native_function(Handle::from_u32(*h)).unwrap(),
        T::Closure(c, h, a) => {
            if let Some(v) = guards.closures.get(&(*c, *h, *a)) {
                return *v;
            }
            vm.init_closure(Handle::from_u32(*h), *a).unwrap()
        }
    };
    let v = Value::Object(ptr(&mut g));
    if let T::Closure(c, h, a) = t {
        guards.closures.insert((*c, *h, *a), v);
    }
    guards.keep.push(g);
    v
}

/// the objects of one case: kept protected from the collector; closure objects by description
#[derive(Default)]
struct Guards {
    keep: Vec<ObjectGcGuard>,
    closures: HashMap<(u32, u32, u32), Value>,
}

/// closure objects numbered in first-seen order over the terms of one case
#[derive(Default)]
struct Ids(Vec<usize>);
impl Ids {
    fn id(&mut self, p: NonNull<CaoLangObject>) -> u64 {
        let a = p.as_ptr() as usize;
        match self.0.iter().position(|x| *x == a) {
            Some(i) => i as u64,
            None => { self.0.push(a); (self.0.len() - 1) as u64 }
        }
    }
}

/// The Coq term of a value, read back from the real object (not from the description).
fn dump(v: Value, ids: &mut Ids) -> String {
    match v {
        Value::Nil => "tnil".into(),
        Value::Integer(i) => format!("(tint {})", out::z(i)),
        Value::Real(r) => format!("(treal {}%Z)", r.to_bits()),
        Value::Object(o) => match unsafe { &o.as_ref().body } {
            CaoLangObjectBody::String(s) => format!("(tstr {})", out::bytes(s.as_str().as_bytes())),
            CaoLangObjectBody::Table(t) => {
                let mut es = vec![];
                for k in t.keys().iter() {
                    // a key the map does not find (k != k) has no observable value: printed as nil
                    let val = t.get(k).copied().unwrap_or(Value::Nil);
                    es.push(format!("({}, {})", dump(*k, ids), dump(val, ids)));
                }
                format!("(ttab {})", out::list(es))
            }
            CaoLangObjectBody::Function(f) => format!("(tfn {} {})", out::n(f.handle.value() as u64), out::n(f.arity as u64)),
            CaoLangObjectBody::NativeFunction(f) => format!("(tnat {})", out::n(f.handle.value() as u64)),
            CaoLangObjectBody::Closure(c) => format!("(tclo {} {} {})", out::n(ids.id(o)), out::n(c.function.handle.value() as u64), out::n(c.function.arity as u64)),
            CaoLangObjectBody::Upvalue(_) => unreachable!(),
        },
    }
}

fn cmp_s(o: Option<Ordering>) -> String {
    match o {
        None => "None".into(),
        Some(Ordering::Less) => "(Some Lt)".into(),
        Some(Ordering::Equal) => "(Some Eq)".into(),
        Some(Ordering::Greater) => "(Some Gt)".into(),
    }
}

fn hash_of(v: Value) -> u64 {
    let mut m: CaoHashMap<Value, i64> = CaoHashMap::default();
    m.insert(v, 0).unwrap()
}

fn vobs(v: Value) -> String {
    format!(
        "(vo {} {} {} {} {}%Z)",
        out::n(hash_of(v)),
        out::b(v.as_bool()),
        out::b(v == v),
        out::z(i64::try_from(v).unwrap()),
        f64::try_from(v).unwrap().to_bits()
    )
}

#[derive(Default)]
struct Shape { nan: bool, zero: bool, func: bool, nan_key: bool, fn_key: bool, depth: u32 }
fn shape(t: &T, as_key: bool, s: &mut Shape) {
    match t {
        T::Real(b) => {
            let f = f64::from_bits(*b);
            if f.is_nan() { s.nan = true; if as_key { s.nan_key = true; } }
            if f == 0.0 { s.zero = true; }
        }
        T::Fn(..) | T::Native(..) | T::Closure(..) => { s.func = true; if as_key { s.fn_key = true; } }
        T::Table(es) => for (k, v) in es { shape(k, true, s); shape(v, false, s); },
        _ => {}
    }
}

fn is_num(t: &T) -> bool { matches!(t, T::Int(_) | T::Real(_)) }

fn pair_case(w: &mut CaseWriter, ta: &T, tb: &T) {
    if PAIR_NO.with(|c| c.get()) % 2 == 1 && matches!(tb, T::Table(_)) { w.count("pair.table_with_grown_history"); }
    out::describe_current(&format!("C19 pair {:?} / {:?}", ta, tb));
    let r = std::panic::catch_unwind(|| {
        let mut vm = Vm::new(()).unwrap();
        let mut guards = Guards::default();
        let mut ids = Ids::default();
        let a = build(&mut vm, ta, &mut guards);
        // every other pair: the tables of the right-hand value have a grown-and-shrunk history
        let no = PAIR_NO.with(|c| { c.set(c.get() + 1); c.get() });
        GROWN_HISTORY.with(|c| c.set(no % 2 == 0));
        let b = build(&mut vm, tb, &mut guards);
        GROWN_HISTORY.with(|c| c.set(false));
        let (da, db) = (dump(a, &mut ids), dump(b, &mut ids));
        let (eab, eba) = (a == b, b == a);
        let (cab, cba) = (a.partial_cmp(&b), b.partial_cmp(&a));
        let (ha, hb) = (hash_of(a), hash_of(b));
        let term = format!(
            "cpair {} {} {} {} {} {} {} {} {} {}",
            da, db, vobs(a), vobs(b), out::b(eab), out::b(eba), cmp_s(cab), cmp_s(cba), out::b(a < b), out::b(a <= b)
        );
        drop(guards);
        (term, eab, cab, ha, hb)
    });
    let (term, eab, cab, ha, hb) = match r {
        Ok(x) => x,
        Err(_) => {
            w.count("panic");
            w.push(format!("cpanic {}", out::list(format!("{:?} / {:?}", ta, tb).bytes().map(|x| out::n(x as u64)))), true);
            return;
        }
    };
    let (mut sa, mut sb) = (Shape::default(), Shape::default());
    shape(ta, false, &mut sa);
    shape(tb, false, &mut sb);
    sa.depth = depth(ta);
    sb.depth = depth(tb);
    w.count("pair");
    if eab { w.count("eq.true"); }
    if eab && matches!(ta, T::Table(_)) { w.count("eq.true.tables"); }
    if eab && matches!(ta, T::Table(es) if !es.is_empty()) && ta != tb { w.count("eq.true.tables_built_differently"); }
    if eab && ha != hb { w.count("eq.true.hash_differs"); }
    if eab && ha != hb && !sa.nan && !sb.nan && !sa.zero && !sb.zero { w.count("eq.true.hash_differs.no_nan_no_zero"); }
    if !eab && ha == hb { w.count("eq.false.hash_collides"); }
    match cab {
        None => w.count("cmp.none"),
        Some(Ordering::Less) => w.count("cmp.lt"),
        Some(Ordering::Equal) => w.count("cmp.eq"),
        Some(Ordering::Greater) => w.count("cmp.gt"),
    }
    if cab == Some(Ordering::Equal) && !eab { w.count("cmp.eq_but_not_equal"); }
    match (ta, tb) {
        (T::Int(i), T::Real(_)) | (T::Real(_), T::Int(i)) => {
            w.count("mixed.int_real");
            if i.unsigned_abs() > (1u64 << 53) { w.count("mixed.int_beyond_2^53"); }
        }
        (T::Int(_), T::Int(_)) => w.count("int_int"),
        (T::Real(_), T::Real(_)) => w.count("real_real"),
        (T::Str(x), T::Str(y)) => { w.count("str_str"); if x.len() == y.len() && x != y { w.count("str_str.same_len_differ"); } }
        (T::Table(x), T::Table(y)) => {
            w.count("table_table");
            if x != y && x.len() == y.len() && x.iter().all(|e| y.contains(e)) { w.count("table_table.permuted"); }
        }
        (T::Nil, o) | (o, T::Nil) if is_num(o) => w.count("nil_vs_number"),
        (T::Str(_) | T::Table(_), o) | (o, T::Str(_) | T::Table(_)) if is_num(o) => w.count("object_vs_number"),
        (T::Fn(..) | T::Native(..) | T::Closure(..), T::Fn(..) | T::Native(..) | T::Closure(..)) => {
            w.count("fn_fn");
            if eab { w.count("fn_fn.equal"); }
            if let (T::Closure(c1, h1, a1), T::Closure(c2, h2, a2)) = (ta, tb) {
                if (c1, h1, a1) == (c2, h2, a2) { w.count("closure.same_object"); }
                else if (h1, a1) == (h2, a2) { w.count("closure.other_object_same_function"); }
            }
        }
        _ => w.count("other_kinds"),
    }
    if sa.nan || sb.nan { w.count("has_nan"); }
    if sa.zero || sb.zero { w.count("has_zero_real"); }
    if matches!((ta, tb), (T::Real(x), T::Real(y)) if x != y && f64::from_bits(*x) == 0.0 && f64::from_bits(*y) == 0.0) { w.count("zero_vs_negzero"); }
    if sa.func || sb.func { w.count("has_function"); }
    if eab && (sa.fn_key || sb.fn_key) { w.count("eq.true.with_function_key"); }
    if sa.fn_key || sb.fn_key { w.count("has_function_key"); }
    if sa.nan_key || sb.nan_key { w.count("has_nan_key"); }
    if sa.depth.max(sb.depth) >= 3 { w.count("table.depth>=3"); }
    if ha == 1 || hb == 1 { w.count("hash0_remapped"); }
    let nontrivial = eab || cab.is_some() || sa.depth > 0 || sb.depth > 0;
    w.push(term, nontrivial);
}

fn triple_case(w: &mut CaseWriter, ta: &T, tb: &T, tc: &T) {
    out::describe_current(&format!("C19 triple {:?} / {:?} / {:?}", ta, tb, tc));
    let r = std::panic::catch_unwind(|| {
        let mut vm = Vm::new(()).unwrap();
        let mut guards = Guards::default();
        let mut ids = Ids::default();
        let a = build(&mut vm, ta, &mut guards);
        let b = build(&mut vm, tb, &mut guards);
        let c = build(&mut vm, tc, &mut guards);
        let (eab, ebc, eac) = (a == b, b == c, a == c);
        let term = format!(
            "ctriple {} {} {} {} {} {} {} {} {}",
            dump(a, &mut ids), dump(b, &mut ids), dump(c, &mut ids), out::b(eab), out::b(ebc), out::b(eac),
            cmp_s(a.partial_cmp(&b)), cmp_s(b.partial_cmp(&c)), cmp_s(a.partial_cmp(&c))
        );
        drop(guards);
        (term, eab, ebc, eac)
    });
    match r {
        Ok((term, eab, ebc, eac)) => {
            w.count("triple");
            if eab && ebc { w.count("triple.eq_eq"); }
            if eab && ebc && !eac { w.count("triple.eq_eq_but_not_eq"); }
            w.push(term, eab || ebc || eac);
        }
        Err(_) => {
            w.count("panic");
            w.push(format!("cpanic {}", out::list(format!("{:?} / {:?} / {:?}", ta, tb, tc).bytes().map(|x| out::n(x as u64)))), true);
        }
    }
}

pub fn gen(a: &Args) {
    let mut rng = Rng::new(a.seed);
    let mut w = CaseWriter::new(&a.out, "C19Check", 250);
    let pool = real_pool();
    // fixed witnesses first
    let fixed: Vec<(T, T)> = vec![
        (T::Int(P53 + 1), T::Real(9007199254740992.0f64.to_bits())),            // A-30
        (T::Real(0.0f64.to_bits()), T::Real((-0.0f64).to_bits())),             // equal, hash differently
        (T::Int(3416215008), T::Int(3291555020)),                              // both hash to 0 -> 1
        (T::Real(f64::NAN.to_bits()), T::Real(f64::NAN.to_bits())),
        (T::Int(1), T::Str("a".into())),
        (T::Nil, T::Real((-0.0f64).to_bits())),
        (T::Table(vec![(T::Int(1), T::Int(2)), (T::Int(3), T::Int(4))]), T::Table(vec![(T::Int(3), T::Int(4)), (T::Int(1), T::Int(2))])),
        (T::Table(vec![(T::Fn(1, 0), T::Int(1)), (T::Int(2), T::Int(3))]), T::Table(vec![(T::Int(2), T::Int(3)), (T::Int(4), T::Int(5))])),
        (T::Table(vec![(T::Real(f64::NAN.to_bits()), T::Int(1)), (T::Int(2), T::Int(3))]), T::Table(vec![(T::Int(2), T::Int(3)), (T::Int(4), T::Int(5))])),
        (T::Fn(1, 0), T::Fn(1, 0)),
        (T::Fn(1, 0), T::Fn(1, 1)),
        (T::Native(1), T::Native(1)),
        (T::Closure(0, 1, 0), T::Closure(0, 1, 0)),                            // the same object
        (T::Closure(0, 1, 0), T::Closure(1, 1, 0)),                            // two objects, same function: same hash, not equal
        (T::Table(vec![(T::Closure(0, 1, 0), T::Int(1))]), T::Table(vec![(T::Closure(0, 1, 0), T::Int(1))])),
        (T::Table(vec![(T::Closure(0, 1, 0), T::Int(1))]), T::Table(vec![(T::Closure(1, 1, 0), T::Int(1))])),
    ];
    for (x, y) in fixed.iter() {
        if w.len() < a.n { pair_case(&mut w, x, y); }
    }
    while w.len() < a.n {
        if rng.chance(3, 4) {
            let x = gen_top(&mut rng, &pool);
            let y = if rng.chance(55, 100) { variant(&mut rng, &pool, &x) } else { gen_top(&mut rng, &pool) };
            if rng.chance(1, 2) { pair_case(&mut w, &x, &y) } else { pair_case(&mut w, &y, &x) }
        } else {
            let x = gen_top(&mut rng, &pool);
            let y = if rng.chance(4, 5) { variant(&mut rng, &pool, &x) } else { gen_top(&mut rng, &pool) };
            let z = match rng.below(5) { 0 | 1 => variant(&mut rng, &pool, &y), 2 | 3 => variant(&mut rng, &pool, &x), _ => gen_top(&mut rng, &pool) };
            match rng.below(3) {
                0 => triple_case(&mut w, &x, &y, &z),
                1 => triple_case(&mut w, &y, &x, &z),
                _ => triple_case(&mut w, &x, &z, &y),
            }
        }
    }
    w.finish(serde_json::json!({}));
}
