//! C12: operation histories over CaoHashMap with drop-logging keys/values and a
//! fault-injecting allocator.
use crate::out::{self, CaseWriter};
use crate::probes::FailAlloc;
use crate::rng::Rng;
use crate::Args;
use cao_lang::collections::hash_map::CaoHashMap;
use std::cell::RefCell;
use std::hash::{Hash, Hasher};

thread_local! {
    static KDROPS: RefCell<Vec<u64>> = RefCell::new(vec![]);
    static VDROPS: RefCell<Vec<u64>> = RefCell::new(vec![]);
}
pub const CLONE_OFF: u64 = 1_000_000;

pub struct TKey {
    pub id: u64,
    pub k: i64,
}
impl Hash for TKey {
    fn hash<H: Hasher>(&self, state: &mut H) {
        self.k.hash(state)
    }
}
impl PartialEq for TKey {
    fn eq(&self, o: &Self) -> bool {
        self.k == o.k
    }
}
impl Eq for TKey {}
impl Clone for TKey {
    fn clone(&self) -> Self {
        TKey { id: self.id + CLONE_OFF, k: self.k }
    }
}
impl Drop for TKey {
    fn drop(&mut self) {
        if self.id != 0 {
            KDROPS.with(|d| d.borrow_mut().push(self.id));
        }
    }
}
pub struct TVal {
    pub id: u64,
}
impl Clone for TVal {
    fn clone(&self) -> Self {
        TVal { id: self.id + CLONE_OFF }
    }
}
impl Drop for TVal {
    fn drop(&mut self) {
        VDROPS.with(|d| d.borrow_mut().push(self.id));
    }
}
fn take_drops() -> String {
    let k: Vec<u64> = KDROPS.with(|d| d.borrow_mut().drain(..).collect());
    let v: Vec<u64> = VDROPS.with(|d| d.borrow_mut().drain(..).collect());
    format!("({}, {})", out::list(k.into_iter().map(out::n)), out::list(v.into_iter().map(out::n)))
}
fn ck(id: u64, k: i64) -> String {
    format!("({}, {})", out::n(id), out::z(k))
}

type Map = CaoHashMap<TKey, TVal, FailAlloc>;

fn iter_str(m: &Map) -> String {
    out::list(m.iter().map(|(k, v)| format!("({}, {})", ck(k.id, k.k), out::n(v.id))))
}

/// keys whose FNV-1a-32 hash is the reserved value 0
pub const ZERO_HASH_KEYS: [i64; 2] = [3416215008, 3291555020];

fn case(rng: &mut Rng, w: &mut CaseWriter, hint: bool, len: usize) {
    let cap0 = if rng.chance(1, 4) { rng.below(3) as usize } else { rng.below(20) as usize };
    let alloc = FailAlloc::new();
    let mut m = std::mem::ManuallyDrop::new(CaoHashMap::<TKey, TVal, FailAlloc>::with_capacity_in(cap0, alloc.clone()).unwrap());
    // key universe: small, so that replace/remove/collisions are frequent
    let nkeys = 3 + rng.below(30) as usize;
    let mut keys: Vec<i64> = (0..nkeys)
        .map(|_| match rng.below(6) {
            0 => rng.range(-5, 5),
            1 => (rng.next() as i64) >> rng.below(60),
            2 => i64::MIN + rng.below(3) as i64,
            _ => rng.range(0, 60),
        })
        .collect();
    if !hint && rng.chance(1, 4) {
        keys.push(ZERO_HASH_KEYS[rng.below(2) as usize]);
        w.count("hm.zero_hash_key_in_universe");
    }
    // hint mode: a hash chosen per key from a tiny set => dense collisions, incl. wrap-around
    let nh = 1 + rng.below(4);
    let hbase = [1u64, 7, 0xFFFF_FFFF, 0x9E37_79B9][rng.below(4) as usize];
    let hash_of = |k: i64| -> u64 { hbase.wrapping_add(((k as u64) % nh) * 3) % 0x1_0000_0000 + 1 };
    let mut next_id = 0u64;
    let mut ops: Vec<String> = vec![];
    let mut obs: Vec<String> = vec![];
    let mut kinds = std::collections::BTreeSet::new();
    let (mut grew, mut removed_present, mut failed, mut replaced) = (0u32, 0u32, 0u32, 0u32);
    KDROPS.with(|d| d.borrow_mut().clear());
    VDROPS.with(|d| d.borrow_mut().clear());
    let body = std::panic::catch_unwind(std::panic::AssertUnwindSafe(|| {
    for step in 0..len {
        crate::out::describe_current(&format!("C12 history on CaoHashMap (cap0={}, hint={}) after ops {:?}", cap0, hint, ops));
        let grow_phase = (step / 25) % 2 == 0;
        let wts: [u32; 13] = if hint {
            if grow_phase { [30, 8, 8, 4, 0, 0, 0, 1, 1, 0, 2, 2, 3] } else { [8, 30, 8, 4, 0, 0, 0, 1, 1, 0, 2, 2, 3] }
        } else if grow_phase {
            [25, 6, 6, 3, 4, 10, 2, 1, 1, 2, 2, 2, 3]
        } else {
            [6, 28, 6, 3, 4, 4, 2, 1, 1, 2, 2, 2, 3]
        };
        let kind = rng.weighted(&wts);
        kinds.insert(kind);
        let k = *rng.pick(&keys);
        let h = hash_of(k);
        let ok = !rng.chance(1, 8);
        let arm = |ok: bool| if !ok { alloc.fail_after(0) };
        let cap_before = m.capacity();
        match kind {
            0 => {
                next_id += 2;
                let (kid, vid) = (next_id, next_id + 1);
                arm(ok);
                if hint {
                    ops.push(format!("hinsh {} {} {} {}", out::n(h), ck(kid, k), out::n(vid), out::b(ok)));
                    let r = unsafe { m.insert_with_hint(h, TKey { id: kid, k }, TVal { id: vid }) };
                    if r.is_err() { failed += 1; }
                    obs.push(format!("({}, {})", if r.is_ok() { "runit" } else { "rerr" }, take_drops()));
                } else {
                    ops.push(format!("hins {} {} {}", ck(kid, k), out::n(vid), out::b(ok)));
                    let r = m.insert(TKey { id: kid, k }, TVal { id: vid });
                    let o = match r { Ok(h) => format!("rhash {}", out::n(h)), Err(_) => { failed += 1; "rerr".into() } };
                    obs.push(format!("({}, {})", o, take_drops()));
                }
                alloc.fail_after(-1);
            }
            1 => {
                let probe = TKey { id: 0, k };
                let r = if hint {
                    ops.push(format!("hremh {} {}", out::n(h), ck(0, k)));
                    unsafe { m.remove_with_hint(h, &probe) }
                } else {
                    ops.push(format!("hrem {}", ck(0, k)));
                    m.remove(&probe)
                };
                let o = match r {
                    Some(v) => { removed_present += 1; let id = v.id; std::mem::forget(v); format!("roptv (Some {})", out::n(id)) }
                    None => "roptv None".into(),
                };
                obs.push(format!("({}, {})", o, take_drops()));
            }
            2 => {
                let probe = TKey { id: 0, k };
                let r = if hint {
                    ops.push(format!("hgeth {} {}", out::n(h), ck(0, k)));
                    unsafe { m.get_with_hint(h, &probe) }
                } else {
                    ops.push(format!("hget {}", ck(0, k)));
                    m.get(&probe)
                };
                let o = match r { Some(v) => format!("roptv (Some {})", out::n(v.id)), None => "roptv None".into() };
                obs.push(format!("({}, {})", o, take_drops()));
            }
            3 => {
                let probe = TKey { id: 0, k };
                let r = if hint {
                    ops.push(format!("hconh {} {}", out::n(h), ck(0, k)));
                    unsafe { m.contains_with_hint(h, &probe) }
                } else {
                    ops.push(format!("hcon {}", ck(0, k)));
                    m.contains(&probe)
                };
                obs.push(format!("(rbool {}, {})", out::b(r), take_drops()));
            }
            4 => {
                next_id += 1;
                let vid = next_id;
                ops.push(format!("hgms {} {}", ck(0, k), out::n(vid)));
                let probe = TKey { id: 0, k };
                let found = match m.get_mut(&probe) {
                    Some(r) => { *r = TVal { id: vid }; replaced += 1; true }
                    None => false,
                };
                obs.push(format!("(rbool {}, {})", out::b(found), take_drops()));
            }
            5 => {
                next_id += 2;
                let (kid, vid) = (next_id, next_id + 1);
                ops.push(format!("hent {} {} {}", ck(kid, k), out::n(vid), out::b(ok)));
                arm(ok);
                let o = match m.entry(TKey { id: kid, k }) {
                    Ok(e) => { let r = e.or_insert_with(|| TVal { id: vid }); format!("roptv (Some {})", out::n(r.id)) }
                    Err(_) => { failed += 1; "rerr".into() }
                };
                alloc.fail_after(-1);
                obs.push(format!("({}, {})", o, take_drops()));
            }
            6 => {
                next_id += 1;
                let kid = next_id;
                ops.push(format!("hentd {} {}", ck(kid, k), out::b(ok)));
                arm(ok);
                let o = match m.entry(TKey { id: kid, k }) {
                    Ok(e) => { drop(e); "runit" }
                    Err(_) => { failed += 1; "rerr" }
                };
                alloc.fail_after(-1);
                obs.push(format!("({}, {})", o, take_drops()));
            }
            7 => {
                let add = rng.below(12) as usize;
                ops.push(format!("hres {} {}", add, out::b(ok)));
                arm(ok);
                let r = m.reserve(add);
                alloc.fail_after(-1);
                if r.is_err() { failed += 1; }
                obs.push(format!("({}, {})", if r.is_ok() { "runit" } else { "rerr" }, take_drops()));
            }
            8 => {
                ops.push("hclear".into());
                m.clear();
                obs.push(format!("(runit, {})", take_drops()));
            }
            9 => {
                ops.push("hclone".into());
                let c: Map = Map::clone(&m);
                let o = format!("rclone {} {}", c.capacity(), iter_str(&c));
                drop(c);
                obs.push(format!("({}, {})", o, take_drops()));
            }
            10 => {
                ops.push("hlen".into());
                assert_eq!(m.is_empty(), m.len() == 0);
                obs.push(format!("(rnat {}, {})", m.len(), take_drops()));
            }
            11 => {
                ops.push("hcapq".into());
                obs.push(format!("(rnat {}, {})", m.capacity(), take_drops()));
            }
            _ => {
                ops.push("hiter".into());
                obs.push(format!("(rlist {}, {})", iter_str(&m), take_drops()));
            }
        }
        if m.capacity() > cap_before { grew += 1; }
    }
    ops.push("hclear".into());
    let live_before = alloc.live.get();
    unsafe { std::mem::ManuallyDrop::drop(&mut m) };
    obs.push(format!("(runit, {})", take_drops()));
    if alloc.live.get() != 0 {
        // storage leak: reported through an impossible observation
        let _ = live_before;
        obs.push("(rpanic, ([], []))".to_string());
        ops.push("hlen".into());
    }
    }));
    if body.is_err() {
        // a panic inside the implementation: the operation in flight is observed as a panic
        w.count("hm.PANIC");
        let _ = take_drops();
        while obs.len() < ops.len() { obs.push("(rpanic, ([], []))".to_string()); }
    }
    w.count(if hint { "hm.mode=hint" } else { "hm.mode=hash" });
    if grew > 0 { w.count("hm.grew"); }
    if grew > 2 { w.count("hm.grew>2"); }
    if removed_present > 0 { w.count("hm.removed_present"); }
    if failed > 0 { w.count("hm.alloc_failed"); }
    if replaced > 0 { w.count("hm.get_mut_written"); }
    w.push(
        format!("HmCase {} {} {}", cap0, out::list(ops.into_iter().map(|o| format!("({})", o))), out::list(obs)),
        kinds.len() >= 4 && grew > 0,
    );
}

pub fn gen(a: &Args) {
    let mut rng = Rng::new(a.seed);
    let mut w = CaseWriter::new(&a.out, "C12Check", 20);
    for i in 0..a.n {
        let hint = rng.chance(2, 5);
        let len = if i % 10 == 0 { 300 } else { 20 + rng.below(100) as usize };
        case(&mut rng, &mut w, hint, len);
    }
    w.finish(serde_json::json!({}));
}
