//! "VM": runs compiled programs on the real VM and prints program + observations for Vm.v (VmCheck.v).
use crate::out::{self, CaseWriter};
use crate::rng::Rng;
use crate::vmgen;
use crate::Args;
use cao_lang::compiler::{CardBody, Module};
use cao_lang::prelude::*;
use cao_lang::vm::runtime::RuntimeData;
use std::collections::HashMap;
use std::panic::{catch_unwind, AssertUnwindSafe};

pub struct Host {
    pub log: Vec<String>,
}

pub const TREE_DEPTH: u32 = 12;
const NAN_BITS: u64 = 0x7FF8_0000_0000_0000;
const NAN_SENTINEL: f64 = -7.77e77;
const INF_SENTINEL: f64 = 7.77e77;

/// canonical deep copy of a value as a Coq term of type `tval`
pub fn tree(v: Value, depth: u32) -> String {
    if depth == 0 {
        return "TDeep".into();
    }
    match v {
        Value::Nil => "TNil".into(),
        Value::Integer(i) => format!("(TInt {})", out::z(i)),
        Value::Real(r) => format!("(TReal {})", out::n(if r.is_nan() { NAN_BITS } else { r.to_bits() })),
        Value::Object(_) => unsafe {
            if let Some(t) = v.as_table() {
                let items: Vec<String> =
                    t.iter().map(|(k, x)| format!("({}, {})", tree(*k, depth - 1), tree(*x, depth - 1))).collect();
                format!("(TTable {})", out::list(items))
            } else if let Some(s) = v.as_str() {
                format!("(TStr {})", out::bytes(s.as_bytes()))
            } else {
                "TFun".into()
            }
        },
    }
}

type R = Result<Value, ExecutionErrorPayload>;

/// C18: when set, every menu native is registered behind a plain `Fn(&mut Vm)` wrapper that records the k values
/// on top of the stack BEFORE the typed wrapper of traits.rs converts them, and how the call ended; every native
/// body records the parameters it received. The records are host-log entries that start with `TDeep`
/// (no other entry does): [TDeep; TStr name; TInt 0; raw_1 .. raw_k] (call), [TDeep; TStr name; TInt 2; p_1 .. p_k]
/// (parameters as received), [TDeep; TStr name; TInt 1; TInt r] (return: 0 = Ok, n > 0 = InvalidArgument
/// "Failed to convert function input #n", -1 = another error). C18Check strips them before the model comparison.
pub static TRACE_CALLS: std::sync::atomic::AtomicBool = std::sync::atomic::AtomicBool::new(false);
fn tracing_calls() -> bool {
    TRACE_CALLS.load(std::sync::atomic::Ordering::Relaxed)
}
fn mark(vm: &mut Vm<Host>, name: &str, kind: i64, items: Vec<String>) {
    if !tracing_calls() {
        return;
    }
    let mut e = vec!["TDeep".to_string(), format!("(TStr {})", out::bytes(name.as_bytes())), tint(kind)];
    e.extend(items);
    vm.get_aux_mut().log.push(out::list(e));
}
fn tstr(s: &str) -> String {
    format!("(TStr {})", out::bytes(s.as_bytes()))
}
fn table_tree(t: &CaoLangTable) -> String {
    let items: Vec<String> =
        t.iter().map(|(k, x)| format!("({}, {})", tree(*k, TREE_DEPTH - 1), tree(*x, TREE_DEPTH - 1))).collect();
    format!("(TTable {})", out::list(items))
}
/// register `f` (a typed wrapper of traits.rs, or a plain function for arity 0) under `name`
fn reg<F>(vm: &mut Vm<'static, Host>, name: &'static str, k: usize, f: F)
where
    F: VmFunction<Host> + 'static,
{
    if !tracing_calls() {
        vm.register_native_function(name, f).unwrap();
        return;
    }
    let wrapped = move |vm: &mut Vm<Host>| -> R {
        // the values the script supplied: the k topmost stack values, parameter 1 deepest (a missing one reads as
        // nil); they are popped and pushed back through the public API
        let (h, _) = cao_lang::verif_hooks::stack_heights(&vm.runtime_data);
        let n = k.min(h);
        let mut top_first = vec![];
        for _ in 0..n {
            top_first.push(vm.stack_pop());
        }
        for v in top_first.iter().rev() {
            vm.stack_push(*v).unwrap();
        }
        let mut raws: Vec<String> = (0..k - n).map(|_| "TNil".to_string()).collect();
        raws.extend(top_first.iter().rev().map(|v| tree(*v, TREE_DEPTH)));
        mark(vm, name, 0, raws);
        let r = f.call(vm);
        let code: i64 = match &r {
            Ok(_) => 0,
            Err(ExecutionErrorPayload::InvalidArgument { context: Some(c) })
                if c.starts_with("Failed to convert function input #") =>
            {
                let rest = &c["Failed to convert function input #".len()..];
                let num: String = rest.chars().take_while(|ch| ch.is_ascii_digit()).collect();
                num.parse().unwrap_or(-2)
            }
            Err(_) => -1,
        };
        mark(vm, name, 1, vec![tint(code)]);
        r
    };
    vm.register_native_function(name, wrapped).unwrap();
}
fn n_log1(vm: &mut Vm<Host>, v: Value) -> R {
    let t = tree(v, TREE_DEPTH);
    mark(vm, "log1", 2, vec![t.clone()]);
    // value-stack height and call depth as the native sees them (its argument is still on the stack)
    let (h, d) = cao_lang::verif_hooks::stack_heights(&vm.runtime_data);
    vm.get_aux_mut().log.push(out::list(vec![format!("(TInt {})", out::z(h as i64)), format!("(TInt {})", out::z(d as i64)), t]));
    Ok(Value::Nil)
}
fn n_sub2(vm: &mut Vm<Host>, a: i64, b: i64) -> R {
    mark(vm, "sub2", 2, vec![tint(a), tint(b)]);
    vm.get_aux_mut().log.push(out::list(vec![format!("(TInt {})", out::z(a)), format!("(TInt {})", out::z(b))]));
    Ok(Value::Integer(a.wrapping_sub(b)))
}
fn n_fail0(vm: &mut Vm<Host>) -> R {
    mark(vm, "fail0", 2, vec![]);
    Err(ExecutionErrorPayload::Unimplemented)
}
fn n_str1(vm: &mut Vm<Host>, s: &str) -> R {
    mark(vm, "str1", 2, vec![tstr(s)]);
    vm.get_aux_mut().log.push(out::list(vec![format!("(TStr {})", out::bytes(s.as_bytes()))]));
    Ok(Value::Integer(s.len() as i64))
}
fn n_mix3(vm: &mut Vm<Host>, a: f64, b: i64, c: Value) -> R {
    mark(vm, "mix3", 2, vec![tree(Value::Real(a), 2), tint(b), tree(c, TREE_DEPTH)]);
    let e = out::list(vec![tree(Value::Real(a), 2), format!("(TInt {})", out::z(b)), tree(c, TREE_DEPTH)]);
    vm.get_aux_mut().log.push(e);
    Ok(Value::Nil)
}
fn n_call1(vm: &mut Vm<Host>, f: Value, x: Value) -> R {
    mark(vm, "call1", 2, vec![tree(f, TREE_DEPTH), tree(x, TREE_DEPTH)]);
    vm.stack_push(x)?;
    vm.run_function(f)
}
fn n_try1(vm: &mut Vm<Host>, f: Value, x: Value) -> R {
    mark(vm, "try1", 2, vec![tree(f, TREE_DEPTH), tree(x, TREE_DEPTH)]);
    vm.stack_push(x)?;
    match vm.run_function(f) {
        Ok(v) => Ok(v),
        Err(_) => {
            vm.get_aux_mut().log.push(out::list(vec![format!("(TStr {})", out::bytes(b"try1"))]));
            Ok(Value::Nil)
        }
    }
}
fn n_call0(vm: &mut Vm<Host>, f: Value) -> R {
    mark(vm, "call0", 2, vec![tree(f, TREE_DEPTH)]);
    vm.run_function(f)
}
fn tint(i: i64) -> String {
    format!("(TInt {})", out::z(i))
}
fn n_t4(vm: &mut Vm<Host>, a: i64, b: f64, c: bool, d: &str) -> R {
    mark(vm, "t4", 2, vec![tint(a), tree(Value::Real(b), 2), tint(c as i64), tstr(d)]);
    let e = out::list(vec![tint(a), tree(Value::Real(b), 2), tint(c as i64), format!("(TStr {})", out::bytes(d.as_bytes()))]);
    vm.get_aux_mut().log.push(e);
    Ok(Value::Nil)
}
fn n_nil1(vm: &mut Vm<Host>, a: Nilable<i64>) -> R {
    mark(vm, "nil1", 2, vec![match a.0 { None => "TNil".to_string(), Some(i) => tint(i) }]);
    match a.0 {
        None => {
            vm.get_aux_mut().log.push(out::list(vec!["TNil".to_string()]));
            Ok(Value::Integer(-1))
        }
        Some(i) => {
            vm.get_aux_mut().log.push(out::list(vec![tint(i)]));
            Ok(Value::Integer(i))
        }
    }
}
fn n_tab1(vm: &mut Vm<Host>, t: &CaoLangTable) -> R {
    let tt = table_tree(t);
    mark(vm, "tab1", 2, vec![tt]);
    let l = t.len() as i64;
    vm.get_aux_mut().log.push(out::list(vec![tint(l)]));
    Ok(Value::Integer(l))
}
fn n_cat2(vm: &mut Vm<Host>, a: &str, b: &str) -> R {
    mark(vm, "cat2", 2, vec![tstr(a), tstr(b)]);
    let e = out::list(vec![format!("(TStr {})", out::bytes(a.as_bytes())), format!("(TStr {})", out::bytes(b.as_bytes()))]);
    vm.get_aux_mut().log.push(e);
    Ok(Value::Integer((a.len() + b.len()) as i64))
}
/// number of parameters the callee will take from the stack, -1 if it is not callable
fn callee_arity(f: Value) -> i64 {
    use cao_lang::vm::runtime::cao_lang_object::CaoLangObjectBody;
    use std::str::FromStr;
    match f {
        Value::Object(o) => unsafe {
            match &o.as_ref().body {
                CaoLangObjectBody::Function(f) => f.arity as i64,
                CaoLangObjectBody::Closure(c) => c.function.arity as i64,
                CaoLangObjectBody::NativeFunction(n) => {
                    for (name, ar) in NATIVE_ARITIES {
                        if Handle::from_str(name).unwrap() == n.handle {
                            return *ar;
                        }
                    }
                    -1
                }
                _ => -1,
            }
        },
        _ => -1,
    }
}
const NATIVE_ARITIES: &[(&str, i64)] = &[
    ("log1", 1), ("sub2", 2), ("fail0", 0), ("str1", 1), ("mix3", 3), ("call1", 2), ("try1", 2), ("call0", 1),
    ("t4", 4), ("nil1", 1), ("tab1", 1), ("cat2", 2), ("rb1", 2), ("__min", 2), ("__max", 2), ("__sort", 2), ("__to_array", 1),
];
pub static RB1_OK: std::sync::atomic::AtomicU64 = std::sync::atomic::AtomicU64::new(0);
pub static RB1_ERR: std::sync::atomic::AtomicU64 = std::sync::atomic::AtomicU64::new(0);
/// like call1, and records the stack heights before and after run_function
fn n_rb1(vm: &mut Vm<Host>, f: Value, x: Value) -> R {
    mark(vm, "rb1", 2, vec![tree(f, TREE_DEPTH), tree(x, TREE_DEPTH)]);
    let (h0, d0) = cao_lang::verif_hooks::stack_heights(&vm.runtime_data);
    let arity = callee_arity(f);
    vm.stack_push(x)?;
    let r = vm.run_function(f);
    let (h1, d1) = cao_lang::verif_hooks::stack_heights(&vm.runtime_data);
    let e = out::list(vec![
        format!("(TStr {})", out::bytes(b"rb1")),
        tint(h0 as i64), tint(d0 as i64), tint(h1 as i64), tint(d1 as i64), tint(r.is_ok() as i64), tint(arity),
    ]);
    vm.get_aux_mut().log.push(e);
    if r.is_ok() { RB1_OK.fetch_add(1, std::sync::atomic::Ordering::Relaxed); } else { RB1_ERR.fetch_add(1, std::sync::atomic::Ordering::Relaxed); }
    r
}

pub fn new_vm(budget: u64) -> Vm<'static, Host> {
    let mut vm = Vm::new(Host { log: vec![] }).unwrap().with_max_iter(budget);
    // a memory limit that no generated program reaches: no collection runs (Vm.v models a heap that never frees)
    vm.runtime_data = RuntimeData::new(1 << 30, 256, 256).unwrap();
    reg(&mut vm, "log1", 1, into_f1(n_log1));
    reg(&mut vm, "sub2", 2, into_f2(n_sub2));
    reg(&mut vm, "fail0", 0, n_fail0);
    reg(&mut vm, "str1", 1, into_f1(n_str1));
    reg(&mut vm, "mix3", 3, into_f3(n_mix3));
    reg(&mut vm, "call1", 2, into_f2(n_call1));
    reg(&mut vm, "try1", 2, into_f2(n_try1));
    reg(&mut vm, "call0", 1, into_f1(n_call0));
    reg(&mut vm, "t4", 4, into_f4(n_t4));
    reg(&mut vm, "nil1", 1, into_f1(n_nil1));
    reg(&mut vm, "tab1", 1, into_f1(n_tab1));
    reg(&mut vm, "cat2", 2, into_f2(n_cat2));
    reg(&mut vm, "rb1", 2, into_f2(n_rb1));
    vm
}

pub fn err_term(e: &ExecutionErrorPayload) -> String {
    use ExecutionErrorPayload::*;
    match e {
        CallStackOverflow => "ECallStackOverflow".into(),
        UnexpectedEndOfInput => "EUnexpectedEndOfInput".into(),
        ExitCode(_) => "EExitCode".into(),
        InvalidInstruction(_) => "EInvalidInstruction".into(),
        InvalidArgument { context: Some(c) } if c.starts_with("Failed to convert function input #") => {
            let rest = &c["Failed to convert function input #".len()..];
            let num: String = rest.chars().take_while(|ch| ch.is_ascii_digit()).collect();
            format!("(EConversion {})", out::n(num.parse().unwrap_or(0)))
        }
        InvalidArgument { .. } => "EInvalidArgument".into(),
        VarNotFound(s) => {
            if s.starts_with("Failed to set local variable") {
                "(EVarNotFound None)".into()
            } else {
                format!("(EVarNotFound (Some {}))", out::bytes(s.as_bytes()))
            }
        }
        ProcedureNotFound(h) => format!("(EProcedureNotFound {})", out::n(h.value() as u64)),
        Unimplemented => "EUnimplemented".into(),
        OutOfMemory => "EOutOfMemory".into(),
        MissingArgument => "EMissingArgument".into(),
        Timeout => "ETimeout".into(),
        TaskFailure { name, error } => format!("(ETaskFailure {} {})", out::bytes(name.as_bytes()), err_term(error)),
        Stackoverflow => "EStackoverflow".into(),
        BadReturn { .. } => "EBadReturn".into(),
        Unhashable => "EUnhashable".into(),
        AssertionError(_) => "EAssertionError".into(),
        InvalidUpvalue => "EInvalidUpvalue".into(),
        NotClosure => "ENotClosure".into(),
    }
}

pub struct Printed {
    pub term: String,
    pub trace_ids: HashMap<String, u64>,
}

/// the compile output as a Coq term of type `program`
pub fn program_term(p: &CaoCompiledProgram) -> Printed {
    let mut labels: Vec<(u64, u64)> = p.labels.0.iter().map(|(h, l)| (h.value() as u64, l.pos as u64)).collect();
    labels.sort();
    let mut ids: Vec<(u64, u64)> = p
        .variables
        .ids
        .iter()
        .map(|(h, id)| (h.value() as u64, serde_json::to_value(id).unwrap().as_u64().unwrap()))
        .collect();
    ids.sort();
    let mut names: Vec<(u64, String)> = p.variables.names.iter().map(|(h, n)| (h.value() as u64, n.clone())).collect();
    names.sort();
    let mut trace_ids: HashMap<String, u64> = HashMap::new();
    let mut tr: Vec<(u64, String)> = p.trace.iter().map(|(k, t)| (*k as u64, format!("{:?}", t))).collect();
    tr.sort();
    let mut trace: Vec<(u64, u64)> = vec![];
    for (pos, t) in tr {
        let next = trace_ids.len() as u64;
        let id = *trace_ids.entry(t).or_insert(next);
        trace.push((pos, id));
    }
    let pair = |a: u64, b: u64| format!("({}, {})", out::n(a), out::n(b));
    let term = format!(
        "(mkProgram {} {} {} {} {} {})",
        out::bytes(&p.bytecode),
        out::bytes(&p.data),
        out::list(labels.iter().map(|(a, b)| pair(*a, *b))),
        out::list(ids.iter().map(|(a, b)| pair(*a, *b))),
        out::list(names.iter().map(|(h, n)| format!("({}, {})", out::n(*h), out::bytes(n.as_bytes())))),
        out::list(trace.iter().map(|(a, b)| pair(*a, *b))),
    );
    Printed { term, trace_ids }
}

#[derive(Clone, PartialEq, Eq, Debug)]
pub enum Kind {
    Ok,
    Err(String),
    Panic,
}

pub struct Obs {
    pub kind: Kind,
    pub term: String,
    pub timeout: bool,
}

/// one `Vm::run` and everything that can be observed through the public API afterwards
pub fn observe(vm: &mut Vm<'static, Host>, prog: &CaoCompiledProgram, pr: &Printed) -> Obs {
    let res = catch_unwind(AssertUnwindSafe(|| vm.run(prog)));
    let (kind, oterm, timeout) = match &res {
        Ok(Ok(())) => (Kind::Ok, "ObOk".to_string(), false),
        Ok(Err(e)) => {
            let ids: Vec<String> = e
                .trace
                .iter()
                .map(|t| out::n(*pr.trace_ids.get(&format!("{:?}", t)).unwrap_or(&999_999)))
                .collect();
            let et = err_term(&e.payload);
            (Kind::Err(et.clone()), format!("(ObErr {} {})", et, out::list(ids)), matches!(e.payload, ExecutionErrorPayload::Timeout))
        }
        Err(_) => (Kind::Panic, "ObPanic".to_string(), false),
    };
    // globals by name
    let mut names: Vec<String> = prog.variables.names.iter().map(|(_, n)| n.clone()).collect();
    names.sort();
    let globals: Vec<String> = if kind == Kind::Panic {
        vec![]
    } else {
        names
            .iter()
            .map(|n| {
                let v = vm.read_var_by_name(n, &prog.variables);
                format!("({}, {})", out::bytes(n.as_bytes()), out::opt(v.map(|v| tree(v, TREE_DEPTH))))
            })
            .collect()
    };
    let log = out::list(vm.get_aux().log.iter().cloned());
    // value-stack height, call-stack depth, number of objects, length of the globals vector (verif-hooks),
    // and the public field Vm::remaining_iters
    let shape = if kind == Kind::Panic {
        "None".to_string()
    } else {
        let (h, d) = cao_lang::verif_hooks::stack_heights(&vm.runtime_data);
        let objs = cao_lang::verif_hooks::object_count(&vm.runtime_data);
        let gl = cao_lang::verif_hooks::global_count(&vm.runtime_data);
        format!("(Some [{}; {}; {}; {}; {}])", out::n(h as u64), out::n(d as u64), out::n(objs as u64), out::n(gl as u64), out::n(vm.remaining_iters))
    };
    Obs { kind, term: format!("(mkObs {} {} {} {})", oterm, out::list(globals), log, shape), timeout }
}

fn run_fresh(prog: &CaoCompiledProgram, pr: &Printed, budget: u64) -> Obs {
    let mut vm = new_vm(budget);
    let o = observe(&mut vm, prog, pr);
    // After a panic the VM's state is arbitrary: do not run its destructor. (Before a72177e a function object that
    // did not fit on the value stack was freed but left in `object_list`, and dropping the Vm freed it again.)
    if o.kind == Kind::Panic {
    }
    o
}

/// smallest budget for which the run does not time out (None if even `hi` times out)
fn find_need(prog: &CaoCompiledProgram, pr: &Printed, hi: u64) -> Option<u64> {
    if run_fresh(prog, pr, hi).timeout {
        return None;
    }
    let (mut lo, mut hi) = (1u64, hi); // invariant: hi does not time out; lo - 1 ... unknown below
    while lo < hi {
        let mid = (lo + hi) / 2;
        if run_fresh(prog, pr, mid).timeout {
            lo = mid + 1;
        } else {
            hi = mid;
        }
    }
    Some(hi)
}

fn opcode_table_case() -> String {
    // VERIF_REPO (development aid, as in tools/checklib.py): another checkout of the repository
    let repo = std::env::var("VERIF_REPO").unwrap_or_else(|_| "/repo".to_string());
    let src = std::fs::read_to_string(format!("{}/cao-lang/src/instruction.rs", repo)).expect("instruction.rs");
    let start = src.find("pub(crate) enum Instruction {").expect("enum Instruction");
    let body = &src[start..];
    let end = body.find("\n}").unwrap();
    let mut names = vec![];
    for line in body[..end].lines().skip(1) {
        let t = line.trim();
        if t.is_empty() || t.starts_with("//") || t.starts_with('#') {
            continue;
        }
        let name = t.trim_end_matches(',');
        if name.chars().all(|c| c.is_alphanumeric()) {
            names.push(out::bytes(name.as_bytes()));
        }
    }
    format!("(VmOpTable {})", out::list(names))
}

const GENEROUS: u64 = 20_000;

fn emit_program(w: &mut CaseWriter, name: &str, m: Module, extra_budgets: &[u64], history: usize, clear: bool, rng: &mut Rng) {
    out::describe_current(&format!("VM program {}", name));
    if std::env::var("VM_TRACE").is_ok() { eprintln!("program {}", name); }
    if let Ok(dir) = std::env::var("VM_DUMP") {
        let _ = std::fs::create_dir_all(&dir);
        let file = format!("{}/{}.json", dir, name.replace(|c: char| !c.is_alphanumeric(), "_"));
        let mut mm = m.clone();
        mm.walk_cards_mut(|_, c| {
            if let CardBody::ScalarFloat(f) = &mut c.body {
                if f.is_nan() { *f = NAN_SENTINEL } else if *f == f64::INFINITY { *f = INF_SENTINEL } else if *f == f64::NEG_INFINITY { *f = -INF_SENTINEL }
            }
        });
        std::fs::write(file, serde_json::to_string(&mm).unwrap()).unwrap();
    }
    let prog = match catch_unwind(AssertUnwindSafe(|| compile(m, None))) {
        Ok(Ok(p)) => p,
        Ok(Err(_)) => {
            w.count("compile.error");
            return;
        }
        Err(_) => {
            w.count("compile.panic");
            return;
        }
    };
    let pr = program_term(&prog);
    let debug = cfg!(debug_assertions);
    let mut runs: Vec<String> = vec![];
    let mut kinds: Vec<Kind> = vec![];
    if history > 0 {
        let mut vm = new_vm(GENEROUS);
        for k in 0..history {
            if clear && k > 0 {
                vm.clear();
            }
            let o = observe(&mut vm, &prog, &pr);
            runs.push(format!("({}, {})", out::n(GENEROUS), o.term));
            let stop = o.kind == Kind::Panic;
            kinds.push(o.kind);
            if stop {
                std::mem::forget(vm);
                break;
            }
        }
        w.count(if clear { "mode.history_clear" } else { "mode.history" });
    } else {
        let mut budgets: Vec<u64> = vec![GENEROUS];
        match find_need(&prog, &pr, GENEROUS) {
            Some(need) => {
                w.count("need.found");
                if need > 1 { budgets.push(need - 1); }
                budgets.push(need);
                budgets.push(need + 1);
                budgets.push(2 * need);
                if need > 4 { budgets.push(1 + rng.below(need - 1)); }
            }
            None => {
                w.count("need.timeout_at_generous");
                budgets.push(1 + rng.below(300));
            }
        }
        budgets.push(1);
        budgets.push(2);
        budgets.push(3);
        budgets.push(10_000);
        if rng.chance(1, 6) { budgets.push(0); w.count("budget.zero"); }
        budgets.extend_from_slice(extra_budgets);
        for b in budgets {
            let o = run_fresh(&prog, &pr, b);
            runs.push(format!("({}, {})", out::n(b), o.term));
            kinds.push(o.kind);
        }
        w.count("mode.fresh");
    }
    for k in &kinds {
        match k {
            Kind::Ok => w.count("outcome.Ok"),
            Kind::Panic => w.count("outcome.Panic"),
            Kind::Err(e) => {
                let short = e.trim_start_matches('(').split(' ').next().unwrap_or("").to_string();
                w.count(&format!("outcome.{}", short));
                if e.contains("EConversion") { w.count("outcome.conversion_error"); }
            }
        }
    }
    let mode = if history == 0 { "MFresh" } else if clear { "MReuseClear" } else { "MReuse" };
    let term = format!("(VmProg {} {} {} {})", out::b(debug), mode, pr.term, out::list(runs));
    let nontrivial = kinds.iter().any(|k| *k == Kind::Ok) || kinds.len() > 3;
    w.push(term, nontrivial);
}

pub fn gen(a: &Args) {
    let mut rng = Rng::new(a.seed);
    let module = if a.prop == "C03" { "C03Check" } else if a.prop == "C18" { "C18Check" } else { "VmCheck" };
    let mut w = CaseWriter::new(&a.out, module, 8);
    w.push(opcode_table_case(), false);
    if a.prop == "C18" {
        TRACE_CALLS.store(true, std::sync::atomic::Ordering::Relaxed);
        // names reserved for the library cannot be registered; other names can
        let mut vm = new_vm(1);
        let noop = |_vm: &mut Vm<Host>| -> R { Ok(Value::Nil) };
        let r1 = vm.register_native_function("__mine", noop).is_err();
        let r2 = vm.register_native_function("_x", noop).is_ok();
        let r3 = vm.register_native_function("__min", noop).is_err();
        let r4 = vm.register_native_function("a__b", noop).is_ok();
        let mut answers = vec![out::b(r1), out::b(r2), out::b(r3), out::b(r4)];
        // a history of registrations on a new VM (after the menu), then which function runs under which name:
        // compared with the registry model (VmRegistry.v) by C18Check.reg_expected
        answers.extend(registration_history(REG_OPS, REG_PROBES).into_iter().map(out::b));
        w.push(format!("(VmReserved {})", out::list(answers)), false);
        w.count("reserved_names");
        w.count("registration_history");
    }
    for e in vmgen::corpus() {
        w.count(&format!("corpus.{}", e.name));
        emit_program(&mut w, e.name, e.module, &e.budgets, e.history, e.clear, &mut rng);
    }
    let mut features: std::collections::BTreeMap<&'static str, u64> = Default::default();
    let mut i = 0usize;
    while w.len() < a.n {
        i += 1;
        if i > a.n * 4 { break; }
        let reals = rng.chance(1, 2);
        let mut sub = Rng::new(rng.next());
        let (m, feats) = {
            let mut g = vmgen::Gen::new(&mut sub, reals);
            g.native_heavy = a.prop == "C18";
            let m = g.module();
            (m, g.features.clone())
        };
        for f in feats { *features.entry(f).or_insert(0) += 1; }
        let history = if rng.chance(1, 8) { 3 } else { 0 };
        let clear = history > 0 && rng.chance(1, 2);
        emit_program(&mut w, &format!("random #{} (seed {})", i, a.seed), m, &[], history, clear, &mut rng);
    }
    for (f, c) in features { w.count_n(&format!("feature.{}", f), c); }
    w.count_n("rb1.callee_ok", RB1_OK.load(std::sync::atomic::Ordering::Relaxed));
    w.count_n("rb1.callee_failed", RB1_ERR.load(std::sync::atomic::Ordering::Relaxed));
    w.finish(serde_json::json!({"profile": if cfg!(debug_assertions) { "debug" } else { "release" }}));
}

/// The fixed registration history of the C18 check: (name, id of the registered function). Must agree with
/// C18Check.reg_ops / reg_probes.
pub const REG_OPS: &[(&str, u32)] = &[
    ("__mine", 1), ("_x", 2), ("__min", 3), ("a__b", 4), ("f", 5), ("f", 6), ("_x", 7), ("__to_array", 8), ("log1", 9),
    ("_", 10), ("__", 11),
    // ordinary names with the handles of __min / __max / __sort / __to_array (N-C18-1, repaired by d80a79a)
    ("tuewgsg", 12), ("zjyliqo", 13), ("catpprn", 14), ("hcsvhfo", 15),
];
pub const REG_PROBES: &[&str] = &["f", "_x", "a__b", "log1", "__mine", "g", "_", "__"];

/// Registers `ops` in order through the public entry on a new VM (every function = a plain closure that logs its
/// id), then runs the program `CallNative(probe)` for every probe.  Answer: for every registration whether it was
/// accepted; for every probe, for every id 1..=max whether the function with that id ran, then whether the run
/// ended with ProcedureNotFound.
fn registration_history(ops: &[(&str, u32)], probes: &[&str]) -> Vec<bool> {
    let mut vm = new_vm(1000);
    let mut out_bools = vec![];
    for (name, id) in ops {
        let id = *id;
        let f = move |vm: &mut Vm<Host>| -> R {
            vm.get_aux_mut().log.push(format!("REG{}", id));
            Ok(Value::Nil)
        };
        out_bools.push(vm.register_native_function(*name, f).is_ok());
    }
    let max_id = ops.iter().map(|(_, i)| *i).max().unwrap_or(0);
    for p in probes {
        let m = vmgen::module(vec![("main", vmgen::func(&[], vec![vmgen::native(p, vec![])]))]);
        let prog = compile(m, None).expect("probe program");
        vm.get_aux_mut().log.clear();
        let r = vm.run(&prog);
        let log = vm.get_aux().log.clone();
        for k in 1..=max_id {
            out_bools.push(log.iter().any(|e| *e == format!("REG{}", k)));
        }
        out_bools.push(matches!(r, Err(ref e) if matches!(e.payload, ExecutionErrorPayload::ProcedureNotFound(_))));
        vm.clear();
    }
    // the library still works: the same program on this VM and on a VM without the history
    let m = || {
        let arr = || vmgen::array(vec![vmgen::int(3), vmgen::int(1), vmgen::int(2)]);
        vmgen::module_std(vec![("main", vmgen::func(&[], vec![
            vmgen::sg("a", vmgen::call("min", vec![arr()])),
            vmgen::sg("b", vmgen::call("max", vec![arr()])),
            vmgen::sg("c", vmgen::call("sorted", vec![arr()])),
            vmgen::sg("d", vmgen::call("to_array", vec![arr()])),
        ]))])
    };
    let prog = compile(m(), None).expect("std program");
    let globals = |vm: &Vm<'static, Host>| -> Vec<Option<String>> {
        ["a", "b", "c", "d"].iter().map(|n| vm.read_var_by_name(n, &prog.variables).map(|v| tree(v, TREE_DEPTH))).collect()
    };
    vm.get_aux_mut().log.clear();
    let r = vm.run(&prog);
    let g = globals(&vm);
    let logged = vm.get_aux().log.iter().any(|e| e.starts_with("REG"));
    let mut fresh = new_vm(1000);
    let rf = fresh.run(&prog);
    let gf = globals(&fresh);
    out_bools.push(r.is_ok());
    out_bools.push(rf.is_ok() && g == gf && g.iter().all(|x| x.is_some()));
    out_bools.push(!logged);
    out_bools
}

/// `cao-verif-harness c18-witness`: the reservation of the library's names is by NAME, the table of callables is keyed
/// by the 32-bit FNV-1a hash of the name: "tuewgsg" has the handle of "__min", is accepted by
/// register_native_function and replaced the library's native (finding N-C18-1); since d80a79a the registration is
/// rejected and std.min keeps working (Properties/C18.v C18_colliding_name_rejected).
pub fn c18_witness() {
    use std::str::FromStr;
    let h1 = Handle::from_str("tuewgsg").unwrap();
    let h2 = Handle::from_str("__min").unwrap();
    println!("Handle::from_str(\"tuewgsg\") = {:?}, Handle::from_str(\"__min\") = {:?}, equal: {}", h1, h2, h1 == h2);
    let mut vm = new_vm(1000);
    let rejected = vm.register_native_function("__min", |_vm: &mut Vm<Host>| -> R { Ok(Value::Nil) }).is_err();
    println!("register_native_function(\"__min\") rejected: {}", rejected);
    // before: the library's min of [3, 1, 2]
    let m = || {
        vmgen::module_std(vec![("main", vmgen::func(&[], vec![vmgen::sg(
            "r",
            vmgen::call("min", vec![vmgen::array(vec![vmgen::int(3), vmgen::int(1), vmgen::int(2)])]),
        )]))])
    };
    let prog = compile(m(), None).expect("compile");
    let r = vm.run(&prog);
    let v = vm.read_var_by_name("r", &prog.variables).map(|v| tree(v, TREE_DEPTH));
    println!("before: std.min([3,1,2]) -> run = {:?}, r = {:?}", r.as_ref().map_err(|e| format!("{:?}", e.payload)), v);
    let accepted = vm
        .register_native_function("tuewgsg", |vm: &mut Vm<Host>| -> R {
            vm.get_aux_mut().log.push("USER FUNCTION tuewgsg RAN".to_string());
            Err(ExecutionErrorPayload::Unimplemented)
        })
        .is_ok();
    println!("register_native_function(\"tuewgsg\") accepted: {}", accepted);
    vm.clear();
    vm.get_aux_mut().log.clear();
    let r = vm.run(&prog);
    println!("after:  std.min([3,1,2]) -> run = {:?}", r.as_ref().map_err(|e| format!("{:?}", e.payload)));
    println!("host log: {:?}", vm.get_aux().log);
}

/// `harness replay VM --out module.json [--n budget]`: compile and run one dumped module, print what happened
pub fn replay(a: &Args) {
    let text = std::fs::read_to_string(&a.out).expect("module json");
    let mut m: Module = serde_json::from_str(&text).expect("parse module");
    m.walk_cards_mut(|_, c| {
        if let CardBody::ScalarFloat(f) = &mut c.body {
            if *f == NAN_SENTINEL { *f = f64::NAN } else if *f == INF_SENTINEL { *f = f64::INFINITY } else if *f == -INF_SENTINEL { *f = f64::NEG_INFINITY }
        }
    });
    let prog = compile(m, None).expect("compile");
    if std::env::var("VM_DISASM").is_ok() { println!("{}", prog.disassemble_string()); }
    let pr = program_term(&prog);
    let budgets: Vec<u64> = if a.n == 300 { (1..=400).chain([GENEROUS]).collect() } else { vec![a.n as u64] };
    for budget in budgets {
        eprintln!("budget {}", budget);
        let o = run_fresh(&prog, &pr, budget);
        println!("budget {} -> {}", budget, &o.term[..o.term.len().min(300)]);
    }
}

/// `vm-witness <module.json> <coq name>`: the crate's compile output for a module file as a Coq term of type
/// `Vm.program`, and what the real VM (fresh, the menu natives of the VM check, generous budget) logged when it ran it.
/// Used to produce coq/theories/VmUpvalueWitness.v from findings/C06/S-*.json.
pub fn witness(path: &str, name: &str) {
    let m: Module = serde_json::from_str(&std::fs::read_to_string(path).unwrap()).unwrap();
    let prog = compile(m, None).expect("compile");
    let pr = program_term(&prog);
    let mut vm = new_vm(GENEROUS);
    let res = vm.run(&prog);
    println!("(* {} : Vm::run = {:?} *)", path, res.as_ref().map_err(|e| format!("{:?}", e.payload)));
    println!("Definition {} : program :=\n  {}.", name, pr.term);
    println!("Definition {}_log : list (list tval) :=\n  {}.", name, out::list(vm.get_aux().log.iter().cloned()));
    let (h, d) = cao_lang::verif_hooks::stack_heights(&vm.runtime_data);
    println!("(* value-stack height {}, call depth {}, objects {} after the run *)", h, d, cao_lang::verif_hooks::object_count(&vm.runtime_data));
}
