//! C05: allocator accounting traces and collection cases, from programs run under swept limits.
use crate::out::{self, CaseWriter};
use crate::progs;
use crate::rng::Rng;
use crate::Args;
use cao_lang::compiler::{CompileOptions, Module};
use cao_lang::prelude::*;
use cao_lang::verif_hooks as vh;
use std::cell::RefCell;
use std::collections::HashMap;

thread_local! {
    /// GcCase terms produced by the gc_probe native while a program runs
    pub static GC_CASES: RefCell<Vec<String>> = const { RefCell::new(vec![]) };
}

/// dump, collect, dump: one collection case as a Coq term
pub fn gc_case(rt: &mut cao_lang::vm::runtime::RuntimeData) -> String {
    let before = vh::dump_heap(rt);
    rt.gc();
    let after = vh::dump_heap(rt);
    let ids: HashMap<usize, u64> = before.objects.iter().enumerate().map(|(i, o)| (o.0, i as u64 + 1)).collect();
    let id = |a: &usize| -> u64 { *ids.get(a).unwrap_or(&0) };
    let objs = out::list(before.objects.iter().map(|(a, m, kids)| {
        format!("({}, {}, {})", out::n(id(a)), out::n(*m as u64), out::list(kids.iter().map(|k| out::n(id(k)))))
    }));
    let roots = out::list(before.roots.iter().map(|r| out::n(id(r))));
    let aft = out::list(after.objects.iter().map(|(a, m, _)| format!("({}, {})", out::n(id(a)), out::n(*m as u64))));
    format!("GcCase {} {} {}", objs, roots, aft)
}

fn gc_probe(vm: &mut Vm<()>) -> Result<Value, ExecutionErrorPayload> {
    let case = gc_case(&mut vm.runtime_data);
    GC_CASES.with(|c| c.borrow_mut().push(case));
    Ok(Value::Nil)
}

/// `host_table(k)`: the host builds an owned table of k entries (string keys; values alternate between
/// strings, nested tables and integers) and hands it to the VM through `Vm::insert_value` - the host API
/// allocates many objects in a row while only the host holds them
fn host_table(vm: &mut Vm<()>, k: i64) -> Result<Value, ExecutionErrorPayload> {
    use cao_lang::value::{OwnedEntry, OwnedValue};
    let k = k.clamp(0, 64);
    let entries: Vec<OwnedEntry> = (0..k)
        .map(|i| OwnedEntry {
            key: OwnedValue::String(format!("key{}", i)),
            value: match i % 3 {
                0 => OwnedValue::String(format!("value-{}-{}", i, "x".repeat((i % 7) as usize))),
                1 => OwnedValue::Table(vec![
                    OwnedEntry { key: OwnedValue::String("in".into()), value: OwnedValue::String(format!("inner{}", i)) },
                    OwnedEntry { key: OwnedValue::Integer(i), value: OwnedValue::Integer(i * 10) },
                ]),
                _ => OwnedValue::Integer(i),
            },
        })
        .collect();
    vm.insert_value(&OwnedValue::Table(entries))
}

pub fn new_vm(limit: usize, max_iter: u64) -> Vm<'static, ()> {
    let mut vm = Vm::new(()).unwrap().with_max_iter(max_iter);
    vm.runtime_data.set_memory_limit(limit);
    vm.register_native_function("gc_probe", gc_probe).unwrap();
    vm.register_native_function("host_table", cao_lang::prelude::into_f1(host_table)).unwrap();
    vm
}

fn events_term(evs: &[vh::AllocEvent]) -> (String, u64, u64, u64) {
    // group AllocBegin .. AllocEnd with the deallocations of the nested collection
    let mut outv = vec![];
    let (mut fails, mut colls, mut nested) = (0u64, 0u64, 0u64);
    let mut i = 0;
    while i < evs.len() {
        match evs[i] {
            vh::AllocEvent::AllocBegin { size, align } => {
                let mut freed = vec![];
                let mut collected = false;
                let mut j = i + 1;
                loop {
                    match evs[j] {
                        vh::AllocEvent::GcBegin => collected = true,
                        vh::AllocEvent::GcEnd => {}
                        vh::AllocEvent::Dealloc { size, align, .. } => freed.push((size, align)),
                        vh::AllocEvent::AllocEnd { ok, allocated, next_gc } => {
                            if !ok { fails += 1; }
                            if collected { colls += 1; }
                            nested += freed.len() as u64;
                            outv.push(format!(
                                "EvAlloc {} {} false {} {} {} {} {}",
                                out::n(size as u64), out::n(align as u64),
                                out::list(freed.iter().map(|(s, a)| format!("({}, {})", out::n(*s as u64), out::n(*a as u64)))),
                                out::b(ok), out::b(collected), out::n(allocated as u64), out::n(next_gc as u64)
                            ));
                            break;
                        }
                        vh::AllocEvent::AllocBegin { .. } => panic!("nested allocation inside an allocation"),
                    }
                    j += 1;
                }
                i = j + 1;
            }
            vh::AllocEvent::Dealloc { size, align, allocated } => {
                outv.push(format!("EvDealloc {} {} {}", out::n(size as u64), out::n(align as u64), out::n(allocated as u64)));
                i += 1;
            }
            _ => { i += 1; }
        }
    }
    (out::list(outv.into_iter().map(|e| format!("({})", e))), fails, colls, nested)
}

fn run_traced(w: &mut CaseWriter, name: &str, m: Module, limit: usize, runs: usize) {
    let program = match compile(m, CompileOptions::new()) {
        Ok(p) => p,
        Err(e) => panic!("program {} does not compile: {:?}", name, e),
    };
    vh::quarantine(false);
    let mut vm = new_vm(limit, 2_000_000);
    GC_CASES.with(|c| c.borrow_mut().clear());
    vh::record_events(true);
    let mut all_events: Vec<String> = vec![];
    let (mut fails, mut colls, mut nested) = (0, 0, 0);
    let mut oom = false;
    for _ in 0..runs {
        let r = vm.run(&program);
        if let Err(e) = &r {
            if matches!(e.payload, ExecutionErrorPayload::OutOfMemory) { oom = true; }
        }
        let (t, f, c, n) = events_term(&vh::take_events());
        all_events.push(t);
        fails += f; colls += c; nested += n;
        // clear: the releases, then the counters
        vm.clear();
        let (t, _, _, _) = events_term(&vh::take_events());
        all_events.push(t);
        let (a, ng, _) = vh::alloc_counters(&vm.runtime_data);
        all_events.push(format!("[(EvClear {} {})]", out::n(a as u64), out::n(ng as u64)));
    }
    vh::record_events(false);
    let evs = all_events.join(" ++ ");
    w.count(&format!("prog={}", name));
    if fails > 0 { w.count("trace.alloc_refused"); }
    if oom { w.count("trace.run_ended_OutOfMemory"); }
    if colls > 0 { w.count("trace.collected"); }
    if colls > 2 { w.count("trace.collected>2"); }
    if nested > 0 { w.count("trace.collection_released_something"); }
    w.push(format!("AllocTrace {} ({})", out::n(limit as u64), evs), colls > 0);
    let cases: Vec<String> = GC_CASES.with(|c| c.borrow_mut().drain(..).collect());
    for c in cases {
        w.count("gc_case.mid_run");
        // keep the case files small
        if c.len() < 60_000 { w.push(c, true); }
    }
}

pub fn gen(a: &Args) {
    let mut rng = Rng::new(a.seed);
    let mut w = CaseWriter::new(&a.out, "C05Check", 4);
    let limits = [900usize, 2_000, 5_000, 12_000, 40_000, 400 * 1024];
    let mut k = 0;
    while w.len() < a.n {
        let n = [5i64, 30, 120, 400][rng.below(4) as usize];
        let len = [0usize, 4, 32, 200][rng.below(4) as usize];
        if len == 0 { w.count("strings.empty"); }
        let progs = progs::all(n, len);
        let (name, m) = progs[k % progs.len()].clone();
        let limit = limits[rng.below(limits.len() as u64) as usize];
        let runs = 1 + rng.below(3) as usize;
        out::describe_current(&format!("C05 program {} n={} len={} limit={} runs={}", name, n, len, limit, runs));
        // a Rust panic of the implementation (e.g. an arithmetic overflow of the byte counter in a debug
        // build) is an observation, not the end of the run
        let what = format!("program {} n={} len={} limit={} runs={}", name, n, len, limit, runs);
        let r = std::panic::catch_unwind(std::panic::AssertUnwindSafe(|| run_traced(&mut w, &name, m, limit, runs)));
        if r.is_err() {
            vh::record_events(false);
            let _ = vh::take_events();
            GC_CASES.with(|c| c.borrow_mut().clear());
            w.count("impl.panic");
            let id = w.push("ImplPanic".to_string(), true);
            w.note(id, format!("the implementation panicked while running {}", what));
        }
        k += 1;
    }
    w.finish(serde_json::json!({}));
}
