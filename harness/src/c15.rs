//! C15: error locations identify the failing card and its call chain.
//!
//! Three streams of run cases and one of compile cases (checker: coq/theories/C15Check.v):
//!  * scenario  - generated module trees (submodules, imports, shuffled function tables) with a call chain
//!                main -> f1 -> ... -> fk whose hops are static calls (absolute / bare / imported names), dynamic
//!                calls of function values, inline and stored closures, std.map / std.filter / std.any, native
//!                callbacks (call0 / call1 / rb1 / std.*_by_key), each hop and the fault nested in control-flow /
//!                expression wrappers; exactly one fault at the end. The harness knows the whole expected trace.
//!  * planted   - programs that run to completion (vmgen random / corpus, progs.rs, modgen) with ONE fault wrapped
//!                around a random card position: Composite[marker, fault, original]; the marker (log1 777777) tells
//!                through the host log whether the position was reached. Call chain: consistency only.
//!  * unplanted - programs that fail by themselves or under a tiny budget (Timeout): trace[0] must be a card, the
//!                chain consistent.
//!  * compile   - modules with one planted compile error; CompilationError.loc must resolve to the planted card.
//! Every trace entry is resolved through the crate's own Module::get_card; cards are identified by CardId tags.
use crate::modgen;
use crate::out::{self, CaseWriter};
use crate::rng::Rng;
use crate::vmgen::{self, *};
use crate::vmrun::{self, Host};
use crate::Args;
use cao_lang::compiler::{Card, CardBody, CardId, CardIndex, CardFetchError, Function, Module};
use cao_lang::prelude::*;
use std::collections::HashMap;
use std::panic::{catch_unwind, AssertUnwindSafe};

const TAG0: u64 = 1_000_000;
const MARKER: i64 = 777_777;
const GENEROUS: u64 = 20_000;

fn tagged(mut c: Card, k: u64) -> Card {
    c.id = CardId(TAG0 + k);
    c
}
fn tag_of(c: &Card) -> Option<u64> {
    if c.id.0 >= TAG0 && c.id.0 < TAG0 + 100_000 { Some(c.id.0 - TAG0) } else { None }
}

// ------------------------------------------------------------------------------------------------
// locations, resolution through the crate
// ------------------------------------------------------------------------------------------------

#[derive(Clone, Debug, PartialEq)]
pub struct Loc {
    pub ns: Vec<String>,
    pub function: usize,
    pub indices: Vec<u32>,
}
impl Loc {
    fn term(&self) -> String {
        format!(
            "(mkloc {} {} {})",
            out::list(self.ns.iter().map(|s| modgen::coq_str(s))),
            out::nat(self.function),
            out::list(self.indices.iter().map(|i| out::nat(*i as usize)))
        )
    }
    fn child(&self, i: u32) -> Loc {
        let mut l = self.clone();
        l.indices.push(i);
        l
    }
    fn index(&self) -> CardIndex {
        CardIndex::from_slice(self.function, &self.indices)
    }
}
fn loc_of_trace(t: &Trace) -> Loc {
    Loc {
        ns: t.namespace.iter().map(|s| s.to_string()).collect(),
        function: t.index.function,
        indices: t.index.card_index.indices.iter().copied().collect(),
    }
}

/// the module a namespace designates: submodules by name from the root; `std` is the injected library
fn module_at<'a>(root: &'a Module, std: &'a Module, ns: &[String]) -> Option<&'a Module> {
    let mut cur = root;
    for (k, seg) in ns.iter().enumerate() {
        match cur.submodules.iter().find(|(n, _)| n == seg) {
            Some((_, s)) => cur = s,
            None if k == 0 && seg == "std" => cur = std,
            None => return None,
        }
    }
    Some(cur)
}

fn walk_card<'a>(c: &'a Card, ns: &[String], idx: &mut Loc, f: &mut dyn FnMut(&Loc, &'a Card)) {
    f(idx, c);
    let mut i = 0;
    while let Some(ch) = c.get_child(i) {
        idx.indices.push(i as u32);
        walk_card(ch, ns, idx, f);
        idx.indices.pop();
        i += 1;
    }
}
/// every card of the module tree with its location; children are numbered by `Card::get_child`
fn walk_module<'a>(m: &'a Module, ns: &mut Vec<String>, f: &mut dyn FnMut(&Loc, &'a Card)) {
    for (fi, (_, fun)) in m.functions.iter().enumerate() {
        for (j, c) in fun.cards.iter().enumerate() {
            let mut idx = Loc { ns: ns.clone(), function: fi, indices: vec![j as u32] };
            walk_card(c, ns, &mut idx, f);
        }
    }
    for (name, sub) in m.submodules.iter() {
        ns.push(name.clone());
        walk_module(sub, ns, f);
        ns.pop();
    }
}
fn tag_locs(m: &Module) -> HashMap<u64, Loc> {
    let mut out = HashMap::new();
    walk_module(m, &mut vec![], &mut |l, c| {
        if let Some(t) = tag_of(c) {
            out.insert(t, l.clone());
        }
    });
    out
}
fn all_locs(m: &Module) -> Vec<Loc> {
    let mut out = vec![];
    walk_module(m, &mut vec![], &mut |l, _| out.push(l.clone()));
    out
}

fn kind_term(c: &Card) -> String {
    match &c.body {
        CardBody::Call(j) => format!("(RKCall {})", modgen::coq_str(&j.function_name)),
        CardBody::DynamicCall(j) => match &j.function.body {
            CardBody::Function(n) => format!("(RKDyn (Some {}))", modgen::coq_str(n)),
            _ => "(RKDyn None)".into(),
        },
        CardBody::CallNative(n) => format!("(RKNative {})", modgen::coq_str(n.name.as_str())),
        CardBody::Closure(_) => "RKClosure".into(),
        _ => "RKOther".into(),
    }
}

struct Res {
    term: String,
    resolves: bool,
    self_tag: Option<u64>,
}
/// one trace entry through Module::get_card (and its prefixes, for the ancestors)
fn resolve(root: &Module, std: &Module, l: &Loc) -> Res {
    let Some(m) = module_at(root, std, &l.ns) else {
        return Res { term: "(mkres None 0%N (RKNone 3%N) None false false)".into(), resolves: false, self_tag: None };
    };
    let (fname, ncards) = match m.functions.get(l.function) {
        Some((n, f)) => (Some(n.clone()), f.cards.len()),
        None => (None, 0),
    };
    let (kind, self_tag, resolves) = match m.get_card(&l.index()) {
        Ok(c) => (kind_term(c), tag_of(c), true),
        Err(CardFetchError::FunctionNotFound) => ("(RKNone 0%N)".to_string(), None, false),
        Err(CardFetchError::CardNotFound { .. }) => ("(RKNone 1%N)".to_string(), None, false),
        Err(CardFetchError::InvalidIndex) => ("(RKNone 2%N)".to_string(), None, false),
        Err(_) => ("(RKNone 4%N)".to_string(), None, false),
    };
    let mut under = self_tag == Some(0);
    let mut in_closure = false;
    for k in 1..l.indices.len() {
        let p = CardIndex::from_slice(l.function, &l.indices[..k]);
        if let Ok(c) = m.get_card(&p) {
            if tag_of(c) == Some(0) { under = true; }
            if matches!(c.body, CardBody::Closure(_)) { in_closure = true; }
        }
    }
    let term = format!(
        "(mkres {} {} {} {} {} {})",
        out::opt(fname.map(|n| modgen::coq_str(&n))),
        out::n(ncards as u64),
        kind,
        out::opt(self_tag.map(out::n)),
        out::b(under && resolves),
        out::b(in_closure)
    );
    Res { term, resolves, self_tag }
}

// ------------------------------------------------------------------------------------------------
// running
// ------------------------------------------------------------------------------------------------

enum Outcome {
    CompileErr(CompilationError),
    Panic,
    Ok { marker: bool },
    Err { payload: String, trace: Vec<Loc>, marker: bool, timeout: bool },
}

fn marker_in_log(vm: &Vm<'static, Host>) -> bool {
    let needle = format!("(TInt {})", out::z(MARKER));
    vm.get_aux().log.iter().any(|e| e.contains(&needle))
}

fn compile_run(m: &Module, budget: u64) -> Outcome {
    let prog = match catch_unwind(AssertUnwindSafe(|| compile(m.clone(), None))) {
        Ok(Ok(p)) => p,
        Ok(Err(e)) => return Outcome::CompileErr(e),
        Err(_) => return Outcome::Panic,
    };
    let mut vm = vmrun::new_vm(budget);
    let r = catch_unwind(AssertUnwindSafe(|| vm.run(&prog)));
    match r {
        Err(_) => {
            std::mem::forget(vm);
            Outcome::Panic
        }
        Ok(Ok(())) => Outcome::Ok { marker: marker_in_log(&vm) },
        Ok(Err(e)) => Outcome::Err {
            payload: vmrun::err_term(&e.payload),
            trace: e.trace.iter().map(loc_of_trace).collect(),
            marker: marker_in_log(&vm),
            timeout: matches!(e.payload, ExecutionErrorPayload::Timeout),
        },
    }
}

struct Expect {
    planted: Option<Loc>,
    head: &'static str,          // HPlanted | HUnder | HAny
    chain: Option<Vec<(Loc, bool)>>, // Some = CExact
}

fn emit_run(w: &mut CaseWriter, std: &Module, m: &Module, budget: u64, ex: &Expect, payload: &str, trace: &[Loc], note: &str) {
    let res: Vec<Res> = trace.iter().map(|l| resolve(m, std, l)).collect();
    let chain = match &ex.chain {
        Some(items) => format!("(CExact {})", out::list(items.iter().map(|(l, s)| format!("({}, {})", l.term(), out::b(*s))))),
        None => "CFree".to_string(),
    };
    let term = format!(
        "(mkrun {} {} {} {} {} {} {} {} {})",
        out::b(cfg!(debug_assertions)),
        modgen::coq_module(m),
        out::n(budget),
        out::opt(ex.planted.as_ref().map(|l| l.term())),
        ex.head,
        chain,
        payload,
        out::list(trace.iter().map(|l| l.term())),
        out::list(res.iter().map(|r| r.term.clone()))
    );
    // distribution: depth of the head, namespaces, chain length
    if let Some(h) = trace.first() {
        w.count(&format!("head.depth.{}", h.indices.len().min(6)));
        if !h.ns.is_empty() { w.count("head.in_submodule"); }
        if h.ns.first().map(|s| s == "std").unwrap_or(false) { w.count("head.in_std"); }
    }
    if trace.iter().any(|l| l.ns.len() >= 2) { w.count("trace.ns_depth>=2"); }
    if trace.iter().any(|l| l.ns.first().map(|s| s == "std").unwrap_or(false)) { w.count("trace.through_std"); }
    w.count(&format!("trace.len.{}", match trace.len() { 0 => "0", 1 => "1", 2 => "2", 3 => "3", 4..=6 => "4-6", 7..=20 => "7-20", _ => ">20" }));
    if res.iter().any(|r| !r.resolves) { w.count("trace.unresolved_entry"); }
    let short = payload.trim_start_matches('(').split(' ').next().unwrap_or("").to_string();
    w.count(&format!("payload.{}", short));
    let id = w.push(term, trace.len() >= 2);
    w.note(id, format!("{} | payload {} | trace {}", note, payload,
        trace.iter().zip(res.iter()).map(|(l, r)| format!("{}:{}{:?}{}", l.ns.join("."), l.function, l.indices,
            match r.self_tag { Some(t) => format!("#{}", t), None => String::new() })).collect::<Vec<_>>().join(" <- ")));
}

// ------------------------------------------------------------------------------------------------
// faults
// ------------------------------------------------------------------------------------------------

#[derive(Clone, Copy, Debug, PartialEq)]
enum Fault {
    SetPropNonTable,
    GetPropNonTable,
    DynCallNonFunction,
    AppendNonTable,
    PopNonTable,
    NthRowNonTable,
    ForEachNonTable,
    MissingNative,
    MissingGlobal,
    NativeError,
    NativeConversion,
    ValueStack,
    ValueStackRepeat,
    CallStack,
    TimeoutLoop,
}
const IMMEDIATE: [Fault; 11] = [
    Fault::SetPropNonTable, Fault::GetPropNonTable, Fault::DynCallNonFunction, Fault::AppendNonTable, Fault::PopNonTable,
    Fault::NthRowNonTable, Fault::ForEachNonTable, Fault::MissingNative, Fault::MissingGlobal, Fault::NativeError,
    Fault::NativeConversion,
];
fn pick_fault(rng: &mut Rng) -> Fault {
    match rng.below(20) {
        0 | 1 => Fault::ValueStack,
        2 => Fault::ValueStackRepeat,
        3 | 4 => Fault::CallStack,
        5 | 6 => Fault::TimeoutLoop,
        _ => *rng.pick(&IMMEDIATE),
    }
}
impl Fault {
    fn name(self) -> &'static str {
        match self {
            Fault::SetPropNonTable => "setprop_nontable",
            Fault::GetPropNonTable => "getprop_nontable",
            Fault::DynCallNonFunction => "dyncall_nonfunction",
            Fault::AppendNonTable => "append_nontable",
            Fault::PopNonTable => "pop_nontable",
            Fault::NthRowNonTable => "nthrow_nontable",
            Fault::ForEachNonTable => "foreach_nontable",
            Fault::MissingNative => "missing_native",
            Fault::MissingGlobal => "missing_global",
            Fault::NativeError => "native_error",
            Fault::NativeConversion => "native_conversion",
            Fault::ValueStack => "value_stack",
            Fault::ValueStackRepeat => "value_stack_repeat",
            Fault::CallStack => "call_stack",
            Fault::TimeoutLoop => "timeout_loop",
        }
    }
    fn head(self) -> &'static str {
        match self {
            Fault::ValueStackRepeat | Fault::TimeoutLoop => "HUnder",
            _ => "HPlanted",
        }
    }
    /// the card to put at the fault position. Tag 0 = the card the property must name; for CallStack the card at
    /// the position is the outermost call of the recursion (tag 50) and the planted card lives in the helper.
    fn card(self) -> Card {
        match self {
            Fault::SetPropNonTable => tagged(setp(int(1), int(3), s("k")), 0),
            Fault::GetPropNonTable => tagged(getp(int(3), int(1)), 0),
            Fault::DynCallNonFunction => tagged(dyn_call(int(3), vec![]), 0),
            Fault::AppendNonTable => tagged(append(int(1), int(3)), 0),
            Fault::PopNonTable => tagged(pop_table(int(3)), 0),
            Fault::NthRowNonTable => tagged(nth(int(3), int(0)), 0),
            Fault::ForEachNonTable => tagged(foreach(None, None, None, int(3), nil()), 0),
            Fault::MissingNative => tagged(native("c15_no_such_native", vec![]), 0),
            Fault::MissingGlobal => tagged(rv("c15_never_set"), 0),
            Fault::NativeError => tagged(native("fail0", vec![]), 0),
            Fault::NativeConversion => tagged(native("str1", vec![int(5)]), 0),
            Fault::ValueStack => while_(tagged(int(1), 0), int(1)),
            Fault::ValueStackRepeat => tagged(repeat(int(300), None, int(1)), 0),
            Fault::CallStack => tagged(call("c15_rec", vec![]), 50),
            Fault::TimeoutLoop => tagged(while_(int(1), block(vec![])), 0),
        }
    }
}
const REC_NAME: &str = "c15_rec";
fn rec_helper() -> (String, Function) {
    (REC_NAME.to_string(), func(&[], vec![tagged(call(REC_NAME, vec![]), 0)]))
}

// ------------------------------------------------------------------------------------------------
// wrappers: a card that, when executed, executes [c] before anything that could fail
// ------------------------------------------------------------------------------------------------

fn filler(rng: &mut Rng, k: &mut usize) -> Card {
    *k += 1;
    match rng.below(6) {
        0 => sv(&format!("l{}", k), int(*k as i64)),
        1 => sg(&format!("g{}", rng.below(4)), add(int(1), int(*k as i64))),
        2 => CardBody::Comment(format!("c{}", k)).into(),
        3 => if_true(int(0), nil()),
        4 => sv(&format!("t{}", k), array(vec![int(1), s("x")])),
        _ => sv(&format!("l{}", k), mul(int(2), int(3))),
    }
}

/// `pure`: only wrappers in which no instruction that can fail runs before `c` (Array, Repeat and ForEach bodies
/// store hidden locals first, which fails when a local declared earlier was skipped at run time)
fn wrap1(rng: &mut Rng, c: Card, k: &mut usize, pure_only: bool) -> (Card, &'static str) {
    *k += 1;
    let mut choice = rng.below(24);
    while pure_only && matches!(choice, 7 | 8 | 12 | 19) { choice = rng.below(24); }
    match choice {
        0 => (block(vec![c]), "composite"),
        1 => { let f = filler(rng, k); (block(vec![f, c, int(0)]), "composite") }
        2 => (if_true(int(1), c), "if_true.body"),
        3 => (if_false(int(0), c), "if_false.body"),
        4 => (if_else(int(1), c, nil()), "if_else.then"),
        5 => (if_else(int(0), nil(), c), "if_else.else"),
        6 => (if_true(c, nil()), "if.condition"),
        7 => (repeat(int(2), None, c), "repeat.body"),
        8 => (repeat(int(2), Some(&format!("ri{}", k)), c), "repeat.body"),
        9 => (repeat(c, None, nil()), "repeat.count"),
        10 => (while_(int(1), c), "while.body"),
        11 => (while_(c, nil()), "while.condition"),
        12 => (foreach(Some(&format!("fi{}", k)), Some(&format!("fk{}", k)), Some(&format!("fv{}", k)), array(vec![int(1), int(2)]), c), "foreach.body"),
        13 => (foreach(None, None, None, c, nil()), "foreach.iterable"),
        14 => (sv(&format!("w{}", k), c), "setvar.value"),
        15 => (sg(&format!("gw{}", rng.below(3)), c), "setglobal.value"),
        16 => (add(c, int(1)), "binop.lhs"),
        17 => (add(int(1), c), "binop.rhs"),
        18 => (not(c), "unary"),
        19 => (array(vec![int(1), c]), "array.item"),
        20 => (native("log1", vec![c]), "native.arg"),
        21 => (dyn_call(c, vec![]), "dyncall.function"),
        22 => (setp(c, table(), s("k")), "setprop.value"),
        _ => (ret(c), "return.value"),
    }
}
fn wrap(rng: &mut Rng, c: Card, k: &mut usize, w: &mut CaseWriter, pure_only: bool) -> Card {
    let depth = rng.weighted(&[3, 4, 3, 1]);
    let mut c = c;
    for _ in 0..depth {
        let (c2, name) = wrap1(rng, c, k, pure_only);
        w.count(&format!("wrap.{}", name));
        c = c2;
    }
    c
}

// ------------------------------------------------------------------------------------------------
// scenario generator
// ------------------------------------------------------------------------------------------------

#[derive(Clone, Copy, Debug, PartialEq)]
enum Hop {
    CallAbs,
    CallBare,
    CallImportFn,
    CallImportMod,
    DynFn,
    DynVar,
    ClosureInline,
    ClosureVar,
    StdMap,
    StdFilter,
    StdAny,
    NativeCall0,
    NativeCall1,
    NativeRb1,
    StdSortedByKey,
    StdMinByKey,
}
impl Hop {
    fn name(self) -> &'static str {
        match self {
            Hop::CallAbs => "call_absolute",
            Hop::CallBare => "call_bare",
            Hop::CallImportFn => "call_imported_function",
            Hop::CallImportMod => "call_imported_module",
            Hop::DynFn => "dyncall_function_value",
            Hop::DynVar => "dyncall_variable",
            Hop::ClosureInline => "closure_inline",
            Hop::ClosureVar => "closure_variable",
            Hop::StdMap => "std_map",
            Hop::StdFilter => "std_filter",
            Hop::StdAny => "std_any",
            Hop::NativeCall0 => "native_call0",
            Hop::NativeCall1 => "native_call1",
            Hop::NativeRb1 => "native_rb1",
            Hop::StdSortedByKey => "std_sorted_by_key",
            Hop::StdMinByKey => "std_min_by_key",
        }
    }
    fn is_closure(self) -> bool { matches!(self, Hop::ClosureInline | Hop::ClosureVar) }
    fn is_callback(self) -> bool {
        matches!(self, Hop::NativeCall0 | Hop::NativeCall1 | Hop::NativeRb1 | Hop::StdSortedByKey | Hop::StdMinByKey)
    }
    fn callee_arity(self, rng: &mut Rng) -> usize {
        match self {
            Hop::StdMap | Hop::StdFilter | Hop::StdAny => 3,
            Hop::NativeCall0 => 0,
            Hop::NativeCall1 | Hop::NativeRb1 => 1,
            Hop::StdSortedByKey | Hop::StdMinByKey => 2,
            _ => rng.below(3) as usize,
        }
    }
}

const PATHS: [&[&str]; 6] = [&[], &[], &["alpha"], &["alpha", "beta"], &["gamma"], &["alpha", "beta", "delta"]];

struct ModBuild {
    functions: Vec<(String, Function)>,
    imports: Vec<String>,
    subs: Vec<(String, ModBuild)>,
}
impl ModBuild {
    fn new() -> Self { ModBuild { functions: vec![], imports: vec![], subs: vec![] } }
    fn at(&mut self, path: &[String]) -> &mut ModBuild {
        let mut cur = self;
        for seg in path {
            let pos = match cur.subs.iter().position(|(n, _)| n == seg) {
                Some(p) => p,
                None => { cur.subs.push((seg.clone(), ModBuild::new())); cur.subs.len() - 1 }
            };
            cur = &mut cur.subs[pos].1;
        }
        cur
    }
    fn build(self) -> Module {
        Module {
            functions: self.functions,
            imports: self.imports,
            submodules: self.subs.into_iter().map(|(n, s)| (n, s.build())).collect(),
        }
    }
}

fn relative_import(from: &[String], to_path: &[String], name: &str) -> String {
    let mut common = 0;
    while common < from.len() && common < to_path.len() && from[common] == to_path[common] { common += 1; }
    let mut s = String::new();
    for _ in common..from.len() { s.push_str("super."); }
    for seg in &to_path[common..] { s.push_str(seg); s.push('.'); }
    s.push_str(name);
    s
}

/// location of the card in function `fname` of std that calls back into the script (DynamicCall / CallNative)
fn std_callback_site(std: &Module, fname: &str) -> Loc {
    let fi = std.functions.iter().position(|(n, _)| n == fname).expect("std function");
    let mut found = None;
    for (j, c) in std.functions[fi].1.cards.iter().enumerate() {
        let mut idx = Loc { ns: vec!["std".into()], function: fi, indices: vec![j as u32] };
        walk_card(c, &[], &mut idx, &mut |l, c| {
            if matches!(c.body, CardBody::DynamicCall(_) | CardBody::CallNative(_)) && found.is_none() {
                found = Some(l.clone());
            }
        });
    }
    found.expect("callback site in std function")
}

struct Scenario {
    module: Module,
    fault: Fault,
    hops: Vec<Hop>,
    /// expected chain, innermost first; (tag of a card of the module | location in std, star)
    chain: Vec<(Result<u64, Loc>, bool)>,
    budget: u64,
}

fn gen_scenario(rng: &mut Rng, std: &Module, w: &mut CaseWriter, with_fault: bool) -> Scenario {
    // "thin" scenarios: every function of the chain alone in its own module with exactly one top-level card, the bare
    // argument-less call of the next one (no fillers, no wrapping, no padding functions): adjacent functions of the
    // compile order then have equal card indices in different namespaces
    let thin = with_fault && rng.chance(1, 5);
    if thin { w.count("scenario.thin"); }
    let nh = if thin { 2 + rng.below(3) as usize } else { rng.weighted(&[2, 4, 4, 3, 2, 1]) };
    let fault = if with_fault { pick_fault(rng) } else { Fault::TimeoutLoop };
    let thin_paths: Vec<Vec<String>> = {
        let mut v: Vec<Vec<String>> = PATHS.iter().filter(|p| !p.is_empty()).map(|p| p.iter().map(|s| s.to_string()).collect()).collect();
        for i in (1..v.len()).rev() { let j = rng.below(i as u64 + 1) as usize; v.swap(i, j); }
        v
    };
    let mut k = 0usize;
    // function table: F0 = main at the root, F1..Fnh
    let mut paths: Vec<Vec<String>> = vec![vec![]];
    let mut names: Vec<String> = vec!["main".into()];
    let mut hops: Vec<Hop> = vec![];
    let mut as_closure: Vec<bool> = vec![];
    for i in 0..nh {
        let mut hop = match rng.below(22) {
            0..=3 => Hop::CallAbs,
            4 => Hop::CallBare,
            5 | 6 => Hop::CallImportFn,
            7 => Hop::CallImportMod,
            8 | 9 => Hop::DynFn,
            10 => Hop::DynVar,
            11 | 12 => Hop::ClosureInline,
            13 => Hop::ClosureVar,
            14 => Hop::StdMap,
            15 => Hop::StdFilter,
            16 => Hop::StdAny,
            17 => Hop::NativeCall0,
            18 => Hop::NativeCall1,
            19 => Hop::NativeRb1,
            20 => Hop::StdSortedByKey,
            _ => Hop::StdMinByKey,
        };
        if thin { hop = [Hop::CallAbs, Hop::CallAbs, Hop::CallImportFn, Hop::CallImportMod][rng.below(4) as usize]; }
        let from = paths[i].clone();
        let mut to: Vec<String> = rng.pick(&PATHS).iter().map(|s| s.to_string()).collect();
        if thin { to = thin_paths[i % thin_paths.len()].clone(); }
        if hop == Hop::CallBare { to = from.clone(); }
        if hop == Hop::CallImportMod && to.is_empty() { hop = Hop::CallAbs; }
        if hop == Hop::CallImportFn && to == from { hop = Hop::CallBare; }
        let clo = hop.is_closure()
            || (matches!(hop, Hop::StdMap | Hop::StdFilter | Hop::StdAny | Hop::NativeCall0 | Hop::NativeCall1) && rng.chance(1, 3));
        if clo { to = from.clone(); }
        as_closure.push(clo);
        hops.push(hop);
        paths.push(to);
        names.push(format!("f{}", i + 1));
    }
    let arities: Vec<usize> = std::iter::once(0).chain(hops.iter().map(|h| if thin { 0 } else { h.callee_arity(rng) })).collect();
    let abs = |i: usize| -> String {
        let mut s = paths[i].join(".");
        if !s.is_empty() { s.push('.'); }
        s.push_str(&names[i]);
        s
    };
    // bodies, innermost first
    let mut mb = ModBuild::new();
    let mut chain: Vec<(Result<u64, Loc>, bool)> = vec![];
    let mut inner: Vec<Card> = {
        let mut cards = vec![];
        for _ in 0..(if thin { 0 } else { rng.below(3) }) { cards.push(filler(rng, &mut k)); }
        if with_fault {
            let f = fault.card();
            cards.push(if thin { f } else { wrap(rng, f, &mut k, w, false) });
            if fault == Fault::CallStack {
                // the helper lives in the module of the innermost function, or at the root
                let hp = if rng.chance(1, 2) { paths[nh].clone() } else { vec![] };
                let (n, f) = rec_helper();
                mb.at(&hp).functions.push((n, f));
                chain.push((Ok(0), true));
                chain.push((Ok(50), false));
            }
        } else {
            cards.push(sg("done", int(1)));
        }
        for _ in 0..(if thin { 0 } else { rng.below(2) }) { cards.push(filler(rng, &mut k)); }
        cards
    };
    for i in (0..nh).rev() {
        // F_{i+1} has body `inner`; build the hop card in F_i
        let hop = hops[i];
        let callee_args: Vec<String> = (0..arities[i + 1]).map(|a| format!("p{}_{}", i + 1, a)).collect();
        let argrefs: Vec<&str> = callee_args.iter().map(|x| x.as_str()).collect();
        let argvals: Vec<Card> = (0..arities[i + 1]).map(|a| int(10 * (i as i64 + 1) + a as i64)).collect();
        let tag = (i + 1) as u64;
        let from = paths[i].clone();
        let to = paths[i + 1].clone();
        let mut pre: Vec<Card> = vec![];
        let body = std::mem::take(&mut inner);
        let fvalue = |mb: &mut ModBuild, body: Vec<Card>| -> Card {
            // the callee as a named function, returned as a function value card
            mb.at(&to).functions.push((names[i + 1].clone(), func(&argrefs, body)));
            fval(&abs(i + 1))
        };
        let hop_card = match hop {
            Hop::CallAbs => { fvalue(&mut mb, body); call(&abs(i + 1), argvals) }
            Hop::CallBare => { fvalue(&mut mb, body); call(&names[i + 1], argvals) }
            Hop::CallImportFn => {
                fvalue(&mut mb, body);
                mb.at(&from).imports.push(relative_import(&from, &to, &names[i + 1]));
                call(&names[i + 1], argvals)
            }
            Hop::CallImportMod => {
                fvalue(&mut mb, body);
                let (modname, parent) = to.split_last().unwrap();
                let imp = relative_import(&from, parent, modname);
                // a module import through `super.` does not resolve (second half of A-21, property C08): absolute name then
                let usable = imp.contains('.') && !imp.contains("super.");
                if usable && !mb.at(&from).imports.contains(&imp) { mb.at(&from).imports.push(imp.clone()); }
                if usable { call(&format!("{}.{}", modname, names[i + 1]), argvals) } else { call(&abs(i + 1), argvals) }
            }
            Hop::DynFn => { let f = fvalue(&mut mb, body); dyn_call(f, argvals) }
            Hop::DynVar => {
                let f = fvalue(&mut mb, body);
                let v = format!("fv{}", i);
                pre.push(sv(&v, f));
                dyn_call(rv(&v), argvals)
            }
            Hop::ClosureInline => dyn_call(closure(&argrefs, body), argvals),
            Hop::ClosureVar => {
                let v = format!("cl{}", i);
                pre.push(sv(&v, closure(&argrefs, body)));
                dyn_call(rv(&v), argvals)
            }
            Hop::StdMap | Hop::StdFilter | Hop::StdAny => {
                let f = if as_closure[i] { closure(&argrefs, body) } else { fvalue(&mut mb, body) };
                let sname = match hop { Hop::StdMap => "map", Hop::StdFilter => "filter", _ => "any" };
                chain.push((Err(std_callback_site(std, sname)), false));
                // the first argument of a call binds the LAST parameter: (callback, iterable); the table comes from a
                // variable because an Array literal in argument position overwrites the arguments pushed before it
                let it = format!("it{}", i);
                pre.push(sv(&it, array(vec![int(5), int(6)])));
                call(&format!("std.{}", sname), vec![f, rv(&it)])
            }
            Hop::NativeCall0 => { let f = if as_closure[i] { closure(&argrefs, body) } else { fvalue(&mut mb, body) }; native("call0", vec![f]) }
            Hop::NativeCall1 => { let f = if as_closure[i] { closure(&argrefs, body) } else { fvalue(&mut mb, body) }; native("call1", vec![f, int(4)]) }
            Hop::NativeRb1 => { let f = fvalue(&mut mb, body); native("rb1", vec![f, int(4)]) }
            Hop::StdSortedByKey | Hop::StdMinByKey => {
                let f = fvalue(&mut mb, body);
                let sname = if hop == Hop::StdSortedByKey { "sorted_by_key" } else { "min_by_key" };
                chain.push((Err(std_callback_site(std, sname)), false));
                let it = format!("it{}", i);
                pre.push(sv(&it, array(vec![int(5), int(6)])));
                call(&format!("std.{}", sname), vec![f, rv(&it)])
            }
        };
        chain.push((Ok(tag), false));
        let hop_card = tagged(hop_card, tag);
        let mut cards = vec![];
        for _ in 0..(if thin { 0 } else { rng.below(3) }) { cards.push(filler(rng, &mut k)); }
        cards.extend(pre);
        cards.push(if thin { hop_card } else { wrap(rng, hop_card, &mut k, w, false) });
        for _ in 0..(if thin { 0 } else { rng.below(2) }) { cards.push(filler(rng, &mut k)); }
        inner = cards;
    }
    // main, with padding functions around it so that function indices vary
    let npad = if thin { 0 } else { rng.below(3) as usize };
    for p in 0..npad {
        let path: Vec<String> = rng.pick(&PATHS).iter().map(|s| s.to_string()).collect();
        let at = mb.at(&path);
        let pos = rng.below(at.functions.len() as u64 + 1) as usize;
        at.functions.insert(pos, (format!("pad{}", p), func(&[], vec![sg("pad", int(p as i64))])));
    }
    let root = mb.at(&[]);
    let pos = rng.below(root.functions.len() as u64 + 1) as usize;
    root.functions.insert(pos, ("main".into(), func(&[], inner)));
    let budget = if fault == Fault::TimeoutLoop { 600 + rng.below(400) } else { GENEROUS };
    let _ = &as_closure;
    Scenario { module: mb.build(), fault, hops, chain, budget }
}

fn scenario_case(rng: &mut Rng, std: &Module, w: &mut CaseWriter) {
    let sc = gen_scenario(rng, std, w, true);
    out::describe_current(&format!("C15 scenario {:?} {:?}: {}", sc.fault, sc.hops, modgen::coq_module(&sc.module)));
    let tags = tag_locs(&sc.module);
    let Some(planted) = tags.get(&0).cloned() else { w.count("scenario.no_planted_tag"); return; };
    let mut items = vec![];
    for (t, star) in &sc.chain {
        match t {
            Ok(tag) => match tags.get(tag) { Some(l) => items.push((l.clone(), *star)), None => { w.count("scenario.missing_tag"); return; } },
            Err(l) => items.push((l.clone(), *star)),
        }
    }
    match compile_run(&sc.module, sc.budget) {
        Outcome::CompileErr(e) => { w.count("scenario.compile_error"); if std::env::var("C15_TRACE").is_ok() { eprintln!("scenario compile error {:?}: {}", e, modgen::coq_module(&sc.module)); } }
        Outcome::Panic => w.count("scenario.panic"),
        Outcome::Ok { .. } => { w.count("scenario.ran_ok"); if std::env::var("C15_TRACE").is_ok() { eprintln!("scenario ran ok: {:?} {:?} {}", sc.fault, sc.hops, modgen::coq_module(&sc.module)); } }
        Outcome::Err { payload, .. } if sc.fault == Fault::MissingGlobal && !payload.contains("(EVarNotFound (Some") => w.count("scenario.missing_global_read_nil"),
        Outcome::Err { payload, trace, .. } => {
            w.count("stream.scenario");
            w.count(&format!("fault.{}", sc.fault.name()));
            for h in &sc.hops { w.count(&format!("hop.{}", h.name())); }
            w.count(&format!("hops.{}", sc.hops.len()));
            if sc.hops.iter().any(|h| h.is_callback()) { w.count("scenario.with_callback"); }
            if sc.hops.iter().any(|h| h.is_closure()) { w.count("scenario.with_closure"); }
            if !planted.ns.is_empty() { w.count("planted.in_submodule"); }
            w.count(&format!("planted.depth.{}", planted.indices.len().min(6)));
            let ex = Expect { planted: Some(planted), head: sc.fault.head(), chain: Some(items) };
            emit_run(w, std, &sc.module, sc.budget, &ex, &payload, &trace, &format!("scenario {:?} hops {:?}", sc.fault, sc.hops));
        }
    }
}

// ------------------------------------------------------------------------------------------------
// planted stream: one fault wrapped around a random position of a program that runs to completion
// ------------------------------------------------------------------------------------------------

/// tag 99; a bare native call: storing its result in a local could fail by itself (a local declared earlier but
/// skipped at run time leaves the stack lower than the slot index)
fn marker_card() -> Card {
    tagged(native("log1", vec![int(MARKER)]), 99)
}
fn module_mentions_native(m: &Module, name: &str) -> bool {
    let mut found = false;
    walk_module(m, &mut vec![], &mut |_, c| {
        if let CardBody::CallNative(n) = &c.body { if n.name.as_str() == name { found = true; } }
    });
    found
}

fn module_at_mut<'a>(root: &'a mut Module, ns: &[String]) -> Option<&'a mut Module> {
    let mut cur = root;
    for seg in ns {
        let pos = cur.submodules.iter().position(|(n, _)| n == seg)?;
        cur = &mut cur.submodules[pos].1;
    }
    Some(cur)
}

/// Composite[marker, wrapped fault, original] at `pos`
fn plant(rng: &mut Rng, base: &Module, pos: &Loc, fault: Fault, w: &mut CaseWriter) -> Option<Module> {
    let mut m = base.clone();
    let mut k = 1000usize;
    {
        let sub = module_at_mut(&mut m, &pos.ns)?;
        let slot = sub.get_card_mut(&pos.index()).ok()?;
        let original = std::mem::take(slot);
        let f = wrap(rng, fault.card(), &mut k, w, true);
        *slot = Card::composite_card("c15", vec![marker_card(), f, original]);
    }
    if fault == Fault::CallStack {
        // helper at the root (resolved by its absolute name) or in the module of the planted position (bare name)
        let at: Vec<String> = if rng.chance(1, 2) { pos.ns.clone() } else { vec![] };
        let sub = module_at_mut(&mut m, &at)?;
        let (n, f) = rec_helper();
        sub.functions.push((n, f));
    }
    Some(m)
}

fn replace_probe(m: &mut Module) {
    m.walk_cards_mut(|_, c| {
        if let CardBody::CallNative(n) = &c.body {
            if n.name.as_str() == "gc_probe" {
                *c = native("log1", vec![nil()]);
            }
        }
    });
}

struct Base {
    name: String,
    module: Module,
}

fn gen_bases(rng: &mut Rng, std: &Module, w: &mut CaseWriter, want: usize) -> (Vec<Base>, Vec<Base>) {
    // (programs that run to completion, programs that fail by themselves)
    let mut ok = vec![];
    let mut failing = vec![];
    let mut consider = |name: String, m: Module, w: &mut CaseWriter, ok: &mut Vec<Base>, failing: &mut Vec<Base>| {
        out::describe_current(&format!("C15 base {}", name));
        match compile_run(&m, GENEROUS) {
            Outcome::Ok { .. } => { w.count("base.ok"); ok.push(Base { name, module: m }); }
            Outcome::Err { .. } => { w.count("base.fails"); failing.push(Base { name, module: m }); }
            Outcome::CompileErr(_) => w.count("base.compile_error"),
            Outcome::Panic => w.count("base.panic"),
        }
    };
    for e in vmgen::corpus() {
        if e.history > 0 { continue; }
        consider(format!("corpus.{}", e.name), e.module, w, &mut ok, &mut failing);
    }
    for (name, mut m) in crate::progs::all(6, 12) {
        replace_probe(&mut m);
        consider(format!("progs.{}", name), m, w, &mut ok, &mut failing);
    }
    let mut i = 0;
    let fixed = ok.len();
    while ok.len() < fixed + want && i < want * 6 {
        i += 1;
        match rng.below(10) {
            0..=4 => {
                let reals = rng.chance(1, 3);
                let mut sub = Rng::new(rng.next());
                let m = { let mut g = vmgen::Gen::new(&mut sub, reals); g.module() };
                consider(format!("vmgen#{}", i), m, w, &mut ok, &mut failing);
            }
            5 | 6 => {
                let cfg = modgen::GenCfg { many_globals: false, max_cards: 5, max_depth: 3, fault_permille: 0, allow_huge: false, long_strings: false };
                let mut stats = modgen::GenStats::default();
                let m = modgen::gen_module_bounded(rng, &cfg, &mut stats);
                consider(format!("modgen#{}", i), m, w, &mut ok, &mut failing);
            }
            _ => {
                // a call chain through submodules without a fault: positions at every depth of the chain are reachable
                let sc = gen_scenario(rng, std, &mut CaseWriter::new(&std::env::temp_dir().join("c15_scratch"), "C15Check", 1000), false);
                consider(format!("chain#{}", i), sc.module, w, &mut ok, &mut failing);
            }
        }
    }
    (ok, failing)
}

fn planted_case(rng: &mut Rng, std: &Module, w: &mut CaseWriter, base: &Base) -> bool {
    // try1 swallows the error of the function it calls: a fault planted below it is not the error of the run
    if module_mentions_native(&base.module, "try1") { w.count("plant.base_with_try1_skipped"); return false; }
    let locs = all_locs(&base.module);
    if locs.is_empty() { return false; }
    for _attempt in 0..12 {
        let pos = rng.pick(&locs).clone();
        let fault = pick_fault(rng);
        let mut scratch = CaseWriter::new(&std::env::temp_dir().join("c15_scratch"), "C15Check", 1000);
        let Some(m) = plant(rng, &base.module, &pos, fault, &mut scratch) else { w.count("plant.failed"); continue };
        out::describe_current(&format!("C15 planted {:?} at {:?} in {}: {}", fault, pos, base.name, modgen::coq_module(&m)));
        let budget = if fault == Fault::TimeoutLoop { 3000 } else { GENEROUS };
        match compile_run(&m, budget) {
            Outcome::CompileErr(_) => w.count("plant.compile_error"),
            Outcome::Panic => w.count("plant.panic"),
            Outcome::Ok { .. } => w.count("plant.not_reached"),
            Outcome::Err { marker: false, .. } => w.count("plant.other_error_before"),
            Outcome::Err { payload, trace, timeout, .. } => {
                if fault == Fault::TimeoutLoop && !timeout { w.count("plant.other_error_after"); continue; }
                if fault != Fault::TimeoutLoop && (timeout || payload.contains("ETimeout")) { w.count("plant.budget_ran_out_first"); continue; }
                // reading a never-set global yields nil when a global with a higher id has been set: no fault then
                if fault == Fault::MissingGlobal && !payload.contains("(EVarNotFound (Some") { w.count("plant.missing_global_read_nil"); continue; }
                // the marker card itself failed (value stack full)
                if let Some(h) = trace.first() { if resolve(&m, std, h).self_tag == Some(99) { w.count("plant.marker_failed"); continue; } }
                // a Timeout raised in a nested run under try1 is swallowed and raised again by the next outer instruction
                if fault == Fault::TimeoutLoop && module_mentions_native(&m, "try1") { w.count("plant.timeout_under_try1"); continue; }
                let tags = tag_locs(&m);
                let Some(planted) = tags.get(&0).cloned() else { continue };
                w.count("stream.planted");
                w.count(&format!("fault.{}", fault.name()));
                w.count(&format!("base.kind.{}", base.name.split(|c| c == '#' || c == '.').next().unwrap_or("?")));
                for (k, v) in scratch.dist.iter() { w.count_n(k, *v); }
                if !planted.ns.is_empty() { w.count("planted.in_submodule"); }
                w.count(&format!("planted.depth.{}", planted.indices.len().min(6)));
                if trace.len() >= 3 { w.count("planted.in_called_function"); }
                let ex = Expect { planted: Some(planted), head: fault.head(), chain: None };
                emit_run(w, std, &m, budget, &ex, &payload, &trace, &format!("planted {:?} in {}", fault, base.name));
                return true;
            }
        }
    }
    false
}

fn unplanted_case(rng: &mut Rng, std: &Module, w: &mut CaseWriter, base: &Base, tiny: bool) -> bool {
    let cap = if rng.chance(1, 3) { 12 } else { 300 };
    let budget = if tiny { 1 + rng.below(cap) } else { GENEROUS };
    out::describe_current(&format!("C15 unplanted {} budget {}", base.name, budget));
    match compile_run(&base.module, budget) {
        Outcome::Err { payload, trace, timeout, .. } => {
            w.count("stream.unplanted");
            w.count(if timeout { "unplanted.timeout" } else { "unplanted.own_error" });
            let ex = Expect { planted: None, head: "HAny", chain: None };
            emit_run(w, std, &base.module, budget, &ex, &payload, &trace, &format!("unplanted {}", base.name));
            true
        }
        _ => false,
    }
}

// ------------------------------------------------------------------------------------------------
// compile-error stream
// ------------------------------------------------------------------------------------------------

#[derive(Clone, Copy, Debug)]
enum CFault {
    EmptySetVar,
    EmptyReadVar,
    EmptySetGlobal,
    EmptyClosureArg,
    EmptyForEachVar,
    EmptyRepeatVar,
    BadCall,
    BadFunctionValue,
    BadImportedCall,
    TooManySuper,
    TooManyLocals,
    TooManyUpvalues,
    BadImport,
}
const CFAULTS: [CFault; 13] = [
    CFault::EmptySetVar, CFault::EmptyReadVar, CFault::EmptySetGlobal, CFault::EmptyClosureArg, CFault::EmptyForEachVar,
    CFault::EmptyRepeatVar, CFault::BadCall, CFault::BadFunctionValue, CFault::BadImportedCall, CFault::TooManySuper,
    CFault::TooManyLocals, CFault::TooManyUpvalues, CFault::BadImport,
];

fn compile_case(rng: &mut Rng, std: &Module, w: &mut CaseWriter) {
    let cf = *rng.pick(&CFAULTS);
    let mut k = 0usize;
    // where: a function in some module, reached or not does not matter for the compiler
    let path: Vec<String> = rng.pick(&PATHS).iter().map(|s| s.to_string()).collect();
    let mut mb = ModBuild::new();
    let mut pre: Vec<Card> = vec![];
    let mut attributable = true;
    let bad: Card = match cf {
        CFault::EmptySetVar => tagged(sv("", int(1)), 0),
        CFault::EmptyReadVar => tagged(rv(""), 0),
        CFault::EmptySetGlobal => tagged(sg("", int(1)), 0),
        CFault::EmptyClosureArg => tagged(closure(&["a", ""], vec![int(1)]), 0),
        CFault::EmptyForEachVar => tagged(foreach(None, Some(""), None, table(), nil()), 0),
        CFault::EmptyRepeatVar => tagged(repeat(int(2), Some(""), nil()), 0),
        CFault::BadCall => tagged(call("no.such.function", vec![int(1)]), 0),
        CFault::BadFunctionValue => tagged(fval("nope"), 0),
        CFault::BadImportedCall => { mb.at(&path).imports.push("alpha.no_such_fn".into()); tagged(call("no_such_fn", vec![]), 0) }
        CFault::TooManySuper => {
            mb.at(&path).imports.push(format!("{}foo", "super.".repeat(path.len() + 1 + rng.below(2) as usize)));
            tagged(call("foo", vec![]), 0)
        }
        CFault::TooManyLocals => {
            for i in 0..255 { pre.push(sv(&format!("v{}", i), nil())); }
            match rng.below(4) {
                0 => tagged(sv("one_too_many", nil()), 0),
                1 => tagged(array(vec![]), 0),
                2 => tagged(repeat(int(1), None, nil()), 0),
                _ => tagged(foreach(None, None, None, table(), nil()), 0),
            }
        }
        CFault::TooManyUpvalues => {
            let outer = 200usize;
            let inner = 80usize;
            for i in 0..outer { pre.push(sv(&format!("o{}", i), nil())); }
            let mut a_cards: Vec<Card> = (0..inner).map(|i| sv(&format!("w{}", i), nil())).collect();
            let mut b_cards: Vec<Card> = vec![];
            for i in 0..outer { b_cards.push(rv(&format!("o{}", i))); }
            for i in 0..inner { b_cards.push(rv(&format!("w{}", i))); }
            b_cards[255] = tagged(b_cards[255].clone(), 0);
            a_cards.push(closure(&[], b_cards));
            closure(&[], a_cards)
        }
        CFault::BadImport => {
            attributable = false;
            mb.at(&path).imports.push(rng.pick(&["nodot", "", "a.b."]).to_string());
            int(1)
        }
    };
    let huge = matches!(cf, CFault::TooManyLocals | CFault::TooManyUpvalues);
    let mut scratch = CaseWriter::new(&std::env::temp_dir().join("c15_scratch"), "C15Check", 1000);
    let wrapped = if huge { bad } else { wrap(rng, bad, &mut k, &mut scratch, false) };
    let mut cards = vec![];
    if !huge { for _ in 0..rng.below(3) { cards.push(filler(rng, &mut k)); } }
    cards.extend(pre);
    cards.push(wrapped);
    if !huge { for _ in 0..rng.below(2) { cards.push(filler(rng, &mut k)); } }
    // in a closure half of the time (not for the huge ones)
    if !huge && rng.chance(1, 3) { cards = vec![sv("c", closure(&["x"], cards))]; }
    let in_main = path.is_empty() && rng.chance(1, 2);
    if in_main {
        mb.at(&[]).functions.push(("main".into(), func(&[], cards)));
    } else {
        mb.at(&[]).functions.push(("main".into(), func(&[], vec![sg("x", int(1))])));
        let at = mb.at(&path);
        if rng.chance(1, 2) { at.functions.push(("pad".into(), func(&[], vec![int(1)]))); }
        at.functions.push(("broken".into(), if huge { func(&[], cards) } else { func(&["a"], cards) }));
    }
    let m = mb.build();
    out::describe_current(&format!("C15 compile {:?}: {}", cf, if huge { "(huge)".to_string() } else { modgen::coq_module(&m) }));
    let r = catch_unwind(AssertUnwindSafe(|| compile(m.clone(), None)));
    match r {
        Err(_) => w.count("compile.panic"),
        Ok(Ok(_)) => w.count("compile.unexpected_ok"),
        Ok(Err(e)) => {
            let Some(pl) = modgen::coq_error_payload(&e.payload) else { w.count("compile.unmodelled_error"); return };
            let planted = if attributable { tag_locs(&m).get(&0).cloned() } else { None };
            let l = e.loc.as_ref().map(loc_of_trace);
            let res = l.as_ref().map(|l| resolve(&m, std, l));
            w.count("stream.compile");
            w.count(&format!("cfault.{:?}", cf));
            w.count(&format!("cpayload.{}", modgen::error_variant_name(&e.payload)));
            if let Some(p) = &planted { if !p.ns.is_empty() { w.count("cplanted.in_submodule"); } w.count(&format!("cplanted.depth.{}", p.indices.len().min(6))); }
            let term = format!(
                "(mkcomp {} {} {} {} {} {})",
                out::b(cfg!(debug_assertions)),
                modgen::coq_module(&m),
                out::opt(planted.as_ref().map(|l| l.term())),
                pl,
                out::opt(l.as_ref().map(|l| l.term())),
                out::opt(res.as_ref().map(|r| r.term.clone()))
            );
            let id = w.push(term, true);
            w.note(id, format!("compile {:?} planted {:?} loc {:?}", cf, planted, l));
        }
    }
}

// ------------------------------------------------------------------------------------------------
// fixed witnesses of the known classes (always part of the run)
// ------------------------------------------------------------------------------------------------

fn witnesses(std: &Module, w: &mut CaseWriter) {
    // class 12: a fault inside a function called back by a native
    let m = module(vec![
        ("main", func(&[], vec![sg("a", int(1)), sv("r", native("call1", vec![fval("cb"), int(1)])), sg("b", int(2))])),
        ("cb", func(&["x"], vec![sg("c", int(3)), tagged(native("c15_no_such_native", vec![]), 0)])),
    ]);
    let tags = tag_locs(&m);
    if let Outcome::Err { payload, trace, .. } = compile_run(&m, GENEROUS) {
        w.count("witness.nested_trace_dropped");
        let call1 = Loc { ns: vec![], function: 0, indices: vec![1, 0] };
        let ex = Expect { planted: tags.get(&0).cloned(), head: "HPlanted", chain: Some(vec![(call1, false)]) };
        emit_run(w, std, &m, GENEROUS, &ex, &payload, &trace, "witness: fault in a native callback");
    }
    // class 10: Timeout at the epilogue of main (index [len])
    let m = module(vec![("main", func(&[], vec![sv("x", int(1))]))]);
    for b in 1..=6 {
        if let Outcome::Err { payload, trace, timeout: true, .. } = compile_run(&m, b) {
            if trace.first().map(|l| l.indices == vec![1]).unwrap_or(false) {
                w.count("witness.function_level_head");
                let ex = Expect { planted: None, head: "HAny", chain: None };
                emit_run(w, std, &m, b, &ex, &payload, &trace, "witness: Timeout at the scope-end Pop of main");
                break;
            }
        }
    }
}

fn probe() {
    let std = cao_lang::stdlib::standard_library();
    for (name, args) in [("map", vec![fval("cb"), array(vec![int(5), int(6)])]), ("map", vec![array(vec![int(5), int(6)]), fval("cb")])] {
        let m = module(vec![
            ("main", func(&[], vec![sg("r", call(&format!("std.{}", name), args))])),
            ("cb", func(&["a", "b", "c"], vec![sg("seen", rv("a")), native("c15_no_such_native", vec![])])),
        ]);
        match compile_run(&m, GENEROUS) {
            Outcome::Err { payload, trace, .. } => println!("{} -> {} {:?}", name, payload, trace.iter().map(|l| (l.ns.join("."), l.function, l.indices.clone(), resolve(&m, &std, l).term)).collect::<Vec<_>>()),
            Outcome::Ok { .. } => println!("{} -> ok", name),
            _ => println!("{} -> other", name),
        }
    }
}

pub fn gen(a: &Args) {
    if std::env::var("C15_PROBE").is_ok() { probe(); return; }
    let mut rng = Rng::new(a.seed);
    let std = cao_lang::stdlib::standard_library();
    let mut w = CaseWriter::new(&a.out, "C15Check", 20);
    witnesses(&std, &mut w);
    let n = a.n.max(20);
    let n_scen = n * 40 / 100;
    let n_plant = n * 30 / 100;
    let n_unpl = n * 12 / 100;
    let n_comp = n - n_scen - n_plant - n_unpl;
    let mut guard = 0;
    let target = w.len() + n_scen;
    while w.len() < target && guard < n_scen * 4 { guard += 1; scenario_case(&mut rng, &std, &mut w); }
    let (ok, failing) = gen_bases(&mut rng, &std, &mut w, (n_plant / 2).max(10));
    let target = w.len() + n_plant;
    guard = 0;
    while !ok.is_empty() && w.len() < target && guard < n_plant * 6 {
        guard += 1;
        let b = &ok[rng.below(ok.len() as u64) as usize];
        planted_case(&mut rng, &std, &mut w, b);
    }
    let target = w.len() + n_unpl;
    guard = 0;
    while w.len() < target && guard < n_unpl * 6 {
        guard += 1;
        if rng.chance(1, 2) && !failing.is_empty() {
            let b = &failing[rng.below(failing.len() as u64) as usize];
            let tiny = rng.chance(1, 3);
            unplanted_case(&mut rng, &std, &mut w, b, tiny);
        } else if !ok.is_empty() {
            let b = &ok[rng.below(ok.len() as u64) as usize];
            unplanted_case(&mut rng, &std, &mut w, b, true);
        }
    }
    let target = w.len() + n_comp;
    guard = 0;
    while w.len() < target && guard < n_comp * 4 { guard += 1; compile_case(&mut rng, &std, &mut w); }
    w.finish(serde_json::json!({"profile": if cfg!(debug_assertions) { "debug" } else { "release" }}));
}
