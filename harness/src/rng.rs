//! One deterministic PRNG (xorshift64*) for every random choice of the harness.
#[derive(Clone)]
pub struct Rng(pub u64);

impl Rng {
    pub fn new(seed: u64) -> Self {
        let mut s = seed ^ 0x9E37_79B9_7F4A_7C15;
        if s == 0 {
            s = 0x1234_5678_9ABC_DEF1;
        }
        let mut r = Rng(s);
        for _ in 0..8 {
            r.next();
        }
        r
    }
    pub fn next(&mut self) -> u64 {
        let mut x = self.0;
        x ^= x >> 12;
        x ^= x << 25;
        x ^= x >> 27;
        self.0 = x;
        x.wrapping_mul(0x2545_F491_4F6C_DD1D)
    }
    /// uniform in 0..n (n > 0)
    pub fn below(&mut self, n: u64) -> u64 {
        self.next() % n
    }
    pub fn range(&mut self, lo: i64, hi: i64) -> i64 {
        lo + (self.below((hi - lo + 1) as u64) as i64)
    }
    pub fn chance(&mut self, num: u64, den: u64) -> bool {
        self.below(den) < num
    }
    pub fn pick<'a, T>(&mut self, xs: &'a [T]) -> &'a T {
        &xs[self.below(xs.len() as u64) as usize]
    }
    /// weighted choice: returns index
    pub fn weighted(&mut self, w: &[u32]) -> usize {
        let total: u64 = w.iter().map(|x| *x as u64).sum();
        let mut r = self.below(total);
        for (i, x) in w.iter().enumerate() {
            if r < *x as u64 {
                return i;
            }
            r -= *x as u64;
        }
        w.len() - 1
    }
}
