//! Small witnesses replayed against the real crate (kept as a record of the findings).
use cao_lang::collections::hash_map::CaoHashMap;
use cao_lang::verif_hooks::{AllocError, Allocator};
use std::alloc::Layout;
use std::cell::Cell;
use std::ptr::NonNull;
use std::rc::Rc;

/// Allocator whose k-th allocation (0-based, counted from `arm`) fails.
#[derive(Clone)]
pub struct FailAlloc {
    pub countdown: Rc<Cell<i64>>,
    pub allocs: Rc<Cell<u64>>,
    pub live: Rc<Cell<i64>>,
}
impl FailAlloc {
    pub fn new() -> Self {
        FailAlloc { countdown: Rc::new(Cell::new(-1)), allocs: Rc::new(Cell::new(0)), live: Rc::new(Cell::new(0)) }
    }
    pub fn fail_after(&self, k: i64) {
        self.countdown.set(k);
    }
}
impl Allocator for FailAlloc {
    unsafe fn alloc(&self, l: Layout) -> Result<NonNull<u8>, AllocError> {
        self.allocs.set(self.allocs.get() + 1);
        let c = self.countdown.get();
        if c == 0 {
            self.countdown.set(-1);
            return Err(AllocError::OutOfMemory);
        }
        if c > 0 {
            self.countdown.set(c - 1);
        }
        self.live.set(self.live.get() + 1);
        Ok(NonNull::new(std::alloc::alloc(l)).unwrap())
    }
    unsafe fn dealloc(&self, p: NonNull<u8>, l: Layout) {
        self.live.set(self.live.get() - 1);
        std::alloc::dealloc(p.as_ptr(), l)
    }
}

pub fn run(which: &str) {
    match which {
        // a failed growth leaves the table full: the next lookup of an absent key never returns
        "c12-full-after-failed-grow" => {
            let a = FailAlloc::new();
            let mut m: CaoHashMap<i64, i64, FailAlloc> = CaoHashMap::with_capacity_in(1, a.clone()).unwrap();
            a.fail_after(0);
            let r = m.insert(1, 10);
            println!("insert -> {:?}, len={}, cap={}", r.is_ok(), m.len(), m.capacity());
            println!("get(1) = {:?}", m.get(&1));
            println!("looking up an absent key ...");
            println!("get(2) = {:?}", m.get(&2));
        }
        // allocation failure in the nested growth during rehash loses entries
        "c12-nested-grow-failure" => {
            let a = FailAlloc::new();
            let mut m: CaoHashMap<i64, i64, FailAlloc> = CaoHashMap::with_capacity_in(1, a.clone()).unwrap();
            m.insert(1, 10).unwrap();
            m.insert(2, 20).unwrap();
            println!("len={} cap={}", m.len(), m.capacity());
            a.fail_after(1); // the growth 3 -> 4 succeeds, the nested growth 4 -> 6 fails
            let r = m.insert(3, 30);
            println!("insert(3) -> ok={:?} len={} cap={}", r.is_ok(), m.len(), m.capacity());
            for k in 1..=3 {
                println!("get({}) = {:?}", k, m.get(&k));
            }
        }
        _ => eprintln!("unknown probe"),
    }
}

pub fn handles() {
    use cao_lang::prelude::Handle;
    use std::str::FromStr;
    println!("from_u64(5)={} from_u32(0)={} from_str(foo)={}", Handle::from_u64(5).value(), Handle::from_u32(0).value(), Handle::from_str("foo").unwrap().value());
}

/// A guarded table holds a string whose own guard is gone; a collection must keep the string.
pub fn guard_children() {
    use cao_lang::prelude::*;
    use cao_lang::verif_hooks as vh;
    vh::quarantine(true);
    let mut vm = Vm::new(()).unwrap();
    let mut t = vm.init_table().unwrap();
    {
        let mut s = vm.init_string("a string that only the guarded table refers to").unwrap();
        let sv = Value::Object(std::ptr::NonNull::from(&mut *s));
        t.as_table_mut().unwrap().insert(sv, 1i64).unwrap();
    } // guard of the string dropped here
    println!("objects before: {}", vh::object_count(&vm.runtime_data));
    vh::force_gc_at(Some(None));
    let _g = vm.init_string("trigger").unwrap(); // allocation => forced collection
    vh::force_gc_at(None);
    println!("objects after the collection: {}", vh::object_count(&vm.runtime_data));
    match vh::heap_audit(&vm.runtime_data) {
        Ok(st) => println!("audit ok: {:?}", st),
        Err(e) => println!("AUDIT FAILED: {}", e),
    }
}

/// two closures at the same card position of two modules
pub fn closure_labels() {
    use cao_lang::compiler::{CompileOptions, Module};
    use cao_lang::prelude::*;
    let mk = |tag: i64| Function::default().with_cards(vec![Card::return_card(CardBody::Closure(Box::new(
        Function::default().with_cards(vec![Card::set_global_var("g", Card::scalar_int(tag))]),
    )))]);
    let sub = |tag: i64| Module { imports: vec![], submodules: vec![], functions: vec![("mk".to_string(), mk(tag))] };
    let m = Module {
        imports: vec![],
        submodules: vec![("a".to_string(), sub(1)), ("b".to_string(), sub(2))],
        functions: vec![("main".to_string(), Function::default().with_cards(vec![
            Card::set_var("f", Card::call_function("a.mk", vec![])),
            Card::dynamic_call(Card::read_var("f"), vec![]),
        ]))],
    };
    let p = compile(m, CompileOptions::new()).unwrap();
    let mut vm = Vm::new(()).unwrap();
    vm.run(&p).unwrap();
    println!("closure created in module a set g = {:?} (expected Integer(1))", vm.read_var_by_name("g", &p.variables));
}
