//! Writes cases as Coq terms, sharded into several `cases_<k>.v` files, plus `meta.json`.
use std::collections::{BTreeMap, HashSet};
use std::fmt::Write as _;
use std::hash::{Hash, Hasher};
use std::path::{Path, PathBuf};

pub fn z(i: i64) -> String {
    format!("({})%Z", i)
}
pub fn n(i: u64) -> String {
    format!("{}%N", i)
}
pub fn nat(i: usize) -> String {
    format!("{}%nat", i)
}
pub fn list<I: IntoIterator<Item = String>>(xs: I) -> String {
    let v: Vec<String> = xs.into_iter().collect();
    format!("[{}]", v.join("; "))
}
pub fn bytes(b: &[u8]) -> String {
    list(b.iter().map(|x| n(*x as u64)))
}
pub fn opt(o: Option<String>) -> String {
    match o {
        Some(s) => format!("(Some {})", s),
        None => "None".to_string(),
    }
}
pub fn b(x: bool) -> String {
    if x { "true".into() } else { "false".into() }
}

pub struct CaseWriter {
    dir: PathBuf,
    module: String,
    per_shard: usize,
    cases: Vec<String>,
    pub dist: BTreeMap<String, u64>,
    seen: HashSet<u64>,
    pub nontrivial: u64,
    pub samples: Vec<String>,
    pub known_hits: Vec<(u64, String)>,
    pub notes: std::collections::BTreeMap<u64, String>,
}

impl CaseWriter {
    pub fn new(dir: &Path, module: &str, per_shard: usize) -> Self {
        std::fs::create_dir_all(dir).unwrap();
        // remove old shards
        if let Ok(rd) = std::fs::read_dir(dir) {
            for e in rd.flatten() {
                let name = e.file_name().to_string_lossy().to_string();
                if name.starts_with("cases_") {
                    let _ = std::fs::remove_file(e.path());
                }
            }
        }
        CaseWriter {
            dir: dir.to_path_buf(),
            module: module.to_string(),
            per_shard,
            cases: vec![],
            dist: BTreeMap::new(),
            seen: HashSet::new(),
            nontrivial: 0,
            samples: vec![],
            known_hits: vec![],
            notes: Default::default(),
        }
    }
    pub fn count(&mut self, key: &str) {
        *self.dist.entry(key.to_string()).or_insert(0) += 1;
    }
    pub fn count_n(&mut self, key: &str, k: u64) {
        *self.dist.entry(key.to_string()).or_insert(0) += k;
    }
    /// `term` is a Coq term of the property's case type. `nontrivial` per the property's rule.
    pub fn push(&mut self, term: String, nontrivial: bool) -> u64 {
        let mut h = std::collections::hash_map::DefaultHasher::new();
        term.hash(&mut h);
        let fresh = self.seen.insert(h.finish());
        if fresh && nontrivial {
            self.nontrivial += 1;
        }
        if self.samples.len() < 3 && nontrivial && term.len() < 1500 {
            self.samples.push(term.clone());
        }
        self.cases.push(term);
        self.cases.len() as u64
    }
    /// attach a human-readable note (e.g. the audit message) to a case; it ends up in cases.txt
    pub fn note(&mut self, id: u64, note: String) {
        self.notes.insert(id, note);
    }
    pub fn len(&self) -> usize {
        self.cases.len()
    }
    pub fn finish(self, extra: serde_json::Value) {
        let mut shard = 0usize;
        for chunk in self.cases.chunks(self.per_shard.max(1)) {
            let mut s = String::new();
            writeln!(s, "From Cao Require Import {}.", self.module).unwrap();
            writeln!(s, "Definition cases := [").unwrap();
            for (i, c) in chunk.iter().enumerate() {
                let id = shard * self.per_shard + i + 1;
                let sep = if i + 1 == chunk.len() { "" } else { ";" };
                writeln!(s, " ({}%N, {}){}", id, c, sep).unwrap();
            }
            writeln!(s, "].").unwrap();
            writeln!(s, "Eval vm_compute in (check_all cases).").unwrap();
            std::fs::write(self.dir.join(format!("cases_{}.v", shard)), s).unwrap();
            shard += 1;
        }
        // plain-text copy of every case, one per line, for replay files
        let mut all = String::new();
        for (i, c) in self.cases.iter().enumerate() {
            match self.notes.get(&(i as u64 + 1)) {
                Some(n) => writeln!(all, "{}\t{}  (* {} *)", i + 1, c, n.replace("*)", "* )").replace('\n', " ")).unwrap(),
                None => writeln!(all, "{}\t{}", i + 1, c).unwrap(),
            }
        }
        std::fs::write(self.dir.join("cases.txt"), all).unwrap();
        let meta = serde_json::json!({
            "evaluations": self.cases.len(),
            "distinct_nontrivial": self.nontrivial,
            "distribution": self.dist,
            "samples": self.samples,
            "shards": shard,
            "known_hits": self.known_hits.iter().map(|(i, w)| serde_json::json!({"case": i, "finding": w})).collect::<Vec<_>>(),
            "extra": extra,
        });
        std::fs::write(self.dir.join("meta.json"), serde_json::to_string_pretty(&meta).unwrap()).unwrap();
    }
}

// ---- watchdog: a case that makes no progress is a hang of the implementation.  "No progress" is
// measured in CPU time of this process (an endless loop in the implementation burns CPU; a harness
// that is merely starved on a loaded machine does not), with a generous wall-clock limit as the
// fallback for a process that waits for ever (a blocked child).
use std::sync::atomic::{AtomicU64, Ordering};
static LAST_BEAT: AtomicU64 = AtomicU64::new(0);
static LAST_BEAT_CPU_MS: AtomicU64 = AtomicU64::new(0);
static CURRENT: std::sync::Mutex<String> = std::sync::Mutex::new(String::new());
/// CPU seconds without a heartbeat
pub const WATCHDOG_SECS: u64 = 30;
/// wall-clock seconds without a heartbeat
pub const WATCHDOG_WALL_SECS: u64 = 600;
fn now() -> u64 {
    std::time::SystemTime::now().duration_since(std::time::UNIX_EPOCH).unwrap().as_secs()
}
/// user + system CPU time of a process in milliseconds (Linux: /proc/<pid>/stat, 100 ticks per second)
pub fn cpu_ms_of(pid: u32) -> Option<u64> {
    let text = std::fs::read_to_string(format!("/proc/{}/stat", pid)).ok()?;
    // the command name (field 2) is in parentheses and may contain spaces
    let rest = &text[text.rfind(')')? + 1..];
    let f: Vec<&str> = rest.split_whitespace().collect();
    // rest starts at field 3 (state): utime = field 14, stime = field 15
    let utime: u64 = f.get(11)?.parse().ok()?;
    let stime: u64 = f.get(12)?.parse().ok()?;
    Some((utime + stime) * 10)
}
fn own_cpu_ms() -> u64 {
    cpu_ms_of(std::process::id()).unwrap_or(0)
}
pub fn heartbeat() {
    LAST_BEAT.store(now(), Ordering::Relaxed);
    LAST_BEAT_CPU_MS.store(own_cpu_ms(), Ordering::Relaxed);
}
pub fn describe_current(s: &str) {
    *CURRENT.lock().unwrap() = s.to_string();
    // VERIF_CURRENT_FILE: the driver reads this file when the harness process dies of a signal (a segmentation
    // fault or abort of the implementation cannot be caught in-process), so that the crash is reported with the
    // input that was running
    if let Ok(p) = std::env::var("VERIF_CURRENT_FILE") {
        let _ = std::fs::write(p, s);
    }
    heartbeat();
}
/// a child process is over its limit: `cpu_secs` of CPU time used, or `wall_secs` elapsed
pub fn child_expired(pid: u32, started: std::time::Instant, cpu_secs: u64, wall_secs: u64) -> bool {
    if started.elapsed().as_secs() > wall_secs {
        return true;
    }
    matches!(cpu_ms_of(pid), Some(ms) if ms > cpu_secs * 1000)
}
pub fn start_watchdog() {
    heartbeat();
    std::thread::spawn(|| loop {
        std::thread::sleep(std::time::Duration::from_secs(1));
        let last = LAST_BEAT.load(Ordering::Relaxed);
        let last_cpu = LAST_BEAT_CPU_MS.load(Ordering::Relaxed);
        let cpu = own_cpu_ms().saturating_sub(last_cpu) / 1000;
        let wall = now().saturating_sub(last);
        if cpu > WATCHDOG_SECS || wall > WATCHDOG_WALL_SECS {
            eprintln!(
                "HANG: the implementation made no progress for {}s of CPU time ({}s wall clock) in: {}",
                cpu,
                wall,
                CURRENT.lock().unwrap()
            );
            std::process::exit(42);
        }
    });
}
