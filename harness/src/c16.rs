//! C16: edit histories over `Module` (get/insert/remove/replace/swap/walk and the per-card child API).
//! Every card kind with 0-3 list children x every child index 0..arity+1 x every operation, at the
//! top level of a function and nested inside a host card, plus random deep trees with random
//! histories.  After every call the result and the whole module are printed as CardAst terms.
use crate::out::{self, CaseWriter};
use crate::rng::Rng;
use crate::Args;
use cao_lang::compiler::{
    CallNode, Card, CardBody, CardFetchError, CardIndex, CompositeCard, DynamicJump, ForEach, Function, Module,
    Repeat, SetVar, StaticJump, SwapError, UnaryExpression,
};
use std::panic::{catch_unwind, AssertUnwindSafe};

// ------------------------------------------------------------------ printer (CardAst terms)

fn s(x: &str) -> String {
    out::bytes(x.as_bytes())
}
fn os(x: &Option<String>) -> String {
    out::opt(x.as_ref().map(|v| s(v)))
}
fn cards(l: &[Card]) -> String {
    out::list(l.iter().map(card))
}
fn bin(tag: &str, b: &[Card; 2]) -> String {
    format!("(CBin {} {} {})", tag, card(&b[0]), card(&b[1]))
}
fn un(tag: &str, u: &UnaryExpression) -> String {
    format!("(CUn {} {})", tag, card(&u.card))
}
fn tri(tag: &str, t: &[Card; 3]) -> String {
    format!("(CTri {} {} {} {})", tag, card(&t[0]), card(&t[1]), card(&t[2]))
}

pub fn card(c: &Card) -> String {
    match &c.body {
        CardBody::Add(b) => bin("BAdd", b),
        CardBody::Sub(b) => bin("BSub", b),
        CardBody::Mul(b) => bin("BMul", b),
        CardBody::Div(b) => bin("BDiv", b),
        CardBody::Less(b) => bin("BLess", b),
        CardBody::LessOrEq(b) => bin("BLessOrEq", b),
        CardBody::Equals(b) => bin("BEquals", b),
        CardBody::NotEquals(b) => bin("BNotEquals", b),
        CardBody::And(b) => bin("BAnd", b),
        CardBody::Or(b) => bin("BOr", b),
        CardBody::Xor(b) => bin("BXor", b),
        CardBody::GetProperty(b) => bin("BGetProperty", b),
        CardBody::IfTrue(b) => bin("BIfTrue", b),
        CardBody::IfFalse(b) => bin("BIfFalse", b),
        CardBody::While(b) => bin("BWhile", b),
        CardBody::Get(b) => bin("BGet", b),
        CardBody::AppendTable(b) => bin("BAppendTable", b),
        CardBody::Not(u) => un("UNot", u),
        CardBody::Return(u) => un("UReturn", u),
        CardBody::Len(u) => un("ULen", u),
        CardBody::PopTable(u) => un("UPopTable", u),
        CardBody::IfElse(t) => tri("TIfElse", t),
        CardBody::SetProperty(t) => tri("TSetProperty", t),
        CardBody::ScalarNil => "CScalarNil".into(),
        CardBody::CreateTable => "CCreateTable".into(),
        CardBody::Abort => "CAbort".into(),
        CardBody::ScalarInt(i) => format!("(CScalarInt {})", out::z(*i)),
        CardBody::ScalarFloat(f) => format!("(CScalarFloat {})", out::n(f.to_bits())),
        CardBody::StringLiteral(x) => format!("(CStringLiteral {})", s(x)),
        CardBody::Comment(x) => format!("(CComment {})", s(x)),
        CardBody::Function(x) => format!("(CFunction {})", s(x)),
        CardBody::NativeFunction(x) => format!("(CNativeFunction {})", s(x)),
        CardBody::ReadVar(x) => format!("(CReadVar {})", s(x)),
        CardBody::CallNative(c) => format!("(CCallNative {} {})", s(&c.name), cards(&c.args.0)),
        CardBody::Call(c) => format!("(CCall {} {})", s(&c.function_name), cards(&c.args.0)),
        CardBody::DynamicCall(d) => format!("(CDynamicCall {} {})", card(&d.function), cards(&d.args.0)),
        CardBody::SetGlobalVar(v) => format!("(CSetGlobalVar {} {})", s(&v.name), card(&v.value)),
        CardBody::SetVar(v) => format!("(CSetVar {} {})", s(&v.name), card(&v.value)),
        CardBody::Repeat(r) => format!("(CRepeat {} {} {})", os(&r.i), card(&r.n), card(&r.body)),
        CardBody::ForEach(f) => format!(
            "(CForEach {} {} {} {} {})",
            os(&f.i),
            os(&f.k),
            os(&f.v),
            card(&f.iterable),
            card(&f.body)
        ),
        CardBody::CompositeCard(c) => format!("(CComposite {} {})", s(&c.ty), cards(&c.cards)),
        CardBody::Array(a) => format!("(CArray {})", cards(a)),
        CardBody::Closure(f) => format!("(CClosure {} {})", out::list(f.arguments.iter().map(|a| s(a))), cards(&f.cards)),
    }
}

pub fn module(m: &Module) -> String {
    let subs = out::list(m.submodules.iter().map(|(n, sm)| format!("({}, {})", s(n), module(sm))));
    let fns = out::list(m.functions.iter().map(|(n, f)| {
        format!("({}, mkfn {} {})", s(n), out::list(f.arguments.iter().map(|a| s(a))), cards(&f.cards))
    }));
    let imps = out::list(m.imports.iter().map(|i| s(i)));
    format!("(Module {} {} {})", subs, fns, imps)
}

type Ix = (usize, Vec<u32>);

fn ix(i: &Ix) -> String {
    format!("(ix {} {})", out::nat(i.0), out::list(i.1.iter().map(|x| out::nat(*x as usize))))
}
fn cix(i: &CardIndex) -> Ix {
    (i.function, i.card_index.indices.iter().copied().collect())
}
fn mk(i: &Ix) -> CardIndex {
    CardIndex::from_slice(i.0, &i.1)
}
fn ferr(e: &CardFetchError) -> String {
    match e {
        CardFetchError::FunctionNotFound => "FunctionNotFound".into(),
        CardFetchError::CardNotFound { depth } => format!("(CardNotFound {})", out::nat(*depth)),
        CardFetchError::NoSubFunction { depth } => format!("(NoSubFunction {})", out::nat(*depth)),
        CardFetchError::InvalidIndex => "InvalidIndex".into(),
    }
}

// ------------------------------------------------------------------ operations

#[derive(Clone)]
enum Op {
    Get(Ix),
    GetMut(Ix),
    Insert(Ix, Card),
    Remove(Ix),
    Replace(Ix, Card),
    Swap(Ix, Ix),
    Walk,
    Kids(Ix, usize),
    ReplaceChild(Ix, usize, Card),
}

fn op_term(o: &Op) -> String {
    match o {
        Op::Get(i) => format!("(OpGet {})", ix(i)),
        Op::GetMut(i) => format!("(OpGetMut {})", ix(i)),
        Op::Insert(i, c) => format!("(OpInsert {} {})", ix(i), card(c)),
        Op::Remove(i) => format!("(OpRemove {})", ix(i)),
        Op::Replace(i, c) => format!("(OpReplace {} {})", ix(i), card(c)),
        Op::Swap(a, b) => format!("(OpSwap {} {})", ix(a), ix(b)),
        Op::Walk => "OpWalk".into(),
        Op::Kids(i, n) => format!("(OpKids {} {})", ix(i), out::nat(*n)),
        Op::ReplaceChild(i, k, c) => format!("(OpReplaceChild {} {} {})", ix(i), out::nat(*k), card(c)),
    }
}

/// runs one call on the implementation; returns (observation term, Ok-payload card if any, class tag)
fn apply(m: &mut Module, o: &Op) -> (String, Option<Card>, &'static str) {
    fn fe(e: &CardFetchError) -> (String, Option<Card>, &'static str) {
        let tag = match e {
            CardFetchError::FunctionNotFound => "err.FunctionNotFound",
            CardFetchError::CardNotFound { .. } => "err.CardNotFound",
            CardFetchError::NoSubFunction { .. } => "err.NoSubFunction",
            CardFetchError::InvalidIndex => "err.InvalidIndex",
        };
        (format!("(ObErr {})", ferr(e)), None, tag)
    }
    match o {
        Op::Get(i) => match m.get_card(&mk(i)) {
            Ok(c) => (format!("(ObCard {})", card(c)), Some(c.clone()), "ok"),
            Err(e) => fe(&e),
        },
        Op::GetMut(i) => match m.get_card_mut(&mk(i)) {
            Ok(c) => (format!("(ObCard {})", card(c)), Some(c.clone()), "ok"),
            Err(e) => fe(&e),
        },
        Op::Insert(i, c) => match m.insert_card(&mk(i), c.clone()) {
            Ok(()) => ("ObUnit".into(), None, "ok"),
            Err(e) => fe(&e),
        },
        Op::Remove(i) => match m.remove_card(&mk(i)) {
            Ok(c) => (format!("(ObCard {})", card(&c)), Some(c), "ok"),
            Err(e) => fe(&e),
        },
        Op::Replace(i, c) => match m.replace_card(&mk(i), c.clone()) {
            Ok(c) => (format!("(ObCard {})", card(&c)), Some(c), "ok"),
            Err(e) => fe(&e),
        },
        Op::Swap(a, b) => match m.swap_cards(&mk(a), &mk(b)) {
            Ok(()) => ("ObUnit".into(), None, "ok"),
            Err(SwapError::InvalidSwap) => ("(ObSwapErr InvalidSwap)".into(), None, "swap.InvalidSwap"),
            Err(SwapError::FetchError(i, e)) => {
                (format!("(ObSwapErr (SwapFetchError {} {}))", ix(&cix(&i)), ferr(&e)), None, "swap.FetchError")
            }
        },
        Op::Walk => {
            let mut v = vec![];
            m.walk_cards(|id, c| {
                let i = cix(id);
                v.push(format!("wk {} {} {}", out::nat(i.0), out::list(i.1.iter().map(|x| out::nat(*x as usize))), card(c)));
            });
            // walk_cards_mut must report the same sequence
            let mut v2 = vec![];
            m.walk_cards_mut(|id, c| {
                let i = cix(id);
                v2.push(format!("wk {} {} {}", out::nat(i.0), out::list(i.1.iter().map(|x| out::nat(*x as usize))), card(c)));
            });
            if v != v2 {
                v.push("wk 999999%nat [] CAbort".into());
            }
            (format!("(ObWalk {})", out::list(v)), None, "ok")
        }
        Op::Kids(i, upto) => match m.get_card_mut(&mk(i)) {
            Ok(c) => {
                let c: &Card = c;
                let n = c.num_children() as usize;
                let it = out::list(c.iter_children().map(card));
                let gets = out::list((0..*upto).map(|k| out::opt(c.get_child(k).map(card))));
                (format!("(ObKids {} {} {})", out::nat(n), it, gets), None, "ok")
            }
            Err(e) => fe(&e),
        },
        Op::ReplaceChild(i, k, x) => match m.get_card_mut(&mk(i)) {
            Ok(c) => match c.replace_child(*k, x.clone()) {
                Ok(old) => (format!("(ObCard {})", card(&old)), Some(old), "ok"),
                Err(back) => (format!("(ObChildErr {})", card(&back)), None, "err.ChildErr"),
            },
            Err(e) => fe(&e),
        },
    }
}

struct Hist {
    m0: String,
    steps: Vec<String>,
    kinds: std::collections::BTreeSet<&'static str>,
    errs: usize,
    dead: bool,
}

impl Hist {
    fn new(m: &Module) -> Self {
        Hist { m0: module(m), steps: vec![], kinds: Default::default(), errs: 0, dead: false }
    }
    /// returns the Ok payload (if any)
    fn run(&mut self, w: &mut CaseWriter, m: &mut Module, o: &Op) -> Option<Card> {
        if self.dead {
            return None;
        }
        let ot = op_term(o);
        out::describe_current(&format!("C16 {} on {}", ot, module(m)));
        let kind = match o {
            Op::Get(_) => "op.get",
            Op::GetMut(_) => "op.get_mut",
            Op::Insert(..) => "op.insert",
            Op::Remove(_) => "op.remove",
            Op::Replace(..) => "op.replace",
            Op::Swap(..) => "op.swap",
            Op::Walk => "op.walk",
            Op::Kids(..) => "op.kids",
            Op::ReplaceChild(..) => "op.replace_child",
        };
        self.kinds.insert(kind);
        w.count(kind);
        let r = catch_unwind(AssertUnwindSafe(|| apply(m, o)));
        match r {
            Ok((obs, payload, tag)) => {
                if tag != "ok" {
                    self.errs += 1;
                    w.count(tag);
                }
                self.steps.push(format!("st {} {} {}", ot, obs, module(m)));
                payload
            }
            Err(_) => {
                w.count("panic");
                self.steps.push(format!("st {} ObPanic {}", ot, module(m)));
                self.dead = true;
                None
            }
        }
    }
    fn finish(self, w: &mut CaseWriter) {
        let nontrivial = self.kinds.len() >= 3 || self.errs > 0;
        w.push(format!("C16Case {} {}", self.m0, out::list(self.steps)), nontrivial);
    }
}

/// a case made of one call
fn single(w: &mut CaseWriter, m: &Module, o: &Op, class: &str) {
    let mut m = m.clone();
    let mut h = Hist::new(&m);
    h.run(w, &mut m, o);
    w.count(class);
    h.finish(w);
}

// ------------------------------------------------------------------ shapes

fn int(i: i64) -> Card {
    Card::scalar_int(i)
}
fn kid(k: usize) -> Card {
    // distinguishable children; the first one has a child of its own so that walks go deeper
    match k {
        0 => CardBody::Array(vec![int(70)]).into(),
        1 => Card::read_var("v"),
        2 => CardBody::Not(UnaryExpression::new(int(72))).into(),
        _ => int(70 + k as i64),
    }
}
fn kids(n: usize) -> Vec<Card> {
    (0..n).map(kid).collect()
}

/// every card kind; list kinds with 0..=3 children
fn shapes() -> Vec<(String, Card)> {
    let mut v: Vec<(String, Card)> = vec![];
    let b2 = || Box::new([kid(0), kid(1)]);
    let bins: Vec<(&str, fn(Box<[Card; 2]>) -> CardBody)> = vec![
        ("Add", CardBody::Add),
        ("Sub", CardBody::Sub),
        ("Mul", CardBody::Mul),
        ("Div", CardBody::Div),
        ("Less", CardBody::Less),
        ("LessOrEq", CardBody::LessOrEq),
        ("Equals", CardBody::Equals),
        ("NotEquals", CardBody::NotEquals),
        ("And", CardBody::And),
        ("Or", CardBody::Or),
        ("Xor", CardBody::Xor),
        ("GetProperty", CardBody::GetProperty),
        ("IfTrue", CardBody::IfTrue),
        ("IfFalse", CardBody::IfFalse),
        ("While", CardBody::While),
        ("Get", CardBody::Get),
        ("AppendTable", CardBody::AppendTable),
    ];
    for (n, f) in bins {
        v.push((n.to_string(), f(b2()).into()));
    }
    let uns: Vec<(&str, fn(UnaryExpression) -> CardBody)> = vec![
        ("Not", CardBody::Not),
        ("Return", CardBody::Return),
        ("Len", CardBody::Len),
        ("PopTable", CardBody::PopTable),
    ];
    for (n, f) in uns {
        v.push((n.to_string(), f(UnaryExpression::new(kid(0))).into()));
    }
    v.push(("IfElse".into(), CardBody::IfElse(Box::new([kid(0), kid(1), kid(2)])).into()));
    v.push(("SetProperty".into(), CardBody::SetProperty(Box::new([kid(0), kid(1), kid(2)])).into()));
    v.push(("ScalarNil".into(), CardBody::ScalarNil.into()));
    v.push(("CreateTable".into(), CardBody::CreateTable.into()));
    v.push(("Abort".into(), CardBody::Abort.into()));
    v.push(("ScalarInt".into(), int(-5)));
    v.push(("ScalarFloat".into(), CardBody::ScalarFloat(-1.5).into()));
    v.push(("StringLiteral".into(), Card::string_card("\u{e9}")));
    v.push(("Comment".into(), CardBody::Comment("c".into()).into()));
    v.push(("Function".into(), Card::function_value("g")));
    v.push(("NativeFunction".into(), CardBody::NativeFunction("n".into()).into()));
    v.push(("ReadVar".into(), Card::read_var("r")));
    v.push(("SetGlobalVar".into(), Card::set_global_var("x", kid(0))));
    v.push(("SetVar".into(), Card::set_var("y", kid(0))));
    v.push(("Repeat".into(), Card::repeat(kid(0), Some("i".to_string()), kid(1))));
    v.push((
        "ForEach".into(),
        CardBody::ForEach(Box::new(ForEach {
            i: Some("i".into()),
            k: None,
            v: Some("v".into()),
            iterable: Box::new(kid(0)),
            body: Box::new(kid(1)),
        }))
        .into(),
    ));
    for n in 0..=3usize {
        v.push((format!("CallNative/{}", n), Card::call_native("p", kids(n))));
        v.push((format!("Call/{}", n), Card::call_function("g", kids(n))));
        v.push((format!("DynamicCall/{}", n), Card::dynamic_call(Card::function_value("g"), kids(n))));
        v.push((format!("CompositeCard/{}", n), Card::composite_card("t", kids(n))));
        v.push((format!("Array/{}", n), CardBody::Array(kids(n)).into()));
        v.push((
            format!("Closure/{}", n),
            CardBody::Closure(Box::new(Function { arguments: vec!["a".into()], cards: kids(n) })).into(),
        ));
    }
    v
}

/// hosts for the nested placement: (host card with the shape at child `slot`, slot)
fn host(which: usize, shape: Card) -> (Card, u32) {
    match which % 7 {
        0 => (Card::composite_card("h", vec![int(60), shape, int(61)]), 1),
        1 => (CardBody::IfElse(Box::new([int(60), int(61), shape])).into(), 2),
        2 => (Card::dynamic_call(Card::function_value("g"), vec![int(60), shape]), 2),
        3 => (Card::repeat(int(3), None, shape), 1),
        4 => (Card::dynamic_call(shape, vec![int(60)]), 0),
        5 => (CardBody::Closure(Box::new(Function { arguments: vec![], cards: vec![shape, int(60)] })).into(), 0),
        _ => (CardBody::While(Box::new([shape, int(60)])).into(), 0),
    }
}

fn base_module(target: Card, with_sub: bool) -> Module {
    let mut m = Module::default();
    m.functions.push((
        "f".into(),
        Function {
            arguments: vec!["a".into()],
            cards: vec![int(100), target, CardBody::Add(Box::new([int(101), int(102)])).into()],
        },
    ));
    m.functions.push(("g".into(), Function { arguments: vec![], cards: vec![CardBody::Array(vec![int(200), int(201)]).into()] }));
    if with_sub {
        let mut sm = Module::default();
        sm.functions.push(("h".into(), Function { arguments: vec![], cards: vec![int(300)] }));
        m.submodules.push(("s".into(), sm));
        m.imports.push("s.h".into());
    }
    m
}

fn with_last(p: &[u32], i: u32) -> Vec<u32> {
    let mut v = p.to_vec();
    v.push(i);
    v
}

/// all operations at child index `i` of the card at `parent` (which has `arity` children)
fn exhaustive_at(w: &mut CaseWriter, m0: &Module, name: &str, parent: &[u32], arity: usize, i: usize, is_call: bool) {
    let p: Ix = (0, parent.to_vec());
    let idx: Ix = (0, with_last(parent, i as u32));
    let valid = i < arity;
    let mut m = m0.clone();
    let mut h = Hist::new(&m);
    h.run(w, &mut m, &Op::Kids(p.clone(), arity + 2));
    h.run(w, &mut m, &Op::GetMut(idx.clone()));
    if !valid {
        single(w, &m, &Op::Get(idx.clone()), "edge.get_nested_miss");
    }
    h.run(w, &mut m, &Op::Get(idx.clone()));
    // replace, then replace back
    if let Some(old) = h.run(w, &mut m, &Op::Replace(idx.clone(), Card::string_card("X"))) {
        h.run(w, &mut m, &Op::Replace(idx.clone(), old));
    }
    // insert, then remove at the same index
    if is_call && i > arity {
        single(w, &m, &Op::Insert(idx.clone(), int(55)), "edge.call_insert_oor");
    }
    h.run(w, &mut m, &Op::Insert(idx.clone(), int(55)));
    h.run(w, &mut m, &Op::Remove(idx.clone()));
    // swap with a card of the same function, twice; with a card of another function, twice
    let other: Ix = (0, vec![0]);
    h.run(w, &mut m, &Op::Swap(idx.clone(), other.clone()));
    h.run(w, &mut m, &Op::Swap(idx.clone(), other.clone()));
    let far: Ix = (1, vec![0, 1]);
    h.run(w, &mut m, &Op::Swap(far.clone(), idx.clone()));
    h.run(w, &mut m, &Op::Swap(idx.clone(), far.clone()));
    // swap with the own ancestor, both argument orders
    h.run(w, &mut m, &Op::Swap(idx.clone(), p.clone()));
    h.run(w, &mut m, &Op::Swap(p.clone(), idx.clone()));
    h.run(w, &mut m, &Op::ReplaceChild(p.clone(), i, CardBody::Abort.into()));
    h.run(w, &mut m, &Op::Remove(idx.clone()));
    h.run(w, &mut m, &Op::Walk);
    // swap with itself
    let self_swap = Op::Swap(idx.clone(), idx.clone());
    if m.get_card(&mk(&idx)).is_ok() {
        single(w, &m, &self_swap, "edge.swap_same");
        single(w, m0, &self_swap, "edge.swap_same");
    }
    h.run(w, &mut m, &self_swap);
    h.run(w, &mut m, &Op::Walk);
    w.count(&format!("kind.{}", name.split('/').next().unwrap()));
    h.finish(w);
}

fn exhaustive(w: &mut CaseWriter) {
    let mut kinds_seen = std::collections::BTreeSet::new();
    for (n, (name, shape)) in shapes().into_iter().enumerate() {
        kinds_seen.insert(name.split('/').next().unwrap().to_string());
        let arity = shape.num_children() as usize;
        let is_call = name.starts_with("Call/") || name.starts_with("CallNative/");
        // placement A: the shape is a top-level card of function 0
        let ma = base_module(shape.clone(), n % 3 == 0);
        // placement B: the shape is a child of a host card
        let (hc, slot) = host(n, shape.clone());
        let mb = base_module(hc, n % 3 == 1);
        for i in 0..=arity + 1 {
            exhaustive_at(w, &ma, &name, &[1], arity, i, is_call);
            exhaustive_at(w, &mb, &name, &[1, slot], arity, i, is_call);
        }
    }
    if kinds_seen.len() == 43 {
        w.count("kinds.all43");
    }
}

/// calls whose index is malformed in a way that does not depend on the card kind
fn index_edge_cases(w: &mut CaseWriter) {
    let m0 = base_module(Card::composite_card("t", kids(2)), true);
    let weird: Vec<Ix> = vec![(0, vec![]), (1, vec![]), (2, vec![]), (2, vec![0]), (7, vec![0, 0]), (0, vec![3]), (0, vec![4]), (1, vec![1]), (1, vec![2])];
    for a in weird.iter() {
        let mut m = m0.clone();
        let mut h = Hist::new(&m);
        h.run(w, &mut m, &Op::Get(a.clone()));
        h.run(w, &mut m, &Op::GetMut(a.clone()));
        h.run(w, &mut m, &Op::Kids(a.clone(), 2));
        h.run(w, &mut m, &Op::Replace(a.clone(), int(1)));
        h.run(w, &mut m, &Op::Insert(a.clone(), int(2)));
        h.run(w, &mut m, &Op::Remove(a.clone()));
        h.run(w, &mut m, &Op::ReplaceChild(a.clone(), 0, int(3)));
        for b in [(0usize, vec![1u32]), (0, vec![1, 0]), (1, vec![0])] {
            h.run(w, &mut m, &Op::Swap(a.clone(), b.clone()));
            h.run(w, &mut m, &Op::Swap(b.clone(), a.clone()));
        }
        h.run(w, &mut m, &Op::Swap(a.clone(), a.clone()));
        h.run(w, &mut m, &Op::Walk);
        h.finish(w);
    }
    // a module without functions, a function without cards
    let mut e = Module::default();
    let mut h = Hist::new(&e);
    h.run(w, &mut e, &Op::Walk);
    h.run(w, &mut e, &Op::Insert((0, vec![0]), int(1)));
    h.run(w, &mut e, &Op::Get((0, vec![0])));
    h.finish(w);
    let mut e = Module::default();
    e.functions.push(("f".into(), Function::default()));
    let mut h = Hist::new(&e);
    h.run(w, &mut e, &Op::Remove((0, vec![0])));
    h.run(w, &mut e, &Op::Insert((0, vec![0]), int(1)));
    h.run(w, &mut e, &Op::Insert((0, vec![1]), int(2)));
    h.run(w, &mut e, &Op::Insert((0, vec![0]), int(0)));
    h.run(w, &mut e, &Op::Walk);
    h.run(w, &mut e, &Op::Remove((0, vec![1])));
    h.run(w, &mut e, &Op::Walk);
    h.finish(w);
}

// ------------------------------------------------------------------ random trees and histories

fn rname(rng: &mut Rng) -> String {
    (*rng.pick(&["a", "b", "g", "\u{e9}", ""])).to_string()
}
fn ovar(rng: &mut Rng) -> Option<String> {
    if rng.chance(1, 2) { Some(rname(rng)) } else { None }
}

fn leaf(rng: &mut Rng) -> Card {
    match rng.below(10) {
        0 => CardBody::ScalarNil.into(),
        1 => CardBody::CreateTable.into(),
        2 => CardBody::Abort.into(),
        3 => int(*rng.pick(&[0i64, 1, -1, 42, i64::MIN, i64::MAX])),
        4 => CardBody::ScalarFloat(*rng.pick(&[0.0f64, -0.0, 1.5, f64::NAN, f64::INFINITY, 1e-300])).into(),
        5 => Card::string_card(rname(rng)),
        6 => CardBody::Comment(rname(rng)).into(),
        7 => Card::function_value(rname(rng)),
        8 => CardBody::NativeFunction(rname(rng)).into(),
        _ => Card::read_var(rname(rng)),
    }
}

fn rcards(rng: &mut Rng, depth: u32, budget: &mut i32) -> Vec<Card> {
    let n = rng.below(4) as usize;
    (0..n).map(|_| rcard(rng, depth, budget)).collect()
}

fn rcard(rng: &mut Rng, depth: u32, budget: &mut i32) -> Card {
    *budget -= 1;
    if depth == 0 || *budget <= 0 || rng.chance(1, 5) {
        return leaf(rng);
    }
    let d = depth - 1;
    match rng.below(14) {
        0 | 1 => {
            let b = Box::new([rcard(rng, d, budget), rcard(rng, d, budget)]);
            match rng.below(17) {
                0 => CardBody::Add(b),
                1 => CardBody::Sub(b),
                2 => CardBody::Mul(b),
                3 => CardBody::Div(b),
                4 => CardBody::Less(b),
                5 => CardBody::LessOrEq(b),
                6 => CardBody::Equals(b),
                7 => CardBody::NotEquals(b),
                8 => CardBody::And(b),
                9 => CardBody::Or(b),
                10 => CardBody::Xor(b),
                11 => CardBody::GetProperty(b),
                12 => CardBody::IfTrue(b),
                13 => CardBody::IfFalse(b),
                14 => CardBody::While(b),
                15 => CardBody::Get(b),
                _ => CardBody::AppendTable(b),
            }
            .into()
        }
        2 => {
            let u = UnaryExpression::new(rcard(rng, d, budget));
            match rng.below(4) {
                0 => CardBody::Not(u),
                1 => CardBody::Return(u),
                2 => CardBody::Len(u),
                _ => CardBody::PopTable(u),
            }
            .into()
        }
        3 => {
            let t = Box::new([rcard(rng, d, budget), rcard(rng, d, budget), rcard(rng, d, budget)]);
            if rng.chance(1, 2) { CardBody::IfElse(t).into() } else { CardBody::SetProperty(t).into() }
        }
        4 => CardBody::CallNative(Box::new(CallNode { name: rname(rng), args: rcards(rng, d, budget).into() })).into(),
        5 => CardBody::Call(Box::new(StaticJump { function_name: rname(rng), args: rcards(rng, d, budget).into() })).into(),
        6 | 7 => CardBody::DynamicCall(Box::new(DynamicJump { function: rcard(rng, d, budget), args: rcards(rng, d, budget).into() })).into(),
        8 => {
            let sv = Box::new(SetVar { name: rname(rng), value: rcard(rng, d, budget) });
            if rng.chance(1, 2) { CardBody::SetGlobalVar(sv).into() } else { CardBody::SetVar(sv).into() }
        }
        9 => CardBody::Repeat(Box::new(Repeat { i: ovar(rng), n: rcard(rng, d, budget), body: rcard(rng, d, budget) })).into(),
        10 => CardBody::ForEach(Box::new(ForEach {
            i: ovar(rng),
            k: ovar(rng),
            v: ovar(rng),
            iterable: Box::new(rcard(rng, d, budget)),
            body: Box::new(rcard(rng, d, budget)),
        }))
        .into(),
        11 => CardBody::CompositeCard(Box::new(CompositeCard { ty: rname(rng), cards: rcards(rng, d, budget) })).into(),
        12 => CardBody::Array(rcards(rng, d, budget)).into(),
        _ => CardBody::Closure(Box::new(Function { arguments: vec![rname(rng)], cards: rcards(rng, d, budget) })).into(),
    }
}

fn rmodule(rng: &mut Rng, depth: u32, budget: i32) -> Module {
    let mut m = Module::default();
    let nf = 1 + rng.below(3) as usize;
    let mut budget = budget;
    for k in 0..nf {
        let nc = rng.below(4) as usize;
        let cards = (0..nc).map(|_| rcard(rng, depth, &mut budget)).collect();
        m.functions.push((format!("f{}", k), Function { arguments: if rng.chance(1, 3) { vec![rname(rng)] } else { vec![] }, cards }));
    }
    if rng.chance(1, 4) {
        let mut b2 = 4;
        let mut sm = Module::default();
        sm.functions.push(("h".into(), Function { arguments: vec![], cards: vec![rcard(rng, 1, &mut b2)] }));
        m.submodules.push(("s".into(), sm));
        m.imports.push("s.h".into());
    }
    m
}

fn all_indices(m: &mut Module) -> Vec<Ix> {
    let mut v = vec![];
    m.walk_cards(|id, _| v.push(cix(id)));
    v
}

fn rindex(rng: &mut Rng, m: &mut Module) -> Ix {
    let all = all_indices(m);
    let nf = m.functions.len();
    if all.is_empty() || rng.chance(1, 12) {
        return match rng.below(4) {
            0 => (rng.below(nf as u64 + 2) as usize, vec![]),
            1 => (nf + rng.below(2) as usize, vec![0]),
            _ => (rng.below(nf as u64 + 1) as usize, vec![rng.below(4) as u32]),
        };
    }
    let mut i = rng.pick(&all).clone();
    match rng.below(10) {
        0 | 1 => {
            // a later sibling / one past the end
            let l = i.1.len() - 1;
            i.1[l] += 1 + rng.below(2) as u32;
        }
        2 | 3 => i.1.push(rng.below(4) as u32),
        4 => {
            i.1.push(rng.below(3) as u32);
            i.1.push(rng.below(3) as u32);
        }
        5 => {
            if i.1.len() > 1 {
                i.1.pop();
            }
        }
        _ => {}
    }
    i
}

fn random_case(rng: &mut Rng, w: &mut CaseWriter, depth: u32, budget: i32, len: usize) {
    let mut m = rmodule(rng, depth, budget);
    let mut h = Hist::new(&m);
    let mut stash: Vec<Card> = vec![];
    for _ in 0..len {
        if h.dead {
            break;
        }
        let a = rindex(rng, &mut m);
        let fresh = if !stash.is_empty() && rng.chance(1, 2) {
            stash.pop().unwrap()
        } else {
            let mut b = 5;
            rcard(rng, 2, &mut b)
        };
        let o = match rng.weighted(&[6, 6, 16, 16, 12, 18, 4, 6, 6]) {
            0 => Op::Get(a),
            1 => Op::GetMut(a),
            2 => Op::Insert(a, fresh),
            3 => Op::Remove(a),
            4 => Op::Replace(a, fresh),
            5 => {
                let b = if rng.chance(1, 10) { a.clone() } else { rindex(rng, &mut m) };
                Op::Swap(a, b)
            }
            6 => Op::Walk,
            7 => Op::Kids(a, 5),
            _ => Op::ReplaceChild(a, rng.below(4) as usize, fresh),
        };
        // calls of the three formerly defective classes (A-25, A-26, A-41) are issued as cases of their own, on a
        // copy, and then also as part of the history
        match &o {
            Op::Get(i) => {
                if let Err(CardFetchError::CardNotFound { depth }) = m.get_card_mut(&mk(i)) {
                    if depth >= 1 {
                        single(w, &m, &o, "edge.get_nested_miss");
                    }
                }
            }
            Op::Swap(x, y) if x == y => {
                if m.get_card(&mk(x)).is_ok() {
                    single(w, &m, &o, "edge.swap_same");
                }
            }
            Op::Insert(i, _) if i.1.len() >= 2 => {
                let parent: Ix = (i.0, i.1[..i.1.len() - 1].to_vec());
                let last = *i.1.last().unwrap() as usize;
                let hit = match m.get_card(&mk(&parent)).map(|c| &c.body) {
                    Ok(CardBody::Call(j)) => last > j.args.0.len(),
                    Ok(CardBody::CallNative(j)) => last > j.args.0.len(),
                    _ => false,
                };
                if hit {
                    single(w, &m, &o, "edge.call_insert_oor");
                }
            }
            _ => {}
        }
        if let Some(c) = h.run(w, &mut m, &o) {
            if stash.len() < 4 {
                stash.push(c);
            }
        }
    }
    h.run(w, &mut m, &Op::Walk);
    w.count("random");
    h.finish(w);
}

pub fn gen(a: &Args) {
    let mut rng = Rng::new(a.seed);
    let mut w = CaseWriter::new(&a.out, "C16Check", 40);
    exhaustive(&mut w);
    index_edge_cases(&mut w);
    let thorough = a.tier == "thorough";
    for i in 0..a.n {
        let (depth, budget, len) = if thorough && i % 4 == 0 { (6, 60, 16) } else if i % 3 == 0 { (4, 30, 10) } else { (3, 16, 8) };
        random_case(&mut rng, &mut w, depth, budget, len);
    }
    w.finish(serde_json::json!({}));
}
