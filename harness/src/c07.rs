//! C07: histories on CaoLangTable objects through the host API of a Vm.
use crate::out::{self, CaseWriter};
use crate::rng::Rng;
use crate::Args;
use cao_lang::prelude::*;
use std::panic::{catch_unwind, AssertUnwindSafe};

#[derive(Clone, Debug)]
enum K {
    Nil,
    Int(i64),
    Real(u64),
    Str(String),
}
fn kterm(k: &K) -> String {
    match k {
        K::Nil => "knil".into(),
        K::Int(i) => format!("(kint {})", out::z(*i)),
        K::Real(b) => format!("(kreal {})", out::n(*b)),
        K::Str(s) => format!("(kstr {})", out::bytes(s.as_bytes())),
    }
}
fn key_of_value(v: Value) -> String {
    match v {
        Value::Nil => "knil".into(),
        Value::Integer(i) => format!("(kint {})", out::z(i)),
        Value::Real(r) => format!("(kreal {})", out::n(r.to_bits())),
        Value::Object(_) => match unsafe { v.as_str() } {
            Some(s) => format!("(kstr {})", out::bytes(s.as_bytes())),
            None => "(kstr [999%N])".into(),
        },
    }
}
fn val_term(v: Value) -> String {
    match v {
        Value::Nil => "None".into(),
        Value::Integer(i) => format!("(Some {})", out::z(i)),
        _ => "(Some (-999)%Z)".into(),
    }
}

fn case(rng: &mut Rng, w: &mut CaseWriter, len: usize) {
    let mut vm = Vm::new(()).unwrap();
    let mut guards = vec![];
    let mut tg = vm.init_table().unwrap();
    // key universe
    let strs = ["", "a", "b", "ab", "ba", "key", "winnie", "\u{e9}t\u{e9}", "a\0b"];
    let reals: [f64; 6] = [1.0, -1.0, 0.5, 1e300, 5e-324, 2.0];
    let nk = 3 + rng.below(12) as usize;
    let universe: Vec<K> = (0..nk)
        .map(|_| match rng.below(10) {
            0 => K::Nil,
            1 | 2 => K::Real(reals[rng.below(6) as usize].to_bits()),
            3 | 4 | 5 => K::Str(strs[rng.below(strs.len() as u64) as usize].to_string()),
            _ => K::Int(rng.range(-2, 14)),
        })
        .collect();
    let mut ops: Vec<String> = vec![];
    let mut obs: Vec<String> = vec![];
    let mut next = 0i64;
    let mut kinds = std::collections::BTreeSet::new();
    let (mut pop_then_append, mut grew8, mut str_keys, mut removed) = (false, false, false, false);
    let mut last_was_pop = false;
    let body = catch_unwind(AssertUnwindSafe(|| {
        for _ in 0..len {
            out::describe_current(&format!("C07 table history after ops {:?}", ops));
            let kind = rng.weighted(&[22, 8, 16, 10, 12, 6, 4, 6, 3]);
            kinds.insert(kind);
            let k = rng.pick(&universe).clone();
            // a fresh object for every use of a string key: equality must be by content
            let mut mk = |vm: &mut Vm<()>, k: &K| -> Value {
                match k {
                    K::Nil => Value::Nil,
                    K::Int(i) => Value::Integer(*i),
                    K::Real(b) => Value::Real(f64::from_bits(*b)),
                    K::Str(s) => {
                        let mut g = vm.init_string(s).unwrap();
                        let v = Value::Object(std::ptr::NonNull::from(&mut *g));
                        guards.push(g);
                        v
                    }
                }
            };
            match kind {
                0 => {
                    next += 1;
                    let v = if rng.chance(1, 12) { Value::Nil } else { Value::Integer(next) };
                    if matches!(k, K::Str(_)) { str_keys = true; }
                    ops.push(format!("oins {} {}", kterm(&k), val_term(v)));
                    let kv = mk(&mut vm, &k);
                    tg.as_table_mut().unwrap().insert(kv, v).unwrap();
                    obs.push("xunit".into());
                }
                1 => {
                    ops.push(format!("orem {}", kterm(&k)));
                    let kv = mk(&mut vm, &k);
                    let t = tg.as_table_mut().unwrap();
                    if t.get(&kv).is_some() { removed = true; }
                    t.remove(kv).unwrap();
                    obs.push("xunit".into());
                }
                2 => {
                    next += 1;
                    ops.push(format!("oapp (Some {})", out::z(next)));
                    if last_was_pop { pop_then_append = true; }
                    tg.as_table_mut().unwrap().append(Value::Integer(next)).unwrap();
                    obs.push("xunit".into());
                }
                3 => {
                    ops.push("opop".into());
                    let v = tg.as_table_mut().unwrap().pop().unwrap();
                    obs.push(format!("xval {}", val_term(v)));
                }
                4 => {
                    ops.push(format!("oget {}", kterm(&k)));
                    let kv = mk(&mut vm, &k);
                    let r = tg.as_table_mut().unwrap().get(&kv).copied();
                    obs.push(format!("xoptv {}", out::opt(r.map(val_term))));
                }
                5 => {
                    let t = tg.as_table_mut().unwrap();
                    let i = rng.below(t.len() as u64 + 2) as usize;
                    ops.push(format!("onth {}", i));
                    let r = if i < t.len() { Some(key_of_value(t.nth_key(i))) } else { assert!(t.nth_key(i).is_null()); None };
                    obs.push(format!("xoptk {}", out::opt(r)));
                }
                6 => {
                    ops.push("olen".into());
                    let t = tg.as_table_mut().unwrap();
                    assert_eq!(t.is_empty(), t.len() == 0);
                    obs.push(format!("xnat {}", t.len()));
                }
                7 => {
                    ops.push("oiter".into());
                    let t = tg.as_table_mut().unwrap();
                    let l = out::list(t.iter().map(|(k, v)| format!("({}, {})", key_of_value(*k), val_term(*v))));
                    obs.push(format!("xiter {}", l));
                }
                _ => {
                    ops.push("okeys".into());
                    let t = tg.as_table_mut().unwrap();
                    obs.push(format!("xkeys {}", out::list(t.keys().iter().map(|k| key_of_value(*k)))));
                }
            }
            last_was_pop = kind == 3;
            if tg.as_table_mut().unwrap().len() > 8 { grew8 = true; }
        }
    }));
    if body.is_err() {
        w.count("tb.PANIC");
        while obs.len() < ops.len() { obs.push("xpanic".to_string()); }
    }
    if pop_then_append { w.count("tb.pop_then_append"); }
    if grew8 { w.count("tb.more_than_8_entries"); }
    if str_keys { w.count("tb.string_keys"); }
    if removed { w.count("tb.removed_present"); }
    drop(tg);
    drop(guards);
    w.push(
        format!("TbCase {} {}", out::list(ops.into_iter().map(|o| format!("({})", o))), out::list(obs.into_iter().map(|o| format!("({})", o)))),
        kinds.len() >= 5,
    );
}

pub fn gen(a: &Args) {
    let mut rng = Rng::new(a.seed);
    let mut w = CaseWriter::new(&a.out, "C07Check", 25);
    for i in 0..a.n {
        let len = if i % 8 == 0 { 250 } else { 15 + rng.below(90) as usize };
        case(&mut rng, &mut w, len);
    }
    w.finish(serde_json::json!({}));
}
