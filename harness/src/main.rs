#![allow(dead_code)]
//! Correspondence harness: generates inputs from one PRNG, runs the implementation at
//! /repo's working tree, and writes inputs + observations as Coq terms for the model side.
mod out;
mod rng;
mod c01;
mod c02;
mod c05;
mod c07;
mod progs;
mod c11;
mod c12;
mod c13;
mod c14;
mod c08;
mod c10;
pub mod modgen;
mod c16;
mod c19;
mod probes;
mod gcprobe;
mod vmgen;
mod vmrun;
mod c17;
mod c15;
mod c04;
mod c09;
mod c06;

use std::path::PathBuf;

pub struct Args {
    pub prop: String,
    pub seed: u64,
    pub n: usize,
    pub tier: String,
    pub out: PathBuf,
}

fn main() {
    let argv: Vec<String> = std::env::args().collect();
    if argv.len() == 3 && argv[1] == "c04-worker" { c04::worker(&argv[2]); return; }
    if argv.len() < 3 && !(argv.len() == 2 && (argv[1] == "dump-stdlib" || argv[1] == "c10-witness" || argv[1] == "c18-witness")) {
        eprintln!("usage: harness gen <Cxx> --seed S --n N --tier quick|thorough --out DIR");
        std::process::exit(2);
    }
    let cmd = argv[1].clone();
    if cmd == "c10-witness" { out::start_watchdog(); c10::witness(); return; }
    if cmd == "c18-witness" { out::start_watchdog(); vmrun::c18_witness(); return; }
    if cmd == "dump-stdlib" { print!("{}", modgen::dump_stdlib()); return; }
    if cmd == "c01-obs" { c01::obs_child(&argv[2], argv.get(3).map(|s| s.as_str()).unwrap_or("")); return; }
    if cmd == "c01-case" { c01::replay(&argv[2]); return; }
    if cmd == "c09-obs" { c09::obs_child(&argv[2]); return; }
    if cmd == "c09-case" { c09::replay(&argv[2]); return; }
    if cmd == "vm-witness" { vmrun::witness(&argv[2], &argv[3]); return; }
    if cmd == "c06-case" { c06::replay(&argv[2], argv.get(3).map(|s| s.as_str())); return; }
    if cmd == "gcprobe" { gcprobe::run(&argv[2]); return; }
    if cmd == "probe" { if argv[2] == "handles" { probes::handles(); } else if argv[2] == "c02-guard-children" { probes::guard_children(); } else if argv[2] == "closure-labels" { probes::closure_labels(); } else { probes::run(&argv[2]); } return; }
    let mut a = Args { prop: argv[2].clone(), seed: 1, n: 300, tier: "quick".into(), out: PathBuf::from("work") };
    let mut i = 3;
    while i < argv.len() {
        match argv[i].as_str() {
            "--seed" => { a.seed = argv[i + 1].parse().unwrap(); i += 2; }
            "--n" => { a.n = argv[i + 1].parse().unwrap(); i += 2; }
            "--tier" => { a.tier = argv[i + 1].clone(); i += 2; }
            "--out" => { a.out = PathBuf::from(&argv[i + 1]); i += 2; }
            x => { eprintln!("unknown arg {}", x); std::process::exit(2); }
        }
    }
    out::start_watchdog();
    if std::env::var("VM_PANICMSG").is_err() { std::panic::set_hook(Box::new(|_| {})); }
    match (cmd.as_str(), a.prop.as_str()) {
        ("gen", "C01") => c01::gen(&a),
        ("gen", "C02") => c02::gen(&a),
        ("gen", "C05") => c05::gen(&a),
        ("gen", "C07") => c07::gen(&a),
        ("gen", "C11") => c11::gen(&a),
        ("gen", "C12") => c12::gen(&a),
        ("gen", "C13") => c13::gen(&a),
        ("gen", "C14") => c14::gen(&a),
        ("gen", "C08") => c08::gen(&a),
        ("gen", "C10") => c10::gen(&a),
        ("gen", "C16") => c16::gen(&a),
        ("gen", "C19") => c19::gen(&a),
        ("gen", "VM") | ("gen", "C03") | ("gen", "C18") => vmrun::gen(&a),
        ("replay", "VM") => vmrun::replay(&a),
        ("gen", "C17") => c17::gen(&a),
        ("gen", "C15") => c15::gen(&a),
        ("gen", "C04") => c04::gen(&a),
        ("gen", "C09") => c09::gen(&a),
        ("gen", "C06") => c06::gen(&a),
        _ => { eprintln!("unknown command/property"); std::process::exit(2); }
    }
}
