//! C09: the standard library (std.filter / map / any / min / max / min_by_key / max_by_key / sorted /
//! sorted_by_key / to_array) called ONCE from a generated script on a generated input with a generated
//! callback.  The script follows the protocol of `C09Check.v`: the only logging native is `log1`, main
//! logs "in" and the input just before the call, the callback handed to the library is a wrapper
//! (`cbw3` / `cbw2`) that calls the real callback and logs its arguments and its result, the result of
//! the library goes to the global `res`, the input table is kept in the global `tin`.
//!
//! Streams: (1) every script runs once with a large memory limit; (2) about every third script runs a
//! second time (a second case with the same module) under a memory limit derived from what the first
//! run allocated, so that collections happen while the library works.
//! Every run happens in a child process (`c09-obs <job.json>`).
use crate::c01::tree;
use crate::out::{self, CaseWriter};
use crate::rng::Rng;
use crate::Args;
use cao_lang::compiler::{Card, CardBody, CompileOptions, Function, Module, UnaryExpression};
use cao_lang::prelude::*;
use cao_lang::value::{OwnedEntry, OwnedValue};
use cao_lang::vm::runtime::RuntimeData;
use serde::{Deserialize, Serialize};
use std::panic::{catch_unwind, AssertUnwindSafe};

const TREE_DEPTH: u32 = 6;
const BIG_MEM: usize = 256 * 1024 * 1024;
const LOG_LIMIT: usize = 1_500_000;
const CHILD_DEADLINE_MS: u64 = 20_000;

const NAN_BITS: u64 = 0x7ff8_0000_0000_0000;
const NEG_ZERO: u64 = 0x8000_0000_0000_0000;
const I53P1: i64 = 9_007_199_254_740_993;

// ------------------------------------------------------------------------------------------------
// inputs: values and keys as data (reals by bit pattern, so that NaN and -0.0 survive JSON)
// ------------------------------------------------------------------------------------------------
#[derive(Clone, Debug, PartialEq, Serialize, Deserialize)]
pub enum K {
    Nil,
    Int(i64),
    Real(u64),
    Str(String),
}
#[derive(Clone, Debug, PartialEq, Serialize, Deserialize)]
pub enum V {
    Nil,
    Int(i64),
    Real(u64),
    Str(String),
    Table(Vec<(K, V)>),
}

/// what the child process receives
#[derive(Serialize, Deserialize)]
pub struct Job {
    /// Coq name of the library function: ffilter ...
    pub f: String,
    pub predict: bool,
    pub spec: bool,
    pub touches: bool,
    pub module: Module,
    pub host: Vec<String>,
    pub mem_limit: usize,
    /// the table the native `c09_input` builds with the host API
    pub input: Option<V>,
    /// how `c09_input` builds it: false = `Vm::insert_value` (the convenience API; it holds the keys and
    /// nested values it creates unrooted until a1ac5c5, finding F-1), true = init_table / init_string / insert with
    /// every guard held until the table is complete
    #[serde(default)]
    pub rooted: bool,
}
impl Job {
    /// class of finding F-1 (repaired by a1ac5c5): insert_value under a memory limit that allows collections
    pub fn unrooted(&self) -> bool {
        self.input.is_some() && !self.rooted && self.mem_limit < BIG_MEM
    }
}

fn owned_key(k: &K) -> OwnedValue {
    match k {
        K::Nil => OwnedValue::Nil,
        K::Int(i) => OwnedValue::Integer(*i),
        K::Real(b) => OwnedValue::Real(f64::from_bits(*b)),
        K::Str(s) => OwnedValue::String(s.clone()),
    }
}
fn owned(v: &V) -> OwnedValue {
    match v {
        V::Nil => OwnedValue::Nil,
        V::Int(i) => OwnedValue::Integer(*i),
        V::Real(b) => OwnedValue::Real(f64::from_bits(*b)),
        V::Str(s) => OwnedValue::String(s.clone()),
        V::Table(es) => OwnedValue::Table(es.iter().map(|(k, x)| OwnedEntry { key: owned_key(k), value: owned(x) }).collect()),
    }
}

/// the tree (as `c01::tree` prints it) of a value given as data
fn key_tree(k: &K) -> String {
    match k {
        K::Nil => "trnil".into(),
        K::Int(i) => format!("(trint {})", out::z(*i)),
        K::Real(b) => format!("(trreal {})", out::n(if f64::from_bits(*b).is_nan() { NAN_BITS } else { *b })),
        K::Str(s) => format!("(trstr {})", out::bytes(s.as_bytes())),
    }
}
fn value_tree(v: &V, depth: u32) -> String {
    match v {
        V::Nil => "trnil".into(),
        V::Int(i) => format!("(trint {})", out::z(*i)),
        V::Real(b) => format!("(trreal {})", out::n(if f64::from_bits(*b).is_nan() { NAN_BITS } else { *b })),
        V::Str(s) => format!("(trstr {})", out::bytes(s.as_bytes())),
        V::Table(es) => {
            if depth == 0 {
                "trcut".into()
            } else {
                format!("(trtable {})", out::list(es.iter().map(|(k, x)| format!("({}, {})", key_tree(k), value_tree(x, depth - 1)))))
            }
        }
    }
}

// ------------------------------------------------------------------------------------------------
// the host side: natives, observation
// ------------------------------------------------------------------------------------------------
/// what the host remembers of a logged value, to classify the run (sort keys, ties ...)
#[derive(Clone, Debug)]
enum Sv {
    Nil,
    Int(i64),
    Real(f64),
    Str(String),
    /// the values of the entries (one level)
    Table(Vec<Sv>),
    Fn,
}
fn simple(v: Value, depth: u32) -> Sv {
    match v {
        Value::Nil => Sv::Nil,
        Value::Integer(i) => Sv::Int(i),
        Value::Real(r) => Sv::Real(r),
        Value::Object(_) => unsafe {
            if let Some(s) = v.as_str() {
                Sv::Str(s.to_string())
            } else if let Some(t) = v.as_table() {
                if depth == 0 {
                    Sv::Table((0..t.len()).map(|_| Sv::Nil).collect())
                } else {
                    Sv::Table(t.iter().map(|(_, x)| simple(*x, depth - 1)).collect())
                }
            } else {
                Sv::Fn
            }
        },
    }
}

#[derive(Default)]
pub struct Aux9 {
    log: Vec<String>,
    seen: Vec<Sv>,
    bytes: usize,
    input: Option<OwnedValue>,
    rooted: bool,
}

fn n_log1(vm: &mut Vm<Aux9>, v: Value) -> Result<Value, ExecutionErrorPayload> {
    let t = tree(v, TREE_DEPTH);
    let s = simple(v, 1);
    let aux = vm.get_aux_mut();
    aux.bytes += t.len() + 16;
    if aux.bytes > LOG_LIMIT {
        return Err(ExecutionErrorPayload::OutOfMemory);
    }
    aux.log.push(t);
    aux.seen.push(s);
    Ok(Value::Nil)
}
/// init_string / init_table / insert with every guard kept in `guards`
fn insert_rooted(
    vm: &mut Vm<Aux9>,
    v: &OwnedValue,
    guards: &mut Vec<cao_lang::vm::runtime::cao_lang_object::ObjectGcGuard>,
) -> Result<Value, ExecutionErrorPayload> {
    use std::ptr::NonNull;
    Ok(match v {
        OwnedValue::Nil => Value::Nil,
        OwnedValue::Integer(i) => Value::Integer(*i),
        OwnedValue::Real(r) => Value::Real(*r),
        OwnedValue::String(s) => {
            let mut g = vm.init_string(s.as_str())?;
            let p = NonNull::from(&mut *g);
            guards.push(g);
            Value::Object(p)
        }
        OwnedValue::Table(es) => {
            let mut g = vm.init_table()?;
            let p = NonNull::from(&mut *g);
            guards.push(g);
            for OwnedEntry { key, value } in es.iter() {
                let k = insert_rooted(vm, key, guards)?;
                let x = insert_rooted(vm, value, guards)?;
                unsafe { (*p.as_ptr()).as_table_mut().unwrap().insert(k, x)? };
            }
            Value::Object(p)
        }
    })
}
/// builds the input table with the host API; does not log
fn n_input(vm: &mut Vm<Aux9>) -> Result<Value, ExecutionErrorPayload> {
    let spec = vm.get_aux().input.clone().unwrap_or_default();
    if vm.get_aux().rooted {
        let mut guards = vec![];
        let v = insert_rooted(vm, &spec, &mut guards)?;
        drop(guards); // the wrapper pushes the result next, nothing allocates in between
        Ok(v)
    } else {
        vm.insert_value(&spec)
    }
}

fn new_vm(mem_limit: usize, host: &[String], input: Option<OwnedValue>, rooted: bool) -> Vm<'static, Aux9> {
    let aux = Aux9 { input, rooted, ..Default::default() };
    let mut vm = Vm::new(aux).unwrap().with_max_iter(2_000_000);
    vm.runtime_data = RuntimeData::new(mem_limit, 16 * 1024, 400).unwrap();
    for h in host {
        match h.as_str() {
            "log1" => vm.register_native_function("log1", into_f1(n_log1)).unwrap(),
            "c09_input" => vm.register_native_function("c09_input", n_input).unwrap(),
            _ => panic!("native outside the menu"),
        }
    }
    vm
}

fn resource(e: &ExecutionErrorPayload) -> Option<u64> {
    match e {
        ExecutionErrorPayload::Timeout => Some(1),
        ExecutionErrorPayload::Stackoverflow => Some(2),
        ExecutionErrorPayload::CallStackOverflow => Some(3),
        ExecutionErrorPayload::OutOfMemory => Some(4),
        ExecutionErrorPayload::TaskFailure { error, .. } => resource(error),
        _ => None,
    }
}
fn kind(e: &ExecutionErrorPayload) -> String {
    match e {
        ExecutionErrorPayload::InvalidArgument { .. } => "einvalid".into(),
        ExecutionErrorPayload::VarNotFound(_) => "evarnotfound".into(),
        ExecutionErrorPayload::ProcedureNotFound(_) => "eprocnotfound".into(),
        ExecutionErrorPayload::TaskFailure { .. } => "etaskfailure".into(),
        ExecutionErrorPayload::MissingArgument => "(eother 1%N)".into(),
        ExecutionErrorPayload::BadReturn { .. } => "(eother 2%N)".into(),
        ExecutionErrorPayload::AssertionError(_) => "(eother 3%N)".into(),
        ExecutionErrorPayload::InvalidUpvalue => "(eother 4%N)".into(),
        ExecutionErrorPayload::NotClosure => "(eother 5%N)".into(),
        ExecutionErrorPayload::UnexpectedEndOfInput => "(eother 6%N)".into(),
        _ => "(eother 9%N)".into(),
    }
}

// ---- classification of the sort keys the run has seen
#[derive(Clone, Copy)]
enum Num {
    I(i64),
    R(f64),
}
fn num(s: &Sv) -> Num {
    match s {
        Sv::Nil | Sv::Fn => Num::I(0),
        Sv::Int(i) => Num::I(*i),
        Sv::Real(r) => Num::R(*r),
        Sv::Str(x) => Num::I(x.len() as i64),
        Sv::Table(l) => Num::I(l.len() as i64),
    }
}
fn int_eq_real(i: i64, r: f64) -> bool {
    r.is_finite() && r.fract() == 0.0 && r >= -9.223372036854775808e18 && r < 9.223372036854775808e18 && (r as i64) == i
}
fn num_eq(a: Num, b: Num) -> bool {
    match (a, b) {
        (Num::I(x), Num::I(y)) => x == y,
        (Num::R(x), Num::R(y)) => x == y,
        (Num::I(x), Num::R(y)) | (Num::R(y), Num::I(x)) => int_eq_real(x, y),
    }
}
fn sv_kind(s: &Sv) -> u8 {
    match s {
        Sv::Nil => 0,
        Sv::Int(_) => 1,
        Sv::Real(_) => 2,
        Sv::Str(_) => 3,
        Sv::Table(_) => 4,
        Sv::Fn => 5,
    }
}
fn is_str(s: &Sv, m: &str) -> bool {
    matches!(s, Sv::Str(x) if x == m)
}
/// the sort keys of the run, read from the log like C09Check.parse does
fn sort_keys(f: &str, seen: &[Sv]) -> Vec<Sv> {
    let by_value = matches!(f, "fmin" | "fmax" | "fsorted");
    let by_key = matches!(f, "fminby" | "fmaxby" | "fsortedby");
    if !by_value && !by_key {
        return vec![];
    }
    let mut i = 0;
    while i < seen.len() && !is_str(&seen[i], "in") {
        i += 1;
    }
    if i + 1 >= seen.len() {
        return vec![];
    }
    if by_value {
        return match &seen[i + 1] {
            Sv::Table(l) => l.clone(),
            _ => vec![],
        };
    }
    let mut keys = vec![];
    i += 2;
    while i + 3 < seen.len() && is_str(&seen[i], "cb2") {
        keys.push(seen[i + 3].clone());
        i += 4;
    }
    keys
}
fn key_classes(f: &str, seen: &[Sv]) -> Vec<&'static str> {
    let keys = sort_keys(f, seen);
    let mut out = vec![];
    if keys.iter().any(|k| matches!(k, Sv::Real(r) if r.is_nan())) {
        out.push("nan_key");
    }
    if keys.iter().any(|k| matches!(k, Sv::Real(r) if r.to_bits() == NEG_ZERO)) {
        out.push("negzero_key");
    }
    let (mut ties, mut mixed) = (false, false);
    for a in 0..keys.len() {
        for b in a + 1..keys.len() {
            if num_eq(num(&keys[a]), num(&keys[b])) {
                ties = true;
                if sv_kind(&keys[a]) != sv_kind(&keys[b]) {
                    mixed = true;
                }
            }
        }
    }
    if ties {
        out.push("ties");
    }
    if mixed {
        out.push("mixed_int_real_equal");
    }
    out
}

/// (class line, observation term)
pub fn observe(job: &Job) -> (String, String) {
    let program = match compile(job.module.clone(), CompileOptions::new()) {
        Ok(p) => p,
        Err(e) => return (format!("compile_error {:?}", e.payload).replace('\n', " "), "obscompile".into()),
    };
    let r = catch_unwind(AssertUnwindSafe(|| {
        let mut vm = new_vm(job.mem_limit, &job.host, job.input.as_ref().map(owned), job.rooted);
        // experiment switch: a collection at every allocation of the run
        if std::env::var("C09_FORCE_GC").is_ok() {
            cao_lang::verif_hooks::force_gc_at(Some(None));
        }
        let gc0 = cao_lang::verif_hooks::gc_count();
        let res = vm.run(&program);
        cao_lang::verif_hooks::force_gc_at(None);
        let gcs = cao_lang::verif_hooks::gc_count() - gc0;
        let alloc = cao_lang::verif_hooks::alloc_counters(&vm.runtime_data).0;
        let tail = format!("gc={} alloc={}", gcs, alloc);
        if let Err(e) = &res {
            if let Some(w) = resource(&e.payload) {
                return (format!("resource {}", tail), format!("(obsres {})", out::n(w)));
            }
        }
        let (k, mut class) = match &res {
            Ok(()) => ("kok".to_string(), "ok".to_string()),
            Err(e) => (format!("(kerr {})", kind(&e.payload)), format!("err.{}", kind(&e.payload).replace(' ', "_"))),
        };
        let mut names: Vec<String> = program.variables.names.iter().map(|(_, n)| n.to_string()).collect();
        names.sort();
        let mut globals = vec![];
        for name in names {
            if let Some(v) = vm.read_var_by_name(&name, &program.variables) {
                globals.push(format!("({}, {})", out::bytes(name.as_bytes()), tree(v, TREE_DEPTH)));
            }
        }
        let aux = vm.get_aux();
        let log = out::list(aux.log.iter().map(|t| format!("({}, [{}])", out::bytes(b"log1"), t)));
        for c in key_classes(&job.f, &aux.seen) {
            class.push(' ');
            class.push_str(c);
        }
        // a table built by the host API must be the table the script logs as its input
        if let Some(spec) = &job.input {
            if aux.log.len() >= 2 && aux.log[1] != value_tree(spec, TREE_DEPTH) {
                class.push_str(" host_input_mismatch");
            }
        }
        (format!("{} {}", class, tail), format!("(obsrun {} {} {})", k, out::list(globals), log))
    }));
    match r {
        Ok(x) => x,
        Err(_) => ("panic".into(), "obspanic".into()),
    }
}

pub fn case_term(job: &Job, obs: &str) -> String {
    format!(
        "stdcase {} {} {} {} {} {} {} {} {}",
        job.f,
        out::b(job.predict),
        out::b(job.spec),
        out::b(job.touches),
        out::opt(job.input.as_ref().map(|t| value_tree(t, TREE_DEPTH))),
        out::b(job.unrooted()),
        crate::c16::module(&job.module),
        out::list(job.host.iter().map(|h| out::bytes(h.as_bytes()))),
        obs
    )
}

/// `cao-verif-harness c09-obs <job.json>`: class line and observation of one run, for `gen`
pub fn obs_child(path: &str) {
    let job: Job = serde_json::from_str(&std::fs::read_to_string(path).unwrap()).unwrap();
    let (class, obs) = observe(&job);
    println!("{}\n{}", class.replace('\n', " "), obs);
}

/// `cao-verif-harness c09-case <job.json>`: runs one job and prints a complete Coq file that checks it,
/// explains the expectation of the specification and shows the prediction of the reference semantics
pub fn replay(path: &str) {
    let job: Job = serde_json::from_str(&std::fs::read_to_string(path).unwrap()).unwrap();
    // in a child process, like `gen`: a crash of the implementation is the observation obspanic
    let dir = std::env::temp_dir().join(format!("c09-case-{}", std::process::id()));
    std::fs::create_dir_all(&dir).unwrap();
    let o = run_child(&dir, &job);
    let _ = std::fs::remove_dir_all(&dir);
    println!("(* {} gc={} alloc={} *)", o.classes.join(" ").replace("*)", "* )"), o.gc, o.alloc);
    println!("From Cao Require Import C09Check.");
    println!("Definition c := {}.", case_term(&job, &o.obs));
    println!("Eval vm_compute in (check_all [(1%N, c)]).");
    println!("Eval vm_compute in (explain c).");
    println!("Eval vm_compute in (predict c).");
}

// ------------------------------------------------------------------------------------------------
// card builders
// ------------------------------------------------------------------------------------------------
fn bin(f: fn(Box<[Card; 2]>) -> CardBody, a: Card, b: Card) -> Card {
    f(Box::new([a, b])).into()
}
fn un(f: fn(UnaryExpression) -> CardBody, a: Card) -> Card {
    f(UnaryExpression::new(a)).into()
}
fn int(i: i64) -> Card {
    Card::scalar_int(i)
}
fn strc(s: &str) -> Card {
    Card::string_card(s)
}
fn rd(s: &str) -> Card {
    Card::read_var(s)
}
fn nil() -> Card {
    CardBody::ScalarNil.into()
}
fn flt(f: f64) -> Card {
    CardBody::ScalarFloat(f).into()
}
/// a real by bit pattern; the values JSON cannot carry are computed by the script
fn real(bits: u64) -> Card {
    let f = f64::from_bits(bits);
    if f.is_nan() {
        bin(CardBody::Div, flt(0.0), flt(0.0))
    } else if f == f64::INFINITY {
        bin(CardBody::Div, flt(1.0), flt(0.0))
    } else if f == f64::NEG_INFINITY {
        bin(CardBody::Div, flt(-1.0), flt(0.0))
    } else {
        flt(f)
    }
}
fn ret(c: Card) -> Card {
    Card::return_card(c)
}
fn log1(c: Card) -> Card {
    Card::call_native("log1", vec![c])
}
fn closure(params: Vec<String>, cards: Vec<Card>) -> Card {
    CardBody::Closure(Box::new(Function { arguments: params, cards })).into()
}
fn func(params: &[&str], cards: Vec<Card>) -> Function {
    Function { arguments: params.iter().map(|s| s.to_string()).collect(), cards }
}
fn append(v: Card, t: Card) -> Card {
    bin(CardBody::AppendTable, v, t)
}
fn less(a: Card, b: Card) -> Card {
    bin(CardBody::Less, a, b)
}
fn if_true(c: Card, body: Card) -> Card {
    bin(CardBody::IfTrue, c, body)
}
fn len(a: Card) -> Card {
    un(CardBody::Len, a)
}

fn key_card(k: &K) -> Card {
    match k {
        K::Nil => nil(),
        K::Int(i) => int(*i),
        K::Real(b) => real(*b),
        K::Str(s) => strc(s),
    }
}

// ------------------------------------------------------------------------------------------------
// generator: inputs
// ------------------------------------------------------------------------------------------------
fn rb(f: f64) -> V {
    V::Real(f.to_bits())
}
fn vs(s: &str) -> V {
    V::Str(s.to_string())
}
const STRINGS: [&str; 7] = ["", "a", "bb", "cc", "key", "value", "h\u{e9}llo"];

fn theme_pool(theme: usize) -> Vec<V> {
    match theme {
        // small integers: duplicates and ties
        0 => (-3..=5).map(V::Int).collect(),
        // numerically equal keys of different kinds: 0, -0.0, nil, ""; 2, 2.0, "bb", "cc"; 1, 1.0, "a"
        1 => vec![
            V::Int(0), V::Real(NEG_ZERO), V::Nil, rb(0.0), vs(""), V::Int(2), rb(2.0), vs("bb"), vs("cc"), V::Int(1), rb(1.0), vs("a"),
            V::Int(3),
        ],
        // NaN, infinities, -0.0 among ordinary numbers
        2 => vec![
            V::Real(NAN_BITS), V::Int(1), rb(2.5), V::Real(NEG_ZERO), rb(f64::INFINITY), rb(f64::NEG_INFINITY), V::Int(3), rb(-1.5),
            V::Real(NAN_BITS), V::Int(-2), rb(0.0),
        ],
        // extremes and the exact integer / real comparison
        3 => vec![
            V::Int(i64::MAX), V::Int(i64::MIN), V::Int(I53P1), rb(9007199254740992.0), V::Int(I53P1 - 1), rb(1e300), rb(-1.5),
            rb(9.223372036854775808e18), rb(-9.223372036854775808e18), V::Int(i64::MAX - 1), rb(-1e300), V::Int(0),
        ],
        4 => STRINGS.iter().map(|s| vs(s)).collect(),
        // everything
        _ => {
            let mut p: Vec<V> = (-3..=5).map(V::Int).collect();
            p.extend(STRINGS.iter().map(|s| vs(s)));
            p.extend([rb(0.0), V::Real(NEG_ZERO), rb(1.0), rb(2.0), rb(2.5), rb(-1.5), rb(1e300), rb(f64::INFINITY), rb(f64::NEG_INFINITY)]);
            p.extend([V::Real(NAN_BITS), V::Nil, V::Nil, V::Int(i64::MAX), V::Int(i64::MIN), V::Int(I53P1), rb(9007199254740992.0)]);
            p
        }
    }
}

const KEY_STRINGS: [&str; 8] = ["a", "key", "value", "", "h\u{e9}llo", "bb", "x y", "zz"];
const KEY_REALS: [f64; 7] = [1.0, 2.5, -1.5, 0.5, 1e300, 3.0, -2.0];

fn append_index(keys: &[K]) -> i64 {
    let mut i = keys.len() as i64;
    while keys.contains(&K::Int(i)) {
        i += 1;
    }
    i
}

/// a fresh key for a table that has the keys `keys`
fn gen_key(rng: &mut Rng, keys: &[K], array_like: bool) -> K {
    if array_like {
        return K::Int(append_index(keys));
    }
    for _ in 0..6 {
        let k = match rng.weighted(&[38, 20, 22, 12, 8]) {
            0 => K::Int(append_index(keys)),
            1 => {
                if rng.chance(1, 8) {
                    K::Int(*rng.pick(&[i64::MAX, i64::MIN, 1 << 40, -1000]))
                } else {
                    K::Int(rng.range(-6, 45))
                }
            }
            2 => {
                if rng.chance(1, 2) {
                    K::Str(rng.pick(&KEY_STRINGS).to_string())
                } else {
                    K::Str(format!("k{}", rng.below(60)))
                }
            }
            3 => K::Real(rng.pick(&KEY_REALS).to_bits()),
            _ => K::Nil,
        };
        if !keys.contains(&k) {
            return k;
        }
    }
    K::Int(append_index(keys))
}

fn gen_nested(rng: &mut Rng, depth: u32) -> V {
    let n = rng.below(4) as usize;
    let scalars = theme_pool(0).into_iter().chain(theme_pool(4)).chain([rb(2.5), V::Nil]).collect::<Vec<_>>();
    let array_like = rng.chance(2, 3);
    let mut es: Vec<(K, V)> = vec![];
    for _ in 0..n {
        let keys: Vec<K> = es.iter().map(|e| e.0.clone()).collect();
        let k = if array_like || rng.chance(1, 2) {
            K::Int(append_index(&keys))
        } else {
            let k = K::Str(rng.pick(&KEY_STRINGS).to_string());
            if keys.contains(&k) { K::Int(append_index(&keys)) } else { k }
        };
        let v = if depth > 1 && rng.chance(1, 4) { gen_nested(rng, depth - 1) } else { rng.pick(&scalars).clone() };
        es.push((k, v));
    }
    V::Table(es)
}

fn gen_size(rng: &mut Rng) -> usize {
    match rng.weighted(&[12, 12, 14, 34, 28]) {
        0 => 0,
        1 => 1,
        2 => 2,
        3 => rng.range(3, 10) as usize,
        _ => {
            if rng.chance(1, 3) {
                40
            } else {
                rng.range(11, 40) as usize
            }
        }
    }
}

fn gen_table(rng: &mut Rng) -> Vec<(K, V)> {
    let n = gen_size(rng);
    let theme = rng.weighted(&[28, 18, 13, 10, 9, 22]);
    let mut pool = theme_pool(theme);
    if rng.chance(3, 10) {
        pool.extend(theme_pool(rng.below(6) as usize));
    }
    // a small sub-pool now and then: many duplicates
    if rng.chance(1, 5) {
        let keep = 1 + rng.below(3) as usize;
        let mut sub = vec![];
        for _ in 0..keep {
            sub.push(rng.pick(&pool).clone());
        }
        pool = sub;
    }
    let nested = theme == 5 || rng.chance(1, 10);
    let array_like = rng.chance(2, 5);
    let mut es: Vec<(K, V)> = vec![];
    for _ in 0..n {
        let keys: Vec<K> = es.iter().map(|e| e.0.clone()).collect();
        let k = gen_key(rng, &keys, array_like);
        let v = if nested && rng.chance(1, 4) { gen_nested(rng, 2) } else { rng.pick(&pool).clone() };
        es.push((k, v));
    }
    es
}

/// cards that build the table `es` in the (new) local `var`; nested tables first, in locals of their own
fn emit_table(rng: &mut Rng, var: &str, es: &[(K, V)], cards: &mut Vec<Card>, counter: &mut usize) {
    let mut vals: Vec<Card> = vec![];
    for (_, v) in es {
        vals.push(match v {
            V::Nil => nil(),
            V::Int(i) => int(*i),
            V::Real(b) => real(*b),
            V::Str(s) => strc(s),
            V::Table(inner) => {
                *counter += 1;
                let name = format!("n{}", *counter);
                emit_table(rng, &name, inner, cards, counter);
                rd(&name)
            }
        });
    }
    cards.push(Card::set_var(var, CardBody::CreateTable));
    let mut keys: Vec<K> = vec![];
    for ((k, _), vc) in es.iter().zip(vals) {
        let as_append = matches!(k, K::Int(i) if *i == append_index(&keys)) && rng.chance(4, 5);
        if as_append {
            cards.push(append(vc, rd(var)));
        } else {
            cards.push(Card::set_property(vc, rd(var), key_card(k)));
        }
        keys.push(k.clone());
    }
}

fn input_classes(es: &[(K, V)], classes: &mut Vec<String>) {
    let n = es.len();
    classes.push(
        match n {
            0 => "size.0",
            1 => "size.1",
            2 => "size.2",
            3..=10 => "size.3-10",
            _ => "size.11-40",
        }
        .to_string(),
    );
    let mut tags: Vec<&str> = vec![];
    for (k, v) in es {
        tags.push(match k {
            K::Nil => "key.nil",
            K::Int(_) => "key.int",
            K::Real(_) => "key.real",
            K::Str(_) => "key.string",
        });
        tags.push(match v {
            V::Nil => "val.nil",
            V::Int(_) => "val.int",
            V::Real(_) => "val.real",
            V::Str(_) => "val.string",
            V::Table(_) => "val.table",
        });
    }
    tags.sort();
    tags.dedup();
    classes.extend(tags.iter().map(|s| s.to_string()));
    let mut dup = false;
    for a in 0..n {
        for b in a + 1..n {
            if es[a].1 == es[b].1 {
                dup = true;
            }
        }
    }
    if dup {
        classes.push("dup_values".into());
    }
}

// ------------------------------------------------------------------------------------------------
// generator: callbacks
// ------------------------------------------------------------------------------------------------
#[derive(Clone, Copy, PartialEq, Eq, Debug)]
enum CbKind {
    Plain,
    Counter,
    Allocates,
    NestedStd,
    Mutates,
}

/// the parameters of a real callback: a prefix of (ck, cv, ci)
const PARAMS: [&str; 3] = ["ck", "cv", "ci"];

struct CbGen<'a> {
    rng: &'a mut Rng,
    arity: usize,
}
impl<'a> CbGen<'a> {
    /// the value of the entry (the key when the callback has one parameter only)
    fn pv_name(&self) -> &'static str {
        if self.arity >= 2 { "cv" } else { "ck" }
    }
    fn pv(&self) -> Card {
        rd(self.pv_name())
    }
    /// the index, else the key
    fn pi(&self) -> Card {
        if self.arity >= 3 { rd("ci") } else { rd("ck") }
    }
    fn any_param(&mut self) -> Card {
        let i = self.rng.below(self.arity as u64) as usize;
        rd(PARAMS[i])
    }
    fn small_const(&mut self) -> Card {
        match self.rng.below(8) {
            0 => flt(2.0),
            1 => strc("bb"),
            2 => flt(0.5),
            3 => int(0),
            _ => int(self.rng.range(-2, 6)),
        }
    }
    fn cond(&mut self) -> Card {
        let c = self.small_const();
        match self.rng.below(5) {
            0 => less(self.pv(), c),
            1 => less(c, self.pv()),
            2 => less(self.pi(), c),
            3 => bin(CardBody::Equals, self.pv(), c),
            _ => un(CardBody::Not, self.pv()),
        }
    }
    /// an expression without effects over the parameters (total: no card that can fail)
    fn expr(&mut self) -> Card {
        match self.rng.below(22) {
            0 | 1 => self.pv(),
            2 => less(self.pv(), self.small_const()),
            3 => less(self.small_const(), self.pv()),
            4 => bin(CardBody::Equals, self.pv(), self.small_const()),
            5 => un(CardBody::Not, bin(CardBody::Equals, rd("ck"), self.small_const())),
            6 => less(self.pi(), self.small_const()),
            7 => bin(CardBody::LessOrEq, self.any_param(), self.small_const()),
            8 => match self.rng.below(6) {
                0 => int(1),
                1 => int(0),
                2 => nil(),
                3 => strc(""),
                4 => flt(2.0),
                _ => strc("x"),
            },
            9 => bin(CardBody::Sub, int(0), self.pv()),
            10 => bin(CardBody::Mul, self.pv(), self.pv()),
            11 => bin(CardBody::Div, self.pv(), int(2)),
            12 => len(self.pv()),
            13 => bin(CardBody::Add, self.pv(), flt(0.5)),
            14 => bin(CardBody::And, self.pv(), less(rd("ck"), self.small_const())),
            15 => bin(CardBody::Or, un(CardBody::Not, self.pv()), less(self.pi(), int(2))),
            16 => un(CardBody::Not, self.pv()),
            17 => rd("ck"),
            18 => bin(CardBody::Div, len(self.pv()), int(2)),
            19 => bin(CardBody::NotEquals, self.pv(), self.small_const()),
            20 => bin(CardBody::Xor, self.pv(), self.pi()),
            _ => bin(CardBody::Sub, self.pi(), self.pv()),
        }
    }
    /// IfTrue + Return: an integer for some entries, the numerically equal real (nil, string) for others
    fn split_body(&mut self) -> Vec<Card> {
        let (a, b): (Card, Card) = match self.rng.below(8) {
            0 => (int(2), flt(2.0)),
            1 => (int(0), flt(-0.0)),
            2 => (int(0), nil()),
            3 => (int(1), flt(1.0)),
            4 => (int(2), strc("ab")),
            5 => (real(NAN_BITS), self.pv()),
            6 => (flt(-0.0), flt(0.0)),
            _ => (real(NAN_BITS), int(1)),
        };
        let c = self.cond();
        if self.rng.chance(1, 2) {
            vec![if_true(c, ret(a)), ret(b)]
        } else {
            vec![if_true(c, ret(b)), ret(a)]
        }
    }
    fn plain_body(&mut self) -> Vec<Card> {
        if self.rng.chance(1, 4) {
            self.split_body()
        } else {
            vec![ret(self.expr())]
        }
    }
    fn counter_body(&mut self) -> Vec<Card> {
        let e = match self.rng.below(9) {
            0 | 1 => rd("cnt"),
            2 => bin(CardBody::Sub, int(0), rd("cnt")),
            3 => less(rd("cnt"), int(self.rng.range(1, 5))),
            4 => bin(CardBody::Mul, rd("cnt"), self.pv()),
            5 => bin(CardBody::Add, rd("cnt"), self.pv()),
            6 => bin(CardBody::Div, rd("cnt"), int(3)),
            7 => less(self.pv(), rd("cnt")),
            _ => bin(CardBody::Equals, rd("cnt"), int(self.rng.range(1, 4))),
        };
        vec![Card::set_var("cnt", bin(CardBody::Add, rd("cnt"), int(1))), ret(e)]
    }
    fn allocates_body(&mut self) -> Vec<Card> {
        let mut b = vec![
            Card::set_var("ca", CardBody::CreateTable),
            append(self.pv(), rd("ca")),
            Card::set_property(strc("lit"), rd("ca"), strc("s")),
        ];
        if self.rng.chance(1, 2) {
            b.push(if_true(self.cond(), append(rd("ck"), rd("ca"))));
        }
        if self.rng.chance(1, 3) {
            b.push(Card::set_property(strc("another literal"), rd("ca"), int(7)));
        }
        b.push(Card::set_var("cs", strc(*self.rng.pick(&["xyz", "", "a longer string literal, allocated on every call"]))));
        b.push(ret(match self.rng.below(6) {
            0 | 1 => rd("ca"),
            2 => len(rd("ca")),
            3 => rd("cs"),
            4 => strc("kk"),
            _ => less(len(rd("ca")), int(3)),
        }));
        b
    }
    /// needs the global helper table `ghelp` (not empty) and the function `inner`
    fn nested_body(&mut self) -> Vec<Card> {
        match self.rng.below(7) {
            0 => vec![ret(len(Card::call_function("std.to_array", vec![self.pv()])))],
            1 => vec![
                Card::set_var("cm", Card::call_function("std.map", vec![Card::function_value("inner"), rd("ghelp")])),
                ret(bin(CardBody::Add, len(rd("cm")), self.pv())),
            ],
            2 => vec![ret(less(
                self.pv(),
                Card::get_property(Card::call_function("std.max", vec![rd("ghelp")]), strc("value")),
            ))],
            3 => vec![ret(len(Card::call_function(
                "std.filter",
                vec![closure(vec!["hk".into(), "hv".into()], vec![ret(less(rd("hv"), self.pv()))]), rd("ghelp")],
            )))],
            4 => vec![ret(len(Card::call_function("std.sorted", vec![self.pv()])))],
            5 => vec![ret(Card::get_property(
                Card::call_function("std.min_by_key", vec![Card::function_value("inner"), rd("ghelp")]),
                strc("key"),
            ))],
            _ => vec![
                Card::set_var("cm", Card::call_function("std.sorted_by_key", vec![Card::function_value("inner"), rd("ghelp")])),
                ret(bin(
                    CardBody::Sub,
                    self.pv(),
                    Card::get_property(bin(CardBody::Get, rd("cm"), int(0)), strc("value")),
                )),
            ],
        }
    }
    /// changes the table the library is going through (the global `tin`)
    fn mutates_body(&mut self) -> Vec<Card> {
        let first = match self.rng.below(5) {
            0 | 1 => append(int(self.rng.range(-3, 9)), rd("tin")),
            2 => Card::set_var("cj", un(CardBody::PopTable, rd("tin"))),
            3 => Card::set_property(int(0), rd("tin"), rd("ck")),
            _ => Card::set_property(int(5), rd("tin"), strc("zz")),
        };
        let mut b = vec![first];
        if self.rng.chance(1, 4) {
            b.push(append(strc("grown"), rd("tin")));
        }
        b.extend(self.plain_body());
        b
    }
}

struct Script {
    job: Job,
    classes: Vec<String>,
    size: usize,
}

const FNS: [(&str, &str, &str); 10] = [
    ("ffilter", "filter", "fn.filter"),
    ("fmap", "map", "fn.map"),
    ("fany", "any", "fn.any"),
    ("fmin", "min", "fn.min"),
    ("fmax", "max", "fn.max"),
    ("fminby", "min_by_key", "fn.min_by_key"),
    ("fmaxby", "max_by_key", "fn.max_by_key"),
    ("fsorted", "sorted", "fn.sorted"),
    ("fsortedby", "sorted_by_key", "fn.sorted_by_key"),
    ("ftoarray", "to_array", "fn.to_array"),
];

fn gen_script(rng: &mut Rng) -> Script {
    let fi = rng.below(10) as usize;
    let (coq_fn, std_name, fn_class) = FNS[fi];
    let cb3 = fi <= 2;
    let by_key = matches!(fi, 5 | 6 | 8);
    let has_cb = cb3 || by_key;
    let mut classes: Vec<String> = vec![fn_class.to_string()];
    let mut functions: Vec<(String, Function)> = vec![];
    let mut main: Vec<Card> = vec![];
    let mut host = vec!["log1".to_string()];
    let mut input: Option<V> = None;
    let (mut predict, mut spec, mut touches) = (true, true, false);
    let mut rooted = false;
    let mut size = 0usize;

    // ---- the input
    let input_kind = rng.weighted(&[80, 10, 10]); // script-built table, non-table, host-built table
    let mut is_table = true;
    match input_kind {
        1 => {
            is_table = false;
            classes.push("input.non_table".into());
            let c = match rng.below(6) {
                0 => nil(),
                1 => int(rng.range(-2, 7)),
                2 => real(*rng.pick(&[2.5f64.to_bits(), NEG_ZERO, NAN_BITS, 1e300f64.to_bits()])),
                3 => strc(*rng.pick(&STRINGS)),
                4 => strc("a string is not a table"),
                _ => {
                    functions.push(("idf".into(), func(&["x"], vec![ret(rd("x"))])));
                    Card::function_value("idf")
                }
            };
            main.push(Card::set_var("t", c));
            if cb3 {
                spec = false;
            }
        }
        k => {
            let es = gen_table(rng);
            size = es.len();
            input_classes(&es, &mut classes);
            if k == 2 {
                classes.push("input.host_built".into());
                rooted = rng.chance(1, 2);
                classes.push(if rooted { "input.host_rooted" } else { "input.insert_value" }.to_string());
                host.push("c09_input".into());
                main.push(Card::set_var("t", Card::call_native("c09_input", Vec::<Card>::new())));
                input = Some(V::Table(es));
                predict = false;
            } else {
                let mut counter = 0;
                emit_table(rng, "t", &es, &mut main, &mut counter);
            }
        }
    }
    main.push(Card::set_global_var("tin", rd("t")));

    // ---- the callback
    let mut args: Vec<Card> = vec![];
    if has_cb {
        let arity = if cb3 { 1 + rng.below(3) as usize } else { 1 + rng.below(2) as usize };
        classes.push(format!("cb.arity{}", arity));
        let mut kind = match rng.weighted(&[38, 14, 14, 17, 17]) {
            0 => CbKind::Plain,
            1 => CbKind::Counter,
            2 => CbKind::Allocates,
            3 => CbKind::NestedStd,
            _ => CbKind::Mutates,
        };
        if kind == CbKind::Mutates && !(by_key && is_table) {
            kind = CbKind::Plain;
        }
        let as_closure = kind == CbKind::Counter || rng.chance(3, 10);
        let mut g = CbGen { rng: &mut *rng, arity };
        let body = match kind {
            CbKind::Plain => g.plain_body(),
            CbKind::Counter => g.counter_body(),
            CbKind::Allocates => g.allocates_body(),
            CbKind::NestedStd => g.nested_body(),
            CbKind::Mutates => g.mutates_body(),
        };
        match kind {
            CbKind::Plain => {}
            CbKind::Counter => classes.push("cb.closure_counter".into()),
            CbKind::Allocates => classes.push("cb.allocates".into()),
            CbKind::NestedStd => classes.push("cb.nested_std".into()),
            CbKind::Mutates => {
                classes.push("cb.mutates_input".into());
                touches = true;
                predict = false;
            }
        }
        if kind == CbKind::NestedStd {
            // the helper table (1..4 small integers) and the inner key function
            main.push(Card::set_var("hl", CardBody::CreateTable));
            for _ in 0..1 + rng.below(4) {
                main.push(append(int(rng.range(-2, 6)), rd("hl")));
            }
            main.push(Card::set_global_var("ghelp", rd("hl")));
            functions.push(("inner".into(), func(&["ik"], vec![ret(bin(CardBody::Sub, int(0), rd("ik")))])));
        }
        let params: Vec<String> = PARAMS[..arity].iter().map(|s| s.to_string()).collect();
        let real_cb = if as_closure {
            if kind == CbKind::Counter {
                main.push(Card::set_var("cnt", int(rng.range(0, 3))));
            }
            main.push(Card::set_global_var("gcb", closure(params, body)));
            rd("gcb")
        } else {
            classes.push("cb.script_fn".into());
            functions.push(("kf".into(), Function { arguments: params, cards: body }));
            Card::function_value("kf")
        };
        // the wrapper: same arguments in the same order, logs the invocation
        if cb3 {
            functions.push((
                "cbw3".into(),
                func(
                    &["k", "v", "i"],
                    vec![
                        Card::set_var("r", Card::dynamic_call(real_cb, vec![rd("i"), rd("v"), rd("k")])),
                        log1(strc("cb3")),
                        log1(rd("i")),
                        log1(rd("v")),
                        log1(rd("k")),
                        log1(rd("r")),
                        ret(rd("r")),
                    ],
                ),
            ));
            args.push(Card::function_value("cbw3"));
        } else {
            functions.push((
                "cbw2".into(),
                func(
                    &["k", "v"],
                    vec![
                        Card::set_var("r", Card::dynamic_call(real_cb, vec![rd("v"), rd("k")])),
                        log1(strc("cb2")),
                        log1(rd("v")),
                        log1(rd("k")),
                        log1(rd("r")),
                        ret(rd("r")),
                    ],
                ),
            ));
            args.push(Card::function_value("cbw2"));
        }
    }
    args.push(rd("t"));

    // ---- the call
    main.push(log1(strc("in")));
    main.push(log1(rd("t")));
    let mut imports = vec![];
    let call_name = if rng.chance(1, 2) {
        imports.push(format!("std.{}", std_name));
        std_name.to_string()
    } else {
        format!("std.{}", std_name)
    };
    main.push(Card::set_global_var("res", Card::call_function(call_name, args)));

    let pos = rng.below(functions.len() as u64 + 1) as usize;
    functions.insert(pos, ("main".into(), Function { arguments: vec![], cards: main }));
    let module = Module { submodules: vec![], functions, imports };
    classes.push(if predict { "predict" } else { "spec_only" }.to_string());
    Script { job: Job { f: coq_fn.into(), predict, spec, touches, module, host, mem_limit: BIG_MEM, input, rooted }, classes, size }
}

// ------------------------------------------------------------------------------------------------
// running
// ------------------------------------------------------------------------------------------------
struct Outcome {
    obs: String,
    classes: Vec<String>,
    gc: u64,
    alloc: usize,
    crashed: bool,
}

/// one run in a child process; a child that dies, crashes or does not finish in time is `obspanic`
fn run_child(dir: &std::path::Path, job: &Job) -> Outcome {
    let cur = dir.join("current.json");
    let outp = dir.join("current.out");
    std::fs::write(&cur, serde_json::to_string(job).unwrap()).unwrap();
    let of = std::fs::File::create(&outp).unwrap();
    let mut child = std::process::Command::new(std::env::current_exe().unwrap())
        .arg("c09-obs")
        .arg(&cur)
        .stdout(of)
        .stderr(std::process::Stdio::null())
        .spawn()
        .expect("spawn");
    let start = std::time::Instant::now();
    let status = loop {
        match child.try_wait() {
            Ok(Some(s)) => break Some(s),
            Ok(None) => {
                // CPU time of the child (a spinning implementation), wall clock only as a fallback
                if crate::out::child_expired(child.id(), start, CHILD_DEADLINE_MS / 1000, 600) {
                    let _ = child.kill();
                    let _ = child.wait();
                    break None;
                }
                std::thread::sleep(std::time::Duration::from_millis(if start.elapsed().as_millis() < 40 { 1 } else { 5 }));
            }
            Err(_) => break None,
        }
    };
    let text = std::fs::read_to_string(&outp).unwrap_or_default();
    match (status.map(|s| s.success()).unwrap_or(false), text.split_once('\n')) {
        (true, Some((class, obs))) if !obs.trim().is_empty() => {
            let mut classes = vec![];
            let (mut gc, mut alloc) = (0u64, 0usize);
            for w in class.split_whitespace() {
                if let Some(x) = w.strip_prefix("gc=") {
                    gc = x.parse().unwrap_or(0);
                } else if let Some(x) = w.strip_prefix("alloc=") {
                    alloc = x.parse().unwrap_or(0);
                } else {
                    classes.push(w.to_string());
                }
            }
            Outcome { obs: obs.trim().to_string(), classes, gc, alloc, crashed: false }
        }
        _ => Outcome { obs: "obspanic".into(), classes: vec!["crash".into()], gc: 0, alloc: 0, crashed: true },
    }
}

fn run_case(a: &Args, w: &mut CaseWriter, sc: &Script, lowmem: bool) -> Outcome {
    out::describe_current(&format!(
        "C09 script #{} (seed {}, {}, mem limit {})",
        w.len() + 1,
        a.seed,
        sc.job.f,
        sc.job.mem_limit
    ));
    let o = run_child(&a.out, &sc.job);
    let cur = a.out.join("current.json");
    if o.crashed {
        let _ = std::fs::copy(&cur, a.out.join(format!("crash_{}.json", w.len() + 1)));
    }
    for c in sc.classes.iter() {
        w.count(c);
    }
    let head = o.classes.first().cloned().unwrap_or_default();
    match head.as_str() {
        "ok" => w.count("obs.ok"),
        "resource" => w.count("skipped.resource_error"),
        "crash" | "panic" => w.count("obs.crash"),
        "compile_error" => w.count("obs.compile_error"),
        x if x.starts_with("err.") => {
            w.count("obs.err");
            w.count(x);
        }
        _ => w.count("obs.other"),
    }
    for c in o.classes.iter().skip(1) {
        if head != "compile_error" {
            w.count(c);
        }
    }
    if lowmem && sc.job.input.is_some() {
        w.count(if sc.job.rooted { "lowmem.host_rooted" } else { "lowmem.insert_value" });
    }
    if lowmem {
        w.count("stream.lowmem");
        if head == "ok" || head.starts_with("err.") {
            w.count("lowmem.ok");
            if o.gc > 0 {
                w.count("lowmem.gc");
            }
        }
    }
    let id = w.push(case_term(&sc.job, &o.obs), sc.size >= 2);
    if std::env::var("C09_KEEP").is_ok() {
        let _ = std::fs::copy(&cur, a.out.join(format!("prog_{}.json", id)));
    }
    if head == "compile_error" {
        w.note(id, o.classes.join(" "));
    }
    if o.classes.iter().any(|c| c == "host_input_mismatch") {
        w.note(id, "the table built by Vm::insert_value is not the table the script received (logged as \"in\")".into());
    }
    o
}

/// the witnesses of finding F-1 (findings/C09), run first as ordinary cases
const CORPUS: [(&str, &str); 2] = [
    ("F-1a", include_str!("../../findings/C09/F-1a_insert_value_key_freed_wrong_table.json")),
    ("F-1b", include_str!("../../findings/C09/F-1b_insert_value_key_freed_segfault.json")),
];

pub fn gen(a: &Args) {
    let mut rng = Rng::new(a.seed);
    let mut w = CaseWriter::new(&a.out, "C09Check", 10);
    for (name, text) in CORPUS.iter() {
        let job: Job = serde_json::from_str(text).expect("corpus job");
        let sc = Script { job, classes: vec![format!("corpus.{}", name)], size: 1 };
        run_case(a, &mut w, &sc, true);
    }
    while w.len() < a.n {
        let mut sc = gen_script(&mut rng);
        let first = run_case(a, &mut w, &sc, false);
        // second stream: the same script under a small memory limit, derived from what the first run
        // allocated in total (nothing is collected there), so that collections happen but most runs fit
        // host-built inputs always get the low-memory run (the class of the repaired finding F-1 and its rooted control)
        let again = rng.chance(1, 3) || sc.job.input.is_some();
        let factor = *rng.pick(&[50u64, 70, 90, 110, 150, 200]);
        if again && w.len() < a.n {
            let base = if first.alloc > 0 { first.alloc as u64 } else { 8 * 1024 };
            let limit = (base * factor / 100).clamp(2 * 1024, 4 * 1024 * 1024);
            sc.job.mem_limit = limit as usize;
            run_case(a, &mut w, &sc, true);
        }
    }
    let _ = std::fs::remove_file(a.out.join("current.json"));
    let _ = std::fs::remove_file(a.out.join("current.out"));
    w.finish(serde_json::json!({}));
}
