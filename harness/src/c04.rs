//! C04 totality stream: every implementation run (loader, compiler, VM) happens in a CHILD PROCESS
//! (`cao-verif-harness c04-worker <case file>`), so that a panic, an abort, a signal (native stack
//! overflow) or a hang is an observation of the parent and never takes the harness down.
//!
//! A case file is: one header line (JSON object) and the input text.
//!   fmt  = "json" | "yaml"  the text goes through serde_json::from_str::<Module> / serde_yaml::from_str
//!        = "deep"           the text is "<kind> <depth>": the worker builds the module itself (card nesting
//!                           deeper than any loader admits; outside the property's domain, recorded separately)
//!   limit                   CompileOptions::recursion_limit
//!   run  = null | {mem, stack, calls, budget}   RuntimeData::new(mem, stack, calls), max_instr = budget
//! The worker prints `stage=..` before every step and the outcome of the step after it; the parent adds
//! the exit status / signal / watchdog expiry. The build profile of the children is the profile of the
//! harness itself (the driver runs the debug harness in the quick tier, debug and release in the thorough tier).
use crate::modgen::{self, GenCfg, GenStats};
use crate::out::{self, CaseWriter};
use crate::rng::Rng;
use crate::{progs, vmgen, vmrun, Args};
use cao_lang::compiler::{compile, Card, CardBody, CompileOptions, Function, Module};
use cao_lang::prelude::*;
use std::io::Write as _;
use std::os::unix::process::ExitStatusExt;
use std::process::{Command, Stdio};
use std::sync::{Arc, Mutex};
use std::time::{Duration, Instant};

/// generous wall-clock limit of one child: the budgeted work of every case takes well under a second
const CHILD_LIMIT_SECS: u64 = 60;
/// modules with more cards than this are not printed as Coq terms (the model is not evaluated on them)
const MAX_MODEL_CARDS: usize = 700;

// ------------------------------------------------------------------------------------------------
// worker
// ------------------------------------------------------------------------------------------------

fn say(s: &str) {
    let out = std::io::stdout();
    let mut l = out.lock();
    let _ = writeln!(l, "{}", s);
    let _ = l.flush();
}

fn count_cards(m: &Module) -> usize {
    fn c(card: &Card, budget: &mut usize) {
        if *budget == 0 {
            return;
        }
        *budget -= 1;
        for ch in card.iter_children() {
            c(ch, budget);
        }
    }
    // bounded count (stops at MAX_MODEL_CARDS + 1), iterative over modules
    let mut budget = MAX_MODEL_CARDS + 1;
    let mut stack = vec![m];
    let mut nodes = 0usize;
    while let Some(x) = stack.pop() {
        nodes += 1 + x.functions.len() + x.imports.len();
        for (_, f) in x.functions.iter() {
            for card in f.cards.iter() {
                c(card, &mut budget);
            }
        }
        for (_, s) in x.submodules.iter() {
            stack.push(s);
        }
    }
    (MAX_MODEL_CARDS + 1 - budget) + nodes / 8
}

fn text_size(m: &Module) -> usize {
    // total length of the names and strings that would be printed byte by byte
    fn f(m: &Module) -> usize {
        m.imports.iter().map(|s| s.len()).sum::<usize>()
            + m.functions.iter().map(|(n, f)| n.len() + f.arguments.iter().map(|a| a.len()).sum::<usize>()).sum::<usize>()
            + m.submodules.iter().map(|(n, s)| n.len() + f(s)).sum::<usize>()
    }
    f(m)
}

fn nest(kind: &str, depth: usize) -> Card {
    let mut c: Card = CardBody::ScalarInt(1).into();
    for _ in 0..depth {
        c = match kind {
            "not" => vmgen::not(c),
            "add" => vmgen::add(c, vmgen::int(1)),
            "block" => vmgen::block(vec![c]),
            "array" => vmgen::array(vec![c]),
            "closure" => vmgen::closure(&[], vec![c]),
            "if" => vmgen::if_true(vmgen::int(1), c),
            "while" => vmgen::while_(vmgen::int(0), c),
            "repeat" => vmgen::repeat(vmgen::int(1), None, c),
            "setvar" => vmgen::sv("x", c),
            "call" => vmgen::native("log1", vec![c]),
            "dyn" => vmgen::dyn_call(c, vec![]),
            _ => vmgen::ret(c),
        };
    }
    c
}

fn deep_module(spec: &str) -> Module {
    let mut it = spec.split_whitespace();
    let kind = it.next().unwrap_or("not").to_string();
    let depth: usize = it.next().and_then(|x| x.parse().ok()).unwrap_or(10);
    if kind == "module" {
        let mut m = Module { submodules: vec![], functions: vec![("f".into(), Function::default())], imports: vec![] };
        for _ in 0..depth {
            m = Module { submodules: vec![("a".into(), m)], functions: vec![], imports: vec![] };
        }
        m.functions.push(("main".into(), Function::default()));
        return m;
    }
    vmgen::module(vec![("main", vmgen::func(&[], vec![nest(&kind, depth)]))])
}

fn exec_error_name(e: &ExecutionErrorPayload) -> &'static str {
    use ExecutionErrorPayload::*;
    match e {
        CallStackOverflow => "CallStackOverflow",
        UnexpectedEndOfInput => "UnexpectedEndOfInput",
        ExitCode(_) => "ExitCode",
        InvalidInstruction(_) => "InvalidInstruction",
        InvalidArgument { .. } => "InvalidArgument",
        VarNotFound(_) => "VarNotFound",
        ProcedureNotFound(_) => "ProcedureNotFound",
        Unimplemented => "Unimplemented",
        OutOfMemory => "OutOfMemory",
        MissingArgument => "MissingArgument",
        Timeout => "Timeout",
        TaskFailure { .. } => "TaskFailure",
        Stackoverflow => "Stackoverflow",
        BadReturn { .. } => "BadReturn",
        Unhashable => "Unhashable",
        AssertionError(_) => "AssertionError",
        NotClosure => "NotClosure",
        InvalidUpvalue => "InvalidUpvalue",
        #[allow(unreachable_patterns)]
        _ => "Other",
    }
}

pub const EXEC_ERRORS: [&str; 19] = [
    "CallStackOverflow", "UnexpectedEndOfInput", "ExitCode", "InvalidInstruction", "InvalidArgument", "VarNotFound",
    "ProcedureNotFound", "Unimplemented", "OutOfMemory", "MissingArgument", "Timeout", "TaskFailure", "Stackoverflow",
    "BadReturn", "Unhashable", "AssertionError", "NotClosure", "InvalidUpvalue", "Other",
];

/// `cao-verif-harness c04-worker <file>`
pub fn worker(path: &str) {
    let raw = std::fs::read(path).expect("case file");
    let nl = raw.iter().position(|b| *b == b'\n').expect("header line");
    let header: serde_json::Value = serde_json::from_slice(&raw[..nl]).expect("header");
    let body = &raw[nl + 1..];
    let fmt = header["fmt"].as_str().unwrap_or("json").to_string();
    let limit = header["limit"].as_u64().unwrap_or(64) as u32;
    say("stage=parse");
    let module: Module = match fmt.as_str() {
        "deep" => deep_module(std::str::from_utf8(body).unwrap_or("not 10")),
        "yaml" => match std::str::from_utf8(body) {
            Err(_) => {
                say("parse=err");
                say("done");
                return;
            }
            Ok(t) => match serde_yaml::from_str::<Module>(t) {
                Ok(m) => m,
                Err(_) => {
                    say("parse=err");
                    say("done");
                    return;
                }
            },
        },
        _ => match serde_json::from_slice::<Module>(body) {
            Ok(m) => m,
            Err(_) => {
                say("parse=err");
                say("done");
                return;
            }
        },
    };
    say("parse=ok");
    if fmt != "deep" && count_cards(&module) <= MAX_MODEL_CARDS && text_size(&module) <= 4000 {
        let t = modgen::coq_module(&module);
        if t.len() <= 40_000 {
            say(&format!("module={}", t));
        }
    }
    say("stage=compile");
    let r = compile(module, CompileOptions { recursion_limit: limit });
    let prog = match r {
        Ok(p) => {
            say(&format!("compile=(KOk {}%N)", p.bytecode.len()));
            p
        }
        Err(e) => {
            match modgen::coq_error(&e) {
                Some(t) if t.len() < 20000 => say(&format!("compile={}", t.replacen("(CErr", "(KErr", 1))),
                _ => say(&format!("compile=(KOther {})", modgen::coq_str(modgen::error_variant_name(&e.payload)))),
            }
            say("done");
            return;
        }
    };
    if !header["run"].is_null() {
        let run = &header["run"];
        let mem = run["mem"].as_u64().unwrap_or(400 * 1024) as usize;
        let stack = run["stack"].as_u64().unwrap_or(256) as usize;
        let calls = run["calls"].as_u64().unwrap_or(256) as usize;
        let budget = run["budget"].as_u64().unwrap_or(1000);
        say("stage=vmnew");
        let mut vm = vmrun::new_vm(budget);
        match cao_lang::vm::runtime::RuntimeData::new(mem, stack, calls) {
            Ok(rd) => vm.runtime_data = rd,
            Err(e) => {
                say(&format!("run=newerr {}", exec_error_name(&e)));
                say("done");
                return;
            }
        }
        say("stage=run");
        match vm.run(&prog) {
            Ok(_) => say("run=ok"),
            Err(e) => say(&format!("run=err {}", exec_error_name(&e.payload))),
        }
        // a second run on the same VM (C17: the frames and the budget are reset)
        if run["twice"].as_bool().unwrap_or(false) {
            say("stage=run2");
            match vm.run(&prog) {
                Ok(_) => say("run2=ok"),
                Err(e) => say(&format!("run2=err {}", exec_error_name(&e.payload))),
            }
        }
        say("stage=drop");
        drop(vm);
    }
    say("stage=drop");
    drop(prog);
    say("done");
}

// ------------------------------------------------------------------------------------------------
// parent: case descriptions, child supervision
// ------------------------------------------------------------------------------------------------

#[derive(Clone, Debug)]
pub struct RunCfg {
    pub mem: u64,
    pub stack: u64,
    pub calls: u64,
    pub budget: u64,
    pub twice: bool,
}

#[derive(Clone, Debug)]
pub struct Spec {
    pub classes: Vec<String>,
    pub fmt: &'static str,
    pub text: Vec<u8>,
    pub limit: u32,
    pub run: Option<RunCfg>,
}

#[derive(Clone, Debug, Default)]
pub struct Obs {
    /// "ok" (exit 0), "panic" (exit 101), "signal <n>", "hang", "code <n>"
    pub exit: String,
    pub stage: String,
    pub parse: Option<bool>,
    pub module: Option<String>,
    pub compile: Option<String>,
    pub run: Option<String>,
    pub run2: Option<String>,
    pub done: bool,
    pub stderr_tail: String,
    pub millis: u128,
}

fn run_child(exe: &std::path::Path, file: &std::path::Path) -> Obs {
    let t0 = Instant::now();
    let mut child = Command::new(exe)
        .arg("c04-worker")
        .arg(file)
        .env("RUST_BACKTRACE", "0")
        .stdin(Stdio::null())
        .stdout(Stdio::piped())
        .stderr(Stdio::piped())
        .spawn()
        .expect("spawn worker");
    let mut so = child.stdout.take().unwrap();
    let mut se = child.stderr.take().unwrap();
    let t_out = std::thread::spawn(move || {
        let mut v = Vec::new();
        let _ = std::io::Read::read_to_end(&mut so, &mut v);
        v
    });
    let t_err = std::thread::spawn(move || {
        let mut v = Vec::new();
        let _ = std::io::Read::read_to_end(&mut se, &mut v);
        v
    });
    let mut hang = false;
    let status = loop {
        match child.try_wait() {
            Ok(Some(st)) => break Some(st),
            Ok(None) => {
                // CPU time of the child (a spinning implementation), wall clock only as a fallback
                if out::child_expired(child.id(), t0, CHILD_LIMIT_SECS, 600) {
                    hang = true;
                    let _ = child.kill();
                    let _ = child.wait();
                    break None;
                }
                // the parent's own watchdog only guards the parent: the children have their own limit
                out::heartbeat();
                std::thread::sleep(Duration::from_millis(3));
            }
            Err(_) => break None,
        }
    };
    let stdout = t_out.join().unwrap_or_default();
    let stderr = t_err.join().unwrap_or_default();
    let mut o = Obs::default();
    o.millis = t0.elapsed().as_millis();
    o.exit = if hang {
        "hang".to_string()
    } else {
        match status {
            Some(st) => match (st.code(), st.signal()) {
                (Some(0), _) => "ok".to_string(),
                (Some(101), _) => "panic".to_string(),
                (Some(c), _) => format!("code {}", c),
                (None, Some(s)) => format!("signal {}", s),
                _ => "code 255".to_string(),
            },
            None => "code 255".to_string(),
        }
    };
    for line in String::from_utf8_lossy(&stdout).lines() {
        if let Some(x) = line.strip_prefix("stage=") {
            o.stage = x.to_string();
        } else if let Some(x) = line.strip_prefix("parse=") {
            o.parse = Some(x == "ok");
        } else if let Some(x) = line.strip_prefix("module=") {
            o.module = Some(x.to_string());
        } else if let Some(x) = line.strip_prefix("compile=") {
            o.compile = Some(x.to_string());
        } else if let Some(x) = line.strip_prefix("run=") {
            o.run = Some(x.to_string());
        } else if let Some(x) = line.strip_prefix("run2=") {
            o.run2 = Some(x.to_string());
        } else if line == "done" {
            o.done = true;
        }
    }
    let e = String::from_utf8_lossy(&stderr);
    let e = e.trim();
    o.stderr_tail = e.chars().rev().take(300).collect::<String>().chars().rev().collect();
    o
}

fn stage_code(s: &str) -> u64 {
    match s {
        "" => 0,
        "parse" => 1,
        "compile" => 2,
        "vmnew" => 3,
        "run" => 4,
        "run2" => 5,
        "drop" => 6,
        _ => 9,
    }
}

fn exit_term(e: &str) -> String {
    if e == "ok" {
        "XOk".into()
    } else if e == "panic" {
        "XPanic".into()
    } else if e == "hang" {
        "XHang".into()
    } else if let Some(s) = e.strip_prefix("signal ") {
        format!("(XSignal {}%N)", s)
    } else if let Some(s) = e.strip_prefix("code ") {
        format!("(XCode {}%N)", s.parse::<i64>().unwrap_or(255).rem_euclid(256))
    } else {
        "(XCode 255%N)".into()
    }
}

fn run_term(r: &Option<String>) -> String {
    match r {
        None => "VNone".into(),
        Some(x) if x == "ok" => "VOk".into(),
        Some(x) => {
            let name = x.split_whitespace().nth(1).unwrap_or("Other");
            let idx = EXEC_ERRORS.iter().position(|e| *e == name).unwrap_or(EXEC_ERRORS.len() - 1);
            if x.starts_with("newerr") {
                format!("(VNewErr {}%N)", idx)
            } else {
                format!("(VErr {}%N)", idx)
            }
        }
    }
}

fn obs_term(o: &Obs) -> String {
    format!(
        "(wobs {} {}%N {} {} {} {} {})",
        exit_term(&o.exit),
        stage_code(&o.stage),
        out::opt(o.parse.map(out::b)),
        out::opt(o.compile.clone()),
        run_term(&o.run),
        run_term(&o.run2),
        out::b(o.done)
    )
}

fn cfg_term(r: &Option<RunCfg>) -> String {
    match r {
        None => "None".into(),
        Some(c) => format!(
            "(Some (rcfg {} {} {} {} {}))",
            out::n(c.mem),
            out::n(c.stack),
            out::n(c.calls),
            out::n(c.budget),
            out::b(c.twice)
        ),
    }
}

// ------------------------------------------------------------------------------------------------
// generators
// ------------------------------------------------------------------------------------------------

/// maximal bracket nesting of a JSON text whose strings contain no brackets
fn json_nesting(t: &[u8]) -> usize {
    let (mut cur, mut max) = (0usize, 0usize);
    for b in t {
        match b {
            b'[' | b'{' => {
                cur += 1;
                max = max.max(cur);
            }
            b']' | b'}' => cur = cur.saturating_sub(1),
            _ => {}
        }
    }
    max
}

fn json_of(m: &Module) -> Vec<u8> {
    serde_json::to_vec(m).expect("serialize module")
}
fn yaml_of(m: &Module) -> Vec<u8> {
    serde_yaml::to_string(m).expect("serialize module").into_bytes()
}

fn spec_json(class: &str, m: &Module, run: Option<RunCfg>) -> Spec {
    Spec { classes: vec![class.to_string()], fmt: "json", text: json_of(m), limit: 64, run }
}

fn main_only(cards: Vec<Card>) -> Module {
    Module { submodules: vec![], functions: vec![("main".into(), Function { arguments: vec![], cards })], imports: vec![] }
}

fn default_run(budget: u64) -> RunCfg {
    RunCfg { mem: 400 * 1024, stack: 256, calls: 256, budget, twice: false }
}

pub const NAMES: [&str; 26] = [
    "", " ", "a.b", ".", "..", "a.", ".a", "super", "super.", "super.super.f", "std", "std.map", "main", "main.main",
    "f\u{0151}zel\u{00e9}k", "\u{540d}\u{524d}", "\u{1F600}", "a b", "a\tb", "\u{0}", "x\u{0}y", "1", "_", "__min", "\u{00e9}", "A_9",
];

fn weird_name(rng: &mut Rng) -> String {
    match rng.below(12) {
        0 => "n".repeat(10_000),
        1 => "a.".repeat(300) + "f",
        2 => "super.".repeat(rng.below(70) as usize + 1) + "f",
        _ => rng.pick(&NAMES).to_string(),
    }
}

/// a path of composite cards: the card reached by `path` (card path[0] of the function, child path[1] of it, ...)
/// is `leaf`; every other child is ScalarNil
fn at_path(path: &[usize], leaf: Card) -> Vec<Card> {
    let (first, rest) = path.split_first().unwrap();
    let inner = if rest.is_empty() { leaf } else { vmgen::block(at_path(rest, leaf)) };
    let mut v: Vec<Card> = (0..*first).map(|_| vmgen::nil()).collect();
    v.push(inner);
    v
}

/// the modules behind the findings of this property and one module per front-end error path
pub fn corpus(rng: &mut Rng, thorough: bool) -> Vec<Spec> {
    let mut v: Vec<Spec> = vec![];
    let f0 = Function::default;
    // --- zero handles (FNV-1a-32 of the name / of the card path is 0)
    // N-C04-1: a variable whose name hashes to 0
    v.push(spec_json("find.zero_name.global", &main_only(vec![vmgen::sg("ppkttia", vmgen::int(7)), vmgen::log(vmgen::rv("ppkttia"))]), Some(default_run(1000))));
    v.push(spec_json("find.zero_name.readvar", &main_only(vec![vmgen::log(vmgen::rv("ppkttia"))]), Some(default_run(1000))));
    v.push(spec_json("find.zero_name.native", &main_only(vec![vmgen::native("ppkttia", vec![])]), Some(default_run(1000))));
    v.push(spec_json("find.zero_name.local_only", &main_only(vec![vmgen::sv("ppkttia", vmgen::int(7)), vmgen::log(vmgen::rv("ppkttia"))]), Some(default_run(1000))));
    // N-C04-2: a card whose index path hashes to 0
    v.push(spec_json("find.zero_path.card", &main_only(at_path(&[9, 17, 25, 29, 57], vmgen::nil())), Some(default_run(100000))));
    // N-C04-3: a closure whose label (function handle ^ path hash ^ mask hash) is 0
    v.push(spec_json("find.zero_label.closure", &main_only(at_path(&[14, 16, 30, 56, 75], vmgen::closure(&[], vec![vmgen::nil()]))), Some(default_run(100000))));
    // neighbours of the three (same shapes, non-zero handles)
    v.push(spec_json("near.zero_name", &main_only(vec![vmgen::sg("ppkttib", vmgen::int(7)), vmgen::log(vmgen::rv("ppkttib"))]), Some(default_run(1000))));
    v.push(spec_json("near.zero_path", &main_only(at_path(&[9, 17, 25, 29, 56], vmgen::nil())), Some(default_run(100000))));
    v.push(spec_json("near.zero_label", &main_only(at_path(&[14, 16, 30, 56, 74], vmgen::closure(&[], vec![vmgen::nil()]))), Some(default_run(100000))));
    // --- front-end error paths
    v.push(spec_json("front.no_main", &Module { submodules: vec![], functions: vec![("foo".into(), f0())], imports: vec![] }, None));
    v.push(spec_json("front.empty_module", &Module::default(), None));
    v.push(spec_json("front.empty_main", &main_only(vec![]), Some(default_run(10))));
    v.push(spec_json(
        "front.main_in_submodule_only",
        &Module { submodules: vec![("a".into(), main_only(vec![]))], functions: vec![], imports: vec![] },
        None,
    ));
    let call = |n: &str, args: Vec<Card>| Function { arguments: vec![], cards: vec![Card::call_function(n, args)] };
    // arities that do not match the call site
    for (k, nargs) in [(0usize, 2usize), (2, 0), (3, 1), (1, 5)] {
        let callee = Function { arguments: (0..k).map(|i| format!("p{}", i)).collect(), cards: vec![vmgen::ret(vmgen::int(1))] };
        let m = Module {
            submodules: vec![],
            functions: vec![("main".into(), call("g", (0..nargs).map(|i| vmgen::int(i as i64)).collect())), ("g".into(), callee)],
            imports: vec![],
        };
        v.push(spec_json("front.arity_mismatch", &m, Some(default_run(1000))));
    }
    // self-referencing imports
    let sub = |fns: Vec<(&str, Function)>, imports: Vec<&str>, subs: Vec<(&str, Module)>| Module {
        submodules: subs.into_iter().map(|(n, m)| (n.to_string(), m)).collect(),
        functions: fns.into_iter().map(|(n, f)| (n.to_string(), f)).collect(),
        imports: imports.into_iter().map(|s| s.to_string()).collect(),
    };
    v.push(spec_json("front.super_limit", &sub(vec![("main", f0())], vec![], vec![("a", sub(vec![("f", call("bar", vec![]))], vec!["super.super.bar"], vec![]))]), None));
    v.push(spec_json("front.import_self", &sub(vec![("main", call("main", vec![]))], vec!["main.main", "super.main"], vec![]), Some(default_run(1000))));
    v.push(spec_json(
        "front.import_cycle",
        &sub(
            vec![("main", call("f", vec![]))],
            vec!["a.f"],
            vec![("a", sub(vec![("f", call("g", vec![]))], vec!["super.b.g"], vec![])), ("b", sub(vec![("g", call("f", vec![]))], vec!["super.a.f"], vec![]))],
        ),
        Some(default_run(5000)),
    ));
    v.push(spec_json("front.import_own_module", &sub(vec![("main", call("a.f", vec![]))], vec!["a"], vec![("a", sub(vec![("f", f0())], vec!["super.a", "a.f", "f.f"], vec![]))]), Some(default_run(100))));
    for n in NAMES.iter() {
        let all: Vec<Spec> = vec![
            spec_json("front.name.function", &sub(vec![("main", f0()), (n, f0())], vec![], vec![]), None),
            spec_json("front.name.module", &sub(vec![("main", f0())], vec![], vec![(n, sub(vec![("f", f0())], vec![], vec![]))]), None),
            spec_json("front.name.import", &sub(vec![("main", call("f", vec![]))], vec![n], vec![]), None),
            spec_json("front.name.call", &main_only(vec![Card::call_function(*n, vec![])]), None),
            spec_json(
                "front.name.variable",
                &main_only(vec![Card::set_var(*n, vmgen::int(1)), Card::read_var(*n), Card::set_global_var(*n, vmgen::int(2)), vmgen::closure(&[n], vec![Card::read_var(*n)])]),
                Some(default_run(1000)),
            ),
            spec_json("front.name.native", &main_only(vec![Card::call_native(*n, vec![]), vmgen::nval(n)]), Some(default_run(100))),
            spec_json("front.name.argument", &sub(vec![("main", f0()), ("g", Function { arguments: vec![n.to_string(), n.to_string()], cards: vec![] })], vec![], vec![]), None),
        ];
        if thorough {
            v.extend(all);
        } else {
            let a = rng.below(7) as usize;
            let b = (a + 1 + rng.below(6) as usize) % 7;
            v.push(all[a].clone());
            v.push(all[b].clone());
        }
    }
    v
}

const DEEP_KINDS: [&str; 13] = ["not", "add", "block", "array", "closure", "if", "while", "repeat", "setvar", "call", "dyn", "ret", "module"];

/// extreme sizes, serialised (breadth, not depth)
fn extreme(rng: &mut Rng, thorough: bool) -> Vec<Spec> {
    let mut v = vec![];
    let scale = if thorough { 4 } else { 1 };
    let big = 1500 * scale;
    // many top-level cards (u16 / u32 counters), huge literal counts
    v.push(spec_json("extreme.many_cards", &main_only((0..(if thorough { 70_000 } else { 66_000 })).map(|_| vmgen::nil()).collect()), Some(default_run(100))));
    v.push(spec_json("extreme.array_literals", &main_only(vec![vmgen::array((0..(if thorough { 50_000 } else { 5_000 })).map(vmgen::int).collect())]), Some(default_run(1_000_000))));
    v.push(spec_json("extreme.long_string", &main_only(vec![vmgen::s(&"s".repeat(if thorough { 1 << 20 } else { 1 << 17 })), vmgen::log(vmgen::len(vmgen::s(&"t".repeat(70_000))))]), Some(default_run(1000))));
    v.push(spec_json("extreme.many_locals", &main_only((0..big).map(|i| vmgen::sv(&format!("l{}", i), vmgen::int(i as i64))).collect()), Some(default_run(100_000))));
    v.push(spec_json("extreme.locals_254", &main_only((0..254).map(|i| vmgen::sv(&format!("l{}", i), vmgen::int(i as i64))).collect()), Some(default_run(100_000))));
    v.push(spec_json("extreme.locals_256", &main_only((0..256).map(|i| vmgen::sv(&format!("l{}", i), vmgen::int(i as i64))).collect()), Some(default_run(100_000))));
    v.push(spec_json("extreme.many_globals", &main_only((0..big).map(|i| vmgen::sg(&format!("g{}", i), vmgen::int(i as i64))).collect()), Some(default_run(100_000))));
    let mut cl: Vec<Card> = (0..200).map(|i| vmgen::sv(&format!("u{}", i), vmgen::int(i as i64))).collect();
    cl.push(vmgen::closure(&[], (0..200).map(|i| vmgen::rv(&format!("u{}", i))).collect()));
    v.push(spec_json("extreme.upvalues_200", &main_only(cl), Some(default_run(100_000))));
    v.push(spec_json("extreme.upvalues_over", &modgen::huge_upvalues_module(rng), Some(default_run(100_000))));
    v.push(spec_json("extreme.locals_over", &modgen::huge_locals_module(rng), Some(default_run(100_000))));
    v.push(spec_json(
        "extreme.many_functions",
        &Module {
            submodules: vec![],
            functions: std::iter::once(("main".to_string(), Function::default())).chain((0..big).map(|i| (format!("f{}", i), Function { arguments: vec!["a".into()], cards: vec![vmgen::ret(vmgen::rv("a"))] }))).collect(),
            imports: vec![],
        },
        Some(default_run(100)),
    ));
    v.push(spec_json(
        "extreme.many_submodules",
        &Module {
            submodules: (0..big).map(|i| (format!("m{}", i), Module { submodules: vec![], functions: vec![("f".into(), Function::default())], imports: vec![] })).collect(),
            functions: vec![("main".into(), Function { arguments: vec![], cards: vec![vmgen::call("m7.f", vec![])] })],
            imports: vec![],
        },
        Some(default_run(100)),
    ));
    v.push(spec_json(
        "extreme.many_imports",
        &Module {
            submodules: vec![("m".into(), Module { submodules: vec![], functions: (0..big).map(|i| (format!("f{}", i), Function::default())).collect(), imports: vec![] })],
            functions: vec![("main".into(), Function { arguments: vec![], cards: vec![vmgen::call("f5", vec![])] })],
            imports: (0..big).map(|i| format!("m.f{}", i)).collect(),
        },
        Some(default_run(100)),
    ));
    v.push(spec_json("extreme.many_arguments", &Module { submodules: vec![], functions: vec![("main".into(), Function::default()), ("g".into(), Function { arguments: (0..big).map(|i| format!("a{}", i)).collect(), cards: vec![] })], imports: vec![] }, None));
    v.push(spec_json("extreme.call_many_args", &main_only(vec![vmgen::native("log1", (0..1000).map(vmgen::int).collect())]), Some(default_run(100_000))));
    v.push(spec_json("extreme.long_property_chain", &main_only(vec![vmgen::sv("t", vmgen::table()), Card::read_var(format!("t{}", ".p".repeat(5000)))]), Some(default_run(100_000))));
    v.push(spec_json("extreme.dots_only_variable", &main_only(vec![Card::read_var(".".repeat(5000)), Card::set_var(".".repeat(3000), vmgen::int(1))]), Some(default_run(100_000))));
    // module nesting around CompileOptions::recursion_limit, through the loader (3 JSON levels per module)
    for d in [1usize, 10, 30, 40, 41, 42, 43, 63, 64, 65] {
        let mut s = Spec { classes: vec!["extreme.module_depth".into()], fmt: "json", text: json_of(&deep_module(&format!("module {}", d))), limit: 64, run: None };
        if d % 2 == 0 {
            s.fmt = "yaml";
            s.text = yaml_of(&deep_module(&format!("module {}", d)));
        }
        v.push(s);
    }
    for lim in [0u32, 1, 2, 5, u32::MAX] {
        v.push(Spec { classes: vec!["extreme.recursion_limit".into()], fmt: "json", text: json_of(&deep_module("module 4")), limit: lim, run: None });
    }
    v
}

/// card nesting of every kind: through the loaders (their depth limit decides), and built in the worker
fn deep(thorough: bool) -> Vec<Spec> {
    let mut v = vec![];
    for k in DEEP_KINDS.iter() {
        if *k == "module" {
            continue;
        }
        // serialised: the loader must accept or refuse, never crash. The depths are chosen so that the bracket nesting
        // of the JSON text is just below / at / above the loaders' limit of 128 (the parent only counts brackets)
        let nest = |d: usize| json_nesting(&json_of(&deep_module(&format!("{} {}", k, d))));
        let mut depths: Vec<usize> = vec![30];
        for target in 124..=131usize {
            // largest d with nest(d) <= target
            let (mut lo, mut hi) = (1usize, 130usize);
            while lo < hi {
                let mid = (lo + hi + 1) / 2;
                if nest(mid) <= target { lo = mid } else { hi = mid - 1 }
            }
            if !depths.contains(&lo) {
                depths.push(lo);
            }
        }
        depths.push(200);
        if thorough {
            depths.extend([5usize, 50, 64, 128, 1000]);
        }
        for (j, d) in depths.iter().enumerate() {
            let m = deep_module(&format!("{} {}", k, d));
            let fmts: Vec<&'static str> = if thorough { vec!["json", "yaml"] } else if (j + k.len()) % 2 == 0 { vec!["yaml"] } else { vec!["json"] };
            for fmt in fmts {
                let text = if fmt == "yaml" { yaml_of(&m) } else { json_of(&m) };
                v.push(Spec { classes: vec![format!("deep.loader.{}", k), format!("deep.loader.{}", fmt)], fmt, text, limit: 64, run: Some(default_run(10_000)) });
            }
        }
        // built in the worker: nesting that no loader admits (outside the property's domain)
        let depths: &[usize] = if thorough { &[150, 1000, 5000, 20_000, 100_000] } else { &[1000, 100_000] };
        for d in depths {
            v.push(Spec { classes: vec![format!("deep.built.{}", k), "deep.built".into()], fmt: "deep", text: format!("{} {}", k, d).into_bytes(), limit: 64, run: Some(default_run(10_000)) });
        }
    }
    for d in [100usize, 10_000] {
        v.push(Spec { classes: vec!["deep.built.module".into(), "deep.built".into()], fmt: "deep", text: format!("module {}", d).into_bytes(), limit: u32::MAX, run: None });
    }
    v
}

const VOCAB: [&str; 60] = [
    "submodules", "functions", "imports", "arguments", "cards", "Add", "Sub", "Mul", "Div", "Less", "LessOrEq", "Equals", "NotEquals", "And",
    "Or", "Xor", "Not", "Return", "ScalarNil", "CreateTable", "Abort", "Len", "SetProperty", "GetProperty", "ScalarInt", "ScalarFloat",
    "StringLiteral", "CallNative", "IfTrue", "IfFalse", "IfElse", "Call", "Function", "NativeFunction", "SetGlobalVar", "SetVar", "ReadVar",
    "Repeat", "While", "ForEach", "CompositeCard", "DynamicCall", "Get", "AppendTable", "PopTable", "Array", "Closure", "Comment", "name",
    "value", "args", "function", "function_name", "card", "ty", "i", "k", "v", "iterable", "body",
];

fn random_json(rng: &mut Rng, depth: usize, out: &mut String) {
    let k = if depth == 0 { rng.below(5) } else { rng.below(9) };
    match k {
        0 => out.push_str("null"),
        1 => out.push_str(&format!("{}", rng.range(-5, 300))),
        2 => out.push_str(*rng.pick(&["1e400", "-0.0", "18446744073709551616", "-9223372036854775809", "1.5", "9223372036854775807", "true", "false", "NaN", "0x10", "1e-400"])),
        3 => out.push_str(&serde_json::to_string(&weird_name(rng)).unwrap()),
        4 => out.push_str(&format!("\"{}\"", rng.pick(&VOCAB))),
        5 | 6 => {
            out.push('[');
            let n = rng.below(4);
            for i in 0..n {
                if i > 0 {
                    out.push(',');
                }
                random_json(rng, depth - 1, out);
            }
            out.push(']');
        }
        _ => {
            out.push('{');
            let n = rng.below(4);
            for i in 0..n {
                if i > 0 {
                    out.push(',');
                }
                out.push_str(&format!("\"{}\":", rng.pick(&VOCAB)));
                random_json(rng, depth - 1, out);
            }
            out.push('}');
        }
    }
}

/// malformed texts: mutations of valid serialisations, token soup, deep brackets
fn texts(rng: &mut Rng, n: usize, thorough: bool) -> Vec<Spec> {
    let mut v = vec![];
    // deep brackets: within and far beyond the loaders' limit
    let bracket_depths: &[usize] = if thorough { &[10, 126, 127, 128, 129, 1000, 100_000, 2_000_000] } else { &[127, 129, 100_000, 2_000_000] };
    for d in bracket_depths.iter().copied() {
        v.push(Spec { classes: vec!["text.deep_brackets".into()], fmt: "json", text: "[".repeat(d).into_bytes(), limit: 64, run: None });
        v.push(Spec { classes: vec!["text.deep_brackets".into()], fmt: "json", text: ("[".repeat(d) + &"]".repeat(d)).into_bytes(), limit: 64, run: None });
        v.push(Spec { classes: vec!["text.deep_brackets".into()], fmt: "json", text: ("{\"a\":".repeat(d) + "1" + &"}".repeat(d)).into_bytes(), limit: 64, run: None });
        // serde_yaml needs time quadratic in the nesting depth (100 000 open brackets: about a minute before it
        // answers "recursion limit exceeded"), so the YAML texts stop at 10 000
        let dy = d.min(10_000);
        v.push(Spec { classes: vec!["text.deep_brackets".into()], fmt: "yaml", text: "[".repeat(dy).into_bytes(), limit: 64, run: None });
        v.push(Spec { classes: vec!["text.deep_brackets".into()], fmt: "yaml", text: ("{a: ".repeat(dy) + "1" + &"}".repeat(dy)).into_bytes(), limit: 64, run: None });
        if d <= 1000 {
            // block-style nesting
            let mut t = String::new();
            for i in 0..d {
                t.push_str(&" ".repeat(i));
                t.push_str("a:\n");
            }
            v.push(Spec { classes: vec!["text.deep_brackets".into()], fmt: "yaml", text: t.into_bytes(), limit: 64, run: None });
        }
        // cards nested in a syntactically valid module text
        let open = "{\"Not\":{\"card\":".repeat(d);
        let close = "}}".repeat(d);
        let t = format!("{{\"submodules\":[],\"imports\":[],\"functions\":[[\"main\",{{\"arguments\":[],\"cards\":[{}{{\"ScalarNil\":null}}{}]}}]]}}", open, close);
        v.push(Spec { classes: vec!["text.deep_cards".into()], fmt: "json", text: t.clone().into_bytes(), limit: 64, run: None });
        if d <= 1000 {
            v.push(Spec { classes: vec!["text.deep_cards".into()], fmt: "yaml", text: t.into_bytes(), limit: 64, run: None });
        }
    }
    // YAML specials: anchors / aliases (expansion bombs), merge keys, tags, documents
    let mut bomb = String::from("a0: &a0 [x,x,x,x,x,x,x,x,x]\n");
    for i in 1..12 {
        bomb.push_str(&format!("a{}: &a{} [*a{},*a{},*a{},*a{},*a{},*a{},*a{},*a{},*a{}]\n", i, i, i - 1, i - 1, i - 1, i - 1, i - 1, i - 1, i - 1, i - 1, i - 1));
    }
    bomb.push_str("submodules: []\nimports: *a11\nfunctions: []\n");
    v.push(Spec { classes: vec!["text.yaml_special".into()], fmt: "yaml", text: bomb.into_bytes(), limit: 64, run: None });
    for t in [
        "&a [*a]",
        "submodules: &s\n  - [x, {submodules: *s, functions: [], imports: []}]\nfunctions: []\nimports: []\n",
        "<<: {submodules: [], functions: [], imports: []}\n",
        "--- !!binary |\n  R0lGODlh\n",
        "---\n---\n---\n",
        "submodules: []\nfunctions: !Closure []\nimports: []\n",
        "submodules: []\nfunctions: [[main, {arguments: [], cards: [!ScalarInt 1, !Not {card: !ScalarNil }]}]]\nimports: []\n",
        "? [a, b]\n: c\n",
        "",
        "\u{feff}",
        "submodules: ~\nfunctions: ~\nimports: ~\n",
    ] {
        v.push(Spec { classes: vec!["text.yaml_special".into()], fmt: "yaml", text: t.as_bytes().to_vec(), limit: 64, run: Some(default_run(100)) });
    }
    // mutations of valid serialisations
    let mut i = 0;
    let fixed_texts = v.len();
    while v.len() < fixed_texts + n {
        i += 1;
        let mut cfg = GenCfg::default();
        cfg.many_globals = true;
        cfg.allow_huge = false;
        let mut st = GenStats::default();
        let m = modgen::gen_module_bounded(rng, &cfg, &mut st);
        let yaml = rng.chance(1, 3);
        let mut t = if yaml { yaml_of(&m) } else { json_of(&m) };
        let kind = rng.below(9);
        let class = match kind {
            0 => {
                let cut = rng.below(t.len() as u64 + 1) as usize;
                t.truncate(cut);
                "text.mut.truncate"
            }
            1 => {
                for _ in 0..(1 + rng.below(4)) {
                    if t.is_empty() {
                        break;
                    }
                    let p = rng.below(t.len() as u64) as usize;
                    t[p] = rng.below(256) as u8;
                }
                "text.mut.byte"
            }
            2 => {
                if t.len() > 2 {
                    let a = rng.below(t.len() as u64) as usize;
                    let b = (a + rng.below(40) as usize).min(t.len());
                    t.drain(a..b);
                }
                "text.mut.delete"
            }
            3 => {
                if t.len() > 2 {
                    let a = rng.below(t.len() as u64) as usize;
                    let b = (a + rng.below(60) as usize).min(t.len());
                    let piece: Vec<u8> = t[a..b].to_vec();
                    let p = rng.below(t.len() as u64) as usize;
                    for (k, x) in piece.into_iter().enumerate() {
                        t.insert(p + k, x);
                    }
                }
                "text.mut.duplicate"
            }
            4 | 5 => {
                // replace a name / string by a strange one (stays well-formed)
                let s = String::from_utf8_lossy(&t).to_string();
                let targets = ["\"main\"", "main", "\"foo\"", "\"x\"", "\"a\"", "\"res\"", "\"bar\"", "\"tmp\"", "\"i\""];
                let tg = rng.pick(&targets);
                let nn = weird_name(rng);
                let rep = if tg.starts_with('"') { serde_json::to_string(&nn).unwrap() } else { nn };
                t = s.replacen(tg, &rep, 1 + rng.below(3) as usize).into_bytes();
                "text.mut.name"
            }
            6 => {
                let s = String::from_utf8_lossy(&t).to_string();
                let nums = ["18446744073709551616", "-9223372036854775809", "1e999", "-1", "0.5", "4294967296", "null", "\"1\"", "[1]"];
                let digits: Vec<usize> = s.char_indices().filter(|(_, c)| c.is_ascii_digit()).map(|(i, _)| i).collect();
                if let Some(p) = if digits.is_empty() { None } else { Some(*rng.pick(&digits)) } {
                    let mut s2 = s.clone();
                    s2.replace_range(p..p + 1, *rng.pick(&nums));
                    t = s2.into_bytes();
                }
                "text.mut.number"
            }
            7 => {
                let mut s = String::new();
                random_json(rng, 5, &mut s);
                t = s.into_bytes();
                "text.soup"
            }
            _ => {
                // a module skeleton with random content in the typed positions
                let mut cards = String::new();
                random_json(rng, 4, &mut cards);
                let mut args = String::new();
                random_json(rng, 2, &mut args);
                t = format!(
                    "{{\"submodules\":[],\"imports\":[{}],\"functions\":[[\"main\",{{\"arguments\":[],\"cards\":[{{\"{}\":{}}}]}}],[{},{{\"arguments\":{},\"cards\":[]}}]]}}",
                    serde_json::to_string(&weird_name(rng)).unwrap(),
                    rng.pick(&VOCAB[5..48]),
                    cards,
                    serde_json::to_string(&weird_name(rng)).unwrap(),
                    args
                )
                .into_bytes();
                "text.skeleton"
            }
        };
        let _ = i;
        let run = if rng.chance(1, 2) { Some(default_run(2000)) } else { None };
        v.push(Spec { classes: vec![class.to_string(), if yaml && kind < 7 { "text.yaml".into() } else { "text.json".into() }], fmt: if yaml && kind < 7 { "yaml" } else { "json" }, text: t, limit: 64, run });
    }
    v
}

fn random_cfg(rng: &mut Rng) -> RunCfg {
    let stacks = [0u64, 1, 2, 3, 4, 5, 8, 16, 17, 64, 255, 256, 257, 1024];
    let calls = [0u64, 1, 2, 3, 4, 5, 8, 16, 64, 256, 257, 1024];
    let mems = [0u64, 1, 63, 64, 65, 100, 128, 200, 256, 400, 512, 1000, 1024, 2048, 4096, 10_000, 65_536, 409_600, 1 << 30];
    let budgets = [0u64, 1, 2, 3, 4, 5, 7, 10, 20, 50, 100, 1000, 10_000, 200_000];
    let mut c = RunCfg { mem: 400 * 1024, stack: 256, calls: 256, budget: 10_000, twice: rng.chance(1, 5) };
    // vary one to three dimensions
    let dims = 1 + rng.below(3);
    for _ in 0..dims {
        match rng.below(4) {
            0 => c.stack = *rng.pick(&stacks),
            1 => c.calls = *rng.pick(&calls),
            2 => c.mem = *rng.pick(&mems),
            _ => c.budget = *rng.pick(&budgets),
        }
    }
    c
}

/// programs that build a self-referencing table and then compare / hash it (finding A-37: the recursion of
/// PartialEq / Hash over the heap graph does not stop). They only ever run in a child.
fn cyclic_programs() -> Vec<(&'static str, Module)> {
    use vmgen::*;
    let mk = |cards: Vec<Card>| module(vec![("main", func(&[], cards))]);
    vec![
        ("cyclic.eq_self", mk(vec![sv("t", table()), setp(rv("t"), rv("t"), s("me")), sv("r", eq(rv("t"), rv("t")))])),
        (
            "cyclic.eq_two",
            mk(vec![sv("t", table()), setp(rv("t"), rv("t"), s("me")), sv("u", table()), setp(rv("u"), rv("u"), s("me")), sv("r", eq(rv("t"), rv("u")))]),
        ),
        ("cyclic.hash_key", mk(vec![sv("t", table()), setp(rv("t"), rv("t"), s("me")), sv("u", table()), setp(int(1), rv("u"), rv("t"))])),
        ("cyclic.append_self_eq", mk(vec![sv("t", table()), append(rv("t"), rv("t")), sv("u", table()), append(rv("u"), rv("u")), sv("r", eq(rv("t"), rv("u")))])),
        // built but never compared: must run to completion
        ("cyclic.build_only", mk(vec![sv("t", table()), setp(rv("t"), rv("t"), s("me")), log(len(rv("t")))])),
    ]
}

fn config_cases(rng: &mut Rng, n: usize, w_dist: &mut Vec<String>) -> Vec<Spec> {
    let mut v = vec![];
    let mut pool: Vec<(String, Module)> = vec![];
    for e in vmgen::corpus() {
        pool.push((format!("vmgen.{}", e.name), e.module));
    }
    for (name, m) in progs::all(6, 24) {
        pool.push((format!("progs.{}", name), m));
    }
    let _ = w_dist;
    // every corpus program once under the default configuration and once under a random one
    let mut k = 0usize;
    let fixed: Vec<RunCfg> = vec![
        RunCfg { mem: 400 * 1024, stack: 1, calls: 256, budget: 10_000, twice: false },
        RunCfg { mem: 400 * 1024, stack: 2, calls: 256, budget: 10_000, twice: false },
        RunCfg { mem: 400 * 1024, stack: 256, calls: 1, budget: 10_000, twice: false },
        RunCfg { mem: 400 * 1024, stack: 256, calls: 2, budget: 10_000, twice: true },
        RunCfg { mem: 64, stack: 256, calls: 256, budget: 10_000, twice: false },
        RunCfg { mem: 0, stack: 256, calls: 256, budget: 10_000, twice: false },
        RunCfg { mem: 400 * 1024, stack: 256, calls: 256, budget: 0, twice: true },
        RunCfg { mem: 400 * 1024, stack: 256, calls: 256, budget: 1, twice: false },
        RunCfg { mem: 400 * 1024, stack: 256, calls: 256, budget: 2, twice: false },
        RunCfg { mem: 400 * 1024, stack: 0, calls: 0, budget: 10, twice: false },
        RunCfg { mem: 128, stack: 2, calls: 2, budget: 3, twice: true },
    ];
    while v.len() < n {
        let (name, m) = pool[(k * 7 + k / 5) % pool.len()].clone();
        let cfg = match k % 5 {
            0 => default_run(20_000),
            1 | 2 => fixed[(k / 5 * 2 + k % 5 - 1) % fixed.len()].clone(),
            _ => random_cfg(rng),
        };
        let (name, m) = if k % 6 == 3 {
            // a random program instead of a corpus one
            let reals = rng.chance(1, 2);
            let mut sub = Rng::new(rng.next());
            let mut g = vmgen::Gen::new(&mut sub, reals);
            ("vmgen.random".to_string(), g.module())
        } else if k % 6 == 4 {
            let mut cfgm = GenCfg::default();
            cfgm.fault_permille = 0;
            cfgm.allow_huge = false;
            let mut st = GenStats::default();
            ("modgen.random".to_string(), modgen::gen_module_bounded(rng, &cfgm, &mut st))
        } else {
            (name, m)
        };
        k += 1;
        let mut classes = vec!["config".to_string(), format!("prog.{}", name.split('.').next().unwrap_or("?"))];
        if cfg.stack <= 2 {
            classes.push(format!("cfg.stack={}", cfg.stack));
        }
        if cfg.calls <= 2 {
            classes.push(format!("cfg.calls={}", cfg.calls));
        }
        if cfg.mem <= 64 {
            classes.push("cfg.mem<=64".into());
        }
        if cfg.budget <= 2 {
            classes.push(format!("cfg.budget={}", cfg.budget));
        }
        if cfg.twice {
            classes.push("cfg.twice".into());
        }
        v.push(Spec { classes, fmt: "json", text: json_of(&m), limit: 64, run: Some(cfg) });
    }
    for (name, m) in cyclic_programs() {
        for cfg in [default_run(10_000), RunCfg { mem: 400 * 1024, stack: 8, calls: 4, budget: 100, twice: false }] {
            v.push(Spec { classes: vec!["cyclic".into(), name.to_string()], fmt: "json", text: json_of(&m), limit: 64, run: Some(cfg) });
        }
    }
    v
}

/// Value-stack boundary sweep: a program runs under EVERY value-stack size 1..=max, so that each of its
/// instructions that writes to the stack (pushes, local-variable writes past the top, the hidden locals of
/// the loops, argument passing, frames of nested calls) executes at every distance from the end of the
/// stack. Each run must end in Ok or an error value.
fn sweep_programs() -> Vec<(&'static str, Module)> {
    use vmgen::*;
    let mk = |fns: Vec<(&str, Function)>| module(fns);
    vec![
        // a for-each over an empty and over a filled table in a callee that sits above the caller's locals
        (
            "sweep.foreach_in_callee",
            mk(vec![
                ("main", func(&[], vec![sv("a", int(1)), sv("b", int(2)), sv("c", int(3)), sv("t", array(vec![int(4), int(5)])), sv("r", call("looper", vec![rv("t")])), sg("done", rv("r"))])),
                (
                    "looper",
                    func(&["t"], vec![sv("x", int(7)), sv("y", int(8)), foreach(Some("i"), Some("k"), Some("v"), table(), sv("z", rv("v"))), sv("acc", int(0)), foreach(Some("i"), Some("k"), Some("v"), rv("t"), sv("acc", add(rv("acc"), rv("v")))), ret(rv("acc"))]),
                ),
            ]),
        ),
        // repeat / while with locals declared in the body, in a chain of three calls
        (
            "sweep.loops_in_call_chain",
            mk(vec![
                ("main", func(&[], vec![sv("a", int(1)), sv("r", call("f1", vec![int(2), int(3)])), sg("done", rv("r"))])),
                ("f1", func(&["p", "q"], vec![sv("m", int(0)), repeat(int(3), Some("i"), block(vec![sv("w", add(rv("i"), rv("p"))), sv("m", add(rv("m"), rv("w")))])), ret(call("f2", vec![rv("m")]))])),
                ("f2", func(&["n"], vec![sv("c", int(0)), while_(less(rv("c"), int(2)), sv("c", add(rv("c"), int(1)))), ret(add(rv("n"), rv("c")))])),
            ]),
        ),
        // closures capturing locals of a callee, tables, strings, dynamic calls
        (
            "sweep.closures_tables",
            mk(vec![
                ("main", func(&[], vec![sv("a", int(1)), sv("f", call("mk", vec![int(5)])), sv("r", dyn_call(rv("f"), vec![int(2)])), sv("t", table()), setp(rv("r"), rv("t"), s("k")), sg("done", getp(rv("t"), s("k")))])),
                ("mk", func(&["p"], vec![sv("u", int(10)), ret(closure(&["x"], vec![sv("loc", add(rv("x"), rv("u"))), ret(add(rv("loc"), rv("p")))]))])),
            ]),
        ),
    ]
}

fn sweep_cases(rng: &mut Rng, thorough: bool) -> Vec<Spec> {
    let mut v = vec![];
    let mut progs: Vec<(String, Module)> = sweep_programs().into_iter().map(|(n, m)| (n.to_string(), m)).collect();
    // plus a rotating selection of the VM corpus
    let corpus = vmgen::corpus();
    let extra = if thorough { corpus.len() } else { 4 };
    let start = rng.below(corpus.len() as u64) as usize;
    for j in 0..extra {
        let e = &corpus[(start + j * 5) % corpus.len()];
        progs.push((format!("sweep.vmgen.{}", e.name), e.module.clone()));
    }
    let max = if thorough { 48 } else { 28 };
    for (name, m) in progs {
        let text = json_of(&m);
        for stack in 1..=max {
            v.push(Spec {
                classes: vec!["sweep".into(), "sweep.stack".into(), name.clone()],
                fmt: "json",
                text: text.clone(),
                limit: 64,
                run: Some(RunCfg { mem: 400 * 1024, stack, calls: 64, budget: 5_000, twice: false }),
            });
        }
    }
    v
}

// ------------------------------------------------------------------------------------------------
// driver entry
// ------------------------------------------------------------------------------------------------

pub fn gen(a: &Args) {
    let mut rng = Rng::new(a.seed);
    let thorough = a.tier == "thorough";
    let debug = cfg!(debug_assertions);
    let mut specs: Vec<Spec> = vec![];
    specs.extend(corpus(&mut rng, thorough));
    specs.extend(extreme(&mut rng, thorough));
    specs.extend(deep(thorough));
    // a.n = number of random cases (texts and configurations), in addition to the fixed ones above
    let rest = a.n.max(40);
    specs.extend(texts(&mut rng, rest / 2, thorough));
    let mut dummy = vec![];
    specs.extend(config_cases(&mut rng, rest - rest / 2, &mut dummy));
    specs.extend(sweep_cases(&mut rng, thorough));

    let dir = a.out.join("inputs");
    let _ = std::fs::remove_dir_all(&dir);
    std::fs::create_dir_all(&dir).unwrap();
    let mut files = vec![];
    for (i, s) in specs.iter().enumerate() {
        out::heartbeat();
        let p = dir.join(format!("case_{}.txt", i + 1));
        let header = serde_json::json!({
            "fmt": s.fmt, "limit": s.limit,
            "run": s.run.as_ref().map(|c| serde_json::json!({"mem": c.mem, "stack": c.stack, "calls": c.calls, "budget": c.budget, "twice": c.twice})),
        });
        let mut f = std::fs::File::create(&p).unwrap();
        f.write_all(serde_json::to_string(&header).unwrap().as_bytes()).unwrap();
        f.write_all(b"\n").unwrap();
        f.write_all(&s.text).unwrap();
        files.push(p);
    }
    // children, at most 12 at a time; results by index
    let exe = std::env::current_exe().expect("own path");
    let results: Arc<Mutex<Vec<Option<Obs>>>> = Arc::new(Mutex::new(vec![None; specs.len()]));
    let next = Arc::new(std::sync::atomic::AtomicUsize::new(0));
    let files = Arc::new(files);
    let mut threads = vec![];
    for _ in 0..12 {
        let (results, next, files, exe) = (results.clone(), next.clone(), files.clone(), exe.clone());
        threads.push(std::thread::spawn(move || loop {
            let i = next.fetch_add(1, std::sync::atomic::Ordering::SeqCst);
            if i >= files.len() {
                break;
            }
            let o = run_child(&exe, &files[i]);
            out::heartbeat();
            results.lock().unwrap()[i] = Some(o);
        }));
    }
    for t in threads {
        t.join().unwrap();
    }
    let results = results.lock().unwrap();

    let per_shard = ((specs.len() + 15) / 16).max(4);
    let mut w = CaseWriter::new(&a.out, "C04Check", per_shard);
    let mut crashes = vec![];
    for (i, s) in specs.iter().enumerate() {
        let o = results[i].clone().unwrap_or_default();
        for c in s.classes.iter() {
            w.count(c);
        }
        w.count(&format!("fmt.{}", s.fmt));
        w.count(&format!("exit.{}", o.exit.split_whitespace().next().unwrap_or("?")));
        match o.parse {
            Some(true) => w.count("parse.ok"),
            Some(false) => w.count("parse.err"),
            None => {}
        }
        if let Some(c) = &o.compile {
            if c.starts_with("(KOk") {
                w.count("compile.ok");
            } else {
                let name = c.trim_start_matches("(KErr ").trim_start_matches("(KOther ").trim_start_matches('(');
                w.count(&format!("compile.err.{}", name.split(|ch: char| ch == ' ' || ch == ')').next().unwrap_or("?")));
            }
        }
        if let Some(r) = &o.run {
            w.count(&format!("run.{}", r.replace(' ', ".")));
        }
        if o.module.is_some() {
            w.count("model.applies");
        }
        let fmtn = match s.fmt {
            "json" => 0,
            "yaml" => 1,
            _ => 2,
        };
        let term = match &o.module {
            Some(m) => format!("(cmod {} {} {} {} {})", m, out::n(s.limit as u64), out::b(debug), cfg_term(&s.run), obs_term(&o)),
            None => format!("(ctext {} {} {} {} {})", out::n(fmtn), out::n(s.text.len() as u64), out::b(debug), cfg_term(&s.run), obs_term(&o)),
        };
        let id = w.push(term, o.parse == Some(true));
        let mut note = format!("{} input=inputs/case_{}.txt exit={} stage={} {}ms", s.classes.join(","), i + 1, o.exit, o.stage, o.millis);
        if o.exit != "ok" {
            note.push_str(&format!(" stderr: {}", o.stderr_tail));
            crashes.push(serde_json::json!({"case": id, "classes": s.classes, "exit": o.exit, "stage": o.stage, "stderr": o.stderr_tail, "input": format!("inputs/case_{}.txt", i + 1)}));
        }
        w.note(id, note);
    }
    w.finish(serde_json::json!({"profile": if debug { "debug" } else { "release" }, "not_clean": crashes}));
}
