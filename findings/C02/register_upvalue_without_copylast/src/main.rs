// C02 finding (agent c02alloc): RegisterUpvalue pops the closure before vm.init_upvalue allocates.  On bytecode
// that does not keep a second copy of the closure on the stack (the compiler always emits CopyLast first) a collection
// started by that allocation frees the closure; `c.upvalues.push(..)` (instr_execution.rs:508) then writes into the
// freed object.  Coq witness: VmAllocPointsWitness.alloc_gap_register_upvalue.
// Build: cargo build --offline ; run: valgrind -q target/debug/c02gap   (9 invalid reads/writes; segfault without
// valgrind) ; control: target/debug/c02gap copylast (clean).  valgrind.txt = output at /repo d80a79a.
// `target/debug/c02gap counts`: allocation events of InitTable (2), NthRow (6), first AppendTable (0 growth) - they
// agree with the kinds listed by VmAllocPoints.alloc_points (AObject / ASecond per init, AGrow conditional).
use cao_lang::prelude::*;
use cao_lang::verif_hooks as vh;

fn run(code: Vec<u8>, name: &str) {
    let mut p = CaoCompiledProgram::default();
    p.bytecode = code;
    let mut vm = Vm::new(()).unwrap();
    vh::record_events(true);
    vh::force_gc_at(Some(None)); // a collection at every allocation
    let r = vm.run(&p);
    vh::force_gc_at(None);
    let ev = vh::take_events();
    vh::record_events(false);
    println!("== {}: run = {:?}", name, r.map_err(|e| format!("{:?}", e.payload)));
    for e in ev { println!("   {:?}", e); }
    println!("   objects after the run: {}", vh::object_count(&vm.runtime_data));
}

fn main() {
    let which = std::env::args().nth(1).unwrap_or_default();
    if which == "counts" {
        // InitTable; Exit  -> 2 allocation points
        run(vec![31, 10], "InitTable");
        // InitTable; ScalarInt 0; NthRow; Exit -> 2 + 6
        run(vec![31, 5, 0, 0, 0, 0, 0, 0, 0, 0, 39, 10], "InitTable; ScalarInt 0; NthRow");
        // ScalarInt 1; InitTable; AppendTable; Exit -> 2 + (growth only when needed)
        run(vec![5, 1, 0, 0, 0, 0, 0, 0, 0, 31, 40, 10], "ScalarInt 1; InitTable; AppendTable");
        return;
    }
    if which == "copylast" {
        run(vec![7, 42, 0, 0, 0, 0, 0, 0, 0, 0, 9, 45, 0, 1, 16, 16, 10], "CopyLast");
        return;
    }
    // ScalarNil; Closure h=0 arity=0; RegisterUpvalue 0 local; Pop; Exit   (VmUpvalueSem.dead_slot_program)
    run(vec![7, 42, 0, 0, 0, 0, 0, 0, 0, 0, 45, 0, 1, 16, 10], "no CopyLast");
    // ScalarNil; Closure; CopyLast; RegisterUpvalue 0 local; Pop; Pop; Exit   (what the compiler emits)
    run(vec![7, 42, 0, 0, 0, 0, 0, 0, 0, 0, 9, 45, 0, 1, 16, 16, 10], "CopyLast");
}
