use cao_lang::prelude::*;
use cao_lang::compiler::Module;

#[test]
fn real_literals_survive_json() {
    let mut bad = vec![];
    let mut x: u64 = 0x9E3779B97F4A7C15;
    for _ in 0..20000 {
        x ^= x << 13; x ^= x >> 7; x ^= x << 17;
        let f = f64::from_bits(x);
        if !f.is_finite() { continue; }
        let m = Module { imports: vec![], submodules: vec![], functions: vec![("main".to_string(), Function::default().with_cards(vec![Card::set_global_var("g", Card::from(CardBody::ScalarFloat(f)))]))] };
        let js = serde_json::to_string(&m).unwrap();
        let m2: Module = serde_json::from_str(&js).unwrap();
        let p1 = compile(m, CompileOptions::new()).unwrap();
        let p2 = compile(m2, CompileOptions::new()).unwrap();
        if p1.bytecode != p2.bytecode { bad.push((f, js)); }
    }
    assert!(bad.is_empty(), "{} of 20000 real literals changed through JSON, e.g. {:?} ({})", bad.len(), bad[0].0, bad[0].1);
}
