use cao_lang::prelude::*;
use cao_lang::compiler::Module;

fn run(n: i64, use_while: bool) -> (Result<(), String>, Option<i64>) {
    let body = Card::call_function("f", vec![]);
    let lp = if use_while {
        Card::from(CardBody::While(Box::new([Card::from(CardBody::Less(Box::new([Card::read_var("g"), Card::scalar_int(n)]))), body])))
    } else {
        Card::repeat(Card::scalar_int(n), None, body)
    };
    let m = Module { imports: vec![], submodules: vec![], functions: vec![
        ("main".to_string(), Function::default().with_cards(vec![Card::set_global_var("g", Card::scalar_int(0)), lp])),
        ("f".to_string(), Function::default().with_cards(vec![Card::set_global_var("g", Card::from(CardBody::Add(Box::new([Card::read_var("g"), Card::scalar_int(1)]))))])),
    ]};
    let p = compile(m, CompileOptions::new()).unwrap();
    let mut vm = Vm::new(()).unwrap().with_max_iter(1_000_000);
    let r = vm.run(&p).map_err(|e| format!("{:?}", e.payload));
    let g = vm.read_var_by_name("g", &p.variables).and_then(|v| i64::try_from(v).ok());
    (r, g)
}

#[test]
fn call_statement_in_a_loop() {
    for n in [10, 200, 300, 1000] {
        for w in [false, true] {
            let (r, g) = run(n, w);
            println!("n={} while={} -> {:?} g={:?}", n, w, r, g);
        }
    }
    let (r, g) = run(300, false);
    assert!(r.is_ok(), "{:?} g={:?}", r, g);
}
